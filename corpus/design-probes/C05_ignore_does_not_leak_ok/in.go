package p
// goverter:converter
type C interface {
	// goverter:ignore B
	Convert(source In) Out
}
type In struct { U struct{ A int } }
type Out struct { B int;  U struct { A int; B int } }
