package p
// goverter:converter
func F() {}

// goverter:variables
func G() {}

// goverter:converter
const X = 1
