package p
// goverter:converter
type C interface {
	// goverter:ignore X1 X2 X3 X4 X5
	Convert(source In) Out
}
type In struct { A int }
type Out struct { A int }
