package p
// goverter:converter
type C interface {
	Convert(source []uintptr) []uintptr
}
