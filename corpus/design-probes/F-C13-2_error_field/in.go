package p
// goverter:converter
type C interface {
	Convert(source In) Out
}
type In struct { E error }
type Out struct { E error }
