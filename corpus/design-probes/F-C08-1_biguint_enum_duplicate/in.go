package p
// goverter:converter
// goverter:enum:unknown @panic
type C interface {
	// goverter:enum:map A1 B1
	// goverter:enum:map A2 B2
	Convert(source A) B
}
type A uint64
const ( A1 A = 18446744073709551615; A2 A = 18446744073709551615 )
type B uint64
const ( B1 B = 18446744073709551615; B2 B = 18446744073709551615 )
