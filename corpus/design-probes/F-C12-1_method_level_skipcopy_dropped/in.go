package p
// goverter:converter
type C interface {
	// goverter:skipCopySameType
	Convert(source In) Out
}
type N struct{ L []int }
type In struct { A N; B N; C N }
type Out struct { A N; B N; C N }
