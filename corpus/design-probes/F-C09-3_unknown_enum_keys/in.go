package p
// goverter:converter
// goverter:enum:unknown @panic
type C interface {
	// goverter:enum:map P Q
	// goverter:enum:map X1 Q
	// goverter:enum:map X2 Q
	// goverter:enum:map X3 Q
	// goverter:enum:map X4 Q
	Convert(source A) B
}
type A int
const ( P A = 1)
type B int
const ( Q B = 1 )
