package p
// goverter:converter
type C interface {
	// goverter:autoMap N
	Convert(source In) Out
}
type In struct { N struct{ A int }; U struct{ B int } }
type Out struct { A int; U struct { B int } }
