package p
// goverter:converter
// goverter:extend Mk
type C interface {
	Convert(source In) (Out, error)
}
func Mk(n int) (chan int, error) { return make(chan int, n), nil }
type In struct { A int }
type Out struct { A chan int }
