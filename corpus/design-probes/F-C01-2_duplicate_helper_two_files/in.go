package p
// goverter:converter
// goverter:output:format function
// goverter:output:file ./gen/a.go
type C1 interface {
	ConvertA(source []In) []Out
}
// goverter:converter
// goverter:output:format function
// goverter:output:file ./gen/b.go
type C2 interface {
	ConvertB(source map[string]In) map[string]Out
}
type In struct { A int }
type Out struct { A int }
