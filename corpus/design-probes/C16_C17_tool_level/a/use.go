//go:build !goverter

package a

import "example.org/r/a/generated"

var _ C = &generated.CImpl{}
var _ = generated.NotYetThere
