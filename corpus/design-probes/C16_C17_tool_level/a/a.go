package a
// goverter:converter
type C interface { Convert(source In) Out }
type In struct{ X int; Y int }
type Out struct{ X int; Y int }

