package b
// goverter:converter
type C interface { Convert(source In) Out }
type In struct{ X int }
type Out struct{ X int }
