package p
/*
goverter:converter
	goverter:name   Foo
*/
type C interface {
	//goverter:ignore B
	/* goverter:ignore C */
	Convert(source In) Out // goverter:ignore A
}
type In struct { X int }
type Out struct { X int; B int; C int }
