package p
// goverter:converter
// goverter:extend
type C interface {
	// goverter:ignore
	Convert(source In) Out
}
type In struct { A int }
type Out struct { A int }
