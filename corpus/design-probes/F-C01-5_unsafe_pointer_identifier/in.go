package p
import "unsafe"
// goverter:converter
type C interface {
	Convert(source In) Out
}
type In struct { F unsafe.Pointer }
type Out struct { F *unsafe.Pointer }
