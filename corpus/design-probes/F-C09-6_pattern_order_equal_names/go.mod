module example.org/r
go 1.18
