package p1

// goverter:converter
// goverter:output:file @cwd/out/gen.go
// goverter:output:package example.org/r/out
// goverter:name Same
// goverter:output:format function
type C interface { Conv_p1(source []In) []Out }
type In struct{ X int }
type Out struct{ X int }
