package p
// goverter:converter
func F() {}
