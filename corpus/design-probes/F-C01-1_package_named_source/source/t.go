package source
type In struct { A []int }
type Out struct { A []int }
