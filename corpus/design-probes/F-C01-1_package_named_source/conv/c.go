package conv
import "example.org/p/source"
// goverter:converter
type C interface {
	Convert(source source.In) source.Out
}
