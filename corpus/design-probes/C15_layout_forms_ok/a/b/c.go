package b

// goverter:converter
type C0 interface { Convert(source In) Out }

// goverter:converter
// goverter:output:file /root/scratch/r6/abs/q.go
type C1 interface { Convert(source In) Out }

// goverter:converter
// goverter:output:file @cwd/existing/y.go
type C2 interface { Convert(source In) Out }

// goverter:converter
// goverter:output:file ../../my-cool_pkg9/z.go
type C3 interface { Convert(source In) Out }

// goverter:converter
// goverter:output:file ./same.go
type C4 interface { Convert(source In) Out }

// goverter:converter
// goverter:output:file ../../123/w.go
type C5 interface { Convert(source In) Out }

// goverter:converter
// goverter:output:file ./sub/../same2.go
// goverter:output:package :renamed
type C6 interface { Convert(source In) Out }

type In struct{ X int }
type Out struct{ X int }
