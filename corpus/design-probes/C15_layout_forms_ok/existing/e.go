package weirdname
