package p
// goverter:converter
// goverter:extend Ext
type C interface {
	Convert(source In) Out
}
// goverter:bogusSetting yes
// goverter:ignore A
// goverter:context
// goverter:context a b
func Ext(s int) string { return "" }
type In struct { A int }
type Out struct { A string }
