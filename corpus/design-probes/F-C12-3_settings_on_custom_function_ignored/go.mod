module example.org/p
go 1.18
