package p
// goverter:converter
// goverter:output:file ./gen.go
// goverter:output:package example.org/p
type C interface {
	// goverter:ignoreUnexported
	// goverter:map X y
	Convert(source In) Out
}
type In struct { X int; A int }
type Out struct { A int; y int }
