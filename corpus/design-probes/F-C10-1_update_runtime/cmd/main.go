package main

import (
	"encoding/json"
	"fmt"
	"example.org/r/conv"
)

func show(v any) string { b, _ := json.Marshal(v); return string(b) }

func main() {
	c := &conv.CImpl{}
	seven, nine := 7, 9
	pre := func() *conv.Out {
		return &conv.Out{A: 1, P: &seven, L: []int{1, 2}, M: map[string]int{"k": 1}, NN: conv.N{X: 5, Y: "y"}, PN: &conv.N{X: 6}, Ign: 42,
			U: struct{ Q int; R *int }{Q: 3, R: &nine}}
	}
	t := pre(); c.Upd(conv.In{}, t); fmt.Println("Upd zero src   :", show(t))
	t = pre(); c.Upd(conv.In{A: 2, L: []int{}, NN: conv.N{X: 8}}, t); fmt.Println("Upd partial    :", show(t))
	t = pre(); c.UpdZ(nil, t); fmt.Println("UpdZ nil src   :", show(t))
	t = pre(); c.UpdZ(&conv.In{}, t); fmt.Println("UpdZ zero src  :", show(t))
	t = pre(); c.UpdZ(&conv.In{A: 2, NN: conv.N{Y: "z"}, U: struct{ Q int; R *int }{Q: 0, R: &seven}}, t); fmt.Println("UpdZ partial   :", show(t))
}
