package conv

// goverter:converter
// goverter:output:file ./gen.go
// goverter:output:package example.org/r/conv
type C interface {
	// goverter:update target
	// goverter:ignore Ign
	Upd(source In, target *Out)

	// goverter:update target
	// goverter:update:ignoreZeroValueField
	// goverter:ignore Ign
	UpdZ(source *In, target *Out)
}

type N struct{ X int; Y string }
type In struct {
	A   int
	P   *int
	L   []int
	M   map[string]int
	U   struct{ Q int; R *int }
	NN  N
	PN  *N
}
type Out struct {
	A   int
	P   *int
	L   []int
	M   map[string]int
	U   struct{ Q int; R *int }
	NN  N
	PN  *N
	Ign int
}
