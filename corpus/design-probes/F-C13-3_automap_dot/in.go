package p
// goverter:converter
type C interface {
	// goverter:autoMap .
	Convert(source In) Out
}
type In struct { A int }
type Out struct { A int }
