package p
// goverter:converter
type C interface {
	// goverter:map Bogus.Path Y | Zero
	Convert(source In) Out
}
func Zero() int { return 7 }
func WithSrc(i int) int { return i }
type In struct { A int }
type Out struct { A int; Y int; }
