package p
// goverter:converter
type C interface {
	// goverter:map N. A
	Convert(source In) Out
}
type N struct { X int }
type In struct { N N }
type Out struct { A int }
