package p
// goverter:converter
// goverter:update:ignoreZeroValueField
type C interface {
	// goverter:update target
	Convert(source In, target *Out)
}
type S struct { L []int }
type In struct { S S }
type Out struct { S S }
