package p
// goverter:variables
var (
	A1 func(source In) (Out, int)
	A2 func(source In) (Out, int)
	A3 func(source In) (Out, int)
	A4 func(source In) (Out, int)
)
type In struct { A int }
type Out struct { A int }
