package p
// goverter:converter
// goverter:skipCopySameType
type C interface {
	Convert(source In) Out
}
type In struct { F func() int }
type Out struct { F func() int }
