package p
// goverter:converter
type C interface {
	// goverter:ignore X
	M1(source []In) []Out
	// goverter:ignore X
	M2(source map[string]In) map[string]Out
	// goverter:ignore X
	M3(source [][]In) [][]Out
	// goverter:ignore X
	M4(source map[int]In) map[int]Out
}
type In struct { A int }
type Out struct { A int }
