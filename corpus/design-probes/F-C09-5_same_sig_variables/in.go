package p

type CtxA struct{ A int }
type CtxB struct{ B int }

// goverter:variables
var (
	// goverter:context a
	M1 func(source In, a CtxA) Out
	// goverter:context b
	M2 func(source In, b CtxB) Out
	// goverter:context a
	// goverter:context b
	M3 func(source Wrap, a CtxA, b CtxB) WrapOut
)

type In struct{ V int }
type Out struct{ V int }
type Wrap struct{ X In }
type WrapOut struct{ X Out }
