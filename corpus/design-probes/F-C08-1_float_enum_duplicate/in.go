package p
// goverter:converter
// goverter:enum:unknown @panic
type C interface {
	// goverter:enum:map A1 B1
	// goverter:enum:map A2 B1
	Convert(source A) B
}
type A float64
const ( A1 A = 1.5; A2 A = 1.5 )
type B float64
const ( B1 B = 1.5; B2 B = 1.5 )
