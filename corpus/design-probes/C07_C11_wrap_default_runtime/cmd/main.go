package main
import ("encoding/json"; "errors"; "fmt"; "example.org/r/conv")
func show(v any) string { b, _ := json.Marshal(v); return string(b) }
func main() {
	c := &conv.CImpl{}
	in := conv.In{M: map[string][]conv.Item{"a": {{V: "1"}, {V: "2", W: []string{"3", "x"}}}}}
	_, err := c.Conv(in); fmt.Println("map/slice/field:", err, errors.Is(err, conv.ErrBad))
	in = conv.In{P: &conv.Item{V: "x"}}
	_, err = c.Conv(in); fmt.Println("pointer field  :", err)
	in = conv.In{A: [2]conv.Item{{V: "1"}, {V: "x"}}}
	func() { defer func() { fmt.Println("array field    : recovered:", recover()) }(); _, err = c.Conv(in); fmt.Println("array field    :", err) }()
	fmt.Println("Def nil        :", show(c.Def(nil)))
	fmt.Println("Def nonnil     :", show(c.Def(&conv.DIn{A: 1})))
	fmt.Println("DefU nil       :", show(c.DefU(nil)))
	fmt.Println("DefU nonnil    :", show(c.DefU(&conv.DIn2{A: 1})))
	fmt.Println("DefU nonnil L  :", show(c.DefU(&conv.DIn2{A: 0, L: []int{}})))
}
