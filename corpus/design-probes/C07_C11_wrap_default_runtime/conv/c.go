package conv
import ("errors"; "strconv")

// goverter:converter
// goverter:output:file ./gen.go
// goverter:output:package example.org/r/conv
// goverter:extend Atoi
// goverter:wrapErrorsUsing example.org/r/patherr
type C interface {
	Conv(source In) (Out, error)
	// goverter:default NewD
	// goverter:ignore Keep
	Def(source *DIn) *DOut
	// goverter:default NewD
	// goverter:ignore Keep
	// goverter:default:update
	DefU(source *DIn2) *DOut
}
var ErrBad = errors.New("bad")
func Atoi(s string) (int, error) { if s == "x" { return 0, ErrBad }; return strconv.Atoi(s) }
type Item struct{ V string; W []string }
type ItemO struct{ V int; W []int }
type In struct { M map[string][]Item; P *Item; A [2]Item }
type Out struct { M map[string][]ItemO; P *ItemO; A []ItemO }

type DIn struct { A int; L []int }
type DIn2 struct { A int; L []int }
type DOut struct { A int; L []int; Keep string }
func NewD() *DOut { return &DOut{A: 100, L: []int{9}, Keep: "kept"} }
