package patherr
import "fmt"
type E struct{ Err error; Path []string }
func (e *E) Error() string { return fmt.Sprint(e.Path, e.Err) }
func (e *E) Unwrap() error { return e.Err }
func Key(k any) string { return fmt.Sprintf("K(%v)", k) }
func Index(i int) string { return fmt.Sprintf("I(%d)", i) }
func Field(s string) string { return "F(" + s + ")" }
func Wrap(err error, p ...string) error {
	if e, ok := err.(*E); ok { return &E{Err: e.Err, Path: append(append([]string{}, p...), e.Path...)} }
	return &E{Err: err, Path: p}
}
