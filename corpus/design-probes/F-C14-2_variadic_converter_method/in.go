package p
// goverter:converter
type C interface {
	// goverter:context opts
	Convert(source In, opts ...int) Out
}
type In struct { A int }
type Out struct { A int }
