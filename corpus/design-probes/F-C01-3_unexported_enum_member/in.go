package p
// goverter:converter
// goverter:enum:unknown @panic
type C interface {
	// goverter:enum:map A1 B1
	// goverter:enum:map a2 b2
	Convert(source A) B
}
type A int
const ( A1 A = 1; a2 A = 2 )
type B int
const ( B1 B = 1; b2 B = 2 )
