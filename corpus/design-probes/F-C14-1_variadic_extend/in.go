package p
// goverter:converter
// goverter:extend Sum
type C interface {
	Convert(source In) Out
}
func Sum(xs ...int) string { return "" }
type In struct { A []int }
type Out struct { A string }
