#!/bin/sh
# Offline setup: build the Coq development (full .vo build) and warm the Go build cache for the harness.
set -e
cd "$(dirname "$0")"
export GOFLAGS=-mod=mod GOPROXY=off GOSUMDB=off GOTOOLCHAIN=local
mkdir -p .work/bin evidence
cp /repo/go.sum harness/go.sum 2>/dev/null || true
(cd harness && go build -tags verif -o ../.work/bin/vh.setup ./cmd/vh && ../.work/bin/vh.setup extract -repo /repo -out ../.work/Extracted.v.new \
  && { cmp -s ../.work/Extracted.v.new ../coq/theories/Extracted.v || cp ../.work/Extracted.v.new ../coq/theories/Extracted.v; } ; rm -f ../.work/bin/vh.setup ../.work/Extracted.v.new)
cd coq
coq_makefile -f _CoqProject -o Makefile
timeout 3000 make -j16
