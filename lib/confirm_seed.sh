#!/bin/sh
# confirm_seed.sh WORKTREE ID — confirm a sub-agent's seeded change (suite green with it, demo fails with / passes without),
# store it under /verif/seeded/ID and remove the scratch worktree.
WT=$1; ID=$2
export GOFLAGS=-mod=mod GOPROXY=off GOSUMDB=off GOTOOLCHAIN=local
cd $WT || exit 2
[ -f zz_demo/patch.diff ] || { echo "no patch.diff"; exit 2; }
mkdir -p /tmp/seedtmp-$ID && cp -r zz_demo /tmp/seedtmp-$ID/
# suite with the patch (demo dir moved away so that it is not part of ./...)
mv zz_demo /tmp/seedtmp-$ID/zz_demo_live
go build ./... || { echo "BUILD FAILS with patch"; }
suite=$(go test -vet=off -count=1 ./... 2>&1 | grep -c '^FAIL\|^---  FAIL\|^--- FAIL')
echo "suite failures with patch: $suite"
mv /tmp/seedtmp-$ID/zz_demo_live zz_demo
bash zz_demo/run.sh >/tmp/seedtmp-$ID/with.log 2>&1; with=$?
git apply -R zz_demo/patch.diff || { echo "cannot reverse patch"; exit 2; }
bash zz_demo/run.sh >/tmp/seedtmp-$ID/without.log 2>&1; without=$?
git apply zz_demo/patch.diff
echo "demo exit with patch: $with ; without patch: $without"
if [ "$suite" = "0" ] && [ $with -ne 0 ] && [ $without -eq 0 ]; then
  mkdir -p /verif/seeded/$ID && cp -r /tmp/seedtmp-$ID/zz_demo/. /verif/seeded/$ID/ && rm -f /verif/seeded/$ID/gv /verif/seeded/$ID/*.bin
  find /verif/seeded/$ID -type f -size +300k -delete
  echo "CONFIRMED -> /verif/seeded/$ID"
else
  echo "NOT CONFIRMED"
fi
rm -rf /tmp/seedtmp-$ID
