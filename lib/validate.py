#!/usr/bin/env python3-vt
import json, sys, glob, jsonschema
jsonschema.validate(json.load(open('/verif/MANIFEST.json')), json.load(open('/root/.vp/MANIFEST.schema.json')))
print('manifest ok')
sch = json.load(open('/root/.vp/EVIDENCE.schema.json'))
for f in sorted(glob.glob('/verif/evidence/*.json')):
    e = json.load(open(f))
    jsonschema.validate(e, sch)
    print(f, 'valid', e['tier'], e['wall_s'], e.get('violations'))
