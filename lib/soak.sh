#!/bin/sh
# soak.sh PID FROM TO [tier] — run a check over a range of seeds, print one line per seed
cd "$(dirname "$0")/.."
for s in $(seq $2 $3); do
  out=$(VERIF_SEED=$s ./check $1 --tier ${4:-quick} 2>&1); rc=$?
  echo "seed=$s rc=$rc $(echo "$out" | grep -c '^VIOLATION') violations; $(echo "$out" | grep '^\[check' | tail -1)"
  if [ $rc -ne 0 ]; then echo "$out" | grep -E 'VIOLATION|broken tie' | head -5; fi
done
