#!/usr/bin/env python3
"""dbg.py STREAM SEED CASEID — regenerate a stream, extract one conv_case and show what the model computes."""
import sys, os, re, glob, subprocess, shutil
stream, seed, cid = sys.argv[1], sys.argv[2], sys.argv[3]
V = os.path.dirname(os.path.dirname(os.path.abspath(__file__)))
env = dict(os.environ, GOFLAGS="-mod=mod", GOPROXY="off", GOSUMDB="off", GOTOOLCHAIN="local")
subprocess.run(["go", "build", "-tags", "verif", "-o", V + "/.work/bin/vh", "./cmd/vh"], cwd=V + "/harness", env=env, check=True)
d = V + "/.work/dbg/%s-%s" % (stream, seed)
shutil.rmtree(d, ignore_errors=True)
subprocess.run([V + "/.work/bin/vh", stream, "-seed", seed, "-out", d], check=True, stdout=subprocess.DEVNULL)
for f in glob.glob(d + "/cases_*.v"):
    s = open(f).read()
    m = re.search(r"\{\| k_id := %s;.*?\|\}(?=;\n|\n\])" % cid, s, re.S)
    if m:
        hdr = s[:s.index("Definition cases")].replace("Gen CaseLib", "Eval Gen CaseLib")
        open(d + "/one.v", "w").write(hdr + "\nDefinition c : conv_case := " + m.group(0) + """.
Definition tab := case_generate c.
Eval vm_compute in (k_outcome c, match tab with GOk t => Some (map (fun m => (g_name m, g_src m, g_tgt m, g_body m)) t) | _ => None end, match tab with GDiag x => x | _ => 0 end).
Eval vm_compute in check_case c.
Eval vm_compute in match tab with GOk t => map (fun r => (r_method r, r_src r, r_ctx r, Eval.run (k_env c) t (case_ftable c) RUN_FUEL (r_method r) (r_ctx r) (r_src r) (r_n0 r), r_out r, r_err r, check_run (k_env c) t (case_ftable c) r)) (k_runs c) | _ => [] end.
""")
for line in open(d + "/cases.jsonl"):
    if line.startswith('{"id":%s,' % cid):
        import json
        print(json.loads(line)["replay"]["converter"])
        print(json.loads(line)["replay"]["diagnostic"])
print(subprocess.run(["coqc", "-Q", V + "/coq/theories", "GV", "one.v"], cwd=d, capture_output=True, text=True, timeout=300).stdout[-6000:])
