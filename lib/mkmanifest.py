#!/usr/bin/env python3
"""Regenerate /verif/MANIFEST.json from the table below (keeps all entries uniform)."""
import json, os, subprocess
V = os.path.dirname(os.path.dirname(os.path.abspath(__file__)))
hooks = subprocess.run(["git", "-C", "/repo", "log", "--format=%h %s"], capture_output=True, text=True).stdout.splitlines()
hook_commits = [l.split()[0] for l in hooks if "verif hook" in l]

CORE_NOTE = ("Trusted: Coq kernel + vm_compute; extractor (Go AST -> Gallina for BuildSteps, Matches, isEnum, findUnderlyingExtendMapping, shouldCheckAgainstZero); "
             "harness generators/driver/canonical printer; Go compiler and runtime give the emitted templates the meaning Eval.v assigns (validated by executing the output). "
             "Modelled, not verified: generator.go / builder/*.go / xtype as Gen.v; not yet modelled (reported as D_UNMODELLED, generator avoids them): custom functions, enums, errors, contexts, default constructors, struct-method sources.")
P = {
 "C02": ("proof", "Coq lemmas on the evaluation semantics of the emitted plans (basic values unchanged; pointer nil/non-nil; slice nil stays nil, non-nil keeps length with a fresh backing array; map nil/entry count) for all values and fuel; the generator model Gen.v (rule order + Matches predicates regenerated from the Go source) is executed by vm_compute against the REAL goverter on random programs, and its plans are evaluated against the compiled emitted code executed on generated values (nil at every position, empty vs nil, shared sub-values, boundary numbers). Partial: the structural theorem over whole method tables (SConv) is not proved yet; per-constructor lemmas + differential execution decide the check.",
         "Coq proof (per-constructor evaluation lemmas) + extracted rules + vm_compute differential execution of emitted code", "4 C02"),
 "C03": ("proof", "Coq theorems over the rule predicates regenerated from the Go source on every run: different basic kinds have no rule and fail with TypeMismatch, *T->U only with the flag (else the dedicated pointer diagnostic), slice->array / struct<->map have no rule, interface/func/chan only identical type + skipCopySameType; no rule => diagnostic and no plan. Quantified over all environments, settings records and types of the stated shapes. Generation outcome class of the model vs. the real generator per converter on random (mostly convertible / deliberately broken) type pairs.",
         "Coq proof over extracted predicates (case analysis on flags, all types) + vm_compute differential of generation outcomes", "4 C03"),
 "C04": ("proof", "Coq: the allocation counter of the evaluation semantics is monotone (induction over fuel, all plans), pointers/slices/maps built by a conversion carry fresh addresses, only the SkipCopy plan returns the source; correspondence compares the set of result positions that share an address with the source (reflection incl. interior pointers) with the model's prediction, and checks the source is unchanged. Partial: races are covered by the write-set argument of the functional model only; -race runs are not part of the quick tier.",
         "Coq proof (induction on fuel: allocation monotonicity, fresh nodes) + differential sharing-set comparison on executed code", "4 C04"),
 "C05": ("proof", "Coq theorem find_field_spec: the model of xtype.FindField returns the exact-name member, else (matchIgnoreCase) the unique case-insensitive one, several => ambiguity, none => NoMatch; nil on a dotted path yields nil; '.' is the whole source; skipped fields keep the old content. Correspondence: struct pairs derived by rename/re-case/drop/add edits with map/ignore/ignoreMissing/ignoreUnexported/matchIgnoreCase placed on methods; outcome class and executed field values vs. model.",
         "Coq proof (induction over member lists) + vm_compute differential on executed field values", "4 C05"),
 "C12": ("proof", "Coq theorem C12_precedence: for EVERY field of the settings record and all line lists, the value in effect for a method is the last line carrying it on the method, else on the converter, else among the -g lines, else the default (proved from the left-fold structure of the parser model, table-generic); bare/yes enable and no disables; unknown / empty / other-level keys and the wrapErrors-wrapErrorsUsing pair are errors; the implemented key->field table (regenerated from parseCommon's AST) equals the documented one. Tie: the exhaustive grid {absent,bare,yes,no}^3 x every inheritable setting (+ sibling methods, string settings, error placements) is parsed by the REAL config code and each resulting record / error class is compared with the model by vm_compute; the core streams compute their settings with the same model, so the effect on generation is compared too.",
         "Coq proof (induction over line lists, table-generic) + extracted key tables + exhaustive vm_compute differential grid", "4 C12"),
 "C11": ("proof", "Coq: for all types of the stated shapes the generator model emits 'pointer to the conversion' for T->*U (which evaluates to a non-nil fresh pointer) and, only with useZeroValueOnPointerInconsistency, 'zero value for nil else conversion of the pointee' for *T->U; proofs are over the regenerated rule predicates. default FUNC / default:update are not modelled yet (partial). Correspondence as C02 with pointer-depth edits.",
         "Coq proof over extracted pointer rules + evaluation lemmas + vm_compute differential", "4 C11"),
}
m = json.load(open(V + "/MANIFEST.json"))
checks = [c for c in m["checks"] if c["property_id"] not in P]
for pid, (cat, text, tech, ref) in sorted(P.items()):
    checks.append({"property_id": pid, "quick_cmd": "./check %s --tier quick" % pid, "thorough_cmd": "./check %s --tier thorough" % pid,
                   "evidence_file": "evidence/%s.json" % pid, "replay_cmd_template": "./check %s --replay {path}" % pid, "engine": "coq-model",
                   "level_claimed": {"category": cat, "text": text, "design_ref": "DESIGN.md section " + ref},
                   "level_note": (CORE_NOTE if pid != "C12" else "Trusted: Coq kernel + vm_compute; extractor (switch cases of parseCommon/parseConverterLine/parseMethodLine -> tables); harness. Regular expressions are strings; function references (extend, map|FUNC, default), enum:map/enum:transform and the validation of converter-only settings are outside the model."), "technique": tech})
checks.sort(key=lambda c: c["property_id"])
m["checks"] = checks
m["hooks"]["source_commits"] = hook_commits
ids = [c["property_id"] for c in checks]
for e in m["engines"]:
    e["serves_properties"] = ids
json.dump(m, open(V + "/MANIFEST.json", "w"), indent=1)
print("checks:", ids)
