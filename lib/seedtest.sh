#!/bin/sh
# seedtest.sh PATCH PID...  — apply a seeded change to /repo, run the quick checks, undo the change
cd /repo || exit 2
git diff --quiet || { echo "/repo has uncommitted changes"; exit 2; }
git apply "$1" || { echo "patch does not apply"; exit 2; }
shift
cd ${VDIR:-/verif}
for p in "$@"; do
  out=$(./check $p 2>&1); rc=$?
  echo "== $p rc=$rc: $(echo "$out" | grep -c '^VIOLATION') VIOLATION lines"
  echo "$out" | grep -E '^VIOLATION|broken tie' | head -4
done
git -C /repo checkout -- . ; git -C /repo status --short | head -3
