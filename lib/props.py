"""Per-property configuration of the check orchestrator."""

PROPS = {
    "C19": dict(
        props="props/C19.v",
        streams=[dict(name="c19"), dict(name="c19b")],
        mismatch_is_violation=True,   # setting lines / converters are uniquely determined by the property
        modelled="config/parse/comment.go CommentToString, config/parse/line.go SettingLines, config/parse/parse.go Command, "
                 "comments/parse_docs.go parseGenDecl/parseFunctions/parseInterface/parseInterfaceMethods (Comment.v, Markers.v); "
                 "prefix and marker constants are regenerated from the source (Extracted.v)",
        assumptions=["which comment group is a declaration's Doc is decided by go/parser (trusted)",
                     "strings are modelled as rune lists; inputs are valid UTF-8",
                     "bufio.Scanner's 64 KiB token limit is not part of the model (F-C19-1 is the recorded difference)"],
    ),
    "C14": dict(
        props="props/C14.v",
        streams=[dict(name="c14", search_n=0)],
        mismatch_is_violation=False,  # the error class is not pinned by the property; the Go oracle decides
        modelled="method/parse.go Parse (Sig.v: role loop, arity/result validation, error order); the ParseOpts literal of each "
                 "call site (converter method, extend, map|FUNC, default, struct method) is regenerated from the source (Extracted.v)",
        assumptions=["a parameter is abstracted to the three tests Parse applies (types.Identical with the converter, name = update ARG, context match)",
                     "variadic parameters are invisible to method.Parse (F-C14-1/-2: accepted but mis-generated; end-to-end replay pending)",
                     "accessibility (xtype.Accessible) and isError are taken as boolean inputs"],
    ),
}
