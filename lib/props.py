"""Per-property configuration of the check orchestrator."""
import os
REPO = os.environ.get("VERIF_REPO", "/repo")

PROPS = {
    "C19": dict(
        props="props/C19.v",
        streams=[dict(name="c19"), dict(name="c19b")],
        mismatch_is_violation=True,   # setting lines / converters are uniquely determined by the property
        modelled="config/parse/comment.go CommentToString, config/parse/line.go SettingLines, config/parse/parse.go Command, "
                 "comments/parse_docs.go parseGenDecl/parseFunctions/parseInterface/parseInterfaceMethods (Comment.v, Markers.v); "
                 "prefix and marker constants are regenerated from the source (Extracted.v)",
        assumptions=["which comment group is a declaration's Doc is decided by go/parser (trusted)",
                     "strings are modelled as rune lists; inputs are valid UTF-8",
                     "bufio.Scanner's 64 KiB token limit is not part of the model (F-C19-1 is the recorded difference)"],
    ),
    "C14": dict(
        props="props/C14.v",
        streams=[dict(name="c14", search_n=0), dict(name="core-c14")],
        mismatch_is_violation=False,  # the error class is not pinned by the property; the Go oracle decides
        modelled="method/parse.go Parse (Sig.v: role loop, arity/result validation, error order); the ParseOpts literal of each "
                 "call site (converter method, extend, map|FUNC, default, struct method) is regenerated from the source (Extracted.v)",
        assumptions=["a parameter is abstracted to the three tests Parse applies (types.Identical with the converter, name = update ARG, context match)",
                     "variadic signatures are a boolean input (sig.Variadic()); since fix 62e5489 they are rejected (F-C14-1/-2)",
                     "accessibility (xtype.Accessible) and isError are taken as boolean inputs"],
    ),
    "C02": dict(
        props="props/C02.v",
        streams=[dict(name="core-c02")],
        decisive_codes=[2, 3],
        modelled='generator/generator.go Build/Assign/callExisting/shouldCreateSubMethod/createSubMethod/buildMethod/convertTo/buildMethods, generator/setup.go, generator/validate.go, builder/{basic,pointer,list,map,struct,skipcopy}.go, xtype/type.go (TypeOf flags, FindField, asID), namer.Name (Gen.v, Plan.v, Eval.v); BuildSteps order and every Matches predicate, isEnum, findUnderlyingExtendMapping, shouldCheckAgainstZero are regenerated from the source (Extracted.v); not yet in the model (class D_UNMODELLED): custom functions, enums, error results, contexts, default constructors, struct-method sources',
        assumptions=['the meaning of each emitted code template (make, range, &x, nil guards) is assigned by Eval.v and validated only by executing the compiled output', 'values are finite and acyclic; map key conversions are injective on the generated values', "the harness' own reading of the boolean settings lines (the C12 model covers the settings parser)"],
    ),
    "C03": dict(
        props="props/C03.v",
        streams=[dict(name="core-c03")],
        decisive_codes=[1],
        modelled='generator/generator.go Build/Assign/callExisting/shouldCreateSubMethod/createSubMethod/buildMethod/convertTo/buildMethods, generator/setup.go, generator/validate.go, builder/{basic,pointer,list,map,struct,skipcopy}.go, xtype/type.go (TypeOf flags, FindField, asID), namer.Name (Gen.v, Plan.v, Eval.v); BuildSteps order and every Matches predicate, isEnum, findUnderlyingExtendMapping, shouldCheckAgainstZero are regenerated from the source (Extracted.v); not yet in the model (class D_UNMODELLED): custom functions, enums, error results, contexts, default constructors, struct-method sources',
        assumptions=['the meaning of each emitted code template (make, range, &x, nil guards) is assigned by Eval.v and validated only by executing the compiled output', 'values are finite and acyclic; map key conversions are injective on the generated values', "the harness' own reading of the boolean settings lines (the C12 model covers the settings parser)"],
    ),
    "C04": dict(
        props="props/C04.v",
        streams=[dict(name="core-c04")],
        decisive_codes=[4, 11],
        modelled='generator/generator.go Build/Assign/callExisting/shouldCreateSubMethod/createSubMethod/buildMethod/convertTo/buildMethods, generator/setup.go, generator/validate.go, builder/{basic,pointer,list,map,struct,skipcopy}.go, xtype/type.go (TypeOf flags, FindField, asID), namer.Name (Gen.v, Plan.v, Eval.v); BuildSteps order and every Matches predicate, isEnum, findUnderlyingExtendMapping, shouldCheckAgainstZero are regenerated from the source (Extracted.v); not yet in the model (class D_UNMODELLED): custom functions, enums, error results, contexts, default constructors, struct-method sources',
        assumptions=['the meaning of each emitted code template (make, range, &x, nil guards) is assigned by Eval.v and validated only by executing the compiled output', 'values are finite and acyclic; map key conversions are injective on the generated values', "the harness' own reading of the boolean settings lines (the C12 model covers the settings parser)"],
    ),
    "C05": dict(
        props="props/C05.v",
        streams=[dict(name="core-c05")],
        decisive_codes=[1, 2],
        modelled='generator/generator.go Build/Assign/callExisting/shouldCreateSubMethod/createSubMethod/buildMethod/convertTo/buildMethods, generator/setup.go, generator/validate.go, builder/{basic,pointer,list,map,struct,skipcopy}.go, xtype/type.go (TypeOf flags, FindField, asID), namer.Name (Gen.v, Plan.v, Eval.v); BuildSteps order and every Matches predicate, isEnum, findUnderlyingExtendMapping, shouldCheckAgainstZero are regenerated from the source (Extracted.v); not yet in the model (class D_UNMODELLED): custom functions, enums, error results, contexts, default constructors, struct-method sources',
        assumptions=['the meaning of each emitted code template (make, range, &x, nil guards) is assigned by Eval.v and validated only by executing the compiled output', 'values are finite and acyclic; map key conversions are injective on the generated values', "the harness' own reading of the boolean settings lines (the C12 model covers the settings parser)"],
    ),
    "C06": dict(
        props="props/C06.v",
        streams=[dict(name="core-c06")],
        decisive_codes=[1, 2, 9],
        modelled='generator/generator.go Build/Assign/callExisting/CallMethod/ReturnError/requireContext/delegateMethod/wrap/shouldCreateSubMethod/createSubMethod/buildMethod/convertTo/buildMethods, generator/setup.go (extend index with RegisterOverrideOverlapping, Register overlap check), method/index.go Get/Has, generator/validate.go, builder/{basic,pointer,list,map,struct,skipcopy,default,errorpath,underlying}.go incl. mapField (paths, struct-method sources, map ... | FUNC) and buildTargetVar (default FUNC, default:update), xtype/type.go (TypeOf flags, FindField, asID), namer.Name (Gen.v, Plan.v, Eval.v, Funcs.v); roles of function parameters by the Sig model of method.Parse; BuildSteps order and every Matches predicate, isEnum, findUnderlyingExtendMapping, shouldCheckAgainstZero are regenerated from the source (Extracted.v); builder/enum.go (Enum.Build, caseAction, duplicate-value handling, transformers as rewriting results) and xtype/enum.go; not in the model (class D_UNMODELLED): generic functions, multi-source functions, map . F | FUNC with the enclosing pointer',
        assumptions=['the meaning of each emitted code template (make, range, &x, nil guards, x, err := f(..); if err != nil { return .., wrap(err) }) is assigned by Eval.v and validated only by executing the compiled output', 'custom functions are the deterministic oracle of Val.mark / mark_token / fn_fails (the harness generates Go bodies computing the same function via package sup); which functions a goverter:extend pattern matches and which parameter names match arg:context:regex is computed by the harness with Go regexp', 'values are finite and acyclic; map key conversions are injective on the generated values', "the harness' own reading of the boolean settings lines (the C12 model covers the settings parser)"],
    ),
    "C07": dict(
        props="props/C07.v",
        streams=[dict(name="core-c07")],
        decisive_codes=[9, 10],
        modelled='generator/generator.go Build/Assign/callExisting/CallMethod/ReturnError/requireContext/delegateMethod/wrap/shouldCreateSubMethod/createSubMethod/buildMethod/convertTo/buildMethods, generator/setup.go (extend index with RegisterOverrideOverlapping, Register overlap check), method/index.go Get/Has, generator/validate.go, builder/{basic,pointer,list,map,struct,skipcopy,default,errorpath,underlying}.go incl. mapField (paths, struct-method sources, map ... | FUNC) and buildTargetVar (default FUNC, default:update), xtype/type.go (TypeOf flags, FindField, asID), namer.Name (Gen.v, Plan.v, Eval.v, Funcs.v); roles of function parameters by the Sig model of method.Parse; BuildSteps order and every Matches predicate, isEnum, findUnderlyingExtendMapping, shouldCheckAgainstZero are regenerated from the source (Extracted.v); builder/enum.go (Enum.Build, caseAction, duplicate-value handling, transformers as rewriting results) and xtype/enum.go; not in the model (class D_UNMODELLED): generic functions, multi-source functions, map . F | FUNC with the enclosing pointer',
        assumptions=['the meaning of each emitted code template (make, range, &x, nil guards, x, err := f(..); if err != nil { return .., wrap(err) }) is assigned by Eval.v and validated only by executing the compiled output', 'custom functions are the deterministic oracle of Val.mark / mark_token / fn_fails (the harness generates Go bodies computing the same function via package sup); which functions a goverter:extend pattern matches and which parameter names match arg:context:regex is computed by the harness with Go regexp', 'values are finite and acyclic; map key conversions are injective on the generated values', "the harness' own reading of the boolean settings lines (the C12 model covers the settings parser)"],
    ),
    "C08": dict(
        props="props/C08.v",
        streams=[dict(name="core-c08")],
        decisive_codes=[1, 2, 3, 9],
        modelled='generator/generator.go Build/Assign/callExisting/CallMethod/ReturnError/requireContext/delegateMethod/wrap/shouldCreateSubMethod/createSubMethod/buildMethod/convertTo/buildMethods, generator/setup.go (extend index with RegisterOverrideOverlapping, Register overlap check), method/index.go Get/Has, generator/validate.go, builder/{basic,pointer,list,map,struct,skipcopy,default,errorpath,underlying}.go incl. mapField (paths, struct-method sources, map ... | FUNC) and buildTargetVar (default FUNC, default:update), xtype/type.go (TypeOf flags, FindField, asID), namer.Name (Gen.v, Plan.v, Eval.v, Funcs.v); roles of function parameters by the Sig model of method.Parse; BuildSteps order and every Matches predicate, isEnum, findUnderlyingExtendMapping, shouldCheckAgainstZero are regenerated from the source (Extracted.v); builder/enum.go (Enum.Build, caseAction, duplicate-value handling, transformers as rewriting results) and xtype/enum.go; not in the model (class D_UNMODELLED): generic functions, multi-source functions, map . F | FUNC with the enclosing pointer',
        assumptions=['the meaning of each emitted code template (make, range, &x, nil guards, x, err := f(..); if err != nil { return .., wrap(err) }) is assigned by Eval.v and validated only by executing the compiled output', 'custom functions are the deterministic oracle of Val.mark / mark_token / fn_fails (the harness generates Go bodies computing the same function via package sup); which functions a goverter:extend pattern matches and which parameter names match arg:context:regex is computed by the harness with Go regexp', 'values are finite and acyclic; map key conversions are injective on the generated values', "the harness' own reading of the boolean settings lines (the C12 model covers the settings parser)"],
    ),
    "C11": dict(
        props="props/C11.v",
        streams=[dict(name="core-c11")],
        decisive_codes=[2],
        modelled='generator/generator.go Build/Assign/callExisting/shouldCreateSubMethod/createSubMethod/buildMethod/convertTo/buildMethods, generator/setup.go, generator/validate.go, builder/{basic,pointer,list,map,struct,skipcopy}.go, xtype/type.go (TypeOf flags, FindField, asID), namer.Name (Gen.v, Plan.v, Eval.v); BuildSteps order and every Matches predicate, isEnum, findUnderlyingExtendMapping, shouldCheckAgainstZero are regenerated from the source (Extracted.v); not yet in the model (class D_UNMODELLED): custom functions, enums, error results, contexts, default constructors, struct-method sources',
        assumptions=['the meaning of each emitted code template (make, range, &x, nil guards) is assigned by Eval.v and validated only by executing the compiled output', 'values are finite and acyclic; map key conversions are injective on the generated values', "the harness' own reading of the boolean settings lines (the C12 model covers the settings parser)"],
    ),
    "C01": dict(
        props="props/C01.v",
        libs=["theories/CaseLib.vo", "theories/Namer.vo"],
        streams=[dict(name="namer"), dict(name="core-c01"), dict(name="tool-c01", args=["-repo", REPO])],
        decisive_codes=[8],
        modelled='generator/generator.go Build/Assign/callExisting/shouldCreateSubMethod/createSubMethod/buildMethod/convertTo/buildMethods, generator/setup.go, generator/validate.go, builder/{basic,pointer,list,map,struct,skipcopy}.go, xtype/type.go (TypeOf flags, FindField, asID), namer.Name (Gen.v, Plan.v, Eval.v); BuildSteps order and every Matches predicate, isEnum, findUnderlyingExtendMapping, shouldCheckAgainstZero are regenerated from the source (Extracted.v); not yet in the model (class D_UNMODELLED): custom functions, enums, error results, contexts, default constructors, struct-method sources',
        assumptions=['the meaning of each emitted code template (make, range, &x, nil guards) is assigned by Eval.v and validated only by executing the compiled output', 'values are finite and acyclic; map key conversions are injective on the generated values', "the harness' own reading of the boolean settings lines (the C12 model covers the settings parser)"],
    ),
    "C18": dict(
        props="props/C18.v",
        streams=[dict(name="core-c18"), dict(name="tool-c18", args=["-repo", REPO])],
        decisive_codes=[7],
        modelled='generator/generator.go Build/Assign/callExisting/shouldCreateSubMethod/createSubMethod/buildMethod/convertTo/buildMethods, generator/setup.go, generator/validate.go, builder/{basic,pointer,list,map,struct,skipcopy}.go, xtype/type.go (TypeOf flags, FindField, asID), namer.Name (Gen.v, Plan.v, Eval.v); BuildSteps order and every Matches predicate, isEnum, findUnderlyingExtendMapping, shouldCheckAgainstZero are regenerated from the source (Extracted.v); not yet in the model (class D_UNMODELLED): custom functions, enums, error results, contexts, default constructors, struct-method sources',
        assumptions=['the meaning of each emitted code template (make, range, &x, nil guards) is assigned by Eval.v and validated only by executing the compiled output', 'values are finite and acyclic; map key conversions are injective on the generated values', "the harness' own reading of the boolean settings lines (the C12 model covers the settings parser)"],
    ),
    "C10": dict(
        props="props/C10.v",
        streams=[dict(name="core-c10")],
        decisive_codes=[2],
        modelled='generator/generator.go Build/Assign/callExisting/shouldCreateSubMethod/createSubMethod/buildMethod/convertTo/buildMethods, generator/setup.go, generator/validate.go, builder/{basic,pointer,list,map,struct,skipcopy}.go, xtype/type.go (TypeOf flags, FindField, asID), namer.Name (Gen.v, Plan.v, Eval.v); BuildSteps order and every Matches predicate, isEnum, findUnderlyingExtendMapping, shouldCheckAgainstZero are regenerated from the source (Extracted.v); not yet in the model (class D_UNMODELLED): custom functions, enums, error results, contexts, default constructors, struct-method sources',
        assumptions=['the meaning of each emitted code template (make, range, &x, nil guards) is assigned by Eval.v and validated only by executing the compiled output', 'values are finite and acyclic; map key conversions are injective on the generated values', "the harness' own reading of the boolean settings lines (the C12 model covers the settings parser)"],
    ),
    "C12": dict(
        props="props/C12.v",
        libs=["theories/Settings.vo", "theories/CaseLib.vo"],
        # c12: the record in effect / the error class per placement is pinned by the property;
        # core-c12: what the generated code does with a wrap mode written on the method / the converter (error observables)
        streams=[dict(name="c12", mismatch_is_violation=True), dict(name="core-c12", decisive_codes=[9, 10])],
        modelled="config/parse/parse.go Bool/String/Enum, config/common.go parseCommon (key table regenerated from the source), "
                 "config/converter.go parseConverterLine (key list regenerated), config/method.go parseMethodLine (key list regenerated; map/ignore/update/context/autoMap modelled, "
                 "enum:map/enum:transform/default and function references not), line order global -> converter -> method on a copied record (Settings.v)",
        assumptions=["regular expressions are kept as strings (regexp.Compile is not modelled; the stream uses valid patterns)",
                     "validation of the converter-only settings themselves (name, output:*, extend, enum:exclude) is outside the model",
                     "the effect of a record on generation is covered by the core streams, whose cases compute the record with this model from the raw lines"],
    ),
    "C13": dict(
        props="props/C13.v",
        libs=["theories/ErrFmt.vo"],
        streams=[dict(name="c13", args=["-repo", REPO])],
        mismatch_is_violation=True,   # ToString panics where the model says it does not (or vice versa)
        modelled="builder/error.go ToString (every strings.Repeat count, ErrFmt.v; the guard in space() is read from the source), the settings front end (Settings.v); "
                 "the inventory of explicit panic( sites is regenerated from the source; the generator itself is fuzzed under recover (not modelled for this property)",
        assumptions=["panics inside go/packages, jennifer and the Go runtime are outside any model; for them the fuzzer is the only evidence",
                     "termination is observed with a deadline, not proved"],
    ),
    "C15": dict(
        props="props/C15.v", libs=["theories/Paths.vo"], streams=[dict(name="tool-c15", args=["-repo", REPO])],
        mismatch_is_violation=True,
        modelled="path/filepath Clean/Join/Dir/Base/Ext/Rel (Unix), config/parse/file.go File, generator/filemanager.go getOutputDir, config/converter.go defaultOutputFile/resolveOutputPackage, "
                 "config/package.go resolvePackage, jennifer guessAlias (Paths.v); runner.go writeFiles modes are read from the source",
        assumptions=["the Go toolchain (go list build-constraint evaluation, package loading), the OS file system (no symlinks, case-sensitive, Unix separators) and jennifer's rendering are outside the model", "I/O faults during writeFiles are outside the property's quantifier"],
    ),
    "C16": dict(
        props="props/C16.v", libs=["theories/Constraint.vo"], streams=[dict(name="tool-c16", args=["-repo", REPO])],
        mismatch_is_violation=True,
        modelled="header comments of generator/filemanager.go Get (texts read from the source), CLI defaults of -build-tags / -output-constraint (read from the source), "
                 "//go:build evaluation for tag and !tag, file selection and loading as a predicate over selected files (Constraint.v)",
        assumptions=["the Go toolchain (go list build-constraint evaluation, package loading), the OS file system (no symlinks, case-sensitive, Unix separators) and jennifer's rendering are outside the model", "I/O faults during writeFiles are outside the property's quantifier"],
    ),
    "C17": dict(
        props="props/C17.v", libs=["theories/Cli.vo"], streams=[dict(name="cli"), dict(name="tool-c17", args=["-repo", REPO])],
        mismatch_is_violation=True,
        modelled="cli/parse.go Parse/parseGen incl. the part of the flag package they use, cli/run.go exit codes (read from the source), runner.go GenerateConverters as a "
                 "file-system transition whose shape (write only after everything was generated; no other file-system mutation in the sources) is read from the source (Cli.v)",
        assumptions=["the Go toolchain (go list build-constraint evaluation, package loading), the OS file system (no symlinks, case-sensitive, Unix separators) and jennifer's rendering are outside the model", "I/O faults during writeFiles are outside the property's quantifier"],
    ),
    "C09": dict(
        props="props/C09.v", libs=["theories/Perm.vo"], streams=[dict(name="tool-c09", args=["-repo", REPO])],
        modelled="iteration over a Go map as iteration over an arbitrary permutation (Perm.v); the inventory of map-range sites with their loop-pattern class is regenerated from the "
                 "source with type information; file selection under build constraints (Constraint.v)",
        assumptions=["the Go toolchain (go list build-constraint evaluation, package loading), the OS file system (no symlinks, case-sensitive, Unix separators) and jennifer's rendering are outside the model", "I/O faults during writeFiles are outside the property's quantifier"] + ["the loop-pattern classifier of the extractor is heuristic (returns / append+sort / plain assignments)"],
    ),
}
