#!/bin/sh
# seedmatrix.sh REPO SEEDS... — for every seeded change under seeded/, apply it to the goverter tree REPO (a scratch copy),
# run the quick check of its property with each of the given PRNG seeds, and print one line per (change, seed):
# how many VIOLATION lines were raised.  REPO must be clean; it is restored after every run.  ONLY="id id ..." restricts the run.
cd "$(dirname "$0")/.." || exit 2
REPO=$1; shift
export VERIF_REPO=$REPO
for d in seeded/*/; do
  id=$(basename $d); prop=$(echo $id | cut -c1-3)
  if [ -n "$ONLY" ]; then case " $ONLY " in *" $id "*) ;; *) continue ;; esac; fi
  git -C $REPO apply "$(pwd)/$d/patch.diff" 2>/dev/null || { echo "$id: patch does not apply"; continue; }
  for s in "$@"; do
    n=$(VERIF_SEED=$s ./check $prop 2>&1 | grep -c '^VIOLATION')
    echo "$id seed=$s violations=$n"
  done
  git -C $REPO checkout -- . ; git -C $REPO clean -fdq
done
