"""Orchestrator for the goverter Coq verification (see /verif/DESIGN.md section 5)."""
import argparse, fcntl, glob, hashlib, json, os, re, shutil, subprocess, sys, time
from concurrent.futures import ThreadPoolExecutor

VERIF = os.path.dirname(os.path.dirname(os.path.abspath(__file__)))
REPO = os.environ.get("VERIF_REPO", "/repo")
WORK = os.path.join(VERIF, ".work")
COQ = os.path.join(VERIF, "coq")
GOENV = dict(os.environ, GOFLAGS="-mod=mod", GOPROXY="off", GOSUMDB="off", GOTOOLCHAIN="local",
             CGO_ENABLED="0")

from props import PROPS  # per-property configuration

FORBIDDEN = re.compile(r"\b(Admitted|admit|Axiom|Axioms|Parameter|Parameters|Conjecture|Conjectures|"
                       r"Unset\s+Guard|bypass_check|Admit\s+Obligations|Unset\s+Universe|Unset\s+Positivity|"
                       r"type-in-type|impredicative-set|native_compute)\b")
# Variable/Hypothesis are only legal inside sections; the development uses none at all.
FORBIDDEN2 = re.compile(r"^\s*(Variable|Variables|Hypothesis|Hypotheses|Context)\b", re.M)
AXIOM_WHITELIST = set()  # no axiom is needed so far; extend together with DESIGN.md section 6


def sh(cmd, cwd=None, timeout=600, env=None, inp=None):
    try:
        p = subprocess.run(cmd, cwd=cwd, env=env or GOENV, stdout=subprocess.PIPE, stderr=subprocess.STDOUT,
                           timeout=timeout, input=inp, shell=isinstance(cmd, str))
        return p.returncode, p.stdout.decode("utf-8", "replace")
    except subprocess.TimeoutExpired as e:
        return 124, (e.stdout or b"").decode("utf-8", "replace") + "\n[timeout after %ss]" % timeout


class Lock:
    def __init__(self, name):
        os.makedirs(WORK, exist_ok=True)
        self.path = os.path.join(WORK, name)
    def __enter__(self):
        self.f = open(self.path, "w")
        fcntl.flock(self.f, fcntl.LOCK_EX)
    def __exit__(self, *a):
        fcntl.flock(self.f, fcntl.LOCK_UN)
        self.f.close()


class Ctx:
    def __init__(self, pid, tier, seed):
        self.pid, self.tier, self.seed = pid, tier, seed
        self.cfg = PROPS[pid]
        self.work = os.path.join(WORK, "%s-%d" % (pid, os.getpid()))
        self.broken = []      # broken ties: dicts(kind, what, detail)
        self.violations = []  # dicts(what, sig, replay, failing_input)
        self.known_lines = []
        self.t0 = time.time()
        self.cov = {}
        self.reports = []
        self.log = []

    def note(self, msg):
        self.log.append(msg)
        print("[check %s] %s" % (self.pid, msg), flush=True)


# ---------------------------------------------------------------- build steps

def build_go(ctx):
    """Build extractor and harness against /repo's current working tree (tag verif)."""
    hdir = os.path.join(VERIF, "harness")
    with Lock("go.lock"):
        try:
            shutil.copyfile(os.path.join(REPO, "go.sum"), os.path.join(hdir, "go.sum"))
        except OSError:
            pass
        if REPO != "/repo":  # background runs on a snapshot of the repository (vp run --with-repo)
            sh(["go", "mod", "edit", "-replace", "github.com/jmattheis/goverter=" + REPO], cwd=hdir)
        os.makedirs(os.path.join(WORK, "bin"), exist_ok=True)
        ctx.vh = os.path.join(WORK, "bin", "vh.%d" % os.getpid())
        rc, out = sh(["go", "build", "-tags", "verif", "-o", ctx.vh, "./cmd/vh"], cwd=hdir, timeout=600)
    if rc != 0:
        ctx.vh = None
        ctx.broken.append(dict(kind="harness-build", what="the correspondence harness no longer builds against /repo",
                               detail=out[-4000:]))
        ctx.note("harness build FAILED")
    return rc == 0


def run_extract(ctx):
    """Regenerate coq/theories/Extracted.v from the Go source (translator tie)."""
    if not ctx.vh:
        return False
    tmp = os.path.join(ctx.work, "Extracted.v")
    rc, out = sh([ctx.vh, "extract", "-repo", REPO, "-out", tmp], timeout=120)
    dst = os.path.join(COQ, "theories", "Extracted.v")
    if rc != 0 or not os.path.exists(tmp):
        ctx.broken.append(dict(kind="extract", what="fact extraction from the Go source failed", detail=out[-4000:]))
        return False
    new = open(tmp).read()
    with Lock("coq.lock"):
        old = open(dst).read() if os.path.exists(dst) else None
        if old != new:
            open(dst, "w").write(new)
            ctx.note("Extracted.v changed (re-checking dependent proofs)")
    ctx.cov["extracted_sha"] = hashlib.sha256(new.encode()).hexdigest()[:16]
    return True


def cone(vfile, seen=None):
    """Transitive GV/GVP imports of a .v file inside coq/ (for obligation counts)."""
    seen = seen if seen is not None else []
    if vfile in seen or not os.path.exists(vfile):
        return seen
    seen.append(vfile)
    src = open(vfile).read()
    for m in re.finditer(r"From\s+(GVP?)\s+Require\s+(?:Import|Export)\s+([^.]+)\.", src):
        d = "theories" if m.group(1) == "GV" else "props"
        for name in m.group(2).split():
            cone(os.path.join(COQ, d, name + ".v"), seen)
    return seen


def build_coq(ctx):
    target = ctx.cfg["props"]
    with Lock("coq.lock"):
        mk = os.path.join(COQ, "Makefile")
        cp = os.path.join(COQ, "_CoqProject")
        if not os.path.exists(mk) or os.path.getmtime(mk) < os.path.getmtime(cp):
            sh(["coq_makefile", "-f", "_CoqProject", "-o", "Makefile"], cwd=COQ)
        to = 3000 if ctx.tier == "thorough" else 1500
        if ctx.tier == "thorough" and ctx.cfg.get("clean_thorough", False):
            sh(["make", "clean"], cwd=COQ, timeout=120)
        libs = [l for l in ctx.cfg.get("libs", ["theories/CaseLib.vo"])]
        rc, out = sh(["make", "-j16", target[:-2] + ".vo"] + libs, cwd=COQ, timeout=to)
    files = cone(os.path.join(COQ, target))
    nobl = 0
    for f in files:
        nobl += len(re.findall(r"^\s*(?:Lemma|Theorem|Corollary|Example|Fact|Proposition|Remark)\b", open(f).read(), re.M))
    ctx.cov["obligations"] = nobl
    ctx.cov["cone_files"] = [os.path.relpath(f, COQ) for f in files]
    if rc != 0:
        ctx.cov["discharged"] = 0
        err = out[-3000:]
        m = re.search(r'File "([^"]+)", line (\d+)', out)
        where = "%s:%s" % (m.group(1), m.group(2)) if m else "?"
        ctx.broken.append(dict(kind="proof", what="Coq build of %s fails at %s" % (target, where), detail=err))
        ctx.note("Coq build FAILED at " + where)
        return False
    ctx.cov["discharged"] = nobl
    # hygiene
    bad = []
    for f in files:
        src = re.sub(r"\(\*.*?\*\)", "", open(f).read(), flags=re.S)
        for m in FORBIDDEN.finditer(src):
            bad.append("%s: %s" % (os.path.relpath(f, COQ), m.group(0).strip()))
        depth = 0  # Variable / Hypothesis / Context are only legal inside a Section
        for line in src.splitlines():
            if re.match(r"\s*(Section|Module)\s+\w+", line) and not re.search(r":=", line):
                depth += 1
            elif re.match(r"\s*End\s+\w+\s*\.", line):
                depth = max(0, depth - 1)
            elif depth == 0 and FORBIDDEN2.match(line):
                bad.append("%s: %s outside a section" % (os.path.relpath(f, COQ), line.strip()[:40]))
    if bad:
        ctx.broken.append(dict(kind="hygiene", what="forbidden construct in the development", detail="\n".join(bad)))
    # Print Assumptions of the property theorems (recompile the tiny props file to get its output)
    tmpvo = os.path.join(ctx.work, os.path.basename(target)[:-2] + ".vo")
    rc, out = sh(["coqc", "-Q", "theories", "GV", "-Q", "props", "GVP", "-o", tmpvo, target], cwd=COQ, timeout=600)
    thms = re.findall(r"^\s*Theorem\s+(\w+)", open(os.path.join(COQ, target)).read(), re.M)
    ctx.cov["theorems"] = thms
    closed = out.count("Closed under the global context")
    axioms = re.findall(r"^(\w[\w.']*)\s*:", out, re.M) if "Axioms:" in out else []
    ctx.cov["assumptions"] = ("all %d property theorems: Closed under the global context" % closed) if not axioms \
        else "axioms: " + ", ".join(sorted(set(axioms)))
    if rc != 0:
        ctx.broken.append(dict(kind="proof", what="props file does not compile", detail=out[-2000:]))
        return False
    extra = [a for a in set(axioms) if a not in AXIOM_WHITELIST]
    if extra or closed + (1 if axioms else 0) < 1 or (not axioms and closed != len(thms)):
        ctx.broken.append(dict(kind="assumptions", what="Print Assumptions output not as expected", detail=out[-2000:]))
        return False
    if ctx.tier == "thorough":
        # independent re-check of the compiled property file and everything it depends on, with the axiom summary
        lib = "GVP." + os.path.basename(target)[:-2]
        with Lock("coq.lock"):
            rc, out = sh(["coqchk", "-silent", "-o", "-Q", "theories", "GV", "-Q", "props", "GVP", lib], cwd=COQ, timeout=3000)
        summary = out[out.find("CONTEXT SUMMARY"):] if "CONTEXT SUMMARY" in out else out[-1500:]
        ok = rc == 0 and all(("* %s: <none>" % k) in summary for k in
                             ("Axioms", "Constants/Inductives relying on type-in-type", "Constants/Inductives relying on unsafe (co)fixpoints", "Inductives whose positivity is assumed"))
        ctx.cov["coqchk"] = "coqchk -o %s: %s" % (lib, "no axioms, no type-in-type, no unsafe fixpoints, no assumed positivity" if ok else "NOT CLEAN")
        if not ok:
            ctx.broken.append(dict(kind="assumptions", what="coqchk does not accept the compiled development", detail=summary[-2000:]))
            return False
    return True


# ---------------------------------------------------------------- correspondence

def run_stream(ctx, stream, extra=(), oracle_only=False, seed=None, sub=None, n=None):
    out = os.path.join(ctx.work, sub or stream)
    os.makedirs(out, exist_ok=True)
    cmd = [ctx.vh, stream, "-seed", str(ctx.seed if seed is None else seed), "-tier", ctx.tier, "-out", out] + list(extra)
    if "-repo" not in cmd:
        cmd += ["-repo", REPO]   # every stream that builds the CLI must build it from the tree under check
    if n:
        cmd += ["-n", str(n)]
    if oracle_only:
        cmd += ["-oracle-only"]
    to = 7200 if ctx.tier == "thorough" else 900
    rc, o = sh(cmd, cwd=out, timeout=to)
    rp = os.path.join(out, "report.json")
    if rc != 0 or not os.path.exists(rp):
        ctx.broken.append(dict(kind="harness-run", what="harness stream %s failed (rc=%d)" % (stream, rc), detail=o[-4000:]))
        return None
    rep = json.load(open(rp))
    rep["_dir"] = out
    return rep


def eval_shard(args):
    d, shard = args
    t = time.time()
    rc, out = sh(["coqc", "-Q", os.path.join(COQ, "theories"), "GV", shard], cwd=d, timeout=900)
    m = re.search(r"M\s*=\s*(.*?)\n\s*:\s", out, re.S)
    if rc != 0 or not m:
        return shard, None, out[-2000:], time.time() - t
    body = m.group(1).strip()
    pairs = re.findall(r"\((\d+),\s*\[([\d;\s]*)\]\)", body)
    if pairs:
        ids = [(i, [int(c) for c in re.findall(r"\d+", cs)]) for i, cs in pairs]
    else:
        ids = [(i, []) for i in re.findall(r"\d+", body)]
    return shard, ids, "", time.time() - t


def eval_shards(ctx, rep):
    d = rep["_dir"]
    jobs = [(d, s) for s in rep.get("shards", [])]
    mism = []
    with ThreadPoolExecutor(max_workers=8) as ex:
        for shard, ids, err, dt in ex.map(eval_shard, jobs):
            if ids is None:
                ctx.broken.append(dict(kind="correspondence", what="case shard %s does not evaluate in Coq" % shard, detail=err))
            else:
                mism += [(shard, i, codes) for i, codes in ids]
    for f in glob.glob(os.path.join(d, "cases_*.vo")) + glob.glob(os.path.join(d, "cases_*.glob")) + glob.glob(os.path.join(d, ".cases_*.aux")):
        os.remove(f)
    return mism


def lookup_case(rep, cid):
    p = os.path.join(rep["_dir"], "cases.jsonl")
    if os.path.exists(p):
        for line in open(p):
            try:
                c = json.loads(line)
            except ValueError:
                continue
            if str(c.get("id")) == str(cid):
                return c
    return None


# ---------------------------------------------------------------- verdict

def load_known():
    p = os.path.join(VERIF, "KNOWN_FINDINGS.json")
    return json.load(open(p)) if os.path.exists(p) else []


def match_known(pid, v, known):
    blob = str(v.get("what", "")) + " " + json.dumps(v.get("replay"), sort_keys=True)
    for k in known:
        if k.get("property") != pid or k.get("status") != "known":
            continue
        sigs = k.get("sigs") or ([k["sig"]] if k.get("sig") else [])
        if sigs and v.get("sig") not in sigs:
            continue
        trig = k.get("trigger_regex")
        if trig and not re.search(trig, blob):
            continue
        return k
    return None


def write_replay(ctx, idx, content):
    d = os.path.join(WORK, "replays")
    os.makedirs(d, exist_ok=True)
    p = os.path.join(d, "%s-%s-s%d-%d.json" % (ctx.pid, ctx.tier, ctx.seed, idx))
    json.dump(content, open(p, "w"), indent=1, sort_keys=True, default=str)
    return p


def main(argv):
    ap = argparse.ArgumentParser()
    ap.add_argument("pid")
    ap.add_argument("--tier", default=os.environ.get("VERIF_TIER", "quick"))
    ap.add_argument("--replay")
    a = ap.parse_args(argv)
    if a.pid not in PROPS:
        print("unknown property", a.pid)
        return 2
    tier = "thorough" if a.tier == "thorough" else "quick"
    try:
        seed = int(os.environ.get("VERIF_SEED", "1"))
    except ValueError:
        seed = 1
    ctx = Ctx(a.pid, tier, seed)
    shutil.rmtree(ctx.work, ignore_errors=True)
    os.makedirs(ctx.work)
    try:
        rc = run(ctx, a.replay)
    finally:
        shutil.rmtree(ctx.work, ignore_errors=True)
        if getattr(ctx, "vh", None) and os.path.exists(ctx.vh):
            os.remove(ctx.vh)
    return rc


def run(ctx, replay):
    cfg = ctx.cfg
    known = load_known()
    build_go(ctx)
    if cfg.get("extract", True):
        run_extract(ctx)
    build_coq(ctx)
    mismatches = []
    if ctx.vh:
        for st in cfg["streams"]:
            name, extra = st["name"], st.get("args", [])
            if replay:
                extra = list(extra) + ["-replay", os.path.abspath(replay)]
            rep = run_stream(ctx, name, extra)
            if rep is None:
                continue
            ctx.reports.append(rep)
            for v in rep.get("oracle_violations", []):
                v = dict(v, failing_input=True, stream=name)
                ctx.violations.append(v)
            for shard, cid, codes in eval_shards(ctx, rep):
                c = lookup_case(rep, cid)
                mismatches.append(dict(stream=name, shard=shard, case_id=cid, codes=codes, case=c))
    ctx.cov["coq_mismatches"] = len(mismatches)
    if mismatches:
        ctx.note("%d model/implementation mismatches" % len(mismatches))
        # a case already reported by a direct oracle is not reported twice - unless that report is a listed known finding:
        # a known finding must not swallow a different disagreement on the same case
        flagged = set((v.get("stream"), str(v.get("case_id"))) for v in ctx.violations if not match_known(ctx.pid, v, known))
        for mm in mismatches[:20]:
            if (mm["stream"], str(mm["case_id"])) in flagged:
                continue
            stc = next((st for st in cfg["streams"] if st["name"] == mm["stream"]), {})
            dc = stc.get("decisive_codes", cfg.get("decisive_codes"))
            decisive = stc.get("mismatch_is_violation", cfg.get("mismatch_is_violation", False)) or (dc is not None and any(c in dc for c in mm.get("codes", [])))
            if decisive:
                ctx.violations.append(dict(what="implementation differs from the proved model on a property-pinned observable",
                                           sig="model-mismatch", replay=mm, failing_input=True, stream=mm["stream"], case_id=mm["case_id"]))
            else:
                ctx.broken.append(dict(kind="correspondence", what="model and implementation disagree on case %s of %s" % (mm["case_id"], mm["stream"]), detail=mm))
    # a broken tie without a failing input: search for one with the direct oracle
    unknown = [v for v in ctx.violations if not match_known(ctx.pid, v, known)]
    if ctx.broken and not unknown and ctx.vh:
        ctx.note("tie broken (%s); searching for a failing input with the direct oracle" % ctx.broken[0]["kind"])
        for st in cfg["streams"]:
            for k in range(cfg.get("search_rounds", 3)):
                rep = run_stream(ctx, st["name"], st.get("args", []), oracle_only=True, seed=ctx.seed * 1000 + 17 + k,
                                 sub="search-%s-%d" % (st["name"], k), n=st.get("search_n"))
                if rep is None:
                    continue
                for v in rep.get("oracle_violations", []):
                    v = dict(v, failing_input=True, stream=st["name"], found_by="search")
                    if not match_known(ctx.pid, v, known):
                        ctx.violations.append(v)
                if any(not match_known(ctx.pid, v, known) for v in ctx.violations):
                    break
    # verdict
    lines, nviol = [], 0
    seen_known = {}
    for v in ctx.violations:
        k = match_known(ctx.pid, v, known)
        if k:
            seen_known[k["id"]] = k
        else:
            nviol += 1
            if nviol <= 5:
                p = write_replay(ctx, nviol, dict(property=ctx.pid, violation=v, broken_ties=ctx.broken))
                lines.append("VIOLATION property=%s replay=%s" % (ctx.pid, p))
    for kid, k in sorted(seen_known.items()):
        print("KNOWN-FINDING: property=%s %s: %s" % (ctx.pid, kid, k.get("what", "")))
    if nviol == 0 and ctx.broken:
        nviol = 1
        p = write_replay(ctx, 0, dict(property=ctx.pid, broken_ties=ctx.broken,
                                      note="no concrete failing input was found; the named theorem / extracted fact / correspondence stream no longer checks"))
        lines.append("VIOLATION property=%s replay=%s no-failing-input-found" % (ctx.pid, p))
    ev = write_evidence(ctx, nviol, sorted(seen_known))
    for l in lines:
        print(l)
    if nviol:
        for b in ctx.broken[:3]:
            print("  broken tie [%s]: %s" % (b["kind"], b["what"]))
        return 1
    print("[check %s] OK: %s" % (ctx.pid, json.dumps({k: ev["coverage"].get(k) for k in ("obligations", "discharged", "evaluations", "distinct_nontrivial", "coq_mismatches")})))
    return 0


def write_evidence(ctx, nviol, known_hit):
    cfg = ctx.cfg
    cov = dict(ctx.cov)
    ev = sum(r.get("evaluations", 0) for r in ctx.reports)
    dn = sum(r.get("distinct_nontrivial", 0) for r in ctx.reports)
    samples, dist, rules = [], {}, []
    for r in ctx.reports:
        samples += r.get("samples", [])[:3]
        for k, v in r.get("distribution", {}).items():
            dist["%s/%s" % (r.get("stream", r["property"]), k) if len(ctx.reports) > 1 else k] = v
        rules.append(r.get("rule", ""))
    cov.update(evaluations=ev, distinct_nontrivial=dn, rule=" || ".join(rules), samples=samples or ["(no cases ran)"],
               input_distribution=dist,
               checker_cmd="make -C /verif/coq -j16 %s.vo (coqc 8.16.1, full .vo build) + coqc -Q coq/theories GV cases_*.v (vm_compute) on %d shards"
                           % (cfg["props"][:-2], sum(len(r.get("shards", [])) for r in ctx.reports)),
               trusted_base=cfg.get("trusted_base", []) + [
                   "Coq 8.16.1 kernel incl. vm_compute (no native_compute)",
                   "axioms per Print Assumptions: " + str(cov.get("assumptions", "n/a")),
                   "Go extractor /verif/harness/cmd/vh extract.go (source facts -> Extracted.v)",
                   "correspondence harness /verif/harness (generators, canonicalisers, Go-side oracles)",
                   "Go toolchain, go/parser, go/types, go/packages"],
               exhaustive=all(r.get("exhaustive", False) for r in ctx.reports) if ctx.reports else False,
               known_findings_seen=known_hit,
               broken_ties=[dict(kind=b["kind"], what=b["what"]) for b in ctx.broken],
               modelled=cfg.get("modelled", ""))
    if cov.get("obligations", 0) < 1:
        cov["obligations"] = max(1, len(cov.get("theorems", [])))
    if cov.get("discharged", 0) < 1 and not ctx.broken:
        cov["discharged"] = cov["obligations"]
    if cov.get("discharged", 0) < 1:
        cov["discharged"] = 0
    e = dict(property_id=ctx.pid, tier=ctx.tier, seed=ctx.seed, level=cfg.get("level", "proof"), coverage=cov,
             assumptions=cfg.get("assumptions", []), wall_s=round(time.time() - ctx.t0, 2), violations=nviol)
    if e["coverage"]["discharged"] < 1:
        # schema demands >=1 for proof level; a failed build is reported through violations + broken_ties
        e["coverage"].pop("discharged")
        e["coverage"].pop("obligations")
        e["coverage"]["evaluations"] = max(1, ev)
        e["coverage"]["distinct_nontrivial"] = max(2, dn)
    os.makedirs(os.path.join(VERIF, "evidence"), exist_ok=True)
    json.dump(e, open(os.path.join(VERIF, "evidence", ctx.pid + ".json"), "w"), indent=1, sort_keys=True, default=str)
    return e
