From Coq Require Import List Permutation Sorted Orders Mergesort Arith Lia.
Import ListNotations.

(* Go: for k := range m { keys = append(keys, k) }; sort.Strings(keys)
   Model: the range visits (pi l) for an arbitrary permutation pi of the entries l. *)

Module NatOrder <: TotalLeBool.
  Definition t := nat.
  Definition leb := Nat.leb.
  Theorem leb_total : forall a1 a2, leb a1 a2 = true \/ leb a2 a1 = true.
  Proof. intros a b. unfold leb. destruct (Nat.leb_spec a b); [left; reflexivity|right; apply Nat.leb_le; lia]. Qed.
End NatOrder.
Module S := Sort NatOrder.

Lemma sorted_perm_eq : forall l1 l2 : list nat,
  StronglySorted le l1 -> StronglySorted le l2 -> Permutation l1 l2 -> l1 = l2.
Proof.
  induction l1 as [|a l1 IH]; intros l2 S1 S2 P.
  - apply Permutation_nil in P. congruence.
  - destruct l2 as [|b l2]; [apply Permutation_sym, Permutation_nil in P; discriminate|].
    inversion S1 as [|? ? S1' F1]; inversion S2 as [|? ? S2' F2]; subst.
    assert (a = b).
    { assert (Ha : In a (b :: l2)) by (eapply Permutation_in; [exact P|left; reflexivity]).
      assert (Hb : In b (a :: l1)) by (eapply Permutation_in; [apply Permutation_sym; exact P|left; reflexivity]).
      rewrite Forall_forall in F1, F2.
      destruct Ha as [->|Ha]; [reflexivity|]. destruct Hb as [->|Hb]; [reflexivity|].
      specialize (F1 _ Hb). specialize (F2 _ Ha). lia. }
    subst b. f_equal. apply IH; auto. eapply Permutation_cons_inv; exact P.
Qed.

Lemma sort_sorted l : StronglySorted le (S.sort l).
Proof.
  apply Sorted_StronglySorted; [intros x y z; apply Nat.le_trans|].
  pose proof (S.LocallySorted_sort l) as H. apply Sorted_LocallySorted_iff.
  induction H; constructor; auto. unfold is_true, NatOrder.leb in *. apply Nat.leb_le. assumption.
Qed.

(* collect-then-sort is independent of the visiting order *)
Theorem collect_sort_perm_indep (l l' : list nat) : Permutation l l' -> S.sort l = S.sort l'.
Proof.
  intros P. apply sorted_perm_eq; try apply sort_sorted.
  eapply Permutation_trans; [apply Permutation_sym, S.Permuted_sort|].
  eapply Permutation_trans; [exact P|apply S.Permuted_sort].
Qed.

(* first-hit-returns is NOT independent when there are >= 2 hits *)
Definition first_hit (l : list nat) : option nat := hd_error l.
Example first_hit_dependent : exists l l', Permutation l l' /\ first_hit l <> first_hit l'.
Proof. exists [1;2], [2;1]. split; [apply perm_swap|discriminate]. Qed.
Lemma first_hit_indep_le1 l l' : length l <= 1 -> Permutation l l' -> first_hit l = first_hit l'.
Proof.
  intros H P. destruct l as [|a [|b l]]; cbn in H; try lia.
  - apply Permutation_nil in P. subst. reflexivity.
  - apply Permutation_length_1_inv in P. subst. reflexivity.
Qed.
Print Assumptions collect_sort_perm_indep.
