From Coq Require Import List Bool Arith.
Import ListNotations.

(* projection of one parameter, in the order method.Parse tests it *)
Record param := { is_conv : bool;    (* types.Identical(arg.Type, opts.Converter) *)
                  is_upd  : bool;    (* opts.UpdateParam <> "" /\ arg.Name = opts.UpdateParam *)
                  is_ctx  : bool }.  (* context regex matches name, or local `context NAME` *)
Inductive use := UInterface | UTarget | UContext | USource | UMulti.
Inductive pmode := Required | Optional | NoneAllowed.
Record opts := { o_mode : pmode; o_multi : bool; o_allow_tp : bool; o_update : bool (* UpdateParam <> "" *) }.
Inductive rkind := RErr | ROther.
Record fn := { accessible : bool; is_func : bool; type_params : bool; params : list param; results : list rkind }.

Inductive err := EExported | ENotFunc | EUpdateSig | EUpdateArgMissing | EReturns | ESecondNotError
               | EGeneric | ENoSourceAllowed | ENeedSource | EOneSource.
Record def := { uses : list use; ret_err : bool; update : bool }.

Fixpoint roles (rs : list rkind) (ps : list param) (src_seen : bool) (upd_seen : bool) (reterr : bool)
  : err + (list use * bool * bool * bool * nat) (* uses, src_seen, upd_seen, reterr, #multi *) :=
  match ps with
  | [] => inr ([], src_seen, upd_seen, reterr, 0)
  | p :: r =>
    if is_conv p then
      match roles rs r src_seen upd_seen reterr with
      | inl e => inl e | inr (us, s, u, re, m) => inr (UInterface :: us, s, u, re, m) end
    else if is_upd p then
      match rs with
      | [] => match roles rs r src_seen true reterr with
              | inl e => inl e | inr (us, s, u, re, m) => inr (UTarget :: us, s, u, re, m) end
      | [RErr] => match roles rs r src_seen true true with
              | inl e => inl e | inr (us, s, u, re, m) => inr (UTarget :: us, s, u, re, m) end
      | _ => inl EUpdateSig
      end
    else if is_ctx p then
      match roles rs r src_seen upd_seen reterr with
      | inl e => inl e | inr (us, s, u, re, m) => inr (UContext :: us, s, u, re, m) end
    else if negb src_seen then
      match roles rs r true upd_seen reterr with
      | inl e => inl e | inr (us, s, u, re, m) => inr (USource :: us, s, u, re, m) end
    else
      match roles rs r src_seen upd_seen reterr with
      | inl e => inl e | inr (us, s, u, re, m) => inr (UMulti :: us, s, u, re, S m) end
  end.

Definition classify (o : opts) (f : fn) : err + def :=
  if negb (accessible f) then inl EExported else
  if negb (is_func f) then inl ENotFunc else
  match roles (results f) (params f) false false false with
  | inl e => inl e
  | inr (us, src, upd, re, multi) =>
    if negb upd && o_update o then inl EUpdateArgMissing else
    let chk_results : err + bool :=
      if upd then inr re else
      match results f with
      | [] => inl EReturns
      | [_] => inr false
      | [_; RErr] => inr true
      | [_; ROther] => inl ESecondNotError
      | _ => inl EReturns
      end in
    match chk_results with
    | inl e => inl e
    | inr re' =>
      if type_params f && negb (o_allow_tp o) then inl EGeneric else
      match o_mode o, src with
      | NoneAllowed, true => inl ENoSourceAllowed
      | Required, false => inl ENeedSource
      | _, _ => if negb (o_multi o) && negb (Nat.eqb multi 0) then inl EOneSource
                else inr {| uses := us; ret_err := re'; update := upd |}
      end
    end
  end.

(* ---- specification-level facts (C14) ---- *)
Definition count_use (u : use) (d : def) : nat :=
  length (filter (fun x => match x, u with USource, USource | UMulti, UMulti | UTarget, UTarget => true | _, _ => false end) (uses d)).

Lemma roles_length rs ps a b c us s u re m : roles rs ps a b c = inr (us, s, u, re, m) -> length us = length ps.
Proof.
  revert a b c us s u re m. induction ps as [|p ps IH]; intros a b c us s u re m; cbn.
  - intros [= <- _ _ _ _]. reflexivity.
  - destruct (is_conv p); [|destruct (is_upd p); [|destruct (is_ctx p); [|destruct (negb a)]]].
    + destruct (roles rs ps a b c) as [|[[[[us' s'] u'] re'] m']] eqn:E; [discriminate|]. intros [= <- _ _ _ _]. cbn. f_equal. eapply IH; eauto.
    + destruct rs as [|[|] [|? ?]]; try discriminate.
      * destruct (roles [] ps a true c) as [|[[[[us' s'] u'] re'] m']] eqn:E; [discriminate|]. intros [= <- _ _ _ _]. cbn. f_equal. eapply IH; eauto.
      * destruct (roles [RErr] ps a true true) as [|[[[[us' s'] u'] re'] m']] eqn:E; [discriminate|]. intros [= <- _ _ _ _]. cbn. f_equal. eapply IH; eauto.
    + destruct (roles rs ps a b c) as [|[[[[us' s'] u'] re'] m']] eqn:E; [discriminate|]. intros [= <- _ _ _ _]. cbn. f_equal. eapply IH; eauto.
    + destruct (roles rs ps true b c) as [|[[[[us' s'] u'] re'] m']] eqn:E; [discriminate|]. intros [= <- _ _ _ _]. cbn. f_equal. eapply IH; eauto.
    + destruct (roles rs ps a b c) as [|[[[[us' s'] u'] re'] m']] eqn:E; [discriminate|]. intros [= <- _ _ _ _]. cbn. f_equal. eapply IH; eauto.
Qed.

(* accepted => declared order preserved (one role per parameter) *)
Theorem order_preserved o f d : classify o f = inr d -> length (uses d) = length (params f).
Proof.
  unfold classify. destruct (negb (accessible f)); [discriminate|]. destruct (negb (is_func f)); [discriminate|].
  destruct (roles (results f) (params f) false false false) as [|[[[[us s] u] re] m]] eqn:E; [discriminate|].
  destruct (negb u && o_update o); [discriminate|].
  destruct (if u then inr re else _) as [|re']; [discriminate|].
  destruct (type_params f && negb (o_allow_tp o)); [discriminate|].
  destruct (o_mode o), s; try discriminate; destruct (negb (o_multi o) && negb (m =? 0)); try discriminate;
    intros [= <-]; cbn; eapply roles_length; eauto.
Qed.
Print Assumptions order_preserved.
