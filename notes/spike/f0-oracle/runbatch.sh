#!/bin/bash
# usage: runbatch.sh seed n
s=$1; n=$2; d=/root/scratch/f0/w$s
rm -rf $d; python3 /root/scratch/f0/gen.py $s $n $d && cp /root/scratch/f0/driver.go $d/cmd/ && cd $d || exit 9
if ! /root/scratch/bin/goverter gen ./p > gen.out 2>&1; then echo "seed=$s GENFAIL $(grep -m1 -i 'TypeMismatch\|Cannot\|panic\|Error' gen.out | cut -c1-100)"; exit 0; fi
if ! go build -o drv ./cmd > build.out 2>&1; then echo "seed=$s BUILDFAIL $(sed -n 2p build.out | cut -c1-140)"; exit 0; fi
timeout 60 ./drv $s > run.out 2>&1
echo "seed=$s $(tail -1 run.out) other=$(grep -v 'index out of range\|array->nil slice' run.out | grep -c 'PANIC\|MISMATCH\|ALIAS')"
grep -v 'index out of range\|array->nil slice' run.out | grep 'PANIC\|MISMATCH\|ALIAS' | head -3
cd /; rm -rf $d
