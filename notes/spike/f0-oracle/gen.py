#!/usr/bin/env python3
# Spike: random type pairs -> Go package with converters + driver with reflective oracle.
import random, sys, os
seed=int(sys.argv[1]); n=int(sys.argv[2]); out=sys.argv[3]
R=random.Random(seed)
decls=[]; cnt=[0]
BASIC=['int','string','bool','float64','int64','uint8']
def fresh(p):
    cnt[0]+=1; return f"{p}{cnt[0]}"
# type representation: ('b',kind) ('n',name,under) ('p',t) ('s',t) ('a',n,t) ('m',k,t) ('st',[(fname,t)])
def rnd_type(d):
    c=R.random()
    if d<=0 or c<0.25: return ('b',R.choice(BASIC))
    if c<0.40: return ('p',rnd_type(d-1))
    if c<0.55: return ('s',rnd_type(d-1))
    if c<0.60: return ('a',R.randint(1,3),rnd_type(d-1))
    if c<0.72: return ('m',('b',R.choice(['int','string'])),rnd_type(d-1))
    if c<0.80: return ('nb',fresh('NB'),R.choice(BASIC))
    fs=[(f"F{i}",rnd_type(d-1)) for i in range(R.randint(1,4))]
    if c<0.92: return ('ns',fresh('S'),fs)
    return ('st',fs)
def render(t,side):
    k=t[0]
    if k=='b': return t[1]
    if k=='p': return '*'+render(t[1],side)
    if k=='s': return '[]'+render(t[1],side)
    if k=='a': return f'[{t[1]}]'+render(t[2],side)
    if k=='m': return f'map[{render(t[1],side)}]'+render(t[2],side)
    if k=='nb':
        name=t[1]+side; decl=f"type {name} {t[2]}"
        if decl not in decls: decls.append(decl)
        return name
    if k=='ns':
        name=t[1]+side
        body='; '.join(f"{fn} {render(ft,side)}" for fn,ft in t[2])
        decl=f"type {name} struct {{ {body} }}"
        if decl not in decls: decls.append(decl)
        return name
    if k=='st':
        return 'struct { '+'; '.join(f"{fn} {render(ft,side)}" for fn,ft in t[1])+' }'
# target perturbation: wrap some non-pointer positions in a pointer (T -> *T is a documented rule); arrays become slices sometimes
def perturb(t,top=True):
    k=t[0]
    def maybe_ptr(x):
        return ('p',x) if (x[0]!='p' and R.random()<0.12) else x
    if k=='b' or k=='nb': return t
    if k=='p': return ('p',perturb(t[1],False))
    if k=='s': return ('s',maybe_ptr(perturb(t[1],False)))
    if k=='a':
        inner=perturb(t[2],False)
        return ('s',inner) if R.random()<0.5 else ('s',inner)   # array target is never convertible: always slice
    if k=='m': return ('m',t[1],maybe_ptr(perturb(t[2],False)))
    if k=='ns': return ('ns',t[1],[(fn,maybe_ptr(perturb(ft,False))) for fn,ft in t[2]])
    if k=='st': return ('st',[(fn,maybe_ptr(perturb(ft,False))) for fn,ft in t[1]])
conv=[]; drv=[]
for i in range(n):
    s=rnd_type(4)
    if s[0] in('b',): s=('ns',fresh('S'),[('F0',s)])
    t=perturb(s)
    S=render(s,'A'); T=render(t,'B')
    decls.append(f"type Src{i} = {S}"); decls.append(f"type Tgt{i} = {T}")
    conv.append(f"// goverter:converter\n// goverter:output:file ./gen/gen.go\n// goverter:output:package example.org/b/p/gen\ntype C{i} interface {{ Conv(source Src{i}) Tgt{i} }}\n")
    drv.append(f'\trun("C{i}", func(r *rand.Rand) (any, any) {{ var s p.Src{i}; fill(reflect.ValueOf(&s).Elem(), r, 0); return s, (&gen.C{i}Impl{{}}).Conv(s) }})')
os.makedirs(out+'/p',exist_ok=True); os.makedirs(out+'/cmd',exist_ok=True)
open(out+'/go.mod','w').write('module example.org/b\ngo 1.18\n')
open(out+'/p/types.go','w').write('package p\n\n'+'\n'.join(decls)+'\n\n'+'\n'.join(conv))
open(out+'/cmd/cases.go','w').write('package main\nimport ("math/rand"; "reflect"; "example.org/b/p"; "example.org/b/p/gen")\nfunc cases() {\n'+'\n'.join(drv)+'\n}\nvar _ p.Src0\n')
