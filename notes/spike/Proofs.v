From Coq Require Import List String ZArith Lia Bool.
Import ListNotations.
Require Import Mini.

Lemma eval_list_mono (e e' : val -> nat -> option (val * nat)) vs :
  (forall v n r, In v vs -> e v n = Some r -> e' v n = Some r) ->
  forall n r, eval_list e vs n = Some r -> eval_list e' vs n = Some r.
Proof.
  induction vs as [|v vs IH]; intros H n r; cbn; [auto|].
  destruct (e v n) as [[v' n1]|] eqn:E; [|discriminate].
  rewrite (H v n _ (or_introl eq_refl) E).
  destruct (eval_list e vs n1) as [[r' n2]|] eqn:E2; [|discriminate].
  intros X. rewrite (IH (fun v n r Hin => H v n r (or_intror Hin)) _ _ E2). exact X.
Qed.

Lemma eval_fields_mono (e e' : plan -> val -> nat -> option (val * nat)) fs src :
  (forall p v n r, e p v n = Some r -> e' p v n = Some r) ->
  forall n r, eval_fields e fs src n = Some r -> eval_fields e' fs src n = Some r.
Proof.
  intros H. induction fs as [|[i p] fs IH]; intros n r; cbn; [auto|].
  destruct (nth_error src i) as [v|]; [|discriminate].
  destruct (e p v n) as [[v' n1]|] eqn:E; [|discriminate].
  rewrite (H _ _ _ _ E).
  destruct (eval_fields e fs src n1) as [[r' n2]|] eqn:E2; [|discriminate].
  intros X. rewrite (IH _ _ E2). exact X.
Qed.

Lemma eval_mono : forall f p v n r, eval f p v n = Some r -> forall f', f <= f' -> eval f' p v n = Some r.
Proof.
  induction f as [|f IH]; intros p v n r He f' Hle; [discriminate|].
  destruct f' as [|f']; [lia|]. assert (Hle' : f <= f') by lia.
  cbn in He |- *.
  destruct p; destruct v; try discriminate; try exact He.
  all: try (destruct (eval f _ _ _) as [[w' n1]|] eqn:E; [|discriminate];
            rewrite (IH _ _ _ _ E _ Hle'); exact He).
  - destruct (eval_list (eval f p) vs (S n)) as [[ws' n1]|] eqn:E; [|discriminate].
    rewrite (eval_list_mono (eval f p) (eval f' p) vs
               (fun v n r _ H => IH _ _ _ _ H _ Hle') _ _ E). exact He.
  - destruct (eval_fields (eval f) fs vs n) as [[ws' n1]|] eqn:E; [|discriminate].
    rewrite (eval_fields_mono (eval f) (eval f') fs vs
               (fun p v n r H => IH _ _ _ _ H _ Hle') _ _ E). exact He.
Qed.

Definition good (s t : ty) (p : plan) : Prop :=
  forall v, wt s v -> forall n, exists f v' n', eval f p v n = Some (v', n') /\ SConv s t v v'.

Lemma good_list s t p : good s t p -> forall vs, Forall (wt s) vs ->
  forall n, exists f ws n', eval_list (eval f p) vs n = Some (ws, n') /\ Forall2 (SConv s t) vs ws.
Proof.
  intros G vs H. induction H as [|v vs Hv Hvs IH]; intros n.
  - exists 0, [], n. split; [reflexivity|constructor].
  - destruct (G v Hv n) as (f1 & v' & n1 & E1 & C1).
    destruct (IH n1) as (f2 & ws & n2 & E2 & C2).
    exists (Nat.max f1 f2), (v' :: ws), n2. split; [|constructor; assumption].
    cbn. rewrite (eval_mono _ _ _ _ _ E1 _ (Nat.le_max_l _ _)).
    rewrite (eval_list_mono (eval f2 p) (eval (Nat.max f1 f2) p) vs
               (fun v n r _ H => eval_mono _ _ _ _ _ H _ (Nat.le_max_r _ _)) _ _ E2).
    reflexivity.
Qed.


Lemma find_idx_spec n : forall sf k i st, find_idx n sf k = Some (i, st) ->
  k <= i /\ exists m, nth_error sf (i - k) = Some (m, st).
Proof.
  induction sf as [|[m t] sf IH]; intros k i st; cbn; [discriminate|].
  destruct (String.eqb n m).
  - intros [= <- <-]. split; [lia|]. replace (k - k) with 0 by lia. eexists; reflexivity.
  - intros H. destruct (IH _ _ _ H) as [Hle [m' Hn]]. split; [lia|].
    replace (i - k) with (S (i - S k)) by lia. eexists; exact Hn.
Qed.

Lemma wt_field (sf : list (string*ty)) vs i m st : Forall2 (fun f v => wt (snd f) v) sf vs ->
  nth_error sf i = Some (m, st) -> exists v, nth_error vs i = Some v /\ wt st v.
Proof.
  intros H; revert i. induction H as [|f v sf vs Hf Hr IH]; intros [|i]; cbn; try discriminate.
  - intros [= ->]. eexists; split; [reflexivity|exact Hf].
  - apply IH.
Qed.

Theorem gen_good : forall fuel s t p, gen fuel s t = Some p -> good s t p.
Proof.
  induction fuel as [|fuel IH]; intros s t p Hg; [discriminate|].
  cbn in Hg.
  destruct s as [k|s'|s'|sf].
  - (* TB *) destruct t as [k'|t'|t'|tf]; try discriminate.
    + destruct (Nat.eqb_spec k k'); [|discriminate]. injection Hg as <-. subst k'.
      intros v Hv n. inversion Hv; subst. exists 1, (VB z), n. split; [reflexivity|constructor].
    + destruct (gen fuel (TB k) t') as [q|] eqn:E; [|discriminate]. injection Hg as <-.
      intros v Hv n. destruct (IH _ _ _ E v Hv n) as (f & w & n1 & Ev & C).
      exists (S f), (VPtr n1 w), (S n1). split.
      * cbn. rewrite Ev. reflexivity.
      * constructor; [intros s' X; discriminate|exact C].
  - (* TP *) destruct t as [k'|t'|t'|tf]; try discriminate.
    destruct (gen fuel s' t') as [q|] eqn:E; [|discriminate]. injection Hg as <-.
    intros v Hv n. inversion Hv; subst.
    + exists 1, VNil, n. split; [reflexivity|constructor].
    + match goal with Hw : wt s' _ |- _ => destruct (IH _ _ _ E _ Hw n) as (f & w & n1 & Ev & C) end.
      exists (S f), (VPtr n1 w), (S n1). split; [cbn; rewrite Ev; reflexivity|constructor; exact C].
  - (* TS *) destruct t as [k'|t'|t'|tf]; try discriminate.
    + destruct (gen fuel (TS s') t') as [q|] eqn:E; [|discriminate]. injection Hg as <-.
      intros v Hv n. destruct (IH _ _ _ E v Hv n) as (f & w & n1 & Ev & C).
      exists (S f), (VPtr n1 w), (S n1). split; [cbn; rewrite Ev; reflexivity|].
      constructor; [intros s'' X; discriminate|exact C].
    + destruct (gen fuel s' t') as [q|] eqn:E; [|discriminate]. injection Hg as <-.
      intros v Hv n. inversion Hv; subst.
      * exists 1, VNil, n. split; [reflexivity|constructor].
      * match goal with Hw : Forall (wt s') _ |- _ =>
          destruct (good_list _ _ _ (IH _ _ _ E) _ Hw (S n)) as (f & ws & n1 & Ev & C) end.
        exists (S f), (VSl n ws), n1. split; [cbn; rewrite Ev; reflexivity|constructor; exact C].
  - (* TSt *) destruct t as [k'|t'|t'|tf]; try discriminate.
    + destruct (gen fuel (TSt sf) t') as [q|] eqn:E; [|discriminate]. injection Hg as <-.
      intros v Hv n. destruct (IH _ _ _ E v Hv n) as (f & w & n1 & Ev & C).
      exists (S f), (VPtr n1 w), (S n1). split; [cbn; rewrite Ev; reflexivity|].
      constructor; [intros s'' X; discriminate|exact C].
    + destruct (gen_fields (gen fuel) sf tf) as [ps|] eqn:E; [|discriminate]. injection Hg as <-.
      intros v Hv n. inversion Hv as [| | | | |fs0 vs Hvs]; subst.
      assert (X : forall n, exists f ws n',
                 eval_fields (eval f) ps vs n = Some (ws, n') /\
                 Forall2 (fun f w => exists i st v, find_idx (fst f) sf 0 = Some (i, st)
                                       /\ nth_error vs i = Some v /\ SConv st (snd f) v w) tf ws).
      { clear Hv. revert ps E. induction tf as [|[nm tt_] tf IHtf]; intros ps E n0.
        - injection E as <-. exists 0, [], n0. split; [reflexivity|constructor].
        - cbn in E. destruct (find_idx nm sf 0) as [[i st]|] eqn:Ef; [|discriminate].
          destruct (gen fuel st tt_) as [q|] eqn:Eg; [|discriminate].
          destruct (gen_fields (gen fuel) sf tf) as [qs|] eqn:Egs; [|discriminate].
          injection E as <-.
          destruct (find_idx_spec _ _ _ _ _ Ef) as [_ [m Hn]]. rewrite Nat.sub_0_r in Hn.
          destruct (wt_field _ _ _ _ _ Hvs Hn) as (v & Hnv & Hwv).
          destruct (IH _ _ _ Eg v Hwv n0) as (f1 & w & n1 & Ev & C).
          destruct (IHtf _ eq_refl n1) as (f2 & ws & n2 & Evs & Cs).
          exists (Nat.max f1 f2), (w :: ws), n2. split.
          + cbn. rewrite Hnv. rewrite (eval_mono _ _ _ _ _ Ev _ (Nat.le_max_l _ _)).
            rewrite (eval_fields_mono (eval f2) (eval (Nat.max f1 f2)) qs vs
                       (fun p v n r H => eval_mono _ _ _ _ _ H _ (Nat.le_max_r _ _)) _ _ Evs).
            reflexivity.
          + constructor; [|exact Cs]. exists i, st, v. cbn. auto. }
      destruct (X n) as (f & ws & n1 & Ev & C).
      exists (S f), (VSt ws), n1. split; [cbn; rewrite Ev; reflexivity|constructor; exact C].
Qed.
Print Assumptions gen_good.
