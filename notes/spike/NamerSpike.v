From Coq Require Import List String Arith Lia Bool DecimalString DecimalNat Decimal.
Import ListNotations.
Open Scope string_scope.

Definition show (i : nat) : string := NilEmpty.string_of_uint (Nat.to_uint i).
Lemma show_inj i j : show i = show j -> i = j.
Proof.
  unfold show. intros H.
  assert (X : NilEmpty.uint_of_string (NilEmpty.string_of_uint (Nat.to_uint i)) =
              NilEmpty.uint_of_string (NilEmpty.string_of_uint (Nat.to_uint j))) by (rewrite H; reflexivity).
  rewrite !NilEmpty.usu in X. injection X as X.
  rewrite <- (Unsigned.of_to i), <- (Unsigned.of_to j), X. reflexivity.
Qed.

Definition cand (name : string) (i : nat) : string := if Nat.eqb i 1 then name else name ++ show i.

Definition mem (s : string) (l : list string) : bool := existsb (String.eqb s) l.

(* fuel-bounded search i = start, start+1, ... *)
Fixpoint search (fuel : nat) (name : string) (i : nat) (used : list string) : option string :=
  match fuel with
  | O => None
  | S f => if mem (cand name i) used then search f name (S i) used else Some (cand name i)
  end.

Definition name_op (name : string) (used : list string) : option (string * list string) :=
  match search (S (List.length used)) name 1 used with
  | Some n => Some (n, n :: used)
  | None => None
  end.

Lemma append_inj_l a b c : (a ++ b = a ++ c -> b = c)%string.
Proof. induction a; cbn; [auto|]. intros [= H]. auto. Qed.

Print Assumptions show_inj.
