From Coq Require Import List NArith Bool Lia String Ascii.
Import ListNotations.
Open Scope N_scope.

Notation rstr := (list N).
Definition s2r (s : string) : rstr := map N_of_ascii (list_ascii_of_string s).

Definition NL : N := 10. Definition CR : N := 13. Definition SP : N := 32. Definition TAB : N := 9.

(* Go unicode.IsSpace *)
Definition go_is_space (c : N) : bool :=
  ((9 <=? c) && (c <=? 13)) || (c =? 32) || (c =? 133) || (c =? 160) || (c =? 5760)
  || ((8192 <=? c) && (c <=? 8202)) || (c =? 8232) || (c =? 8233) || (c =? 8239) || (c =? 8287) || (c =? 12288).
(* comment.go isWhitespace: ' ' \t \n \r *)
Definition ascii_ws (c : N) : bool := (c =? 32) || (c =? 9) || (c =? 10) || (c =? 13).

Fixpoint drop_while (p : N -> bool) (l : rstr) : rstr :=
  match l with [] => [] | c :: r => if p c then drop_while p r else l end.
Definition drop_while_end (p : N -> bool) (l : rstr) : rstr := rev (drop_while p (rev l)).
Definition trim_space (l : rstr) : rstr := drop_while_end go_is_space (drop_while go_is_space l).
Definition strip_trailing (l : rstr) : rstr := drop_while_end ascii_ws l.

(* strings.Split(s, "\n") : never empty *)
Fixpoint split_nl_aux (cur : rstr) (l : rstr) : list rstr :=
  match l with
  | [] => [rev cur]
  | c :: r => if c =? NL then rev cur :: split_nl_aux [] r else split_nl_aux (c :: cur) r
  end.
Definition split_nl (l : rstr) : list rstr := split_nl_aux [] l.

Fixpoint join_nl (ls : list rstr) : rstr :=
  match ls with [] => [] | [l] => l | l :: r => l ++ NL :: join_nl r end.

Inductive comment := LineC (body : rstr) | BlockC (body : rstr).

Definition comment_lines (c : comment) : list rstr :=
  match c with
  | LineC [] => [[]]
  | LineC (c0 :: r) => if c0 =? SP then map strip_trailing (split_nl r)
                       else map strip_trailing (split_nl (c0 :: r))
  | BlockC b => map strip_trailing (split_nl b)
  end.

Definition is_empty (l : rstr) : bool := match l with [] => true | _ => false end.

(* the in-place compaction loop: keep line if non-empty or previous kept line non-empty (and n>0) *)
Fixpoint compact (prev_nonempty : bool) (ls : list rstr) : list rstr :=
  match ls with
  | [] => []
  | l :: r => if negb (is_empty l) then l :: compact true r
              else if prev_nonempty then l :: compact false r
              else compact false r
  end.

Definition comment_to_string (g : list comment) : rstr :=
  let lines := compact false (flat_map comment_lines g) in
  let lines' := match rev lines with
                | [] => lines
                | last :: _ => if negb (is_empty last) then lines ++ [[]] else lines
                end in
  join_nl lines'.

(* bufio.ScanLines without the buffer limit: split on \n, drop one trailing \r, no final empty token *)
Definition drop_cr (l : rstr) : rstr :=
  match rev l with c :: r => if c =? CR then rev r else l | [] => l end.
Definition scan_lines (s : rstr) : list rstr :=
  match s with
  | [] => []
  | _ => let ls := split_nl s in
         map drop_cr (match rev ls with [] :: r => rev r | _ => ls end)
  end.

Fixpoint strip_prefix (p l : rstr) : option rstr :=
  match p, l with
  | [], _ => Some l
  | a :: p', b :: l' => if a =? b then strip_prefix p' l' else None
  | _, [] => None
  end.

Definition prefix : rstr := s2r "goverter:".

Fixpoint filter_map {A B} (f : A -> option B) (l : list A) : list B :=
  match l with [] => [] | a :: r => match f a with Some b => b :: filter_map f r | None => filter_map f r end end.

Definition setting_lines (s : rstr) : list rstr :=
  filter_map (fun l => strip_prefix prefix (trim_space l)) (scan_lines s).

(* specification side *)
Definition logical_lines (g : list comment) : list rstr :=
  flat_map (fun c => match c with LineC b => [b] | BlockC b => split_nl b end) g.
Definition spec (g : list comment) : list rstr :=
  filter_map (fun l => strip_prefix prefix (trim_space l)) (logical_lines g).

(* quick tests *)
Definition ex1 := [LineC (s2r " goverter:converter"); LineC (s2r "goverter:name Foo  "); LineC []; LineC (s2r "  text");
                   BlockC (s2r " goverter:x
	goverter:y z
 * goverter:no ")].
Eval vm_compute in (setting_lines (comment_to_string ex1), spec ex1).
