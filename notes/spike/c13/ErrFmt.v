From Coq Require Import List ZArith Lia Bool.
Import ListNotations.
Open Scope Z_scope.

(* projection of builder.Path that matters for strings.Repeat counts *)
Record path := { prefix_len : Z; sid_len : Z; tid_len : Z; has_stype : bool; has_ttype : bool }.

(* number of iterations of  for j := a; j < b; j++  *)
Definition iters (a b : Z) : nat := Z.to_nat (b - a).

(* All arguments passed to strings.Repeat by ToString, in program order.
   State: sourceTypeLine (stl), targetTypeLine (ttl); constants sourceLine (sl), targetLine (tl). *)
Fixpoint space_args (sl tl : Z) (stl ttl : Z) (ps : list path) : list Z :=
  match ps with
  | [] => []
  | p :: r =>
    let padding := Z.max (sid_len p) (tid_len p) in
    let src :=
      if has_stype p
      then [prefix_len p] ++ concat (repeat [prefix_len p; padding - 1] (iters (stl + 1) sl))
      else repeat (prefix_len p + padding) (iters stl sl) in
    let stl' := if has_stype p then stl + 2 else stl in
    let mid := [padding - sid_len p] in
    let tgt :=
      if has_ttype p
      then [padding - tid_len p] ++ concat (repeat [prefix_len p; padding - 1] (iters (tl + 1) ttl)) ++ [prefix_len p]
           (* for j := ttl-1; j > tl; j--  has (ttl-1) - tl iterations = iters (tl+1) ttl *)
      else repeat (prefix_len p + padding) (iters tl (ttl + 1)) in
    let ttl' := if has_ttype p then ttl - 2 else ttl in
    src ++ mid ++ tgt ++ space_args sl tl stl' ttl' r
  end.

Definition count (f : path -> bool) (ps : list path) : Z := Z.of_nat (length (filter f ps)).

Definition to_string_args (ps : list path) : option (list Z) :=
  match ps with
  | [] => None                                   (* panic("oops that shouldn't happen") *)
  | _ =>
    let sp := count has_stype ps in
    let tp := count has_ttype ps in
    let end_ := 2 + (sp + tp) * 2 - 1 in
    let sl := sp * 2 in
    Some (space_args sl (sl + 1) 0 end_ ps)
  end.

Definition no_panic (ps : list path) : Prop :=
  match to_string_args ps with None => False | Some args => Forall (fun n => 0 <= n) args end.

(* witness found by reading the code: goverter:autoMap .  =>  an element with empty ids and a source type,
   lifted under the method-level element ("source"/"target" with both types) *)
Definition witness : list path :=
  [ {| prefix_len := 0; sid_len := 6; tid_len := 6; has_stype := true; has_ttype := true |};
    {| prefix_len := 1; sid_len := 0; tid_len := 0; has_stype := true; has_ttype := false |} ].
Eval vm_compute in to_string_args witness.

Lemma to_string_refuted : ~ no_panic witness.
Proof.
  unfold no_panic. cbv. intros H.
  repeat match goal with H : Forall _ (_ :: _) |- _ => inversion H; clear H; subst end;
  match goal with H : _ -> False |- _ => apply H; reflexivity | _ => idtac end.
Qed.

Definition good (p : path) : Prop :=
  0 <= prefix_len p /\ 0 <= sid_len p /\ 0 <= tid_len p /\
  ((has_stype p = true \/ has_ttype p = true) -> 1 <= Z.max (sid_len p) (tid_len p)).

Lemma Forall_repeat {A} (P : A -> Prop) x n : P x -> Forall P (repeat x n).
Proof. intros H. induction n; cbn; constructor; auto. Qed.
Lemma Forall_concat_repeat {A} (P : A -> Prop) l n : Forall P l -> Forall P (concat (repeat l n)).
Proof. intros H. induction n; cbn; [constructor|]. apply Forall_app; auto. Qed.

Lemma space_args_ok sl tl ps : Forall good ps -> forall stl ttl, Forall (fun n => 0 <= n) (space_args sl tl stl ttl ps).
Proof.
  induction 1 as [|p ps (Hp & Hs & Ht & Hm) _ IH]; intros stl ttl; cbn [space_args]; [constructor|].
  apply Forall_app; split; [|apply Forall_app; split; [|apply Forall_app; split; [|apply IH]]].
  - destruct (has_stype p) eqn:E.
    + apply Forall_app; split; [constructor; [lia|constructor]|].
      apply Forall_concat_repeat. constructor; [lia|]. constructor; [|constructor].
      assert (1 <= Z.max (sid_len p) (tid_len p)) by (apply Hm; left; reflexivity). lia.
    + apply Forall_repeat. lia.
  - constructor; [lia|constructor].
  - destruct (has_ttype p) eqn:E.
    + assert (1 <= Z.max (sid_len p) (tid_len p)) by (apply Hm; right; reflexivity).
      apply Forall_app; split; [constructor; [lia|constructor]|].
      apply Forall_app; split; [|constructor; [lia|constructor]].
      apply Forall_concat_repeat. constructor; [lia|]. constructor; [lia|constructor].
    + apply Forall_repeat. lia.
Qed.

Theorem to_string_total ps : ps <> [] -> Forall good ps -> no_panic ps.
Proof.
  intros Hne H. unfold no_panic, to_string_args. destruct ps; [congruence|]. apply space_args_ok, H.
Qed.
Print Assumptions to_string_total.
Print Assumptions to_string_refuted.
