From Coq Require Import List String ZArith Lia Bool.
Import ListNotations.
Open Scope string_scope.

Inductive ty :=
| TB (k : nat)
| TP (t : ty)
| TS (t : ty)
| TSt (fs : list (string * ty)).

Inductive val :=
| VB (z : Z)
| VNil
| VPtr (a : nat) (v : val)
| VSl (a : nat) (vs : list val)
| VSt (vs : list val).

Inductive plan :=
| PUse
| PPtr (p : plan)
| PAddr (p : plan)
| PList (p : plan)
| PStruct (fs : list (nat * plan)). (* per target field: index of source field + plan *)

Fixpoint find_idx (n : string) (fs : list (string * ty)) (i : nat) : option (nat * ty) :=
  match fs with
  | [] => None
  | (m, t) :: r => if String.eqb n m then Some (i, t) else find_idx n r (S i)
  end.

Fixpoint gen_fields (g : ty -> ty -> option plan) (sf tf : list (string * ty))
  : option (list (nat * plan)) :=
  match tf with
  | [] => Some []
  | (n, tt_) :: r =>
      match find_idx n sf 0 with
      | None => None
      | Some (i, st) =>
          match g st tt_, gen_fields g sf r with
          | Some p, Some ps => Some ((i, p) :: ps)
          | _, _ => None
          end
      end
  end.

Fixpoint gen (fuel : nat) (s t : ty) {struct fuel} : option plan :=
  match fuel with
  | O => None
  | S fuel =>
    match s, t with
    | TP s', TP t' => option_map PPtr (gen fuel s' t')
    | TP _, _ => None
    | _, TP t' => option_map PAddr (gen fuel s t')
    | TB k, TB k' => if Nat.eqb k k' then Some PUse else None
    | TSt sf, TSt tf => option_map PStruct (gen_fields (gen fuel) sf tf)
    | TS s', TS t' => option_map PList (gen fuel s' t')
    | _, _ => None
    end
  end.

(* evaluation: allocation counter threaded *)
Fixpoint eval_list (e : val -> nat -> option (val * nat)) (vs : list val) (n : nat)
  : option (list val * nat) :=
  match vs with
  | [] => Some ([], n)
  | v :: r => match e v n with
              | None => None
              | Some (v', n1) => match eval_list e r n1 with
                                 | None => None
                                 | Some (r', n2) => Some (v' :: r', n2)
                                 end
              end
  end.

Fixpoint eval_fields (e : plan -> val -> nat -> option (val * nat)) (fs : list (nat * plan))
   (src : list val) (n : nat) : option (list val * nat) :=
  match fs with
  | [] => Some ([], n)
  | (i, p) :: r =>
      match nth_error src i with
      | None => None
      | Some v => match e p v n with
                  | None => None
                  | Some (v', n1) => match eval_fields e r src n1 with
                                     | None => None
                                     | Some (r', n2) => Some (v' :: r', n2)
                                     end
                  end
      end
  end.

Fixpoint eval (fuel : nat) (p : plan) (v : val) (n : nat) {struct fuel} : option (val * nat) :=
  match fuel with
  | O => None
  | S fuel =>
    match p, v with
    | PUse, VB z => Some (VB z, n)
    | PPtr _, VNil => Some (VNil, n)
    | PPtr q, VPtr _ w => match eval fuel q w n with
                          | Some (w', n1) => Some (VPtr n1 w', S n1)
                          | None => None
                          end
    | PAddr q, w => match eval fuel q w n with
                    | Some (w', n1) => Some (VPtr n1 w', S n1)
                    | None => None
                    end
    | PList _, VNil => Some (VNil, n)
    | PList q, VSl _ ws => match eval_list (eval fuel q) ws (S n) with
                           | Some (ws', n1) => Some (VSl n ws', n1)
                           | None => None
                           end
    | PStruct fs, VSt ws => match eval_fields (eval fuel) fs ws n with
                            | Some (ws', n1) => Some (VSt ws', n1)
                            | None => None
                            end
    | _, _ => None
    end
  end.

(* well-typed values *)
Inductive wt : ty -> val -> Prop :=
| wt_b k z : wt (TB k) (VB z)
| wt_pnil t : wt (TP t) VNil
| wt_p t a v : wt t v -> wt (TP t) (VPtr a v)
| wt_snil t : wt (TS t) VNil
| wt_s t a vs : Forall (wt t) vs -> wt (TS t) (VSl a vs)
| wt_st fs vs : Forall2 (fun f v => wt (snd f) v) fs vs -> wt (TSt fs) (VSt vs).

(* structural relation, independent of plans *)
Inductive SConv : ty -> ty -> val -> val -> Prop :=
| sc_b k z : SConv (TB k) (TB k) (VB z) (VB z)
| sc_pnil s t : SConv (TP s) (TP t) VNil VNil
| sc_p s t a b v w : SConv s t v w -> SConv (TP s) (TP t) (VPtr a v) (VPtr b w)
| sc_addr s t b v w : (forall s', s <> TP s') -> SConv s t v w -> SConv s (TP t) v (VPtr b w)
| sc_snil s t : SConv (TS s) (TS t) VNil VNil
| sc_s s t a b vs ws : Forall2 (SConv s t) vs ws -> SConv (TS s) (TS t) (VSl a vs) (VSl b ws)
| sc_st sf tf vs ws :
    Forall2 (fun f w => exists i st v, find_idx (fst f) sf 0 = Some (i, st)
                                       /\ nth_error vs i = Some v /\ SConv st (snd f) v w) tf ws ->
    SConv (TSt sf) (TSt tf) (VSt vs) (VSt ws).
