(* SigUses.v — the options each call site of method.Parse uses (regenerated from the Go
   source as the x_opts definitions of Extracted.v), and what classification means for that use. *)
From Coq Require Import List Bool NArith Arith Lia.
From GV Require Import Base Extracted Sig SigProofs.
Import ListNotations.
Open Scope nat_scope.

Definition mode_of (n : N) : pmode := match n with 0%N => Required | 1%N => Optional | _ => NoneAllowed end.
Definition opts_of (x : N * bool * bool * bool * bool) (update_requested : bool) : opts :=
  let '(m, multi, tp, upd, _) := x in
  {| o_mode := mode_of m; o_multi := multi; o_allow_tp := tp; o_update := upd && update_requested |}.

(* interface methods and function variables (config.parseMethod) *)
Definition opts_converter_method (update_requested : bool) := opts_of x_opts_converter_method update_requested.
Definition opts_extend := opts_of x_opts_extend false.
Definition opts_map_func := opts_of x_opts_map_func false.
Definition opts_default := opts_of x_opts_default false.
Definition opts_struct_method := opts_of x_opts_struct_method false.

(* a converter method or extend function accepted by Parse has exactly one source,
   is not generic and (unless it is an update method) returns a target *)
Lemma converter_method_one_source u f d : wf (opts_converter_method u) f ->
  classify (opts_converter_method u) f = inr d ->
  count_use USource (uses d) = 1 /\ count_use UMulti (uses d) = 0 /\ type_params f = false.
Proof.
  intros W H. destruct (exactly_one_source _ _ _ W eq_refl eq_refl H) as [A B]. repeat split; auto.
  apply classify_spec in H as [V _]; [|exact W]. unfold valid in V. cbn in V.
  repeat (apply andb_true_iff in V as [V ?]). destruct (type_params f); [discriminate|reflexivity].
Qed.

Lemma extend_one_source f d : wf opts_extend f ->
  classify opts_extend f = inr d ->
  count_use USource (uses d) = 1 /\ count_use UMulti (uses d) = 0 /\ type_params f = false /\ update d = false.
Proof.
  intros W H. destruct (exactly_one_source _ _ _ W eq_refl eq_refl H) as [A B]. repeat split; auto.
  - apply classify_spec in H as [V _]; [|exact W]. unfold valid in V. cbn in V.
    repeat (apply andb_true_iff in V as [V ?]). destruct (type_params f); [discriminate|reflexivity].
  - pose proof H as H'. apply classify_spec in H as [V ->]; [|exact W]. cbn.
    destruct (has_upd (params f)) eqn:E; [|reflexivity]. specialize (W E). discriminate W.
Qed.

(* map ... | FUNC and default FUNC: at most one source; generics allowed *)
Lemma map_func_at_most_one_source f d : wf opts_map_func f ->
  classify opts_map_func f = inr d -> count_use USource (uses d) <= 1 /\ count_use UMulti (uses d) = 0.
Proof.
  intros W H. apply classify_spec in H as [V ->]; [|exact W]. cbn [expected uses].
  destruct (count_source false (map role_of (params f))) as [A B]. rewrite A, B. fold (nsrc (params f)).
  unfold valid in V. cbn in V. repeat (apply andb_true_iff in V as [V ?]).
  repeat match goal with H : Nat.leb _ _ = true |- _ => apply Nat.leb_le in H end.
  split; [apply Nat.le_min_l|]. destruct (nsrc (params f)) as [|[|n]]; cbn; try reflexivity. exfalso.
  lia.
Qed.

Lemma default_at_most_one_source f d : wf opts_default f ->
  classify opts_default f = inr d -> count_use USource (uses d) <= 1 /\ count_use UMulti (uses d) = 0.
Proof.
  intros W H. apply classify_spec in H as [V ->]; [|exact W]. cbn [expected uses].
  destruct (count_source false (map role_of (params f))) as [A B]. rewrite A, B. fold (nsrc (params f)).
  unfold valid in V. cbn in V. repeat (apply andb_true_iff in V as [V ?]).
  repeat match goal with H : Nat.leb _ _ = true |- _ => apply Nat.leb_le in H end.
  split; [apply Nat.le_min_l|]. destruct (nsrc (params f)) as [|[|n]]; cbn; try reflexivity. exfalso.
  lia.
Qed.

(* struct-method sources take no source parameter at all *)
Lemma struct_method_no_source f d : wf opts_struct_method f ->
  classify opts_struct_method f = inr d -> count_use USource (uses d) = 0 /\ count_use UMulti (uses d) = 0.
Proof.
  intros W H. apply classify_spec in H as [V ->]; [|exact W]. cbn [expected uses].
  destruct (count_source false (map role_of (params f))) as [A B]. rewrite A, B. fold (nsrc (params f)).
  unfold valid in V. cbn in V. repeat (apply andb_true_iff in V as [V ?]).
  repeat match goal with H : Nat.eqb _ _ = true |- _ => apply Nat.eqb_eq in H end.
  match goal with H : nsrc _ = 0 |- _ => rewrite H end. split; reflexivity.
Qed.
