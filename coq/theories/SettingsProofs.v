(* SettingsProofs.v — precedence and level discipline of the settings front end (C12). *)
From Coq Require Import List NArith Bool String.
From GV Require Import Base Ty Conf Extracted Comment Settings.
Import ListNotations.
Open Scope N_scope.

(* ---------- finite map ---------- *)
Lemma sget_sset f g v m : sget (sset g v m) f = if rstr_eqb g f then Some v else sget m f.
Proof. unfold sget, sset. cbn [find fst snd]. destruct (rstr_eqb g f); reflexivity. Qed.

Lemma sget_set_fields fs v m f :
  sget (set_fields fs v m) f = if existsb (fun g => rstr_eqb g f) fs then Some v else sget m f.
Proof.
  unfold set_fields. revert m. induction fs as [|g fs IH]; intros m; cbn [fold_left existsb]; [reflexivity|].
  rewrite IH, sget_sset. destruct (existsb (fun g0 => rstr_eqb g0 f) fs); [rewrite orb_true_r; reflexivity|].
  rewrite orb_false_r. reflexivity.
Qed.

(* ---------- one parseCommon step ---------- *)
Definition writes (tbl : list (rstr * table_row)) (cmd f : rstr) : bool :=
  match lookup_key tbl cmd with
  | Some (fs, _, _, _, _) => existsb (fun g => rstr_eqb g f) fs
  | None => false
  end.

(* the value a line carries for its key *)
Definition carried (tbl : list (rstr * table_row)) (cmd rest : rstr) : option sval :=
  match lookup_key tbl cmd with
  | Some (_, parser, _, _, _) =>
    if parser =? 0 then match parse_bool rest with Ok b => Some (SBool b) | _ => None end
    else match parse_string rest with Ok s => Some (SStr s) | _ => None end
  | None => None
  end.

Lemma parse_common_get tbl c cmd rest c' b f :
  parse_common tbl c cmd rest = Ok (c', b) ->
  sget c' f = if writes tbl cmd f then carried tbl cmd rest else sget c f.
Proof.
  unfold parse_common, writes, carried. destruct cmd as [|x cmd]; [discriminate|].
  destruct (lookup_key tbl (x :: cmd)) as [[[[[fs parser] fsetting] guard] enumcheck]|]; [|discriminate].
  destruct (negb _); [discriminate|].
  destruct (parser =? 0).
  - destruct (parse_bool rest) as [bv| |]; cbn [bind]; try discriminate.
    destruct (enumcheck && _); [discriminate|]. intros [= <- <-]. apply sget_set_fields.
  - destruct (parse_string rest) as [sv| |]; cbn [bind]; try discriminate.
    destruct (enumcheck && _); [discriminate|]. intros [= <- <-]. apply sget_set_fields.
Qed.

(* ---------- converter level: last line wins ---------- *)
Definition conv_line_value (line f : rstr) : option sval :=
  let '(cmd, rest) := command line in
  if in_keys x_converter_keys cmd then None
  else if writes x_common_table cmd f then carried x_common_table cmd rest else None.

Definition effective (value : rstr -> rstr -> option sval) (ls : list rstr) (f : rstr) (init : option sval) : option sval :=
  fold_left (fun acc l => match value l f with Some v => Some v | None => acc end) ls init.

Lemma converter_line_get c line c' f :
  converter_line c line = Ok c' ->
  sget c' f = match conv_line_value line f with Some v => Some v | None => sget c f end.
Proof.
  unfold converter_line, conv_line_value. destruct (command line) as [cmd rest].
  destruct (is cmd "extend" && _); [discriminate|].
  destruct (in_keys x_converter_keys cmd); [intros [= <-]; reflexivity|].
  destruct (parse_common x_common_table c cmd rest) as [[c1 b]| |] eqn:E; cbn [bind]; try discriminate.
  intros [= <-]. cbn [fst]. rewrite (parse_common_get _ _ _ _ _ _ f E).
  destruct (writes x_common_table cmd f) eqn:W; [|reflexivity].
  (* a successful step carries a value *)
  unfold carried. unfold parse_common in E. destruct cmd as [|x cmd]; [discriminate|].
  destruct (lookup_key x_common_table (x :: cmd)) as [[[[[fs parser] fsetting] guard] enumcheck]|]; [|discriminate].
  destruct (negb _); [discriminate|]. destruct (parser =? 0).
  - destruct (parse_bool rest); cbn [bind] in E; try discriminate. reflexivity.
  - destruct (parse_string rest); cbn [bind] in E; try discriminate. reflexivity.
Qed.

Lemma fold_effective (step : smap -> rstr -> res smap) (value : rstr -> rstr -> option sval) f :
  (forall c l c', step c l = Ok c' -> sget c' f = match value l f with Some v => Some v | None => sget c f end) ->
  forall ls c c', fold_res step ls c = Ok c' -> sget c' f = effective value ls f (sget c f).
Proof.
  intros H ls. induction ls as [|l ls IH]; intros c c' E; cbn in E.
  - inversion E; subst. reflexivity.
  - destruct (step c l) as [c1| |] eqn:S1; cbn [bind] in E; try discriminate.
    unfold effective. cbn [fold_left]. rewrite <- (H _ _ _ S1). apply IH. exact E.
Qed.

Theorem converter_last_wins ls c c' f :
  fold_res converter_line ls c = Ok c' -> sget c' f = effective conv_line_value ls f (sget c f).
Proof. apply fold_effective. intros; apply converter_line_get; assumption. Qed.

(* ---------- method level ---------- *)
Definition meth_line_value (line f : rstr) : option sval :=
  let '(cmd, rest) := command line in
  if is cmd "map" || is cmd "ignore" || is cmd "update" || is cmd "context" || is cmd "autoMap" || in_keys x_method_keys cmd then None
  else if writes x_common_table cmd f then carried x_common_table cmd rest else None.

Lemma method_line_get m line m' f :
  method_line m line = Ok m' ->
  sget (ms_common m') f = match meth_line_value line f with Some v => Some v | None => sget (ms_common m) f end.
Proof.
  unfold method_line, meth_line_value. destruct (command line) as [cmd rest].
  destruct (is cmd "map") eqn:E1; cbn [orb].
  { destruct (break_bar rest) as [lhs custom]. destruct custom as [cs|].
    - destruct (fields cs); [|discriminate].
      destruct (fields lhs) as [|t [|t2 [|? ?]]]; try discriminate;
        destruct (existsb _ _); try discriminate; intros [= <-]; reflexivity.
    - destruct (fields lhs) as [|t [|t2 [|? ?]]]; try discriminate;
        destruct (existsb _ _); try discriminate; intros [= <-]; reflexivity. }
  destruct (is cmd "ignore") eqn:E2; cbn [orb]; [destruct (fields rest); [discriminate|]; intros [= <-]; reflexivity|].
  destruct (is cmd "update") eqn:E3; cbn [orb].
  { destruct (parse_string rest); cbn [bind]; try discriminate. intros [= <-]; reflexivity. }
  destruct (is cmd "context") eqn:E4; cbn [orb].
  { destruct (parse_string rest); cbn [bind]; try discriminate. intros [= <-]; reflexivity. }
  destruct (is cmd "autoMap") eqn:E5; cbn [orb].
  { destruct (parse_string rest); cbn [bind]; try discriminate. intros [= <-]; reflexivity. }
  destruct (in_keys x_method_keys cmd); [discriminate|].
  destruct (parse_common x_common_table (ms_common m) cmd rest) as [[c1 b]| |] eqn:E; cbn [bind]; try discriminate.
  intros [= <-]. cbn [ms_common fst]. rewrite (parse_common_get _ _ _ _ _ _ f E).
  destruct (writes x_common_table cmd f) eqn:W; [|reflexivity].
  unfold carried. unfold parse_common in E. destruct cmd as [|x cmd]; [discriminate|].
  destruct (lookup_key x_common_table (x :: cmd)) as [[[[[fs parser] fsetting] guard] enumcheck]|]; [|discriminate].
  destruct (negb _); [discriminate|]. destruct (parser =? 0).
  - destruct (parse_bool rest); cbn [bind] in E; try discriminate. reflexivity.
  - destruct (parse_string rest); cbn [bind] in E; try discriminate. reflexivity.
Qed.

Lemma method_fold_effective f ls m m' :
  fold_res method_line ls m = Ok m' ->
  sget (ms_common m') f = effective meth_line_value ls f (sget (ms_common m) f).
Proof.
  revert m. induction ls as [|l ls IH]; intros m E; cbn in E.
  - inversion E; subst. reflexivity.
  - destruct (method_line m l) as [m1| |] eqn:S1; cbn [bind] in E; try discriminate.
    unfold effective. cbn [fold_left]. rewrite <- (method_line_get _ _ _ f S1). apply IH. exact E.
Qed.

(* ---------- precedence: method > converter > global > default ---------- *)
Theorem precedence global conv meth r f :
  method_smap global conv meth = Ok r ->
  sget r f = effective meth_line_value meth f
               (effective conv_line_value conv f
                  (effective conv_line_value global f (sget default_smap f))).
Proof.
  unfold method_smap, converter_smap, method_state.
  destruct (fold_res converter_line global default_smap) as [c1| |] eqn:E1; cbn [bind]; try discriminate.
  destruct (fold_res converter_line conv c1) as [c2| |] eqn:E2; cbn [bind]; try discriminate.
  destruct (fold_res method_line meth _) as [ms| |] eqn:E3; cbn [bind]; try discriminate.
  intros [= <-]. rewrite (method_fold_effective f _ _ _ E3). cbn [ms_common].
  rewrite (converter_last_wins _ _ _ f E2), (converter_last_wins _ _ _ f E1). reflexivity.
Qed.

(* generated sub-methods get the converter-level record: the same fold without method lines *)
Theorem converter_record global conv r f :
  converter_smap global conv = Ok r ->
  sget r f = effective conv_line_value conv f (effective conv_line_value global f (sget default_smap f)).
Proof.
  unfold converter_smap.
  destruct (fold_res converter_line global default_smap) as [c1| |] eqn:E1; cbn [bind]; try discriminate.
  intros E2. rewrite (converter_last_wins _ _ _ f E2), (converter_last_wins _ _ _ f E1). reflexivity.
Qed.

(* ---------- boolean values ---------- *)
Lemma parse_bool_spec rest b : parse_bool rest = Ok b ->
  (fields rest = [] /\ b = true) \/ (fields rest = [YES] /\ b = true) \/ (fields rest = [NO] /\ b = false).
Proof.
  unfold parse_bool. destruct (fields rest) as [|f [|f2 r]]; try discriminate.
  - intros [= <-]. auto.
  - destruct (rstr_eqb f YES) eqn:E1.
    + apply rstr_eqb_spec in E1. subst. intros [= <-]. auto.
    + destruct (rstr_eqb f NO) eqn:E2; [|discriminate]. apply rstr_eqb_spec in E2. subst. intros [= <-]. auto.
Qed.
Example bare_enables : parse_bool [] = Ok true. Proof. reflexivity. Qed.
Example yes_enables : parse_bool (s2r " yes "%string) = Ok true. Proof. reflexivity. Qed.
Example no_disables : parse_bool (s2r "no"%string) = Ok false. Proof. reflexivity. Qed.
Example other_is_error : parse_bool (s2r "maybe"%string) = Diag D_BAD_VALUE. Proof. reflexivity. Qed.

(* ---------- level discipline ---------- *)
Lemma unknown_at_converter c line cmd rest :
  command line = (cmd, rest) -> cmd <> [] -> in_keys x_converter_keys cmd = false -> lookup_key x_common_table cmd = None ->
  converter_line c line = Diag D_UNKNOWN_SETTING.
Proof.
  intros C NE K L. unfold converter_line. rewrite C.
  assert (X : is cmd "extend" = false).
  { destruct (is cmd "extend") eqn:E; [|reflexivity]. apply rstr_eqb_spec in E. subst. vm_compute in K. discriminate. }
  rewrite X, K. cbn [andb]. unfold parse_common. rewrite L.
  destruct cmd; [congruence|reflexivity].
Qed.

Lemma unknown_at_method m line cmd rest :
  command line = (cmd, rest) -> cmd <> [] ->
  (is cmd "map" || is cmd "ignore" || is cmd "update" || is cmd "context" || is cmd "autoMap" || in_keys x_method_keys cmd) = false ->
  lookup_key x_common_table cmd = None ->
  method_line m line = Diag D_UNKNOWN_SETTING.
Proof.
  intros C NE K L. unfold method_line. rewrite C.
  repeat (apply orb_false_iff in K; destruct K as [K ?]).
  repeat match goal with H : _ = false |- _ => rewrite H; clear H end.
  unfold parse_common. rewrite L. destruct cmd; [congruence|reflexivity].
Qed.

(* converter-only keys are unknown on a method, method-only keys are unknown on a converter *)
Lemma converter_only_key_on_method m k rest :
  In k (map s2r ["name"; "output:raw"; "output:file"; "output:format"; "output:package"; "struct:comment"; "enum:exclude"; "extend"; "converter"; "variables"]%string) ->
  method_line m (k ++ 32 :: rest) = Diag D_UNKNOWN_SETTING.
Proof.
  intros H. cbn in H. repeat (destruct H as [<-|H]; [reflexivity|]). destruct H.
Qed.
Lemma method_only_key_on_converter c k rest :
  In k (map s2r ["map"; "ignore"; "update"; "context"; "enum:map"; "enum:transform"; "autoMap"; "default"]%string) ->
  converter_line c (k ++ 32 :: rest) = Diag D_UNKNOWN_SETTING.
Proof.
  intros H. cbn in H. repeat (destruct H as [<-|H]; [reflexivity|]). destruct H.
Qed.

Lemma empty_key_converter c rest : converter_line c (32 :: rest) = Diag D_MISSING_KEY.
Proof. reflexivity. Qed.
Lemma empty_key_method m rest : method_line m (32 :: rest) = Diag D_MISSING_KEY.
Proof. reflexivity. Qed.

(* wrapErrors and wrapErrorsUsing exclude each other *)
Definition K_wrapErrors := Eval vm_compute in s2r "wrapErrors"%string.
Definition K_wrapErrorsUsing := Eval vm_compute in s2r "wrapErrorsUsing"%string.
Definition F_WrapErrors := Eval vm_compute in s2r "WrapErrors"%string.
Definition F_WrapErrorsUsing := Eval vm_compute in s2r "WrapErrorsUsing"%string.
Definition ROW_wrapErrors := Eval vm_compute in lookup_key x_common_table K_wrapErrors.
Definition ROW_wrapErrorsUsing := Eval vm_compute in lookup_key x_common_table K_wrapErrorsUsing.

Lemma wrap_conflict_1 c x rest : sget c F_WrapErrorsUsing = Some (SStr (x :: rest)) ->
  forall r, parse_common x_common_table c K_wrapErrors r = Diag D_CONFLICT.
Proof.
  intros H r. unfold parse_common. replace (lookup_key x_common_table K_wrapErrors) with ROW_wrapErrors by reflexivity.
  unfold K_wrapErrors, ROW_wrapErrors. unfold F_WrapErrorsUsing in H. rewrite H. reflexivity.
Qed.
Lemma wrap_conflict_2 c : sget c F_WrapErrors = Some (SBool true) ->
  forall r, parse_common x_common_table c K_wrapErrorsUsing r = Diag D_CONFLICT.
Proof.
  intros H r. unfold parse_common. replace (lookup_key x_common_table K_wrapErrorsUsing) with ROW_wrapErrorsUsing by reflexivity.
  unfold K_wrapErrorsUsing, ROW_wrapErrorsUsing. unfold F_WrapErrors in H. rewrite H. reflexivity.
Qed.

(* ---------- the documented key table (docs/reference/settings.md) equals what the source implements ---------- *)
Definition documented_common : list (string * list string) := [
  ("wrapErrors", ["WrapErrors"]); ("wrapErrorsUsing", ["WrapErrorsUsing"]); ("ignoreUnexported", ["IgnoreUnexported"]);
  ("update:ignoreZeroValueField", ["IgnoreBasicZeroValueField"; "IgnoreStructZeroValueField"; "IgnoreNillableZeroValueField"]);
  ("update:ignoreZeroValueField:basic", ["IgnoreBasicZeroValueField"]);
  ("update:ignoreZeroValueField:struct", ["IgnoreStructZeroValueField"]);
  ("update:ignoreZeroValueField:nillable", ["IgnoreNillableZeroValueField"]);
  ("default:update", ["DefaultUpdate"]); ("matchIgnoreCase", ["MatchIgnoreCase"]); ("ignoreMissing", ["IgnoreMissing"]);
  ("skipCopySameType", ["SkipCopySameType"]); ("useZeroValueOnPointerInconsistency", ["UseZeroValueOnPointerInconsistency"]);
  ("useUnderlyingTypeMethods", ["UseUnderlyingTypeMethods"]); ("enum", ["Enum_Enabled"]);
  ("arg:context:regex", ["ArgContextRegex"]); ("enum:unknown", ["Enum_Unknown"]) ]%string.

Lemma table_as_documented :
  map (fun kv => (fst kv, fst (fst (fst (fst (snd kv)))))) x_common_table
  = map (fun kv => (s2r (fst kv), map s2r (snd kv))) documented_common.
Proof. vm_compute. reflexivity. Qed.

(* ---------- totality: the settings front end ends in a record or a diagnostic, never a panic ---------- *)
Lemma parse_common_no_panic tbl c cmd rest s : parse_common tbl c cmd rest <> Panic s.
Proof.
  unfold parse_common. destruct cmd; [discriminate|].
  destruct (lookup_key tbl (n :: cmd)) as [[[[[fs parser] fsetting] guard] enumcheck]|]; [|discriminate].
  destruct (negb _); [discriminate|]. destruct (parser =? 0).
  - unfold parse_bool. destruct (fields rest) as [|f [|? ?]]; cbn [bind]; try discriminate.
    + destruct (enumcheck && _); discriminate.
    + destruct (rstr_eqb f YES); cbn [bind]; [destruct (enumcheck && _); discriminate|].
      destruct (rstr_eqb f NO); cbn [bind]; [destruct (enumcheck && _); discriminate|discriminate].
  - unfold parse_string. destruct (fields rest) as [|f [|? ?]]; cbn [bind]; try discriminate.
    destruct (enumcheck && _); discriminate.
Qed.

Lemma converter_line_no_panic c line s : converter_line c line <> Panic s.
Proof.
  unfold converter_line. destruct (command line) as [cmd rest].
  destruct (is cmd "extend" && _); [discriminate|]. destruct (in_keys x_converter_keys cmd); [discriminate|].
  pose proof (parse_common_no_panic x_common_table c cmd rest s) as H.
  destruct (parse_common x_common_table c cmd rest) as [[c1 b]| |]; cbn [bind]; congruence.
Qed.

Lemma fold_no_panic {A B} (f : A -> B -> res A) : (forall a b s, f a b <> Panic s) ->
  forall l a s, fold_res f l a <> Panic s.
Proof.
  intros H l. induction l as [|b l IH]; intros a s; cbn; [discriminate|].
  pose proof (H a b s). destruct (f a b); cbn [bind]; [apply IH|discriminate|congruence].
Qed.

Theorem converter_settings_total global conv s : converter_smap global conv <> Panic s.
Proof.
  unfold converter_smap. pose proof (fold_no_panic converter_line converter_line_no_panic global default_smap s) as H1.
  destruct (fold_res converter_line global default_smap) as [c1| |]; cbn [bind]; [|discriminate|congruence].
  apply fold_no_panic. exact converter_line_no_panic.
Qed.
