(* TyFacts.v — ty_eqb decides equality of types (the generator compares signatures by it). *)
From Coq Require Import List NArith Bool.
From GV Require Import Base Ty.
Import ListNotations.
Open Scope N_scope.

Lemma ty_eqb_eq : forall a b, ty_eqb a b = true -> a = b.
Proof.
  fix IH 1. intros a b. destruct a as [k|id|x|x|n x|k v|p fs|k i]; destruct b as [k'|id'|x'|x'|n' x'|k' v'|p' fs'|k' i']; cbn [ty_eqb]; try discriminate; intros H.
  - apply N.eqb_eq in H. subst. reflexivity.
  - apply N.eqb_eq in H. subst. reflexivity.
  - apply IH in H. subst. reflexivity.
  - apply IH in H. subst. reflexivity.
  - apply andb_true_iff in H as [Hn Hx]. apply N.eqb_eq in Hn. apply IH in Hx. subst. reflexivity.
  - apply andb_true_iff in H as [Hk Hv]. apply IH in Hk. apply IH in Hv. subst. reflexivity.
  - apply andb_true_iff in H as [Hp Hf]. apply N.eqb_eq in Hp. subst. f_equal.
    revert fs' Hf.
    refine ((fix G (l : list (rstr * ty)) : forall m, _ l m = true -> l = m := _) fs).
    intros m. destruct l as [|[n1 t1] l']; destruct m as [|[n2 t2] m']; intros Hf; try discriminate; [reflexivity|].
    apply andb_true_iff in Hf as [Hf Hr]. apply andb_true_iff in Hf as [Hn Ht].
    apply rstr_eqb_spec in Hn. apply IH in Ht. apply G in Hr. subst. reflexivity.
  - apply andb_true_iff in H as [Hk Hi]. apply N.eqb_eq in Hk. apply N.eqb_eq in Hi. subst. reflexivity.
Qed.

Lemma rstr_eqb_refl (a : rstr) : rstr_eqb a a = true.
Proof. apply rstr_eqb_spec. reflexivity. Qed.

Lemma ty_eqb_refl : forall a, ty_eqb a a = true.
Proof.
  fix IH 1. intros a. destruct a as [k|id|x|x|n x|k v|p fs|k i]; cbn [ty_eqb].
  - apply N.eqb_refl.
  - apply N.eqb_refl.
  - apply IH.
  - apply IH.
  - rewrite N.eqb_refl. apply IH.
  - rewrite (IH k), (IH v). reflexivity.
  - rewrite N.eqb_refl. cbn [andb].
    refine ((fix G (l : list (rstr * ty)) : _ l l = true := _) fs).
    destruct l as [|[n1 t1] l']; [reflexivity|]. rewrite rstr_eqb_refl, (IH t1), (G l'). reflexivity.
  - rewrite !N.eqb_refl. reflexivity.
Qed.

Lemma ty_eqb_iff a b : ty_eqb a b = true <-> a = b.
Proof. split; [apply ty_eqb_eq|intros ->; apply ty_eqb_refl]. Qed.
