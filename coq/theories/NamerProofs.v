From Coq Require Import List NArith Bool String Lia.
From GV Require Import Base Namer.
Import ListNotations.
Open Scope N_scope.

Lemma mem_false_not_in n u : mem n u = false -> ~ In n u.
Proof.
  unfold mem. intros H Hin. assert (X : existsb (rstr_eqb n) u = true); [|congruence].
  apply existsb_exists. exists n. split; [exact Hin|apply rstr_eqb_spec; reflexivity].
Qed.

Lemma search_fresh fuel name i u r : search fuel name i u = Some r -> mem r u = false.
Proof.
  revert i. induction fuel as [|f IH]; intros i; cbn; [discriminate|].
  destruct (mem (cand name i) u) eqn:E; [apply IH|]. intros [= <-]. exact E.
Qed.
Lemma first_unused_fresh cands u r : first_unused cands u = Some r -> mem r u = false.
Proof.
  induction cands as [|c cs IH]; cbn; [discriminate|]. destruct (mem c u) eqn:E; [exact IH|]. intros [= <-]. exact E.
Qed.
Lemma search_index_fresh fuel i u r : search_index fuel i u = Some r -> mem r u = false.
Proof.
  revert i. induction fuel as [|f IH]; intros i; cbn [search_index]; [discriminate|].
  destruct (first_unused (map (fun v => cand v i) index_vars) u) eqn:E; [intros [= <-]; eapply first_unused_fresh; exact E|apply IH].
Qed.
Lemma search_map_fresh fuel i u k v : search_map fuel i u = Some (k, v) -> mem k u = false /\ mem v u = false.
Proof.
  revert i. induction fuel as [|f IH]; intros i; cbn [search_map]; [discriminate|].
  destruct (negb (mem (mcand KEY i) u) && negb (mem (mcand VALUE i) u)) eqn:E; [|apply IH].
  intros [= <- <-]. apply andb_true_iff in E as [A B]. apply negb_true_iff in A, B. auto.
Qed.
Lemma key_value_differ i : mcand KEY i <> mcand VALUE i.
Proof. unfold mcand. destruct (1 <? i); discriminate. Qed.

(* one step: everything returned is fresh w.r.t. the previous state, pairwise distinct, and recorded *)
Lemma step_fresh u o ns u' : step u o = Some (ns, u') ->
  NoDup ns /\ (forall n, In n ns -> ~ In n u) /\ (forall n, In n u' <-> In n ns \/ In n u \/ match o with ORegister r => n = r | _ => False end).
Proof.
  destruct o as [n| | |n]; cbn.
  - unfold op_name. destruct (search _ n 1 u) as [r|] eqn:E; [|discriminate]. intros [= <- <-].
    apply search_fresh in E. split; [repeat constructor; intros []|]. split.
    + intros x [<-|[]]. apply mem_false_not_in. exact E.
    + intros x. cbn. tauto.
  - unfold op_index. destruct (search_index _ 1 u) as [r|] eqn:E; [|discriminate]. intros [= <- <-].
    apply search_index_fresh in E. split; [repeat constructor; intros []|]. split.
    + intros x [<-|[]]. apply mem_false_not_in. exact E.
    + intros x. cbn. tauto.
  - unfold op_map. destruct (search_map _ 0 u) as [[k v]|] eqn:E; [|discriminate]. intros [= <- <-].
    pose proof E as E'. apply search_map_fresh in E as [Ek Ev]. split.
    + constructor; [|repeat constructor; intros []]. intros [X|[]].
      assert (exists i, k = mcand KEY i /\ v = mcand VALUE i) as [i [-> ->]].
      { clear Ek Ev X. revert E'. generalize 0 at 1. generalize (S (S (S (List.length u)))). intros fuel.
        induction fuel as [|f IH]; intros i; cbn [search_map]; [discriminate|].
        destruct (negb _ && negb _); [intros [= <- <-]; eauto|apply IH]. }
      symmetry in X. exact (key_value_differ i X).
    + split.
      * intros x [<-|[<-|[]]]; apply mem_false_not_in; assumption.
      * intros x. cbn. tauto.
  - unfold register. destruct (mem n u) eqn:E; intros [= <- <-]; (split; [constructor|]); (split; [intros x []|]).
    + intros x. cbn. split; [tauto|]. intros [[]|[H|Hx]]; [exact H|]. subst x.
      unfold mem in E. apply existsb_exists in E as [y [Hy Ey]]. apply rstr_eqb_spec in Ey. subst. exact Hy.
    + intros x. cbn. split; [intros [<-|H]; tauto|]. intros [[]|[H|Hx]]; [right; exact H|left; symmetry; exact Hx].
Qed.

Lemma NoDup_app_intro {A} (a b : list A) : NoDup a -> NoDup b -> (forall x, In x a -> In x b -> False) -> NoDup (a ++ b).
Proof.
  induction a as [|x a IH]; intros Ha Hb H; cbn; [exact Hb|]. inversion Ha; subst. constructor.
  - intros Hin. apply in_app_or in Hin as [Hin|Hin]; [contradiction|]. apply (H x); [left; reflexivity|exact Hin].
  - apply IH; [assumption|assumption|]. intros y Hy. apply H. right. exact Hy.
Qed.

(* every history on any initial state: the returned identifiers are pairwise distinct and differ from
   everything that was in use before (in particular from the reserved receiver name "c") *)
Theorem names_fresh ops : forall u ns u', run_ops u ops = Some (ns, u') ->
  NoDup ns /\ (forall n, In n ns -> ~ In n u) /\ (forall n, In n ns \/ In n u -> In n u').
Proof.
  induction ops as [|o ops IH]; intros u ns u' H; cbn in H.
  - inversion H; subst. split; [constructor|]. split; [intros n []|]. intros n [[]|Hn]. exact Hn.
  - destruct (step u o) as [[ms u1]|] eqn:S1; [|discriminate].
    destruct (run_ops u1 ops) as [[ks u2]|] eqn:R; [|discriminate]. inversion H; subst. clear H.
    destruct (step_fresh _ _ _ _ S1) as (ND1 & F1 & I1). destruct (IH _ _ _ R) as (ND2 & F2 & I2).
    split; [|split].
    + apply NoDup_app_intro; [exact ND1|exact ND2|].
      intros x Hx Hk. apply (F2 x Hk). apply I1. left. exact Hx.
    + intros n Hn Hu. apply in_app_or in Hn as [Hn|Hn]; [exact (F1 n Hn Hu)|]. apply (F2 n Hn). apply I1. right. left. exact Hu.
    + intros n [Hn|Hn]; apply I2.
      * apply in_app_or in Hn as [Hn|Hn]; [right; apply I1; left; exact Hn|left; exact Hn].
      * right. apply I1. right. left. exact Hn.
Qed.

Corollary never_the_receiver ops ns u' : run_ops new ops = Some (ns, u') -> ~ In THIS ns.
Proof. intros H Hin. destruct (names_fresh _ _ _ _ H) as (_ & F & _). apply (F THIS Hin). left. reflexivity. Qed.

Example history_example :
  run_ops new [OName (s2r "source"%string); OIndex; OIndex; OMap; OName (s2r "source"%string); ORegister (s2r "key2"%string); OMap]
  = Some (map s2r ["source"; "i"; "j"; "key"; "value"; "source2"; "key3"; "value3"]%string,
          map s2r ["value3"; "key3"; "key2"; "source2"; "value"; "key"; "j"; "i"; "source"; "c"]%string).
Proof. vm_compute. reflexivity. Qed.

(* ---------- termination: the search i = 1, 2, ... always finds an unused candidate within |used| + 1 steps ---------- *)
From Coq Require Import DecimalString DecimalN Decimal Ascii FinFun.

Lemma s2r_inj a b : s2r a = s2r b -> a = b.
Proof.
  unfold s2r. intros H.
  assert (L : list_ascii_of_string a = list_ascii_of_string b).
  { revert H. generalize (list_ascii_of_string a) (list_ascii_of_string b). induction l as [|x l IH]; intros [|y m]; cbn; intros H; try discriminate; [reflexivity|].
    inversion H as [[Hx Hl]]. f_equal; [|apply IH; exact Hl].
    rewrite <- (ascii_N_embedding x), <- (ascii_N_embedding y), Hx. reflexivity. }
  rewrite <- (string_of_list_ascii_of_string a), <- (string_of_list_ascii_of_string b), L. reflexivity.
Qed.

Lemma dec_inj i j : dec i = dec j -> i = j.
Proof.
  unfold dec. intros H. apply s2r_inj in H.
  assert (X : NilEmpty.uint_of_string (NilEmpty.string_of_uint (N.to_uint i)) = NilEmpty.uint_of_string (NilEmpty.string_of_uint (N.to_uint j))) by (rewrite H; reflexivity).
  rewrite !NilEmpty.usu in X. injection X as X.
  rewrite <- (DecimalN.Unsigned.of_to i), <- (DecimalN.Unsigned.of_to j), X. reflexivity.
Qed.

Lemma dec_nonempty i : dec i <> [].
Proof.
  intros H. assert (E : dec i = s2r ""%string) by exact H. unfold dec in E. apply s2r_inj in E.
  assert (X : NilEmpty.uint_of_string (NilEmpty.string_of_uint (N.to_uint i)) = NilEmpty.uint_of_string ""%string) by (rewrite E; reflexivity).
  rewrite NilEmpty.usu in X. cbn in X. injection X as X.
  pose proof (DecimalN.Unsigned.of_to i) as Y. rewrite X in Y. cbn in Y. subst i. discriminate X.
Qed.

Lemma app_inj_l {A} (a b c : list A) : a ++ b = a ++ c -> b = c.
Proof. induction a; cbn; [auto|]. intros [= H]. auto. Qed.

Lemma cand_inj name i j : cand name i = cand name j -> i = j.
Proof.
  unfold cand. destruct (N.eqb_spec i 1) as [->|Hi], (N.eqb_spec j 1) as [->|Hj]; intros H; try reflexivity.
  - exfalso. rewrite <- (app_nil_r name) in H at 1. apply app_inj_l in H. symmetry in H. exact (dec_nonempty j H).
  - exfalso. rewrite <- (app_nil_r name) in H at 2. apply app_inj_l in H. exact (dec_nonempty i H).
  - apply app_inj_l in H. apply dec_inj. exact H.
Qed.

(* if the search runs out of fuel, all the candidates it tried are in use *)
Lemma search_none fuel name i u : search fuel name i u = None ->
  forall k, (k < fuel)%nat -> In (cand name (i + N.of_nat k)) u.
Proof.
  revert i. induction fuel as [|f IH]; intros i H k Hk; [lia|]. cbn in H.
  destruct (mem (cand name i) u) eqn:E; [|discriminate].
  destruct k as [|k].
  - rewrite N.add_0_r. unfold mem in E. apply existsb_exists in E as [y [Hy Ey]]. apply rstr_eqb_spec in Ey. subst. exact Hy.
  - replace (i + N.of_nat (S k)) with ((i + 1) + N.of_nat k) by lia. apply IH; [exact H|lia].
Qed.

Theorem name_terminates name u : exists r u', op_name name u = Some (r, u').
Proof.
  unfold op_name. destruct (search (S (List.length u)) name 1 u) as [r|] eqn:E; [eauto|]. exfalso.
  pose proof (search_none _ _ _ _ E) as H.
  set (cs := map (fun k => cand name (1 + N.of_nat k)) (seq 0 (S (List.length u)))).
  assert (ND : NoDup cs).
  { unfold cs. apply FinFun.Injective_map_NoDup; [|apply seq_NoDup].
    intros a b Hab. apply cand_inj in Hab. lia. }
  assert (INC : incl cs u).
  { intros x Hx. unfold cs in Hx. apply in_map_iff in Hx as [k [<- Hk]]. apply in_seq in Hk. apply H. lia. }
  pose proof (NoDup_incl_length ND INC) as L. unfold cs in L. rewrite map_length, seq_length in L. lia.
Qed.
