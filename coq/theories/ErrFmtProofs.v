From Coq Require Import List ZArith Lia Bool.
From GV Require Import ErrFmt.
Import ListNotations.
Open Scope Z_scope.

(* with the guard in space(), rendering a diagnostic with a non-empty path never panics *)
Theorem to_string_total ps : ps <> [] -> panics true ps = false.
Proof. intros H. unfold panics, to_string_args. destruct ps; [congruence|reflexivity]. Qed.

(* Lift never produces an empty path: paths reaching ToString are non-empty *)
Lemma lift_nonempty (p : path) (ps : list path) : p :: ps <> [].
Proof. discriminate. Qed.

(* without the guard the function does panic: the witness is the path built for `goverter:autoMap .` *)
Definition witness : list path :=
  [ {| prefix_len := 0; sid_len := 6; tid_len := 6; has_stype := true; has_ttype := true |};
    {| prefix_len := 1; sid_len := 0; tid_len := 0; has_stype := true; has_ttype := false |} ].
Lemma unguarded_refuted : panics false witness = true.
Proof. vm_compute. reflexivity. Qed.

(* ... and is safe exactly when every element that carries a type has a non-empty id *)
Definition good (p : path) : Prop :=
  0 <= prefix_len p /\ 0 <= sid_len p /\ 0 <= tid_len p /\
  ((has_stype p = true \/ has_ttype p = true) -> 1 <= Z.max (sid_len p) (tid_len p)).

Lemma Forall_repeat {A} (P : A -> Prop) x n : P x -> Forall P (repeat x n).
Proof. intros H. induction n; cbn; constructor; auto. Qed.
Lemma Forall_concat_repeat {A} (P : A -> Prop) l n : Forall P l -> Forall P (concat (repeat l n)).
Proof. intros H. induction n; cbn; [constructor|]. apply Forall_app; auto. Qed.

Lemma space_args_ok sl tl ps : Forall good ps -> forall stl ttl, Forall (fun n => 0 <= n) (space_args sl tl stl ttl ps).
Proof.
  induction 1 as [|p ps (Hp & Hs & Ht & Hm) _ IH]; intros stl ttl; cbn [space_args]; [constructor|].
  apply Forall_app; split; [|apply Forall_app; split; [|apply Forall_app; split; [|apply IH]]].
  - destruct (has_stype p) eqn:E.
    + apply Forall_app; split; [constructor; [lia|constructor]|].
      apply Forall_concat_repeat. constructor; [lia|]. constructor; [|constructor].
      assert (1 <= Z.max (sid_len p) (tid_len p)) by (apply Hm; left; reflexivity). lia.
    + apply Forall_repeat. lia.
  - constructor; [lia|constructor].
  - destruct (has_ttype p) eqn:E.
    + assert (1 <= Z.max (sid_len p) (tid_len p)) by (apply Hm; right; reflexivity).
      apply Forall_app; split; [constructor; [lia|constructor]|].
      apply Forall_app; split; [|constructor; [lia|constructor]].
      apply Forall_concat_repeat. constructor; [lia|]. constructor; [lia|constructor].
    + apply Forall_repeat. lia.
Qed.

Theorem unguarded_total_on_good ps : ps <> [] -> Forall good ps -> panics false ps = false.
Proof.
  intros Hne H. unfold panics, to_string_args. destruct ps as [|p ps]; [congruence|].
  set (args := space_args _ _ _ _ _).
  assert (A : Forall (fun n => 0 <= n) args) by (apply space_args_ok; exact H).
  clearbody args. induction A as [|n l Hn _ IH]; cbn; [reflexivity|].
  rewrite IH, orb_false_r. apply Z.ltb_ge. exact Hn.
Qed.
