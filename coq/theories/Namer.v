(* Namer.v — model of namer/namer.go: allocation of identifiers inside a generated method
   (Name, Index, Map, Register) and of sub-method names per output file. *)
From Coq Require Import List NArith Bool String DecimalString.
From GV Require Import Base.
Import ListNotations.
Open Scope N_scope.

Definition used := list rstr.
Definition mem (n : rstr) (u : used) : bool := existsb (rstr_eqb n) u.
Definition dec (n : N) : rstr := s2r (NilEmpty.string_of_uint (N.to_uint n)).

(* namer.New(): the receiver name "c" (xtype.ThisVar) is reserved *)
Definition THIS : rstr := s2r "c"%string.
Definition new : used := [THIS].

Definition register (n : rstr) (u : used) : bool * used := if mem n u then (false, u) else (true, n :: u).

(* Name(name): name, name2, name3, ... — the first unused one *)
Definition cand (name : rstr) (i : N) : rstr := if i =? 1 then name else name ++ dec i.
Fixpoint search (fuel : nat) (name : rstr) (i : N) (u : used) : option rstr :=
  match fuel with
  | O => None
  | S f => if mem (cand name i) u then search f name (i + 1) u else Some (cand name i)
  end.
Definition op_name (name : rstr) (u : used) : option (rstr * used) :=
  match search (S (List.length u)) name 1 u with
  | Some n => Some (n, n :: u)
  | None => None
  end.

(* Index(): i, j, ..., z, i2, j2, ... *)
Definition index_vars : list rstr := map s2r ["i"; "j"; "k"; "l"; "m"; "n"; "o"; "p"; "q"; "r"; "s"; "t"; "u"; "v"; "w"; "x"; "y"; "z"]%string.
Fixpoint first_unused (cands : list rstr) (u : used) : option rstr :=
  match cands with
  | [] => None
  | c :: r => if mem c u then first_unused r u else Some c
  end.
Fixpoint search_index (fuel : nat) (i : N) (u : used) : option rstr :=
  match fuel with
  | O => None
  | S f => match first_unused (map (fun v => cand v i) index_vars) u with
           | Some n => Some n
           | None => search_index f (i + 1) u
           end
  end.
Definition op_index (u : used) : option (rstr * used) :=
  match search_index (S (List.length u)) 1 u with
  | Some n => Some (n, n :: u)
  | None => None
  end.

(* Map(): key/value, key2/value2, ... (rounds 0 and 1 both try the bare names) — both must be unused *)
Definition KEY : rstr := s2r "key"%string. Definition VALUE : rstr := s2r "value"%string.
Definition mcand (base : rstr) (i : N) : rstr := if 1 <? i then base ++ dec i else base.
Fixpoint search_map (fuel : nat) (i : N) (u : used) : option (rstr * rstr) :=
  match fuel with
  | O => None
  | S f => if negb (mem (mcand KEY i) u) && negb (mem (mcand VALUE i) u) then Some (mcand KEY i, mcand VALUE i)
           else search_map f (i + 1) u
  end.
Definition op_map (u : used) : option (rstr * rstr * used) :=
  match search_map (S (S (S (List.length u)))) 0 u with
  | Some (k, v) => Some (k, v, v :: k :: u)
  | None => None
  end.

(* operation histories *)
Inductive nop := OName (n : rstr) | OIndex | OMap | ORegister (n : rstr).
Definition step (u : used) (o : nop) : option (list rstr * used) :=   (* names returned, new state *)
  match o with
  | OName n => match op_name n u with Some (r, u') => Some ([r], u') | None => None end
  | OIndex => match op_index u with Some (r, u') => Some ([r], u') | None => None end
  | OMap => match op_map u with Some (k, v, u') => Some ([k; v], u') | None => None end
  | ORegister n => let '(_, u') := register n u in Some ([], u')
  end.
Fixpoint run_ops (u : used) (ops : list nop) : option (list rstr * used) :=
  match ops with
  | [] => Some ([], u)
  | o :: r => match step u o with
              | Some (ns, u') => match run_ops u' r with Some (ms, u'') => Some (ns ++ ms, u'') | None => None end
              | None => None
              end
  end.
