From Coq Require Import List NArith Bool Lia String.
From GV Require Import Base Extracted Comment CommentProofs Markers.
Import ListNotations.
Open Scope N_scope.

(* ---------- parse.Command ---------- *)
Lemma break_sp_spec l :
  let '(a, ob) := break_sp l in
  ~ In SP a /\ match ob with Some b => l = a ++ SP :: b | None => l = a end.
Proof.
  induction l as [|c l IH]; cbn.
  - split; [intros []|reflexivity].
  - destruct (N.eqb_spec c SP) as [->|Hc].
    + split; [intros []|reflexivity].
    + destruct (break_sp l) as [a ob]. destruct IH as [Ha Hl]. split.
      * intros [X|X]; [congruence|auto].
      * destruct ob; cbn; rewrite Hl at 1; reflexivity.
Qed.

(* the command is the text before the first space, the value everything after it *)
Lemma command_split v a b : command v = (a, b) ->
  ~ In SP a /\ (v = a ++ SP :: b \/ (v = a /\ b = [])).
Proof.
  unfold command. pose proof (break_sp_spec v) as H. destruct (break_sp v) as [a' [b'|]]; intros E; inversion E; subst;
    destruct H as [Ha Hv]; split; auto.
Qed.

(* ---------- strings.Contains ---------- *)
Lemma is_prefix_iff p l : is_prefix p l = true <-> exists b, l = p ++ b.
Proof.
  revert l. induction p as [|a p IH]; intros l; cbn.
  - split; [intros _; exists l; reflexivity|auto].
  - destruct l as [|c l]; [split; [discriminate|intros [b Hb]; discriminate]|].
    rewrite andb_true_iff, N.eqb_eq, IH. split.
    + intros [-> [b ->]]. exists b. reflexivity.
    + intros [b Hb]. inversion Hb; subst. split; [reflexivity|exists b; reflexivity].
Qed.

Lemma contains_iff p l : contains p l = true <-> exists a b, l = a ++ p ++ b.
Proof.
  induction l as [|c l IH].
  - cbn. rewrite orb_false_r, is_prefix_iff. split.
    + intros [b Hb]. exists [], b. exact Hb.
    + intros [a [b H]]. destruct a; [exists b; exact H|discriminate].
  - cbn [contains]. rewrite orb_true_iff, is_prefix_iff, IH. split.
    + intros [[b Hb]|[a [b Hb]]]; [exists [], b; exact Hb|exists (c :: a), b; cbn; rewrite Hb; reflexivity].
    + intros [a [b H]]. destruct a as [|x a]; [left; exists b; exact H|right]. inversion H; subst. exists a, b. reflexivity.
Qed.

(* ---------- marker detection ---------- *)
Definition spec_marked (s : dspec) : bool := is_typespec s && has_marker x_converter_marker (s_doc s).
Definition decl_marked (d : gdecl) : bool :=
  has_marker x_variables_marker (d_doc d) || has_marker x_converter_marker (d_doc d) || existsb spec_marked (d_specs d).

Lemma parse_specs_nonempty ss cs : parse_specs ss = Ok cs -> (cs <> [] <-> existsb spec_marked ss = true).
Proof.
  revert cs. induction ss as [|s ss IH]; cbn [parse_specs existsb]; intros cs H.
  - inversion H; subst. split; [congruence|discriminate].
  - fold (spec_marked s) in *. destruct (spec_marked s) eqn:Ms; cbn [orb].
    + destruct (parse_interface s (s_doc s)); cbn in H; try discriminate.
      destruct (parse_specs ss); cbn in H; try discriminate. inversion H; subst. split; [reflexivity|discriminate].
    + apply IH. exact H.
Qed.

(* a declaration yields a converter exactly when an attached doc comment carries a marker *)
Lemma converter_iff_marked d cs : parse_gen_decl d = Ok cs -> (cs <> [] <-> decl_marked d = true).
Proof.
  unfold parse_gen_decl, decl_marked. intros H.
  destruct (has_marker x_variables_marker (d_doc d)); cbn [orb].
  - destruct (negb _); [discriminate|]. destruct (map_res parse_value (d_specs d)); cbn in H; try discriminate.
    inversion H; subst. split; [reflexivity|discriminate].
  - destruct (has_marker x_converter_marker (d_doc d)); cbn [orb].
    + destruct (negb _); [discriminate|]. destruct (d_specs d) as [|s [|s2 r]]; try discriminate.
      destruct (is_typespec s); [|discriminate]. destruct (parse_interface s (d_doc d)); cbn in H; try discriminate.
      inversion H; subst. split; [reflexivity|discriminate].
    + apply parse_specs_nonempty. exact H.
Qed.

(* a marker on the wrong kind of (general) declaration is an error *)
Lemma variables_marker_wrong_kind d :
  has_marker x_variables_marker (d_doc d) = true -> d_tok d <> TVar -> parse_gen_decl d = Diag E_VARS_NOT_VAR.
Proof.
  unfold parse_gen_decl. intros -> Ht. destruct (d_tok d); cbn; try reflexivity. congruence.
Qed.

Lemma converter_marker_wrong_kind d :
  has_marker x_variables_marker (d_doc d) = false -> has_marker x_converter_marker (d_doc d) = true ->
  d_tok d <> TType -> parse_gen_decl d = Diag E_CONV_NOT_TYPE.
Proof.
  unfold parse_gen_decl. intros -> -> Ht. destruct (d_tok d); cbn; try reflexivity. congruence.
Qed.

Lemma parse_specs_non_iface ss s :
  In s ss -> spec_marked s = true -> s_shape s = STypeOther -> exists c, parse_specs ss = Diag c.
Proof.
  induction ss as [|s0 ss IH]; [intros []|]. intros [->|Hin] Hm Hs; cbn [parse_specs].
  - fold (spec_marked s). rewrite Hm. unfold parse_interface. rewrite Hs. cbn. eauto.
  - fold (spec_marked s0). destruct (spec_marked s0).
    + destruct (parse_interface s0 (s_doc s0)) as [c0|c0|p0] eqn:E0; cbn; eauto.
      * destruct (IH Hin Hm Hs) as [c ->]. cbn. eauto.
      * (* parse_interface never panics *) unfold parse_interface in E0. destruct (s_shape s0); try discriminate.
        assert (P : forall ms, map_res parse_method ms <> Panic p0).
        { induction ms as [|m ms IHm]; cbn; [discriminate|]. unfold parse_method at 1.
          destruct (m_names m) as [|n [|n2 r]]; cbn; try discriminate.
          destruct (map_res parse_method ms) eqn:E; cbn; try discriminate. congruence. }
        destruct (map_res parse_method methods) eqn:E; cbn in E0; try discriminate. exfalso. eapply P. rewrite E. congruence.
    + auto.
Qed.

Lemma converter_marker_on_non_interface d s :
  has_marker x_variables_marker (d_doc d) = false -> has_marker x_converter_marker (d_doc d) = false ->
  In s (d_specs d) -> spec_marked s = true -> s_shape s = STypeOther -> exists c, parse_gen_decl d = Diag c.
Proof. unfold parse_gen_decl. intros -> -> Hin Hm Hs. eapply parse_specs_non_iface; eauto. Qed.

(* the converter-level lines are exactly the goverter: lines of the attached doc, in order *)
Lemma variables_lines d c : Forall well_lexed (d_doc d) ->
  has_marker x_variables_marker (d_doc d) = true -> parse_gen_decl d = Ok [c] -> rc_lines c = spec (d_doc d).
Proof.
  unfold parse_gen_decl. intros W -> H. destruct (negb _); [discriminate|].
  destruct (map_res parse_value (d_specs d)); cbn in H; try discriminate. inversion H; subst. cbn.
  apply setting_lines_spec. exact W.
Qed.

Lemma method_lines ms methods : Forall (fun m => Forall well_lexed (m_doc m)) ms ->
  map_res parse_method ms = Ok methods ->
  map snd methods = map (fun m => spec (m_doc m)) ms.
Proof.
  revert methods. induction ms as [|m ms IH]; cbn; intros methods W H.
  - inversion H; subst. reflexivity.
  - inversion W; subst. unfold parse_method at 1 in H. destruct (m_names m) as [|n [|n2 r]]; cbn in H; try discriminate.
    destruct (map_res parse_method ms) eqn:E; cbn in H; try discriminate. inversion H; subst. cbn.
    f_equal; [apply setting_lines_spec; assumption|apply IH; auto].
Qed.

(* (F-C19-2, fixed) a marker on a function declaration is an error, no marker: nothing *)
Lemma funcdecl_marker doc :
  parse_decl (DFunc doc) =
  if has_marker x_converter_marker doc || has_marker x_variables_marker doc then Diag E_ON_FUNC else Ok [].
Proof. reflexivity. Qed.

Example marked_example :
  let d := {| d_tok := TType; d_doc := [LineC (SP :: x_converter_marker); LineC (s2r " goverter:name  Foo"%string)];
              d_specs := [ {| s_name := s2r "C"%string; s_doc := []; s_shape := SIface [ {| m_names := [s2r "Conv"%string]; m_doc := [LineC (s2r " goverter:ignore A B"%string)] |} ] |} ] |} in
  parse_gen_decl d = Ok [ {| rc_iface := s2r "C"%string; rc_lines := [s2r "converter"%string; s2r "name  Foo"%string]; rc_methods := [(s2r "Conv"%string, [s2r "ignore A B"%string])] |} ].
Proof. vm_compute. reflexivity. Qed.
