(* Cli.v — cli/parse.go Parse / parseGen (with the part of the standard flag package they rely on),
   cli/run.go Run (exit status), runner.go GenerateConverters / writeFiles as a file-system transition. *)
From Coq Require Import List NArith Bool String.
From GV Require Import Base Ty Conf Extracted.
Import ListNotations.
Open Scope N_scope.

Definition DASH : N := 45. Definition EQ : N := 61.

Inductive fres := FOk (assign : list (rstr * rstr)) (rest : list rstr) | FHelp | FErr.

Fixpoint split_eq (l : rstr) : rstr * option rstr :=
  match l with
  | [] => ([], None)
  | c :: r => if c =? EQ then ([], Some r) else let '(a, b) := split_eq r in (c :: a, b)
  end.

(* flag.FlagSet.Parse for a set of value-taking flags (no boolean flags are defined by goverter) *)
Fixpoint flag_parse (defined : list rstr) (args : list rstr) (acc : list (rstr * rstr)) : fres :=
  match args with
  | [] => FOk (rev acc) []
  | a :: r =>
    match a with
    | c0 :: c1 :: rest1 =>
      if negb (c0 =? DASH) then FOk (rev acc) args
      else
        let name0 := if c1 =? DASH then rest1 else c1 :: rest1 in
        if (c1 =? DASH) && match rest1 with [] => true | _ => false end then FOk (rev acc) r      (* "--" *)
        else match name0 with
             | [] => FErr
             | h :: _ =>
               if (h =? DASH) || (h =? EQ) then FErr
               else
                 let '(name, val) := split_eq name0 in
                 if negb (existsb (rstr_eqb name) defined)
                 then (if rstr_eqb name (s2r "help"%string) || rstr_eqb name (s2r "h"%string) then FHelp else FErr)
                 else match val with
                      | Some v => flag_parse defined r ((name, v) :: acc)
                      | None => match r with
                                | v :: r' => flag_parse defined r' ((name, v) :: acc)
                                | [] => FErr
                                end
                      end
             end
    | _ => FOk (rev acc) args        (* "" and "-" are not flags *)
    end
  end.

Inductive command :=
| CHelp | CVersion | CUsage
| CGenerate (globals : list rstr) (build_tags constraint cwd : rstr) (patterns : list rstr).

Definition last_of (k : list rstr) (assign : list (rstr * rstr)) (dflt : rstr) : rstr :=
  fold_left (fun acc kv => if existsb (rstr_eqb (fst kv)) k then snd kv else acc) assign dflt.

Definition GEN_FLAGS : list rstr := map s2r ["global"; "g"; "build-tags"; "output-constraint"; "cwd"]%string.

Definition parse_gen (args : list rstr) : command :=
  match flag_parse GEN_FLAGS args [] with
  | FHelp => CHelp
  | FErr => CUsage
  | FOk assign patterns =>
    match patterns with
    | [] => CUsage                      (* missing PATTERN *)
    | _ => CGenerate (map snd (filter (fun kv => rstr_eqb (fst kv) (s2r "global"%string) || rstr_eqb (fst kv) (s2r "g"%string)) assign))
                     (last_of [s2r "build-tags"%string] assign x_default_build_tags)
                     (last_of [s2r "output-constraint"%string] assign x_default_output_constraint)
                     (last_of [s2r "cwd"%string] assign [])
                     patterns
    end
  end.

(* cli.Parse: args[0] is the program name *)
Definition parse (args : list rstr) : command :=
  match args with
  | [] => CUsage
  | _ :: rest =>
    match flag_parse [] rest [] with
    | FHelp => CHelp
    | FErr => CUsage
    | FOk _ sub =>
      match sub with
      | [] => CUsage                    (* missing command *)
      | s :: r => if rstr_eqb s (s2r "gen"%string) then parse_gen r
                  else if rstr_eqb s (s2r "version"%string) then CVersion
                  else if rstr_eqb s (s2r "help"%string) then CHelp
                  else CUsage
      end
    end
  end.

(* ---------------- the run as a file-system transition ---------------- *)
(* file system: path -> (content id, mode) *)
Definition fsys := list (rstr * (N * N)).
Definition fs_get (fs : fsys) (p : rstr) : option (N * N) :=
  match find (fun kv => rstr_eqb (fst kv) p) fs with Some kv => Some (snd kv) | None => None end.
Definition fs_write (fs : fsys) (p : rstr) (content : N) : fsys :=
  match fs_get fs p with
  | Some (_, mode) => (p, (content, mode)) :: filter (fun kv => negb (rstr_eqb (fst kv) p)) fs   (* existing file: mode kept *)
  | None => (p, (content, x_file_mode)) :: fs
  end.

(* generation result: every converter yields its output file and content, or fails *)
Definition gen_result := list (option (rstr * N)).

Definition all_ok (g : gen_result) : bool := forallb (fun o => match o with Some _ => true | None => false end) g.

(* GenerateConverters: everything is generated in memory; files are written only if no converter failed *)
Definition run_generate (g : gen_result) (fs : fsys) : fsys * N :=
  if x_write_only_after_success && negb (all_ok g) then (fs, 1)
  else if all_ok g then (fold_left (fun f o => match o with Some (p, c) => fs_write f p c | None => f end) g fs, 0)
  else (* incremental writing (not what the source does): files of the converters before the failing one *)
       ((fix go (l : gen_result) (f : fsys) := match l with Some (p, c) :: r => go r (fs_write f p c) | _ => f end) g fs, 1).

Definition exit_status (c : command) (generation_ok : bool) : N :=
  match c with
  | CHelp => x_exit_help
  | CVersion => 0
  | CUsage => x_exit_usage
  | CGenerate _ _ _ _ _ => if generation_ok then 0 else x_exit_generate_error
  end.
