(* Plan.v — the semantic IR of emitted conversion code (DESIGN 3.1). One constructor per
   code template of the builders; two sorts: vplan = Build (yields a value from the current
   source expression), aplan = Assign (updates an l-value given its old content). *)
From Coq Require Import List NArith ZArith Bool.
From GV Require Import Base Ty Conf.
Import ListNotations.
Open Scope N_scope.

Inductive wrapk := WNone | WKeepPtr | WAddr.

(* what a case of an enum switch does: assign a member value, nothing, panic, return an error *)
Inductive eaction := EASet (v : Z) | EAIgnore | EAPanic | EAError.

(* how an argument of a called function / method is supplied *)
Inductive argsrc := ArgSource | ArgCtx (t : ty) | ArgConv.
Inductive callee := CFn (f : N) | CMeth (m : N).

(* which part of the source a struct field is filled from (builder/struct.go mapField) *)
Inductive selector :=
| SelWhole                                            (* goverter:map . F *)
| SelPath (steps : list (bool * N)) (w : wrapk)       (* per element: nil-guarded deref first?, field index;
                                                         w: how the result is wrapped when a pointer was crossed *)
| SelMeth (steps : list (bool * N)) (rd : bool) (f : N) (args : list argsrc) (fallible : bool) (w : wrapk).
                                                      (* the path ends in an argument-less method of the value reached by
                                                         steps (rd: after a nil-guarded dereference): custom function f called on that value (receiver) *)

Inductive vplan :=
| PId                                   (* the source expression itself, possibly cast: Basic, empty struct *)
| PShare                                (* SkipCopy: source used as is (aliases) *)
| PRef (alias : bool) (v : vplan)       (* x := v; &x   (alias: &source-lvalue, no copy) *)
| PCall (m : N)                         (* declared or generated method m applied to the source (no context, no error) *)
| PCallX (c : callee) (args : list argsrc) (fallible : bool)
                                        (* custom function, or method with context arguments / error result:
                                           x[, err] := f(args); if err != nil { return ..., wrap(err) } *)
| POfAssign (t : ty) (a : aplan)        (* var x T; a(x); x *)
| PInit (init : vplan) (to_ptr : bool) (a : aplan)
                                        (* default FUNC: x := init(source) [; x := &x]; a(x); x *)
| PMakeList (elem : ty) (a : aplan)     (* x := make([]T, len(source)); a(x); x — list from a fixed array *)
| PEnum (init : option (vplan * bool)) (t : ty) (cases : list (Z * eaction)) (dflt : eaction)
                                        (* var x T (or default FUNC); switch source { case v: action ... default: action }; x *)
with aplan :=
| ASet (v : vplan)                      (* lhs = v *)
| APtr (v : vplan)                      (* if s != nil { x := v(deref s); lhs = &x } *)
| ASrcPtr (v : vplan)                   (* if s != nil { lhs = v(deref s) } *)
| AList (fixed_src : bool) (elem : ty) (a : aplan)
                                        (* [if s != nil { lhs = make(T, len(s));] for i { a(lhs[i]) } [}] *)
| AMap (k : vplan) (v : vplan)          (* if s != nil { lhs = make; for k, v := range s { lhs[k(k)] = v(v) } } *)
| AStruct (fs : list fplan)             (* one entry per target field, in declaration order *)
| AIfNotNil (a : aplan)                 (* update with pointer source: if s != nil { a on deref s } *)
| ADerefTgt (a : aplan)                 (* a on *lhs (default FUNC returning / producing a pointer) *)
with fplan :=
| FSkip                                 (* field not assigned *)
| FAssign (name : rstr) (sel : selector) (zero_guard : bool) (a : aplan)   (* target field name: error path element *)
| FCall (name : rstr) (sel : option selector) (zero_guard : bool) (v : vplan).
                                        (* map [SRC] F | FUNC: lhs.F = FUNC(selected source part) *)

Inductive body := BVal (p : vplan) | BUpd (a : aplan)
  | BTail (p : vplan).   (* return f(args): the body delegates to an extend function; its error is returned as is *)

Record gmethod := {
  g_name : rstr; g_src : ty; g_tgt : ty;
  g_explicit : bool; g_dirty : bool; g_update : bool;
  g_conf : mconf;
  g_origin : list N;
  g_ctx : list ty;          (* context parameters (declared, or retrofitted on generated methods) *)
  g_ret_err : bool;         (* has an error result *)
  g_body : option body;
  g_types : list ty        (* every type the emitted body and signature render (xtype TypeAsJen / ZeroValue): decides the imports *)
}.
Definition table := list gmethod.

(* share-free plans (C04): no SkipCopy plan, no aliasing address-of; DeepCopyFacts.v proves that such plans, against a
   table of such bodies, only hand out addresses they allocated themselves *)
Fixpoint sf_v (p : vplan) : bool :=
  match p with
  | PId | PCall _ | PCallX _ _ _ => true
  | PShare => false
  | PRef al v => negb al && sf_v v
  | POfAssign _ a => sf_a a
  | PInit i _ a => sf_v i && sf_a a
  | PMakeList _ a => sf_a a
  | PEnum i _ _ _ => match i with Some (ip, _) => sf_v ip | None => true end
  end
with sf_a (a : aplan) : bool :=
  match a with
  | ASet v | APtr v | ASrcPtr v => sf_v v
  | AList _ _ a' => sf_a a'
  | AMap k v => sf_v k && sf_v v
  | AStruct fs => forallb (fun f => match f with
                                    | FSkip => true
                                    | FAssign _ _ _ a' => sf_a a'
                                    | FCall _ _ _ v => sf_v v
                                    end) fs
  | AIfNotNil a' => sf_a a'
  | ADerefTgt a' => sf_a a'
  end.

Definition sf_body (b : option body) : bool :=
  match b with Some (BVal p) => sf_v p | Some (BTail p) => sf_v p | Some (BUpd a) => sf_a a | None => true end.
Definition sf_tableb (M : table) : bool := forallb (fun m => sf_body (g_body m)) M.

(* custom functions (extend, map | FUNC, default FUNC) *)
Record fdecl := { fd_name : rstr; fd_pkg : N; fd_src : option ty; fd_ctx : list ty; fd_conv : bool; fd_tgt : ty; fd_err : bool;
                  fd_args : list argsrc (* parameters in declared order *) }.
Definition ftable := list fdecl.
