From Coq Require Import List Bool Arith Lia.
From GV Require Import Sig.
Import ListNotations.

(* non-failing part of the loop *)
Definition final_step (rs : list rkind) (s : st) (p : param) : st :=
  match role_of p with
  | RoleConv => {| s_uses := UInterface :: s_uses s; s_src := s_src s; s_upd := s_upd s; s_reterr := s_reterr s; s_multi := s_multi s |}
  | RoleTarget => {| s_uses := UTarget :: s_uses s; s_src := s_src s; s_upd := true;
                     s_reterr := s_reterr s || match rs with [RErr] => true | _ => false end; s_multi := s_multi s |}
  | RoleCtx => {| s_uses := UContext :: s_uses s; s_src := s_src s; s_upd := s_upd s; s_reterr := s_reterr s; s_multi := s_multi s |}
  | RoleSrc => if s_src s
               then {| s_uses := UMulti :: s_uses s; s_src := true; s_upd := s_upd s; s_reterr := s_reterr s; s_multi := S (s_multi s) |}
               else {| s_uses := USource :: s_uses s; s_src := true; s_upd := s_upd s; s_reterr := s_reterr s; s_multi := s_multi s |}
  end.

Lemma step_eq rs s p :
  step rs s p = if is_tgt_role (role_of p) && negb (results_ok_update rs) then inl EUpdateSig else inr (final_step rs s p).
Proof.
  unfold step, final_step, role_of. destruct (is_conv p); [reflexivity|]. destruct (is_upd p); cbn.
  - destruct rs as [|[|] [|? ?]]; cbn; rewrite ?orb_true_r, ?orb_false_r; reflexivity.
  - destruct (is_ctx p); [reflexivity|]. destruct (s_src s); reflexivity.
Qed.

Lemma run_eq rs ps s :
  run rs ps s = if has_upd ps && negb (results_ok_update rs) then inl EUpdateSig
                else inr (fold_left (final_step rs) ps s).
Proof.
  revert s. induction ps as [|p ps IH]; intros s; cbn [run fold_left].
  - reflexivity.
  - rewrite step_eq. unfold has_upd. cbn [map existsb]. fold (has_upd ps).
    destruct (is_tgt_role (role_of p)); cbn [orb andb].
    + destruct (negb (results_ok_update rs)) eqn:E; [reflexivity|]. rewrite IH, andb_false_r. reflexivity.
    + apply IH.
Qed.

(* what the loop computes *)
Lemma fold_final rs ps s :
  let s' := fold_left (final_step rs) ps s in
  rev (s_uses s') = rev (s_uses s) ++ uses_of (s_src s) (map role_of ps)
  /\ s_src s' = (s_src s || negb (Nat.eqb (nsrc ps) 0))
  /\ s_upd s' = (s_upd s || has_upd ps)
  /\ s_reterr s' = (s_reterr s || (has_upd ps && match rs with [RErr] => true | _ => false end))
  /\ s_multi s' = s_multi s + (nsrc ps - (if s_src s then 0 else 1)).
Proof.
  revert s. induction ps as [|p ps IH]; intros s; cbn [fold_left].
  - cbn. rewrite app_nil_r, !orb_false_r. repeat split; lia.
  - specialize (IH (final_step rs s p)). cbn zeta in IH. destruct IH as (U & S1 & S2 & S3 & S4).
    rewrite U, S1, S2, S3, S4. clear U S1 S2 S3 S4.
    unfold final_step, nsrc, has_upd. cbn [map filter existsb uses_of].
    destruct (role_of p); cbn [is_src_role is_tgt_role s_uses s_src s_upd s_reterr s_multi rev length orb andb uses_of].
    all: rewrite <- ?app_assoc; repeat split; try reflexivity.
    all: try (destruct (s_src s); cbn [s_uses s_src s_upd s_reterr s_multi rev orb app]; rewrite <- ?app_assoc).
    all: try reflexivity.
    all: try (rewrite orb_true_r; reflexivity).
    all: try lia.
    all: destruct (s_reterr s), (existsb is_tgt_role (map role_of ps)); destruct rs as [|[|] [|? ?]]; reflexivity.
Qed.

Definition wf (o : opts) (f : fn) : Prop := has_upd (params f) = true -> o_update o = true.

(* classification = specification: accepted iff valid, and then exactly the expected roles *)
Ltac leaf :=
  cbn; intros; subst; first [ split; [discriminate | intros [H _]; discriminate H]
             | split; [intros [= <-]; split; reflexivity | intros [_ ->]; reflexivity] ].

Theorem classify_spec o f : wf o f ->
  forall d, classify o f = inr d <-> (valid o f = true /\ d = expected f).
Proof.
  intros W d. unfold classify, valid, expected, wf in *.
  rewrite run_eq. pose proof (fold_final (results f) (params f) st0) as F. cbn zeta in F.
  destruct F as (U & S1 & S2 & S3 & S4). cbn [st0 s_uses s_src s_upd s_reterr s_multi rev app orb] in *.
  rewrite Nat.sub_1_r in S4.
  set (s' := fold_left (final_step (results f)) (params f) st0) in *. clearbody s'.
  destruct s' as [us src upd re mu]. cbn [s_uses s_src s_upd s_reterr s_multi] in *. subst src upd re mu.
  unfold returns_error.
  generalize dependent (uses_of false (map role_of (params f))). intros usx.
  generalize dependent (nsrc (params f)). intros n.
  destruct (accessible f), (is_func f), (variadic f); try leaf.
  destruct (has_upd (params f)).
  - rewrite (W eq_refl).
    destruct (results f) as [|[|] [|r2 rr]]; try leaf.
    all: destruct (type_params f), (o_allow_tp o); try leaf.
    all: destruct (o_mode o), (o_multi o); destruct n as [|[|n]]; leaf.
  - destruct (o_update o); [destruct (results f) as [|? [|[|] [|? ?]]]; leaf|].
    destruct (results f) as [|r1 [|[|] [|r3 rr]]]; try leaf.
    all: destruct (type_params f), (o_allow_tp o); try leaf.
    all: destruct (o_mode o), (o_multi o); destruct n as [|[|n]]; leaf.
Qed.

(* ---------- corollaries used by props/C14.v ---------- *)
Definition use_fits (p : param) (u : use) : Prop :=
  match role_of p with
  | RoleConv => u = UInterface
  | RoleTarget => u = UTarget
  | RoleCtx => u = UContext
  | RoleSrc => u = USource \/ u = UMulti
  end.

Lemma uses_of_fits ps seen : Forall2 use_fits ps (uses_of seen (map role_of ps)).
Proof.
  revert seen. induction ps as [|p ps IH]; intros seen; cbn; [constructor|].
  destruct (role_of p) eqn:R; constructor; auto; unfold use_fits; rewrite R; auto.
  destruct seen; auto.
Qed.

(* accepted => one role per parameter, in declared order, each fitting its parameter *)
Theorem order_preserved o f d : wf o f -> classify o f = inr d -> Forall2 use_fits (params f) (uses d).
Proof. intros W H. apply classify_spec in H as [_ ->]; [|exact W]. apply uses_of_fits. Qed.

Definition count_use (u : use) (us : list use) : nat := length (filter (use_eqb u) us).

Lemma count_source seen rs :
  count_use USource (uses_of seen rs) = (if seen then 0 else Nat.min 1 (length (filter is_src_role rs)))
  /\ count_use UMulti (uses_of seen rs) = length (filter is_src_role rs) - (if seen then 0 else 1).
Proof.
  revert seen. induction rs as [|r rs IH]; intros seen; cbn.
  - destruct seen; auto.
  - destruct r; cbn; try apply IH.
    destruct (IH true) as [A B]. destruct seen; cbn; unfold count_use in *; cbn; rewrite ?A, ?B; split; lia.
Qed.

(* a conversion method (source required, single source): accepted => exactly one source *)
Theorem exactly_one_source o f d : wf o f -> o_mode o = Required -> o_multi o = false ->
  classify o f = inr d -> count_use USource (uses d) = 1 /\ count_use UMulti (uses d) = 0.
Proof.
  intros W Hm Hmu H. apply classify_spec in H as [V ->]; [|exact W]. cbn [expected uses].
  destruct (count_source false (map role_of (params f))) as [A B]. rewrite A, B.
  unfold valid in V. rewrite Hm, Hmu in V. cbn [orb] in V. fold (nsrc (params f)).
  repeat (apply andb_true_iff in V as [V ?]).
  repeat match goal with H : Nat.leb _ _ = true |- _ => apply Nat.leb_le in H end. lia.
Qed.

(* rejected exactly when the declarative validity fails *)
Theorem rejected_iff o f : wf o f -> (exists e, classify o f = inl e) <-> valid o f = false.
Proof.
  intros W. pose proof (classify_spec o f W) as S. destruct (classify o f) as [e|d] eqn:C.
  - split; [intros _|eauto]. destruct (valid o f) eqn:V; [|reflexivity].
    pose proof (proj2 (S (expected f)) (conj eq_refl eq_refl)) as X. discriminate X.
  - split; [intros [e X]; discriminate|]. intros V. destruct (proj1 (S d) eq_refl) as [V' _]. congruence.
Qed.

Example accept_example :
  classify {| o_mode := Required; o_multi := false; o_allow_tp := false; o_update := false |}
           {| accessible := true; is_func := true; variadic := false; type_params := false;
              params := [ {| is_conv := false; is_upd := false; is_ctx := true |};
                          {| is_conv := false; is_upd := false; is_ctx := false |} ];
              results := [ROther; RErr] |}
  = inr {| uses := [UContext; USource]; ret_err := true; update := false |}.
Proof. reflexivity. Qed.
