(* CallFacts.v — custom functions and declared methods take precedence over every builder rule (C06), contexts
   are required along the whole chain of methods, and an error result is never dropped silently (C07). *)
From Coq Require Import List NArith Bool Lia.
From GV Require Import Base Ty Conf Extracted Plan Gen.
Import ListNotations.
Open Scope N_scope.

Section call_facts.
  Variable e : env.
  Variable conv_common : common.
  Variable out_pkg : N.
  Variable exc : list N.
  Variable FT : ftable.
  Variable ext : list N.
  Variable smeths : list (N * rstr * N).
  Notation build := (build e conv_common out_pkg exc FT ext smeths).
  Notation assign := (assign e conv_common out_pkg exc FT ext smeths).
  Notation build_no_lookup := (build_no_lookup e conv_common out_pkg exc FT ext smeths).
  Notation assign_no_lookup := (assign_no_lookup e conv_common out_pkg exc FT ext smeths).
  Notation create_sub := (create_sub e conv_common out_pkg exc FT ext smeths).
  Notation call_existing := (call_existing e FT ext).
  Notation call_method := (call_method e).
  Notation call_fn := (call_fn e FT).
  Notation call_meth := (call_meth e).

  (* one-step unfolding of Build / Assign *)
  Lemma build_S f ctx lv s t :
    build (S f) ctx lv s t =
    (let! ex := call_existing ctx s t in
     match ex with
     | Some p => ret p
     | None => let! sub := should_sub e ctx s t in
               if sub then create_sub f ctx s t else build_no_lookup f ctx lv s t
     end).
  Proof. reflexivity. Qed.
  Lemma assign_S f ctx lv u s t :
    assign (S f) ctx false lv u s t =
    (let! ex := call_existing ctx s t in
     match ex with
     | Some p => ret (ASet p)
     | None => let! sub := should_sub e ctx s t in
               if sub then (let! p := create_sub f ctx s t in ret (ASet p))
               else assign_no_lookup f ctx lv u s t
     end).
  Proof. reflexivity. Qed.

  (* what CallMethod can return: the call of exactly the given callee *)
  Definition calls (c : callee) (p : vplan) : Prop :=
    (exists args fl, p = PCallX c args fl) \/ (exists m, c = CMeth m /\ p = PCall m).

  Lemma call_method_calls ctx c args dsrc dtgt derr s t st p st' :
    call_method ctx c args dsrc dtgt derr s t st = GOk (p, st') -> calls c p.
  Proof.
    unfold Gen.call_method, mbind. destruct (check_args e ctx args dsrc s st) as [[u st1]| | |]; try discriminate.
    destruct (negb (assignable e dtgt t)); [discriminate|]. destruct derr.
    - destruct (return_error ctx st1) as [[ok st2]| | |]; try discriminate. destruct ok; [|discriminate].
      intros [= <- <-]. left. eauto.
    - intros [= <- <-]. destruct c as [fi|m]; [left; eauto|].
      destruct args as [|[| |] [|]]; try (left; eauto; fail). right. eauto.
  Qed.

  (* C06: an extend function registered for (S, T) whose contexts are available is what Build yields for S -> T
     (or generation fails): never a builder rule, never a generated sub-method *)
  Theorem extend_takes_precedence f ctx lv s t st fi p st' :
    ext_get FT ext s t (avail_of_tab (b_tab st) ctx) = GFound fi ->
    build (S f) ctx lv s t st = GOk (p, st') -> calls (CFn fi) p.
  Proof.
    intros G H. rewrite build_S in H. unfold mbind at 1 in H. unfold Gen.call_existing in H. rewrite G in H.
    unfold mbind, ret in H. destruct (call_fn ctx fi (Some s) t st) as [[q st1]| | |] eqn:C; try discriminate.
    injection H as <- <-. unfold Gen.call_fn in C. destruct (fdecl_at FT fi); [|discriminate].
    eapply call_method_calls. exact C.
  Qed.
  Theorem extend_takes_precedence_assign f ctx lv u s t st fi a st' :
    ext_get FT ext s t (avail_of_tab (b_tab st) ctx) = GFound fi ->
    assign (S f) ctx false lv u s t st = GOk (a, st') -> exists p, a = ASet p /\ calls (CFn fi) p.
  Proof.
    intros G H. rewrite assign_S in H. unfold mbind at 1 in H. unfold Gen.call_existing in H. rewrite G in H.
    unfold mbind, ret in H. destruct (call_fn ctx fi (Some s) t st) as [[q st1]| | |] eqn:C; try discriminate.
    injection H as <- <-. unfold Gen.call_fn in C. destruct (fdecl_at FT fi); [|discriminate].
    eexists. split; [reflexivity|]. eapply call_method_calls. exact C.
  Qed.
  (* ... and when its contexts cannot be supplied generation fails instead of converting automatically *)
  Theorem extend_without_context_fails f ctx lv s t st :
    ext_get FT ext s t (avail_of_tab (b_tab st) ctx) = GUnsat ->
    build (S f) ctx lv s t st = GDiag D_CONTEXT_UNSAT.
  Proof. intros G. rewrite build_S. unfold mbind at 1. unfold Gen.call_existing. rewrite G. reflexivity. Qed.

  (* a declared (or already generated) method for (S, T) is used when no extend function is *)
  Theorem method_takes_precedence f ctx lv s t st id p st' :
    ext_get FT ext s t (avail_of_tab (b_tab st) ctx) = GAbsent ->
    tab_get (b_tab st) s t (avail_of_tab (b_tab st) ctx) = GFound id ->
    build (S f) ctx lv s t st = GOk (p, st') -> calls (CMeth id) p.
  Proof.
    intros G T H. rewrite build_S in H. unfold mbind at 1 in H. unfold Gen.call_existing in H. rewrite G, T in H.
    unfold mbind, ret in H. destruct (call_meth ctx id s t st) as [[q st1]| | |] eqn:C; try discriminate.
    injection H as <- <-. unfold Gen.call_meth in C. destruct (nth_error (b_tab st) (N.to_nat id)); [|discriminate].
    eapply call_method_calls. exact C.
  Qed.

  (* tab_get returns an entry with that signature whose contexts are available *)
  Lemma tab_scan_found tab : forall i s t avail hit id,
    tab_scan tab i s t avail hit = GFound id ->
    exists m, nth_error tab (N.to_nat (id - i)) = Some m /\ i <= id /\ sig_matches m s t = true /\ ctx_sub (g_ctx m) avail = true.
  Proof.
    induction tab as [|m r IH]; intros i s t avail hit id H; cbn [tab_scan] in H; [destruct hit; discriminate|].
    destruct (sig_matches m s t) eqn:S1.
    - destruct (ctx_sub (g_ctx m) avail) eqn:C1.
      + injection H as <-. exists m. rewrite N.sub_diag. cbn. repeat split; auto. lia.
      + apply IH in H as (m' & Hn & Hi & Hs & Hc). exists m'. replace (N.to_nat (id - i)) with (S (N.to_nat (id - (i + 1)))) by lia.
        cbn. repeat split; auto. lia.
    - apply IH in H as (m' & Hn & Hi & Hs & Hc). exists m'. replace (N.to_nat (id - i)) with (S (N.to_nat (id - (i + 1)))) by lia.
      cbn. repeat split; auto. lia.
  Qed.
  Theorem tab_get_sound tab s t avail id :
    tab_get tab s t avail = GFound id ->
    exists m, nth_error tab (N.to_nat id) = Some m /\ sig_matches m s t = true /\ ctx_sub (g_ctx m) avail = true.
  Proof.
    unfold tab_get. intros H. apply tab_scan_found in H as (m & Hn & _ & Hs & Hc). rewrite N.sub_0_r in Hn. eauto.
  Qed.

  (* contexts: a declared method that lacks a required context makes generation fail *)
  Lemma retro_ctx_explicit need id r tab m :
    nth_error tab (N.to_nat id) = Some m -> g_explicit m = true -> existsb (ty_eqb need) (g_ctx m) = false ->
    retro_ctx need (id :: r) tab = None.
  Proof. intros Hn He Hc. cbn [retro_ctx]. rewrite Hn, Hc, He. reflexivity. Qed.
  Theorem missing_context_on_declared_method_fails ctx need st m r dsrc s0 :
    existsb (ty_eqb need) (bc_context ctx) = false ->
    nth_error (b_tab st) (N.to_nat (bc_id ctx)) = Some m -> g_explicit m = true -> existsb (ty_eqb need) (g_ctx m) = false ->
    check_args e ctx (ArgCtx need :: r) dsrc s0 st = GDiag D_CONTEXT_REQUIRED.
  Proof.
    intros Hc Hn He Hm. cbn [check_args]. unfold mbind, require_context. rewrite Hc.
    unfold origin_path. rewrite Hn. rewrite (retro_ctx_explicit need _ _ _ _ Hn He Hm). reflexivity.
  Qed.
  (* a generated method on the path receives the context parameter and is re-generated *)
  Lemma retro_ctx_generated need id r tab m :
    nth_error tab (N.to_nat id) = Some m -> g_explicit m = false -> existsb (ty_eqb need) (g_ctx m) = false ->
    retro_ctx need (id :: r) tab = retro_ctx need r (update_nth (N.to_nat id) (add_ctx need) tab).
  Proof. intros Hn He Hc. cbn [retro_ctx]. rewrite Hn, Hc, He. reflexivity. Qed.

  (* errors: a declared method without error result cannot use a fallible function *)
  Lemma retro_err_explicit id r tab m :
    nth_error tab (N.to_nat id) = Some m -> g_explicit m = true -> g_ret_err m = false -> retro_err (id :: r) tab = None.
  Proof. intros Hn He Hr. cbn [retro_err]. rewrite Hn, Hr, He. reflexivity. Qed.
  Theorem fallible_call_in_declared_method_without_error_fails ctx c args dsrc dtgt s t st m u st1 :
    check_args e ctx args dsrc s st = GOk (u, st1) -> assignable e dtgt t = true ->
    nth_error (b_tab st1) (N.to_nat (bc_id ctx)) = Some m -> g_explicit m = true -> g_ret_err m = false ->
    call_method ctx c args dsrc dtgt true s t st = GDiag D_ERR_NOT_RETURNED.
  Proof.
    intros Hc Ha Hn He Hr. unfold Gen.call_method, mbind. rewrite Hc, Ha. cbn [negb].
    unfold return_error. rewrite Hn, Hr. unfold origin_path. rewrite Hn. rewrite (retro_err_explicit _ _ _ _ Hn He Hr). reflexivity.
  Qed.
  (* the same for a declared method that delegates to an extend function (buildMethod / delegateMethod) is part of
     build_method: class D_DELEGATE_ERR *)
End call_facts.
