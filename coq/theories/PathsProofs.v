From Coq Require Import List NArith Bool String Lia.
From GV Require Import Base Paths.
Import ListNotations.
Open Scope N_scope.

(* ---------- where the code is written ---------- *)
Lemma output_abs_kept f o : is_abs o = true -> output_path f o = o.
Proof. unfold output_path. intros ->. reflexivity. Qed.
Lemma output_relative_to_declaring_file f o : is_abs o = false -> output_path f o = join [dir f; o].
Proof. unfold output_path. intros ->. reflexivity. Qed.
Lemma cwd_prefix cwd r : parse_file cwd (CWD_PREFIX ++ r) = join [cwd; r].
Proof. unfold parse_file. assert (H : has_prefix CWD_PREFIX (CWD_PREFIX ++ r) = Some r) by reflexivity. rewrite H. reflexivity. Qed.
Lemma no_cwd_prefix_kept cwd f : has_prefix CWD_PREFIX f = None -> parse_file cwd f = f.
Proof. unfold parse_file. intros ->. reflexivity. Qed.

Example default_interface_output :
  output_path (s2r "/m/p/conv.go"%string) DEFAULT_INTERFACE_OUTPUT = s2r "/m/p/generated/generated.go"%string.
Proof. reflexivity. Qed.
Example default_variables_output : default_output_file (s2r "/m/p/vars.go"%string) = s2r "vars.gen.go"%string.
Proof. reflexivity. Qed.

(* ---------- path arithmetic on the file path and on the import path agree ---------- *)
Definition normal (s : rstr) : bool := nonempty s && negb (is_dot s) && negb (is_dotdot s).

(* pushing normal elements *)
Lemma clean_push rooted a b out : forallb normal a = true ->
  clean_segs rooted (a ++ b) out = clean_segs rooted b (rev a ++ out).
Proof.
  revert out. induction a as [|s a IH]; intros out H; cbn [app rev]; [reflexivity|].
  cbn [forallb] in H. apply andb_true_iff in H as [Hs Ha]. unfold normal in Hs.
  apply andb_true_iff in Hs as [Hs Hdd]. apply andb_true_iff in Hs as [Hne Hd].
  cbn [clean_segs]. rewrite Hne. apply negb_true_iff in Hd. apply negb_true_iff in Hdd. rewrite Hd, Hdd. cbn [negb orb].
  rewrite IH by exact Ha. rewrite <- app_assoc. reflexivity.
Qed.

(* processing b never pops below a stack of n normal elements *)
Fixpoint stays (b : list rstr) (n : nat) : bool :=
  match b with
  | [] => true
  | s :: r => if negb (nonempty s) || is_dot s then stays r n
              else if is_dotdot s then match n with O => false | S n' => stays r n' end
              else stays r (S n)
  end.

Lemma clean_frame rooted rooted' b s t :
  forallb normal s = true -> stays b (List.length s) = true ->
  clean_segs rooted b (s ++ t) = rev t ++ clean_segs rooted' b s.
Proof.
  revert s. induction b as [|x b IH]; intros s Hs Hst; cbn [clean_segs].
  - rewrite rev_app_distr. reflexivity.
  - cbn [stays] in Hst. destruct (negb (nonempty x) || is_dot x) eqn:Hnd; [apply IH; assumption|].
    destruct (is_dotdot x) eqn:Hdd.
    + destruct s as [|o s']; [discriminate|]. cbn [app]. cbn [forallb] in Hs. apply andb_true_iff in Hs as [Ho Hs'].
      assert (Ho' : is_dotdot o = false).
      { unfold normal in Ho. apply andb_true_iff in Ho as [_ Ho]. apply negb_true_iff in Ho. exact Ho. }
      rewrite Ho'. apply IH; assumption.
    + assert (Hx : normal x = true).
      { unfold normal. rewrite Hdd. destruct (nonempty x), (is_dot x); cbn in *; try reflexivity; discriminate. }
      change (x :: s ++ t) with ((x :: s) ++ t). apply IH; [cbn [forallb]; rewrite Hx, Hs; reflexivity|exact Hst].
Qed.

(* The converter file lies in <module root>/<rel>, its package is <module path>/<rel>. For a relative output
   file whose directory part stays inside the module, the directory the code is written to and the package
   path computed by resolvePackage have the same remainder X below root resp. module path. *)
Theorem pkg_path_arith (root modp relp o : list rstr) :
  forallb normal root = true -> forallb normal modp = true -> forallb normal relp = true ->
  stays o (List.length relp) = true ->
  let X := clean_segs false o (rev relp) in
  clean_segs true (root ++ relp ++ o) [] = root ++ X /\
  clean_segs false (modp ++ relp ++ o) [] = modp ++ X.
Proof.
  intros Hr Hm Hl Hs X. subst X. split.
  - rewrite clean_push by exact Hr. rewrite clean_push by exact Hl.
    rewrite (clean_frame true false o (rev relp) (rev root ++ [])).
    + rewrite app_nil_r, rev_involutive. reflexivity.
    + rewrite forallb_forall in *. intros x Hx. apply Hl. apply in_rev. exact Hx.
    + rewrite rev_length. exact Hs.
  - rewrite clean_push by exact Hm. rewrite clean_push by exact Hl.
    rewrite (clean_frame false false o (rev relp) (rev modp ++ [])).
    + rewrite app_nil_r, rev_involutive. reflexivity.
    + rewrite forallb_forall in *. intros x Hx. apply Hl. apply in_rev. exact Hx.
    + rewrite rev_length. exact Hs.
Qed.

Example pkg_path_example :
  resolve_package (s2r "/m/p/conv.go"%string) (s2r "example.org/m/p"%string) (s2r "../x/gen.go"%string) = s2r "example.org/m/x"%string
  /\ dir (output_path (s2r "/m/p/conv.go"%string) (s2r "../x/gen.go"%string)) = s2r "/m/x"%string.
Proof. split; reflexivity. Qed.

(* ---------- package clause ---------- *)
Lemma drop_digits_head l c r : drop_digits l = c :: r -> ((48 <=? c) && (c <=? 57)) = false.
Proof.
  induction l as [|x l IH]; cbn; [discriminate|]. destruct ((48 <=? x) && (x <=? 57)) eqn:E; [exact IH|].
  intros [= <- <-]. exact E.
Qed.
Lemma drop_digits_incl l x : In x (drop_digits l) -> In x l.
Proof. induction l as [|y l IH]; cbn; [auto|]. destruct ((48 <=? y) && (y <=? 57)); [intros H; right; apply IH; exact H|auto]. Qed.

(* the inferred package name is a valid lower-case identifier *)
Theorem guess_alias_identifier path :
  let a := guess_alias path in
  a <> [] /\ Forall (fun c => is_alnum c = true) a /\ match a with c :: _ => ((48 <=? c) && (c <=? 57)) = false | [] => True end.
Proof.
  unfold guess_alias. cbv zeta.
  set (last := snd (last_slash_split _)). 
  destruct (drop_digits (filter is_alnum (map to_lower last))) as [|c r] eqn:E.
  - split; [discriminate|]. split; [|reflexivity]. repeat constructor.
  - split; [discriminate|]. split.
    + rewrite Forall_forall. intros x Hx. rewrite <- E in Hx. apply drop_digits_incl in Hx. apply filter_In in Hx. apply Hx.
    + eapply drop_digits_head. exact E.
Qed.

Lemma package_clause_configured n ex p : n <> [] -> package_clause n ex p = n.
Proof. destruct n; [congruence|reflexivity]. Qed.
Lemma package_clause_existing ex p : package_clause [] (Some ex) p = ex.
Proof. reflexivity. Qed.
Lemma package_clause_inferred p : package_clause [] None p = guess_alias p.
Proof. reflexivity. Qed.

(* ---- shared output files: agreeing identities means agreeing path AND name ---- *)
Definition no_colon (s : rstr) : Prop := ~ In 58%N s.
Lemma app_colon_inj (p p' n n' : rstr) : no_colon p -> no_colon p' ->
  p ++ 58%N :: n = p' ++ 58%N :: n' -> p = p' /\ n = n'.
Proof.
  revert p'. induction p as [|c p IH]; intros [|c' p'] Hp Hp' H; cbn in H.
  - injection H as ->. auto.
  - injection H as <- _. exfalso. apply Hp'. left. reflexivity.
  - injection H as -> _. exfalso. apply Hp. left. reflexivity.
  - injection H as -> H. destruct (IH p') as [-> ->]; auto.
    + intros X. apply Hp. right. exact X.
    + intros X. apply Hp'. right. exact X.
Qed.
Lemma app_colon_ne (p p' n : rstr) : no_colon p' -> p' <> p ++ 58%N :: n.
Proof. intros Hp' ->. apply Hp'. apply in_or_app. right. left. reflexivity. Qed.

Theorem same_file_needs_same_package a b :
  no_colon (fst a) -> no_colon (fst b) ->
  same_file_accepts a b = true <-> (fst a = fst b /\ snd a = snd b).
Proof.
  destruct a as [pa na], b as [pb nb]. cbn [fst snd]. intros Ha Hb. unfold same_file_accepts. cbn [fst snd]. rewrite rstr_eqb_spec.
  split.
  - unfold package_id. destruct na as [|x na], nb as [|y nb]; intros H.
    + auto.
    + exfalso. exact (app_colon_ne _ _ _ Ha H).
    + exfalso. symmetry in H. exact (app_colon_ne _ _ _ Hb H).
    + apply app_colon_inj in H as [-> H]; auto.
  - intros [-> ->]. reflexivity.
Qed.
