(* Base.v — shared basics: rune strings, boolean equalities used by case files. *)
From Coq Require Import List NArith Bool String Ascii.
Import ListNotations.
Open Scope N_scope.

Notation rstr := (list N).
Definition s2r (s : string) : rstr := map N_of_ascii (list_ascii_of_string s).

Fixpoint list_eqb {A} (eqb : A -> A -> bool) (a b : list A) : bool :=
  match a, b with
  | [], [] => true
  | x :: a', y :: b' => eqb x y && list_eqb eqb a' b'
  | _, _ => false
  end.
Definition rstr_eqb : rstr -> rstr -> bool := list_eqb N.eqb.
Definition pair_eqb {A B} (ea : A -> A -> bool) (eb : B -> B -> bool) (x y : A * B) : bool :=
  ea (fst x) (fst y) && eb (snd x) (snd y).
Definition option_eqb {A} (e : A -> A -> bool) (x y : option A) : bool :=
  match x, y with Some a, Some b => e a b | None, None => true | _, _ => false end.

Lemma list_eqb_spec {A} (eqb : A -> A -> bool) :
  (forall x y, eqb x y = true <-> x = y) -> forall a b, list_eqb eqb a b = true <-> a = b.
Proof.
  intros E a. induction a as [|x a IH]; intros [|y b]; cbn; split; try congruence; try discriminate.
  - intros H. apply andb_true_iff in H as [H1 H2]. apply E in H1. apply IH in H2. congruence.
  - intros H. inversion H; subst. apply andb_true_iff. split; [apply E; reflexivity|apply IH; reflexivity].
Qed.
Lemma rstr_eqb_spec a b : rstr_eqb a b = true <-> a = b.
Proof. apply list_eqb_spec. intros x y. apply N.eqb_eq. Qed.

(* outcome of a modelled Go function: value, diagnostic class, or Go panic *)
Inductive res (A : Type) := Ok (a : A) | Diag (class : N) | Panic (site : N).
Arguments Ok {A} a. Arguments Diag {A} class. Arguments Panic {A} site.

Definition bind {A B} (r : res A) (f : A -> res B) : res B :=
  match r with Ok a => f a | Diag c => Diag c | Panic s => Panic s end.
Definition res_eqb {A} (e : A -> A -> bool) (x y : res A) : bool :=
  match x, y with
  | Ok a, Ok b => e a b
  | Diag c, Diag d => N.eqb c d
  | Panic _, Panic _ => true
  | _, _ => false
  end.

Notation "'do' x <- r ; k" := (bind r (fun x => k)) (at level 200, x pattern, r at level 100, k at level 200).
