(* Settings.v — model of the settings front end: config/parse/parse.go (Bool, String, Enum),
   config/common.go parseCommon (driven by the table regenerated from the source),
   config/converter.go parseConverterLine / parseConverter (line order global -> converter),
   config/method.go parseMethodLine / parseMethod (method lines on a copy of the converter record). *)
From Coq Require Import List NArith Bool String.
From GV Require Import Base Ty Conf Extracted Comment.
Import ListNotations.
Open Scope N_scope.

(* diagnostic classes *)
Definition D_UNKNOWN_SETTING : N := 40.  Definition D_MISSING_KEY : N := 41.
Definition D_BAD_VALUE : N := 42.        Definition D_CONFLICT : N := 43.
Definition D_WRONG_LEVEL : N := 44.      Definition D_FUNC_REF : N := 45.

(* strings.Fields *)
Fixpoint fields_aux (cur : rstr) (l : rstr) : list rstr :=
  match l with
  | [] => match cur with [] => [] | _ => [rev cur] end
  | c :: r => if go_is_space c then match cur with [] => fields_aux [] r | _ => rev cur :: fields_aux [] r end
              else fields_aux (c :: cur) r
  end.
Definition fields (l : rstr) : list rstr := fields_aux [] l.

Definition YES : rstr := s2r "yes"%string.  Definition NO : rstr := s2r "no"%string.
(* parse.Bool = Enum(true, rest, "yes", "no"): bare or yes enables, no disables *)
Definition parse_bool (rest : rstr) : res bool :=
  match fields rest with
  | [] => Ok true
  | [f] => if rstr_eqb f YES then Ok true else if rstr_eqb f NO then Ok false else Diag D_BAD_VALUE
  | _ => Diag D_BAD_VALUE
  end.
Definition parse_string (rest : rstr) : res rstr :=
  match fields rest with [f] => Ok f | _ => Diag D_BAD_VALUE end.

Inductive sval := SBool (b : bool) | SStr (s : rstr).

Definition is (name : rstr) (s : string) : bool := rstr_eqb name (s2r s).

(* config.Common as a finite map from Go field name to value; DefaultCommon = everything zero except Enum.Enabled *)
Definition smap := list (rstr * sval).
Definition sget (m : smap) (f : rstr) : option sval :=
  match find (fun kv => rstr_eqb (fst kv) f) m with Some kv => Some (snd kv) | None => None end.
Definition sset (f : rstr) (v : sval) (m : smap) : smap := (f, v) :: m.
Definition get_bool (m : smap) (f : string) : bool := match sget m (s2r f) with Some (SBool b) => b | _ => false end.
Definition get_str (m : smap) (f : string) : rstr := match sget m (s2r f) with Some (SStr s) => s | _ => [] end.
Definition default_smap : smap := [(s2r "Enum_Enabled"%string, SBool true)].

(* the record the builders read *)
Definition common_of (m : smap) : common :=
  {| c_WrapErrors := get_bool m "WrapErrors"; c_WrapErrorsUsing := get_str m "WrapErrorsUsing";
     c_IgnoreUnexported := get_bool m "IgnoreUnexported";
     c_IgnoreBasicZeroValueField := get_bool m "IgnoreBasicZeroValueField";
     c_IgnoreStructZeroValueField := get_bool m "IgnoreStructZeroValueField";
     c_IgnoreNillableZeroValueField := get_bool m "IgnoreNillableZeroValueField";
     c_MatchIgnoreCase := get_bool m "MatchIgnoreCase"; c_IgnoreMissing := get_bool m "IgnoreMissing";
     c_SkipCopySameType := get_bool m "SkipCopySameType";
     c_UseZeroValueOnPointerInconsistency := get_bool m "UseZeroValueOnPointerInconsistency";
     c_UseUnderlyingTypeMethods := get_bool m "UseUnderlyingTypeMethods"; c_DefaultUpdate := get_bool m "DefaultUpdate";
     c_Enum_Enabled := get_bool m "Enum_Enabled"; c_Enum_Unknown := get_str m "Enum_Unknown";
     c_ArgContextRegex := get_str m "ArgContextRegex" |}.

Definition table_row := (list rstr * N * bool * option (rstr * N) * bool)%type.
Definition lookup_key (tbl : list (rstr * table_row)) (k : rstr) : option table_row :=
  match find (fun kv => rstr_eqb (fst kv) k) tbl with Some kv => Some (snd kv) | None => None end.

Definition set_fields (fs : list rstr) (v : sval) (c : smap) : smap := fold_left (fun m f => sset f v m) fs c.

Definition valid_enum_action (s : rstr) : bool :=
  is s "@panic" || is s "@error" || is s "@ignore".

(* parseCommon, driven by a key table: returns the new record and whether the line is a field setting *)
Definition parse_common (tbl : list (rstr * table_row)) (c : smap) (cmd rest : rstr) : res (smap * bool) :=
  match cmd with
  | [] => Diag D_MISSING_KEY
  | _ =>
    match lookup_key tbl cmd with
    | None => Diag D_UNKNOWN_SETTING
    | Some (fs, parser, fsetting, guard, enumcheck) =>
      let guard_ok :=
        match guard with
        | None => true
        | Some (g, 0) => match sget c g with Some (SBool b) => negb b | _ => true end
        | Some (g, _) => match sget c g with Some (SStr s) => match s with [] => true | _ => false end | _ => true end
        end in
      if negb guard_ok then Diag D_CONFLICT
      else
        do v <- (if parser =? 0 then do b <- parse_bool rest; Ok (SBool b) else do s <- parse_string rest; Ok (SStr s));
        if enumcheck && match v with SStr (64 :: r) => negb (valid_enum_action (64 :: r)) | _ => false end then Diag D_BAD_VALUE
        else Ok (set_fields fs v c, fsetting)
    end
  end.

(* ---------- converter level ---------- *)
Definition in_keys (ks : list rstr) (k : rstr) : bool := existsb (rstr_eqb k) ks.

(* lines of a converter (global lines first): converter-only keys are accepted here without touching Common
   (their own validation is outside this model: name/output:*/extend/struct:comment/enum:exclude) *)
Definition converter_line (c : smap) (line : rstr) : res smap :=
  let '(cmd, rest) := command line in
  if is cmd "extend" && match fields rest with [] => true | _ => false end then Diag D_BAD_VALUE
  else if in_keys x_converter_keys cmd then Ok c
  else do r <- parse_common x_common_table c cmd rest; Ok (fst r).

Fixpoint fold_res {A B} (f : A -> B -> res A) (l : list B) (a : A) : res A :=
  match l with
  | [] => Ok a
  | b :: r => do a' <- f a b; fold_res f r a'
  end.

Definition converter_smap (global conv : list rstr) : res smap :=
  do c1 <- fold_res converter_line global default_smap; fold_res converter_line conv c1.
Definition converter_common (global conv : list rstr) : res common :=
  do m <- converter_smap global conv; Ok (common_of m).

(* ---------- method level ---------- *)
Record mstate := { ms_common : smap; ms_fields : list (rstr * fmap); ms_automap : list rstr; ms_raw : bool;
                   ms_update : rstr; ms_context : list rstr }.

Definition upd_field (name : rstr) (f : fmap -> fmap) (l : list (rstr * fmap)) : list (rstr * fmap) :=
  if existsb (fun kv => rstr_eqb (fst kv) name) l
  then map (fun kv => if rstr_eqb (fst kv) name then (fst kv, f (snd kv)) else kv) l
  else l ++ [(name, f empty_fmap)].

(* strings.SplitN(s, "|", 2) *)
Fixpoint break_bar (l : rstr) : rstr * option rstr :=
  match l with
  | [] => ([], None)
  | c :: r => if c =? 124 then ([], Some r) else let '(a, b) := break_bar r in (c :: a, b)
  end.

Definition method_line (m : mstate) (line : rstr) : res mstate :=
  let '(cmd, rest) := command line in
  let with_raw (m' : mstate) := {| ms_common := ms_common m'; ms_fields := ms_fields m'; ms_automap := ms_automap m'; ms_raw := true;
                                   ms_update := ms_update m'; ms_context := ms_context m' |} in
  if is cmd "map" then
    let '(lhs, custom) := break_bar rest in
    match custom with
    | Some cs => match fields cs with [] => (* empty FUNC: custom == "" *)
                   match fields lhs with
                   | [t] => if existsb (N.eqb 46) t then Diag D_BAD_VALUE else Ok (with_raw {| ms_common := ms_common m; ms_fields := upd_field t (fun f => {| fm_source := []; fm_ignore := fm_ignore f; fm_func := fm_func f |}) (ms_fields m); ms_automap := ms_automap m; ms_raw := true; ms_update := ms_update m; ms_context := ms_context m |})
                   | [s; t] => if existsb (N.eqb 46) t then Diag D_BAD_VALUE else Ok (with_raw {| ms_common := ms_common m; ms_fields := upd_field t (fun f => {| fm_source := s; fm_ignore := fm_ignore f; fm_func := fm_func f |}) (ms_fields m); ms_automap := ms_automap m; ms_raw := true; ms_update := ms_update m; ms_context := ms_context m |})
                   | _ => Diag D_BAD_VALUE
                   end
                 | _ => Diag D_FUNC_REF   (* map ... | FUNC needs the package loader: outside this model *)
                 end
    | None =>
      match fields lhs with
      | [t] => if existsb (N.eqb 46) t then Diag D_BAD_VALUE else Ok (with_raw {| ms_common := ms_common m; ms_fields := upd_field t (fun f => {| fm_source := []; fm_ignore := fm_ignore f; fm_func := fm_func f |}) (ms_fields m); ms_automap := ms_automap m; ms_raw := true; ms_update := ms_update m; ms_context := ms_context m |})
      | [s; t] => if existsb (N.eqb 46) t then Diag D_BAD_VALUE else Ok (with_raw {| ms_common := ms_common m; ms_fields := upd_field t (fun f => {| fm_source := s; fm_ignore := fm_ignore f; fm_func := fm_func f |}) (ms_fields m); ms_automap := ms_automap m; ms_raw := true; ms_update := ms_update m; ms_context := ms_context m |})
      | _ => Diag D_BAD_VALUE
      end
    end
  else if is cmd "ignore" then
    match fields rest with [] => Diag D_BAD_VALUE | _ =>
    Ok (with_raw {| ms_common := ms_common m;
                    ms_fields := fold_left (fun l t => upd_field t (fun f => {| fm_source := fm_source f; fm_ignore := true; fm_func := fm_func f |}) l) (fields rest) (ms_fields m);
                    ms_automap := ms_automap m; ms_raw := true; ms_update := ms_update m; ms_context := ms_context m |})
    end
  else if is cmd "update" then
    do s <- parse_string rest;
    Ok {| ms_common := ms_common m; ms_fields := ms_fields m; ms_automap := ms_automap m; ms_raw := ms_raw m; ms_update := s; ms_context := ms_context m |}
  else if is cmd "context" then
    do s <- parse_string rest;
    Ok {| ms_common := ms_common m; ms_fields := ms_fields m; ms_automap := ms_automap m; ms_raw := ms_raw m; ms_update := ms_update m; ms_context := s :: ms_context m |}
  else if is cmd "autoMap" then
    do s <- parse_string rest;
    Ok (with_raw {| ms_common := ms_common m; ms_fields := ms_fields m; ms_automap := ms_automap m ++ [s]; ms_raw := true; ms_update := ms_update m; ms_context := ms_context m |})
  else if in_keys x_method_keys cmd then Diag D_FUNC_REF     (* enum:map, enum:transform, default: not in this model *)
  else
    do r <- parse_common x_common_table (ms_common m) cmd rest;
    Ok {| ms_common := fst r; ms_fields := ms_fields m; ms_automap := ms_automap m; ms_raw := ms_raw m || snd r;
          ms_update := ms_update m; ms_context := ms_context m |}.

Definition method_state (conv_common : smap) (lines : list rstr) : res mstate :=
  fold_res method_line lines {| ms_common := conv_common; ms_fields := []; ms_automap := []; ms_raw := false; ms_update := []; ms_context := [] |}.

Definition mconf_of (m : mstate) (update : bool) : mconf :=
  {| m_common := common_of (ms_common m); m_fields := ms_fields m; m_automap := ms_automap m; m_raw_field_settings := ms_raw m;
     m_UpdateTarget := update; m_constructor := None; m_enum_map := []; m_enum_transforms := []; m_enum_excluded := [] |}.

(* settings in effect for a declared method *)
Definition method_smap (global conv meth : list rstr) : res smap :=
  do cc <- converter_smap global conv; do ms <- method_state cc meth; Ok (ms_common ms).
Definition method_common (global conv meth : list rstr) : res common :=
  do m <- method_smap global conv meth; Ok (common_of m).

Definition common_eqb (a b : common) : bool :=
  Bool.eqb (c_WrapErrors a) (c_WrapErrors b) && rstr_eqb (c_WrapErrorsUsing a) (c_WrapErrorsUsing b)
  && Bool.eqb (c_IgnoreUnexported a) (c_IgnoreUnexported b)
  && Bool.eqb (c_IgnoreBasicZeroValueField a) (c_IgnoreBasicZeroValueField b)
  && Bool.eqb (c_IgnoreStructZeroValueField a) (c_IgnoreStructZeroValueField b)
  && Bool.eqb (c_IgnoreNillableZeroValueField a) (c_IgnoreNillableZeroValueField b)
  && Bool.eqb (c_MatchIgnoreCase a) (c_MatchIgnoreCase b) && Bool.eqb (c_IgnoreMissing a) (c_IgnoreMissing b)
  && Bool.eqb (c_SkipCopySameType a) (c_SkipCopySameType b)
  && Bool.eqb (c_UseZeroValueOnPointerInconsistency a) (c_UseZeroValueOnPointerInconsistency b)
  && Bool.eqb (c_UseUnderlyingTypeMethods a) (c_UseUnderlyingTypeMethods b)
  && Bool.eqb (c_DefaultUpdate a) (c_DefaultUpdate b) && Bool.eqb (c_Enum_Enabled a) (c_Enum_Enabled b)
  && rstr_eqb (c_Enum_Unknown a) (c_Enum_Unknown b) && rstr_eqb (c_ArgContextRegex a) (c_ArgContextRegex b).
