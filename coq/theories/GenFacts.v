(* GenFacts.v — what the (extracted) rule list decides for whole classes of type pairs:
   the negative facts C03 names and the pointer rules C11 names.  Every lemma quantifies over
   all settings records, all environments and all types of the stated shape; the proofs
   unfold the predicates regenerated from the Go source and decide by case analysis on flags. *)
From Coq Require Import List NArith Bool Lia.
From GV Require Import Base Ty TyFacts Conf Extracted Plan Gen.
Import ListNotations.
Open Scope N_scope.

Ltac unfold_rules :=
  unfold first_rule, x_build_steps, x_matches, x_matches_0, x_matches_1, x_matches_2, x_matches_3, x_matches_4,
         x_matches_5, x_matches_6, x_matches_7, x_matches_8, x_matches_9, x_matches_10,
         x_isEnum, x_findUnderlyingExtendMapping, enum_ok, eqv, eqv_ty, eqv_N, eqv_bool, ty_identical, f_String, f_T, f_BasicType;
  cbn [find f_Named f_Basic f_Pointer f_Struct f_List f_ListFixed f_Map f_PointerInner f_ListInner f_String f_T f_BasicType
       m_Kind under negb andb orb].

Ltac flags conf :=
  destruct (cc_UseUnderlyingTypeMethods conf), (cc_SkipCopySameType conf), (cc_Enum_Enabled conf),
           (cc_UseZeroValueOnPointerInconsistency conf); cbn.

(* basic kinds must agree *)
Lemma basic_kind_mismatch e hm conf k1 k2 : k1 <> k2 -> first_rule e hm conf (TBasic k1) (TBasic k2) = None.
Proof.
  intros H. apply N.eqb_neq in H. unfold_rules. flags conf; rewrite ?H; reflexivity.
Qed.

Lemma basic_same_kind e hm conf k :
  first_rule e hm conf (TBasic k) (TBasic k) = Some (if cc_SkipCopySameType conf then 1 else 7).
Proof. unfold_rules. flags conf; rewrite ?N.eqb_refl; reflexivity. Qed.

(* *T -> U (U not a pointer) is only generated with useZeroValueOnPointerInconsistency *)
Lemma ptr_to_value_needs_flag e hm conf s t :
  cc_UseZeroValueOnPointerInconsistency conf = false ->
  (forall id, t <> TNamed id) -> f_Pointer e t = false ->
  first_rule e hm conf (TPtr s) t = None.
Proof.
  intros F NN NP. unfold_rules. rewrite F.
  assert (E : ty_eqb (TPtr s) t = false) by (destruct t; try reflexivity; cbn in NP; discriminate).
  rewrite E. destruct t as [k|id|x|x|n x|k v|p fs|k i]; try (exfalso; eapply NN; reflexivity);
    cbn in *; try discriminate; flags conf; reflexivity.
Qed.

Lemma ptr_to_value_with_flag e hm conf s t :
  cc_UseZeroValueOnPointerInconsistency conf = true -> cc_UseUnderlyingTypeMethods conf = false ->
  (forall id, t <> TNamed id) -> f_Pointer e t = false ->
  first_rule e hm conf (TPtr s) t = Some 5.
Proof.
  intros F U NN NP. unfold_rules. rewrite F, U.
  assert (E : ty_eqb (TPtr s) t = false) by (destruct t; try reflexivity; cbn in NP; discriminate).
  rewrite E. destruct t as [k|id|x|x|n x|k v|p fs|k i]; try (exfalso; eapply NN; reflexivity);
    cbn in *; try discriminate; destruct (cc_SkipCopySameType conf), (cc_Enum_Enabled conf); reflexivity.
Qed.

(* T -> *U is always handled by a pointer rule (3 for basic to pointer-to-basic, else 6) unless both are pointers *)
Lemma value_to_ptr_rule e hm conf s t :
  cc_UseUnderlyingTypeMethods conf = false -> (forall id, s <> TNamed id) -> f_Pointer e s = false ->
  exists r, first_rule e hm conf s (TPtr t) = Some r /\ (r = 3 \/ r = 6).
Proof.
  intros U NN NP. unfold_rules. rewrite U.
  assert (E : ty_eqb s (TPtr t) = false) by (destruct s; try reflexivity; cbn in NP; discriminate).
  rewrite E. destruct s as [k|id|x|x|n x|k v|p fs|k i]; try (exfalso; eapply NN; reflexivity); cbn in *; try discriminate.
  all: destruct (cc_SkipCopySameType conf), (cc_Enum_Enabled conf), (cc_UseZeroValueOnPointerInconsistency conf); cbn;
       try (destruct (f_Basic e t); cbn); eauto.
Qed.

(* slice -> array and array -> array have no rule *)
Lemma list_to_array_rejected e hm conf s n t :
  (f_List e s = true) -> (forall id, s <> TNamed id) -> ty_eqb s (TArr n t) = false ->
  first_rule e hm conf s (TArr n t) = None.
Proof.
  intros L NN E. unfold_rules. rewrite E.
  destruct s as [k|id|x|x|m x|k v|p fs|k i]; try (exfalso; eapply NN; reflexivity); cbn in *; try discriminate;
    flags conf; reflexivity.
Qed.

(* struct <-> map have no rule *)
Lemma struct_to_map_rejected e hm conf p fs k v :
  first_rule e hm conf (TStruct p fs) (TMap k v) = None.
Proof. unfold_rules. flags conf; reflexivity. Qed.
Lemma map_to_struct_rejected e hm conf p fs k v :
  first_rule e hm conf (TMap k v) (TStruct p fs) = None.
Proof. unfold_rules. flags conf; reflexivity. Qed.


(* interface / func / chan sources: only the identical type with skipCopySameType, or wrapping into a pointer *)
Lemma other_kinds_rule e hm conf k i t :
  (forall id, t <> TNamed id) -> k <= 2 ->
  first_rule e hm conf (TOther k i) t =
  if cc_UseUnderlyingTypeMethods conf && false then Some 0
  else if cc_SkipCopySameType conf && ty_eqb (TOther k i) t then Some 1
  else if f_Pointer e t then Some 6 else None.
Proof.
  intros NN K. unfold_rules.
  assert (KK : k = 0 \/ k = 1 \/ k = 2) by lia. destruct KK as [->|[->| ->]].
  all: destruct t as [k'|id|x|x|n x|k' v|p fs|k' i']; try (exfalso; eapply NN; reflexivity); cbn.
  all: flags conf; try reflexivity.
  all: try (destruct k' as [|[|[|]|]|]; cbn; try reflexivity; destruct (i =? i'); reflexivity).
Qed.

(* ---------------- generator-level consequences ---------------- *)
Section gen_facts.
  Variable e : env.
  Variable conv_common : common.
  Variable out_pkg : N.
  Variable exc : list N.
  Variable FT : ftable.
  Variable ext : list N.
  Variable smeths : list (N * rstr * N).
  Notation build_no_lookup := (build_no_lookup e conv_common out_pkg exc FT ext smeths).
  Notation assign_no_lookup := (assign_no_lookup e conv_common out_pkg exc FT ext smeths).
  Notation has_method := (has_method FT ext).
  Notation overlap_check := (overlap_check e).

  Lemma overlap_needs_structs ctx tab s t : f_Struct e s && f_Struct e t = false -> overlap_check ctx tab s t = false.
  Proof. unfold overlap_check. intros ->. reflexivity. Qed.

  (* no rule => the documented diagnostics, and nothing is generated *)
  Lemma no_rule_is_mismatch f ctx lv s t st :
    f_Struct e s && f_Struct e t = false ->
    first_rule e (has_method (b_tab st)) (bc_conf ctx) s t = None ->
    build_no_lookup (S f) ctx lv s t st =
    GDiag (if f_Pointer e s && negb (f_Pointer e t) then D_POINTER_MISMATCH else D_TYPE_MISMATCH).
  Proof.
    intros O R. cbn [Gen.build_no_lookup]. rewrite (overlap_needs_structs _ _ _ _ O), R.
    unfold mismatch. destruct (f_Pointer e s && negb (f_Pointer e t)); reflexivity.
  Qed.

  Lemma no_rule_is_mismatch_assign f ctx lv u s t st :
    f_Struct e s && f_Struct e t = false ->
    first_rule e (has_method (b_tab st)) (bc_conf ctx) s t = None ->
    assign_no_lookup (S f) ctx lv u s t st =
    GDiag (if f_Pointer e s && negb (f_Pointer e t) then D_POINTER_MISMATCH else D_TYPE_MISMATCH).
  Proof.
    intros O R. cbn [Gen.assign_no_lookup]. rewrite (overlap_needs_structs _ _ _ _ O), R.
    unfold mismatch. destruct (f_Pointer e s && negb (f_Pointer e t)); reflexivity.
  Qed.

  (* different basic kinds: TypeMismatch *)
  Lemma gen_basic_kind_mismatch f ctx lv k1 k2 st : k1 <> k2 ->
    build_no_lookup (S f) ctx lv (TBasic k1) (TBasic k2) st = GDiag D_TYPE_MISMATCH.
  Proof. intros H. rewrite no_rule_is_mismatch; [reflexivity|reflexivity|apply basic_kind_mismatch; exact H]. Qed.

  (* *T -> U without the flag: the dedicated pointer diagnostic *)
  Lemma gen_ptr_to_value_without_flag f ctx lv s t st :
    cc_UseZeroValueOnPointerInconsistency (bc_conf ctx) = false ->
    (forall id, t <> TNamed id) -> f_Pointer e t = false ->
    build_no_lookup (S f) ctx lv (TPtr s) t st = GDiag D_POINTER_MISMATCH.
  Proof.
    intros F NN NP. rewrite no_rule_is_mismatch; [cbn; rewrite NP; reflexivity|reflexivity|].
    apply ptr_to_value_needs_flag; assumption.
  Qed.

  (* unfolding equations (checked by reflexivity against Gen.v) *)
  Notation build := (build e conv_common out_pkg exc FT ext smeths).
  Lemma bnl_rule3 f ctx lv s t st :
    overlap_check ctx (b_tab st) s t = false ->
    first_rule e (has_method (b_tab st)) (bc_conf ctx) s t = Some 3 ->
    build_no_lookup (S f) ctx lv s t st = (let! p := build f ctx lv s (f_PointerInner e t) in ret (PRef false p)) st.
  Proof. intros O R. cbn [Gen.build_no_lookup]. rewrite O, R. reflexivity. Qed.
  Lemma bnl_rule6 f ctx lv s t st :
    b_ctor st = false ->
    overlap_check ctx (b_tab st) s t = false ->
    first_rule e (has_method (b_tab st)) (bc_conf ctx) s t = Some 6 ->
    build_no_lookup (S f) ctx lv s t st = (let! p := build f ctx lv s (f_PointerInner e t) in ret (PRef (aliasing lv p) p)) st.
  Proof. intros C O R. cbn [Gen.build_no_lookup]. rewrite O, R, C. reflexivity. Qed.
  Notation target_var := (target_var e FT).
  Lemma bnl_rule5_raw f ctx lv s t st :
    b_ctor st = false ->
    overlap_check ctx (b_tab st) s t = false ->
    first_rule e (has_method (b_tab st)) (bc_conf ctx) s t = Some 5 ->
    build_no_lookup (S f) ctx lv s t st =
    (let! tv := target_var ctx s t in let! a := assign_no_lookup f ctx lv false s t in ret (of_assign tv t a)) st.
  Proof. intros C O R. cbn [Gen.build_no_lookup]. rewrite O, R, C. reflexivity. Qed.
  Lemma bnl_rule5 f ctx lv s t st :
    b_ctor st = false ->
    overlap_check ctx (b_tab st) s t = false ->
    first_rule e (has_method (b_tab st)) (bc_conf ctx) s t = Some 5 ->
    build_no_lookup (S f) ctx lv s t st = (let! _ := note_ty t in let! a := assign_no_lookup f ctx lv false s t in ret (POfAssign t a)) st.
  Proof.
    intros C O R. rewrite (bnl_rule5_raw _ _ _ _ _ _ C O R).
    unfold mbind at 1. unfold Gen.target_var. rewrite C. cbn [negb orb]. unfold mbind, ret, note_ty.
    destruct (assign_no_lookup f ctx lv false s t _) as [[a st']| | |]; reflexivity.
  Qed.
  Lemma anl_rule5 f ctx lv u s t st :
    overlap_check ctx (b_tab st) s t = false ->
    first_rule e (has_method (b_tab st)) (bc_conf ctx) s t = Some 5 ->
    assign_no_lookup (S f) ctx lv u s t st = (let! p := build f ctx LV_DEREF (f_PointerInner e s) t in ret (ASrcPtr p)) st.
  Proof. intros O R. cbn [Gen.assign_no_lookup]. rewrite O, R. reflexivity. Qed.

  (* T -> *U: the plan is "pointer to the conversion of the value" *)
  Lemma gen_value_to_ptr f ctx lv s t st p st' :
    b_ctor st = false ->
    cc_UseUnderlyingTypeMethods (bc_conf ctx) = false -> (forall id, s <> TNamed id) -> f_Pointer e s = false ->
    build_no_lookup (S f) ctx lv s (TPtr t) st = GOk (p, st') ->
    exists al q, p = PRef al q /\ exists st0, build f ctx lv s t st = GOk (q, st0).
  Proof.
    intros C U NN NP H.
    assert (O : overlap_check ctx (b_tab st) s (TPtr t) = false) by (apply overlap_needs_structs; cbn; apply andb_false_r).
    destruct (value_to_ptr_rule e (has_method (b_tab st)) (bc_conf ctx) s t U NN NP) as [r [R [-> | ->]]].
    - rewrite (bnl_rule3 _ _ _ _ _ _ O R) in H. unfold mbind, ret in H. cbn [f_PointerInner under] in H.
      destruct (build f ctx lv s t st) as [[q st1]| | |]; try discriminate. inversion H; subst. eauto.
    - rewrite (bnl_rule6 _ _ _ _ _ _ C O R) in H. unfold mbind, ret in H. cbn [f_PointerInner under] in H.
      destruct (build f ctx lv s t st) as [[q st1]| | |]; try discriminate. inversion H; subst. eauto.
  Qed.

  (* *T -> U with the flag: zero value of U for nil, else the conversion of the pointee *)
  Lemma gen_ptr_to_value_with_flag f ctx lv s t st p st' :
    b_ctor st = false ->
    cc_UseZeroValueOnPointerInconsistency (bc_conf ctx) = true -> cc_UseUnderlyingTypeMethods (bc_conf ctx) = false ->
    (forall id, t <> TNamed id) -> f_Pointer e t = false ->
    build_no_lookup (S (S f)) ctx lv (TPtr s) t st = GOk (p, st') ->
    exists q, p = POfAssign t (ASrcPtr q) /\ exists st0 st1, b_tab st0 = b_tab st /\ build f ctx LV_DEREF s t st0 = GOk (q, st1).
  Proof.
    intros C F U NN NP H.
    assert (O : overlap_check ctx (b_tab st) (TPtr s) t = false) by (apply overlap_needs_structs; reflexivity).
    pose proof (ptr_to_value_with_flag e (has_method (b_tab st)) (bc_conf ctx) s t F U NN NP) as R.
    rewrite (bnl_rule5 _ _ _ _ _ _ C O R) in H. unfold mbind, ret, note_ty in H.
    match type of H with context [assign_no_lookup (S f) ctx lv false (TPtr s) t ?X] => set (st0 := X) in * end.
    assert (T0 : b_tab st0 = b_tab st) by reflexivity.
    rewrite (anl_rule5 _ _ _ _ _ _ st0) in H by (rewrite T0; assumption). unfold mbind, ret in H. cbn [f_PointerInner under] in H.
    destruct (build f ctx LV_DEREF s t st0) as [[q st1]| | |] eqn:B; try discriminate. inversion H; subst. eauto 6.
  Qed.
End gen_facts.

(* ---------- the zero-value guard decision (builder/struct.go shouldCheckAgainstZero, regenerated) ---------- *)
Section zero_table.
  Variable e : env.
  Lemma zero_check_not_update conf s t call :
    cc_UpdateTarget conf = false -> x_shouldCheckAgainstZero e conf s t false call = false.
  Proof. intros H. unfold x_shouldCheckAgainstZero. rewrite H. reflexivity. Qed.
  Lemma zero_check_struct conf s t upd call :
    cc_UpdateTarget conf = true -> f_Struct e s = true -> cc_IgnoreStructZeroValueField conf = true ->
    x_shouldCheckAgainstZero e conf s t upd call = true.
  Proof. intros H1 H2 H3. unfold x_shouldCheckAgainstZero. rewrite H1, H2, H3. reflexivity. Qed.
  Lemma zero_check_basic conf s t upd call :
    cc_UpdateTarget conf = true -> f_Struct e s = false -> f_Basic e s = true -> cc_IgnoreBasicZeroValueField conf = true ->
    x_shouldCheckAgainstZero e conf s t upd call = true.
  Proof. intros H1 H2 H3 H4. unfold x_shouldCheckAgainstZero. rewrite H1, H2, H3, H4. cbn. reflexivity. Qed.
  Lemma zero_check_map_chan_func_iface conf s t upd call :
    cc_UpdateTarget conf = true -> f_Struct e s = false -> f_Basic e s = false -> cc_IgnoreNillableZeroValueField conf = true ->
    (f_Chan e s || f_Map e s || f_Func e s || f_Signature e s || f_Interface e s) = true ->
    x_shouldCheckAgainstZero e conf s t upd call = true.
  Proof. intros H1 H2 H3 H4 H5. unfold x_shouldCheckAgainstZero. rewrite H1, H2, H3, H4, H5. cbn. reflexivity. Qed.
  (* pointers and slices get no guard of their own unless assigned as is (call / skipCopySameType): the inline
     conversion has its own nil guard, which leaves the target untouched (EvalFacts.eval_ptr_nil, eval_slice_nil) *)
  Lemma zero_check_pointer_slice_inline conf s t upd :
    f_Struct e s = false -> f_Basic e s = false ->
    (f_Chan e s || f_Map e s || f_Func e s || f_Signature e s || f_Interface e s) = false ->
    cc_SkipCopySameType conf = false ->
    x_shouldCheckAgainstZero e conf s t upd false = false.
  Proof.
    intros H2 H3 H5 H6. unfold x_shouldCheckAgainstZero. rewrite H2, H3, H5, H6. cbn.
    destruct (negb (cc_UpdateTarget conf) && negb upd), (cc_IgnoreNillableZeroValueField conf); reflexivity.
  Qed.
  (* nothing is guarded unless its category is selected *)
  Lemma zero_check_nothing_selected conf s t upd call :
    cc_IgnoreStructZeroValueField conf = false -> cc_IgnoreBasicZeroValueField conf = false -> cc_IgnoreNillableZeroValueField conf = false ->
    x_shouldCheckAgainstZero e conf s t upd call = false.
  Proof.
    intros H1 H2 H3. unfold x_shouldCheckAgainstZero. rewrite H1, H2, H3.
    destruct (negb (cc_UpdateTarget conf) && negb upd), (f_Struct e s), (f_Basic e s); reflexivity.
  Qed.
End zero_table.

(* ---- the SkipCopy rule (C04): chosen only with the setting in effect for the method and identical types ---- *)
Lemma skipcopy_rule_sound e hm conf s t :
  first_rule e hm conf s t = Some 1 -> cc_SkipCopySameType conf = true /\ s = t.
Proof.
  unfold first_rule. intros H. apply find_some in H. destruct H as [_ H].
  change (x_matches 1 e hm conf s t) with (x_matches_1 e hm conf s t) in H.
  unfold x_matches_1, f_String, eqv, eqv_ty in H.
  apply andb_prop in H. destruct H as [H1 H2]. split; [exact H1 | apply TyFacts.ty_eqb_eq; exact H2].
Qed.
(* without the setting no pair of types selects it *)
Lemma skipcopy_rule_off e hm conf s t :
  cc_SkipCopySameType conf = false -> first_rule e hm conf s t <> Some 1.
Proof. intros H R. apply skipcopy_rule_sound in R. destruct R as [R _]. congruence. Qed.
(* taking the address of a built value never hands out an address of the source (fix f2ba6e9) *)
Lemma never_aliasing lv p : aliasing lv p = false.
Proof. reflexivity. Qed.

(* the identity plan of the Basic rule (the other plan that passes the source expression on) is chosen only for basic
   types of one kind: values without any address *)
Lemma basic_rule_sound e hm conf s t :
  first_rule e hm conf s t = Some 7 ->
  f_Basic e s = true /\ f_Basic e t = true /\ m_Kind e (f_BasicType e s) = m_Kind e (f_BasicType e t).
Proof.
  unfold first_rule. intros H. apply find_some in H. destruct H as [_ H].
  change (x_matches 7 e hm conf s t) with (x_matches_7 e hm conf s t) in H.
  unfold x_matches_7, eqv, eqv_N in H.
  apply andb_prop in H. destruct H as [H12 H3]. apply andb_prop in H12. destruct H12 as [H1 H2].
  repeat split; try assumption. apply N.eqb_eq. exact H3.
Qed.
