(* FieldFacts.v — xtype.FindField as modelled in Gen.v: exact name beats case-insensitive
   matches, several candidates are an error, none is NoMatch (C05). *)
From Coq Require Import List NArith Bool Lia.
From GV Require Import Base Ty Conf Extracted Plan Gen.
Import ListNotations.
Open Scope N_scope.

Section field_facts.
  Variable e : env.
  Local Opaque fold_eqb.

  Definition has_exact (name : rstr) (l : list (rstr * ty)) : bool := existsb (fun nt => rstr_eqb (fst nt) name) l.
  Definition fold_names (name : rstr) (l : list (rstr * ty)) : list rstr :=
    map fst (filter (fun nt => fold_eqb (fst nt) name) l).

  Lemma scan_exact prefix name ic l acc :
    has_exact name l = true -> fst (scan_fields prefix name ic l acc) = Some (prefix ++ [name]).
  Proof.
    revert acc. induction l as [|[n t] l IH]; intros acc H; cbn in *; [discriminate|].
    destruct (rstr_eqb n name) eqn:E.
    - apply rstr_eqb_spec in E. subst. reflexivity.
    - cbn in H. destruct (ic && fold_eqb n name); apply IH; exact H.
  Qed.

  Lemma scan_no_exact prefix name ic l acc :
    has_exact name l = false ->
    scan_fields prefix name ic l acc =
    (None, rev acc ++ map (fun n => prefix ++ [n]) (if ic then fold_names name l else [])).
  Proof.
    revert acc. induction l as [|[n t] l IH]; intros acc H; cbn in *.
    - destruct ic; cbn; rewrite app_nil_r; reflexivity.
    - apply orb_false_iff in H as [E H]. rewrite E. destruct ic; cbn [andb].
      + unfold fold_names in *. cbn [filter fst]. destruct (fold_eqb n name); cbn [map].
        * rewrite IH by exact H. cbn [rev]. rewrite <- app_assoc. reflexivity.
        * apply IH; exact H.
      + apply IH; exact H.
  Qed.

  (* FindField on the source struct alone (no autoMap sources) *)
  Theorem find_field_spec name ic s :
    find_field e name ic s [] =
    let members := struct_fields e s ++ methods_of e s in
    if has_exact name members then FFOne [name]
    else if ic then match fold_names name members with
                    | [n] => FFOne [n]
                    | [] => FFNone
                    | _ => FFAmbiguous
                    end
         else FFNone.
  Proof.
    unfold find_field, all_fields. cbn [fold_left]. cbv zeta.
    destruct (has_exact name (struct_fields e s ++ methods_of e s)) eqn:H.
    - pose proof (scan_exact [] name ic _ [] H) as X.
      destruct (scan_fields [] name ic (struct_fields e s ++ methods_of e s) []) as [ex icm]. cbn in X. subst. reflexivity.
    - rewrite (scan_no_exact [] name ic _ [] H). cbn [rev app]. destruct ic; [|reflexivity].
      destruct (fold_names name (struct_fields e s ++ methods_of e s)) as [|n [|n2 r]]; reflexivity.
  Qed.

  (* exact beats case-insensitive: with an exact member the flag is irrelevant *)
  Corollary exact_precedence name s ic :
    has_exact name (struct_fields e s ++ methods_of e s) = true -> find_field e name ic s [] = FFOne [name].
  Proof. intros H. rewrite find_field_spec. cbv zeta. rewrite H. reflexivity. Qed.

  (* without matchIgnoreCase only the exact name counts *)
  Corollary case_sensitive_by_default name s :
    has_exact name (struct_fields e s ++ methods_of e s) = false -> find_field e name false s [] = FFNone.
  Proof. intros H. rewrite find_field_spec. cbv zeta. rewrite H. reflexivity. Qed.
End field_facts.
