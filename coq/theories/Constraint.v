(* Constraint.v — //go:build expressions (the fragment goverter's defaults and the documentation use),
   file selection under a tag set, and the header goverter writes. *)
From Coq Require Import List NArith Bool String.
From GV Require Import Base Ty Conf Extracted.
Import ListNotations.
Open Scope N_scope.

Inductive bexpr := BTag (t : rstr) | BNot (e : bexpr) | BAnd (a b : bexpr) | BOr (a b : bexpr).

Fixpoint beval (tags : list rstr) (e : bexpr) : bool :=
  match e with
  | BTag t => existsb (rstr_eqb t) tags
  | BNot x => negb (beval tags x)
  | BAnd a b => beval tags a && beval tags b
  | BOr a b => beval tags a || beval tags b
  end.

(* parser for "tag" and "!tag" (what -output-constraint / -build-tags defaults and the docs pair up) *)
Definition is_tag_char (c : N) : bool := ((97 <=? c) && (c <=? 122)) || ((65 <=? c) && (c <=? 90)) || ((48 <=? c) && (c <=? 57)) || (c =? 95) || (c =? 46).
Definition parse_simple (s : rstr) : option bexpr :=
  match s with
  | 33 :: t => if forallb is_tag_char t && match t with [] => false | _ => true end then Some (BNot (BTag t)) else None
  | _ :: _ => if forallb is_tag_char s then Some (BTag s) else None
  | [] => None
  end.

(* -build-tags is a comma separated list *)
Fixpoint split_comma_aux (cur : rstr) (l : rstr) : list rstr :=
  match l with
  | [] => match cur with [] => [] | _ => [rev cur] end
  | c :: r => if c =? 44 then match cur with [] => split_comma_aux [] r | _ => rev cur :: split_comma_aux [] r end
              else split_comma_aux (c :: cur) r
  end.
Definition tag_list (s : rstr) : list rstr := split_comma_aux [] s.

(* a source file: its build constraint (None = unconstrained) and whether it type-checks *)
Record gofile := { gf_constraint : option bexpr; gf_ok : bool }.
Definition selected (tags : list rstr) (f : gofile) : bool :=
  match gf_constraint f with None => true | Some e => beval tags e end.
(* loading succeeds iff every selected file type-checks *)
Definition load_ok (tags : list rstr) (files : list gofile) : bool :=
  forallb (fun f => negb (selected tags f) || gf_ok f) files.

(* the header of every emitted file *)
Definition header_lines (constraint : rstr) : list rstr :=
  x_header_comment :: match constraint with [] => [] | _ => [x_build_prefix ++ constraint] end.
