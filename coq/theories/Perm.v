(* Perm.v — iterating over a Go map = visiting its entries in an arbitrary permutation.
   Which loop patterns are independent of that permutation (C09). *)
From Coq Require Import List Permutation Sorted Orders Mergesort Arith Lia Bool.
Import ListNotations.

Module NatOrder <: TotalLeBool.
  Definition t := nat.
  Definition leb := Nat.leb.
  Theorem leb_total : forall a1 a2, leb a1 a2 = true \/ leb a2 a1 = true.
  Proof. intros a b. unfold leb. destruct (Nat.leb_spec a b); [left; reflexivity|right; apply Nat.leb_le; lia]. Qed.
End NatOrder.
Module S := Sort NatOrder.

Lemma sorted_perm_eq : forall l1 l2 : list nat,
  StronglySorted le l1 -> StronglySorted le l2 -> Permutation l1 l2 -> l1 = l2.
Proof.
  induction l1 as [|a l1 IH]; intros l2 S1 S2 P.
  - apply Permutation_nil in P. congruence.
  - destruct l2 as [|b l2]; [apply Permutation_sym, Permutation_nil in P; discriminate|].
    inversion S1 as [|? ? S1' F1]; inversion S2 as [|? ? S2' F2]; subst.
    assert (a = b).
    { assert (Ha : In a (b :: l2)) by (eapply Permutation_in; [exact P|left; reflexivity]).
      assert (Hb : In b (a :: l1)) by (eapply Permutation_in; [apply Permutation_sym; exact P|left; reflexivity]).
      rewrite Forall_forall in F1, F2.
      destruct Ha as [->|Ha]; [reflexivity|]. destruct Hb as [->|Hb]; [reflexivity|].
      specialize (F1 _ Hb). specialize (F2 _ Ha). lia. }
    subst b. f_equal. apply IH; auto. eapply Permutation_cons_inv; exact P.
Qed.

Lemma sort_sorted l : StronglySorted le (S.sort l).
Proof.
  apply Sorted_StronglySorted; [intros x y z; apply Nat.le_trans|].
  pose proof (S.LocallySorted_sort l) as H. apply Sorted_LocallySorted_iff.
  induction H; constructor; auto. unfold is_true, NatOrder.leb in *. apply Nat.leb_le. assumption.
Qed.

(* class 1: collect the keys, then sort: independent of the visiting order *)
Theorem collect_sort_perm_indep (l l' : list nat) : Permutation l l' -> S.sort l = S.sort l'.
Proof.
  intros P. apply sorted_perm_eq; try apply sort_sorted.
  eapply Permutation_trans; [apply Permutation_sym, S.Permuted_sort|].
  eapply Permutation_trans; [exact P|apply S.Permuted_sort].
Qed.

(* class 2: for-all / exists predicates *)
Theorem forallb_perm_indep {A} (p : A -> bool) l l' : Permutation l l' -> forallb p l = forallb p l'.
Proof.
  induction 1 as [|x l l' _ IH|x y l|l1 l2 l3 _ IH1 _ IH2]; cbn; try congruence.
  destruct (p x), (p y); reflexivity.
Qed.
Theorem existsb_perm_indep {A} (p : A -> bool) l l' : Permutation l l' -> existsb p l = existsb p l'.
Proof.
  induction 1 as [|x l l' _ IH|x y l|l1 l2 l3 _ IH1 _ IH2]; cbn; try congruence.
  destruct (p x), (p y); reflexivity.
Qed.

(* class 0: inserting entries with pairwise distinct keys into a map (a function from keys) *)
Definition insert {V} (m : nat -> option V) (kv : nat * V) : nat -> option V :=
  fun k => if Nat.eqb k (fst kv) then Some (snd kv) else m k.
Lemma insert_all_spec {V} (l : list (nat * V)) : NoDup (map fst l) ->
  forall m k, fold_left insert l m k = match find (fun kv => Nat.eqb k (fst kv)) l with Some kv => Some (snd kv) | None => m k end.
Proof.
  induction l as [|[k0 v0] l IH]; intros ND m k; cbn; [reflexivity|].
  inversion ND as [|? ? Hn ND']; subst. rewrite IH by exact ND'.
  destruct (Nat.eqb k k0) eqn:E.
  - apply Nat.eqb_eq in E. subst.
    destruct (find (fun kv => Nat.eqb k0 (fst kv)) l) as [kv|] eqn:F.
    + exfalso. apply find_some in F as [Hin Hk]. apply Nat.eqb_eq in Hk. apply Hn. rewrite Hk. apply in_map. exact Hin.
    + unfold insert. cbn. rewrite Nat.eqb_refl. reflexivity.
  - destruct (find _ l); [reflexivity|]. unfold insert. cbn. rewrite E. reflexivity.
Qed.
Lemma find_perm_nodup {V} (l l' : list (nat * V)) k : NoDup (map fst l) -> Permutation l l' ->
  find (fun kv => Nat.eqb k (fst kv)) l = find (fun kv => Nat.eqb k (fst kv)) l'.
Proof.
  intros ND P. induction P as [|x l l' P IH|x y l|l1 l2 l3 P1 IH1 P2 IH2]; cbn.
  - reflexivity.
  - inversion ND; subst. destruct (Nat.eqb k (fst x)); [reflexivity|apply IH; assumption].
  - inversion ND as [|? ? Hn ND']; subst. inversion ND' as [|? ? Hn' ND'']; subst.
    destruct (Nat.eqb k (fst y)) eqn:Ey, (Nat.eqb k (fst x)) eqn:Ex; try reflexivity.
    apply Nat.eqb_eq in Ey, Ex. exfalso. apply Hn. left. congruence.
  - rewrite IH1 by exact ND. apply IH2. eapply Permutation_NoDup; [apply Permutation_map; exact P1|exact ND].
Qed.
Theorem insert_only_perm_indep {V} (l l' : list (nat * V)) m : NoDup (map fst l) -> Permutation l l' ->
  forall k, fold_left insert l m k = fold_left insert l' m k.
Proof.
  intros ND P k. rewrite !insert_all_spec; [|eapply Permutation_NoDup; [apply Permutation_map; exact P|exact ND]|exact ND].
  rewrite (find_perm_nodup l l' k ND P). reflexivity.
Qed.

(* class 3: "return on the first element" depends on the visiting order as soon as two elements qualify ... *)
Definition first_hit (l : list nat) : option nat := hd_error l.
Theorem first_hit_dependent : exists l l', Permutation l l' /\ first_hit l <> first_hit l'.
Proof. exists [1;2], [2;1]. split; [apply perm_swap|discriminate]. Qed.
(* ... and is independent with at most one *)
Theorem first_hit_indep_le1 l l' : length l <= 1 -> Permutation l l' -> first_hit l = first_hit l'.
Proof.
  intros H P. destruct l as [|a [|b l]]; cbn in H; try lia.
  - apply Permutation_nil in P. subst. reflexivity.
  - apply Permutation_length_1_inv in P. subst. reflexivity.
Qed.
(* the repair: report the least element *)
Theorem least_hit_indep l l' : Permutation l l' -> hd_error (S.sort l) = hd_error (S.sort l').
Proof. intros P. rewrite (collect_sort_perm_indep l l' P). reflexivity. Qed.
