(* Conf.v — the settings record a method is generated with (config.Common + the parts of
   config.Method / method.Definition the builders read). Field names follow the Go names
   (c_<GoField>) because extracted predicates refer to them. *)
From Coq Require Import List NArith Bool.
From GV Require Import Base Ty.
Import ListNotations.
Open Scope N_scope.

Record common := {
  c_WrapErrors : bool;
  c_WrapErrorsUsing : rstr;
  c_IgnoreUnexported : bool;
  c_IgnoreBasicZeroValueField : bool;
  c_IgnoreStructZeroValueField : bool;
  c_IgnoreNillableZeroValueField : bool;
  c_MatchIgnoreCase : bool;
  c_IgnoreMissing : bool;
  c_SkipCopySameType : bool;
  c_UseZeroValueOnPointerInconsistency : bool;
  c_UseUnderlyingTypeMethods : bool;
  c_DefaultUpdate : bool;
  c_Enum_Enabled : bool;
  c_Enum_Unknown : rstr;
  c_ArgContextRegex : rstr
}.

(* per-field setting of a method (config.FieldMapping) *)
Record fmap := { fm_source : rstr;          (* goverter:map SOURCE target ; [] = none *)
                 fm_ignore : bool;
                 fm_func : option N }.      (* map ... | FUNC : index of the custom function *)
Definition empty_fmap : fmap := {| fm_source := []; fm_ignore := false; fm_func := None |}.

(* what the builders read of a method (config.Method) *)
Record mconf := {
  m_common : common;
  m_fields : list (rstr * fmap);            (* Fields, keyed by target field name *)
  m_automap : list rstr;                    (* AutoMap paths *)
  m_raw_field_settings : bool;              (* len(RawFieldSettings) > 0 *)
  m_UpdateTarget : bool;
  m_constructor : option N;                 (* default FUNC *)
  m_enum_map : list (rstr * rstr);          (* enum:map SOURCE TARGET|@action, later lines override *)
  m_enum_transforms : list (list (rstr * rstr));  (* per enum:transform line: source member -> result of the transformer's
                                               rewriting (kept only when that is a target member) *)
  m_enum_excluded : list N                  (* named types matched by enum:exclude *)
}.

(* accessors under the names the extractor emits for ctx.Conf.X *)
Definition c_of (m : mconf) := m_common m.
Definition cc_SkipCopySameType (m : mconf) := c_SkipCopySameType (m_common m).
Definition cc_UseZeroValueOnPointerInconsistency (m : mconf) := c_UseZeroValueOnPointerInconsistency (m_common m).
Definition cc_UseUnderlyingTypeMethods (m : mconf) := c_UseUnderlyingTypeMethods (m_common m).
Definition cc_IgnoreStructZeroValueField (m : mconf) := c_IgnoreStructZeroValueField (m_common m).
Definition cc_IgnoreBasicZeroValueField (m : mconf) := c_IgnoreBasicZeroValueField (m_common m).
Definition cc_IgnoreNillableZeroValueField (m : mconf) := c_IgnoreNillableZeroValueField (m_common m).
Definition cc_IgnoreUnexported (m : mconf) := c_IgnoreUnexported (m_common m).
Definition cc_IgnoreMissing (m : mconf) := c_IgnoreMissing (m_common m).
Definition cc_MatchIgnoreCase (m : mconf) := c_MatchIgnoreCase (m_common m).
Definition cc_DefaultUpdate (m : mconf) := c_DefaultUpdate (m_common m).
Definition cc_Enum_Enabled (m : mconf) := c_Enum_Enabled (m_common m).
Definition cc_UpdateTarget (m : mconf) := m_UpdateTarget m.

(* source.Enum(&ctx.Conf.Enum).OK : named, enum enabled, not excluded, detected *)
Definition enum_ok (e : env) (m : mconf) (t : ty) : bool :=
  match t with
  | TNamed id => c_Enum_Enabled (m_common m) && negb (existsb (N.eqb id) (m_enum_excluded m)) &&
                 match lookup e id with Some d => n_enum d | None => false end
  | _ => false
  end.
