(* ErrFacts.v — errors of custom functions (C07): an error leaving a conversion is the error of a fallible
   custom function that failed; the recorded location is the target field / slice index / source map key of
   the failing element; the wrap modes record exactly the documented part of that location. *)
From Coq Require Import List NArith ZArith Bool Lia.
From GV Require Import Base Ty TyFacts Conf Val Plan Eval EvalFacts.
Import ListNotations.
Open Scope N_scope.

(* ---- wrapping ---- *)
Lemma finalize_fn mode er : er_fn (finalize mode er) = er_fn er.
Proof.
  unfold finalize. repeat match goal with |- context [match ?x with _ => _ end] => destruct x end; reflexivity.
Qed.
Lemma push_elem_fn d er : er_fn (push_elem d er) = er_fn er.
Proof. reflexivity. Qed.
(* wrapErrorsUsing: one Wrap call with every element of the location inside the method, outermost first,
   in front of the Wrap calls of the methods below *)
Lemma finalize_using er : finalize 2 er = {| er_fn := er_fn er; er_wraps := er_pending er :: er_wraps er; er_pending := [] |}.
Proof. reflexivity. Qed.
(* wrapErrors: the innermost element if it is a field or an index, nothing for a map key or at top level *)
Lemma finalize_wrap_field er pre n : er_pending er = pre ++ [DField n] ->
  finalize 1 er = {| er_fn := er_fn er; er_wraps := [DField n] :: er_wraps er; er_pending := [] |}.
Proof. intros H. unfold finalize. rewrite H, rev_app_distr. reflexivity. Qed.
Lemma finalize_wrap_index er pre i : er_pending er = pre ++ [DIndex i] ->
  finalize 1 er = {| er_fn := er_fn er; er_wraps := [DIndex i] :: er_wraps er; er_pending := [] |}.
Proof. intros H. unfold finalize. rewrite H, rev_app_distr. reflexivity. Qed.
Lemma finalize_wrap_key er pre k : er_pending er = pre ++ [DKey k] ->
  finalize 1 er = {| er_fn := er_fn er; er_wraps := er_wraps er; er_pending := [] |}.
Proof. intros H. unfold finalize. rewrite H, rev_app_distr. reflexivity. Qed.
Lemma finalize_wrap_top er : er_pending er = [] ->
  finalize 1 er = {| er_fn := er_fn er; er_wraps := er_wraps er; er_pending := [] |}.
Proof. intros H. unfold finalize. rewrite H. reflexivity. Qed.
(* no wrapping: the error is returned as it is *)
Lemma finalize_none er : er_wraps (finalize 0 er) = er_wraps er.
Proof. reflexivity. Qed.
(* descending adds the element in front: the pending location reads outermost first *)
Lemma tag_errored {A} d er : @tag A d (Errored er) = Errored (push_elem d er).
Proof. reflexivity. Qed.
Lemma push_elem_pending d er : er_pending (push_elem d er) = d :: er_pending er.
Proof. reflexivity. Qed.

Section loops.
  Variable ev : vplan -> val -> N -> outcome (val * N).
  Variable ea : aplan -> val -> val -> N -> outcome (val * N).

  (* slices: the index recorded is the position of the failing element; everything before it succeeded *)
  Lemma each_assign_error a : forall srcs i olds st er',
    each_assign ea i a srcs olds st = Errored er' ->
    exists k s o st0 er, nth_error srcs k = Some s /\ (nth_error olds k = Some o \/ (nth_error olds k = None /\ o = VNil)) /\
                         ea a s o st0 = Errored er /\ er' = push_elem (DIndex (i + N.of_nat k)) er.
  Proof.
    induction srcs as [|s sr IH]; intros i olds st er' H; cbn [each_assign] in H; [discriminate|].
    destruct olds as [|o orr].
    - destruct (touches a s).
      + apply store_into_nil_error in H as (er & He & ->). exists 0%nat, s, VNil, st, er.
        repeat split; auto. rewrite N.add_0_r. reflexivity.
      + apply IH in H as (k & s' & o' & st0 & er & Hs & Ho & He & ->).
        exists (S k), s', o', st0, er. repeat split; auto.
        * right. destruct Ho as [Ho|[Ho Hv]]; [destruct k; discriminate|]. split; [reflexivity|exact Hv].
        * f_equal. f_equal. lia.
    - destruct (ea a s o st) as [[v st1]| | | |] eqn:E1; cbn [tag obind] in H; try discriminate.
      + destruct (each_assign ea (i + 1) a sr orr st1) as [[vs st2]| | | |] eqn:E2; cbn [obind] in H; try discriminate.
        injection H as <-. apply IH in E2 as (k & s' & o' & st0 & er0 & Hs & Ho & He & ->).
        exists (S k), s', o', st0, er0. repeat split; auto. f_equal. f_equal. lia.
      + injection H as <-. exists 0%nat, s, o, st, er. repeat split; auto. rewrite N.add_0_r. reflexivity.
  Qed.

  (* maps: the key recorded is the token of the source key of the failing entry (key or value conversion) *)
  Lemma each_entry_error k v : forall kvs st er',
    each_entry ev k v kvs st = Errored er' ->
    exists k0 v0 st0 er, In (k0, v0) kvs /\ (ev k k0 st0 = Errored er \/ ev v v0 st0 = Errored er) /\
                         er' = push_elem (DKey (match k0 with VBasic z => z | _ => 0%Z end)) er.
  Proof.
    induction kvs as [|[k0 v0] r IH]; intros st er' H; cbn [each_entry] in H; [discriminate|].
    destruct (ev k k0 st) as [[k1 st1]| | | |] eqn:E1; cbn [tag obind] in H; try discriminate.
    - destruct (ev v v0 st1) as [[v1 st2]| | | |] eqn:E2; cbn [tag obind] in H; try discriminate.
      + destruct (each_entry ev k v r st2) as [[rs st3]| | | |] eqn:E3; cbn [obind] in H; try discriminate.
        injection H as <-. apply IH in E3 as (k0' & v0' & st0 & er0 & Hin & He & ->).
        exists k0', v0', st0, er0. split; [right; exact Hin|]. auto.
      + injection H as <-. exists k0, v0, st1, er. split; [left; reflexivity|]. auto.
    - injection H as <-. exists k0, v0, st, er. split; [left; reflexivity|]. auto.
  Qed.

  (* structs: the field recorded is the target field whose conversion failed *)
  Definition fplan_name (f : fplan) : option rstr :=
    match f with FSkip => None | FAssign n _ _ _ => Some n | FCall n _ _ _ => Some n end.
  Lemma each_field_error : forall fs src olds st er',
    each_field ev ea fs src olds st = Errored er' ->
    exists f n er, In f fs /\ fplan_name f = Some n /\ er' = push_elem (DField n) er.
  Proof.
    induction fs as [|f fr IH]; intros src olds st er' H; cbn [each_field] in H.
    - destruct olds; discriminate.
    - destruct olds as [|o orr]; [discriminate|].
      match type of H with obind ?X _ = _ => destruct X as [[v st1]| | | |] eqn:E1 end; cbn [obind] in H; try discriminate.
      + destruct (each_field ev ea fr src orr st1) as [[vs st2]| | | |] eqn:E2; cbn [obind] in H; try discriminate.
        injection H as <-. apply IH in E2 as (f' & n & er0 & Hin & Hn & ->). exists f', n, er0. split; [right; exact Hin|]. auto.
      + injection H as <-. destruct f as [|nm sel g a|nm osel g p]; [discriminate| |].
        * match type of E1 with tag _ ?Y = _ => destruct Y as [[? ?]| | | |] eqn:E0 end; cbn [tag] in E1; try discriminate.
          injection E1 as <-. exists (FAssign nm sel g a), nm, er0. split; [left; reflexivity|]. auto.
        * destruct osel as [sl|].
          -- match type of E1 with tag _ ?Y = _ => destruct Y as [[? ?]| | | |] eqn:E0 end; cbn [tag] in E1; try discriminate.
             injection E1 as <-. exists (FCall nm (Some sl) g p), nm, er0. split; [left; reflexivity|]. auto.
          -- match type of E1 with tag _ ?Y = _ => destruct Y as [[? ?]| | | |] eqn:E0 end; cbn [tag] in E1; try discriminate.
             injection E1 as <-. exists (FCall nm None g p), nm, er0. split; [left; reflexivity|]. auto.
  Qed.
End loops.

(* ---- provenance: every error is the error of a fallible custom function ---- *)
Section provenance.
  Variable e : env.
  Variable M : table.
  Variable F : ftable.

  Definition from_fallible (er : errv) : Prop :=
    er_fn er = ENUM_ERR \/ exists fd, nth_error F (N.to_nat (er_fn er)) = Some fd /\ fd_err fd = true.   (* an enum switch with @error, or a fallible custom function *)
  Definition prov_v (ev : vplan -> val -> N -> outcome (val * N)) : Prop :=
    forall p src st er, ev p src st = Errored er -> from_fallible er.
  Definition prov_a (ea : aplan -> val -> val -> N -> outcome (val * N)) : Prop :=
    forall a src old st er, ea a src old st = Errored er -> from_fallible er.

  Lemma from_push d er : from_fallible er -> from_fallible (push_elem d er).
  Proof. exact (fun H => H). Qed.
  Lemma from_finalize mode er : from_fallible er -> from_fallible (finalize mode er).
  Proof. unfold from_fallible. rewrite finalize_fn. exact (fun H => H). Qed.

  Lemma sel_eval_prov ev : prov_v ev -> forall sel src st er, sel_eval ev sel src st = Errored er -> from_fallible er.
  Proof.
    intros Hv sel src st er H. destruct sel as [|steps w|steps rd fi args fl w]; cbn in H.
    - discriminate.
    - destruct (walk steps src) as [[v|]|]; try discriminate; destruct w; discriminate.
    - match type of H with match ?R with _ => _ end = _ => destruct R as [[rv|]|] end; try discriminate.
      + destruct (ev (PCallX (CFn fi) args fl) rv st) as [[r st1]| | | |] eqn:E; cbn [obind] in H; try discriminate.
        * destruct w; discriminate.
        * injection H as <-. eapply Hv. exact E.
      + destruct w; discriminate.
  Qed.

  Lemma prov_step_v f : (forall cx, prov_v (eval_v e M F f cx)) -> (forall cx, prov_a (eval_a e M F f cx)) ->
    forall cx, prov_v (eval_v e M F (S f) cx).
  Proof.
    intros IHv IHa cx.
    intros p src st er H. rewrite eval_v_S in H. destruct p as [| |al q|m|c args fl|t a|ini tp a|el a|ini t cases dflt].
      + destruct (plain src); discriminate.
      + discriminate.
      + destruct (eval_v e M F f cx q src st) as [[r st1]| | | |] eqn:E; cbn [obind] in H; try discriminate.
        * destruct al; discriminate.
        * injection H as <-. eapply IHv. exact E.
      + destruct (nth_error M (N.to_nat m)) as [mt|]; [|discriminate].
        destruct (body_plan mt) as [[p' wr]|]; try discriminate.
        destruct (eval_v e M F f [] p' src st) as [[r st1]| | | |] eqn:E; try discriminate.
        injection H as <-. apply IHv in E. destruct wr; [apply from_finalize|]; exact E.
      + destruct (negb (args_ok cx args)); [discriminate|]. cbv zeta in H. destruct c as [fi|m].
        * destruct (nth_error F (N.to_nat fi)) as [fd|] eqn:Ef; [|discriminate].
          destruct (fd_err fd && fn_fails fi _) eqn:Eb.
          -- injection H as <-. apply andb_true_iff in Eb as [Efe _]. right. exists fd. split; [exact Ef|exact Efe].
          -- destruct (mark e 60 _ _ st) as [[v1 st1] ok]. discriminate.
        * destruct (nth_error M (N.to_nat m)) as [mt|]; [|discriminate].
          destruct (body_plan mt) as [[p' wr]|]; try discriminate.
          match type of H with match ?X with _ => _ end = _ => destruct X as [[r st1]| | | |] eqn:E end; try discriminate.
          injection H as <-. apply IHv in E. destruct wr; [apply from_finalize|]; exact E.
      + eapply IHa. exact H.
      + destruct (eval_v e M F f cx ini src st) as [[v0 st1]| | | |] eqn:E; cbn [obind] in H; try discriminate.
        * destruct tp; eapply IHa; exact H.
        * injection H as <-. eapply IHv. exact E.
      + destruct src; try discriminate. eapply IHa. exact H.
      + destruct ini as [[ip tp]|].
        * destruct (eval_v e M F f cx ip src st) as [[v1 s2]| | | |] eqn:E; cbn [obind] in H; try discriminate.
          -- destruct tp; cbn [obind] in H; (destruct src; try discriminate; destruct (enum_action cases dflt z); try discriminate; injection H as <-; left; reflexivity).
          -- injection H as <-. eapply IHv. exact E.
        * cbn [obind] in H. destruct src; try discriminate. destruct (enum_action cases dflt z); try discriminate. injection H as <-. left. reflexivity.
  Qed.

  Lemma prov_step_a f : (forall cx, prov_v (eval_v e M F f cx)) -> (forall cx, prov_a (eval_a e M F f cx)) ->
    forall cx, prov_a (eval_a e M F (S f) cx).
  Proof.
    intros IHv IHa cx.
    intros a src old st er H. rewrite eval_a_S in H. destruct a as [q|q|q|fx el a'|k vv|fs|a'|a'].
      + eapply IHv. exact H.
      + destruct src; try discriminate.
        destruct (eval_v e M F f cx q src st) as [[r st1]| | | |] eqn:E; cbn [obind] in H; try discriminate.
        injection H as <-. eapply IHv. exact E.
      + destruct src; try discriminate. eapply IHv. exact H.
      + destruct fx.
        * destruct src; try discriminate. destruct old; try discriminate.
          -- destruct (each_assign (eval_a e M F f cx) 0 a' vs [] st) as [[rs st1]| | | |] eqn:E; cbn [obind] in H; try discriminate.
             injection H as <-. apply each_assign_error in E as (k & s & o & st0 & er1 & _ & _ & He & ->). apply from_push. eapply IHa. exact He.
          -- destruct (each_assign (eval_a e M F f cx) 0 a' vs vs0 st) as [[rs st1]| | | |] eqn:E; cbn [obind] in H; try discriminate.
             injection H as <-. apply each_assign_error in E as (k & s & o & st0 & er1 & _ & _ & He & ->). apply from_push. eapply IHa. exact He.
        * destruct src; try discriminate.
          destruct (each_assign _ _ _ _ _ _) as [[rs st1]| | | |] eqn:E; cbn [obind] in H; try discriminate.
          injection H as <-. apply each_assign_error in E as (k & s & o & st0 & er1 & _ & _ & He & ->). apply from_push. eapply IHa. exact He.
      + destruct src; try discriminate.
        destruct (each_entry _ _ _ _ _) as [[rs st1]| | | |] eqn:E; cbn [obind] in H; try discriminate.
        injection H as <-. apply each_entry_error in E as (k0 & v0 & st0 & er1 & _ & [He|He] & ->); apply from_push; eapply IHv; exact He.
      + destruct old; try discriminate.
        destruct (each_field _ _ _ _ _ _) as [[rs st1]| | | |] eqn:E; cbn [obind] in H; try discriminate.
        injection H as <-. match type of E with each_field _ _ _ _ ?O ?S0 = _ => revert E; generalize S0; generalize O end.
        induction fs as [|fp fr IHf]; intros olds st0 E; cbn [each_field] in E; [destruct olds; discriminate|].
        destruct olds as [|o orr]; [discriminate|].
        match type of E with obind ?X _ = _ => destruct X as [[v st2]| | | |] eqn:E1 end; cbn [obind] in E; try discriminate.
        -- destruct (each_field _ _ fr src orr st2) as [[vs' st3]| | | |] eqn:E2; cbn [obind] in E; try discriminate.
           injection E as <-. eapply IHf. exact E2.
        -- injection E as <-. destruct fp as [|nm sel g a|nm osel g p]; [discriminate| |].
           ++ match type of E1 with tag _ ?Y = _ => destruct Y as [[? ?]| | | |] eqn:E0 end; cbn [tag] in E1; try discriminate.
              injection E1 as <-. apply from_push.
              destruct (sel_eval _ sel src st0) as [[s' st']| | | |] eqn:Es; cbn [obind] in E0; try discriminate.
              ** destruct (g && is_zero s'); [discriminate|]. eapply IHa. exact E0.
              ** injection E0 as <-. eapply sel_eval_prov; [apply IHv|exact Es].
           ++ destruct osel as [sl|].
              ** match type of E1 with tag _ ?Y = _ => destruct Y as [[? ?]| | | |] eqn:E0 end; cbn [tag] in E1; try discriminate.
                 injection E1 as <-. apply from_push.
                 destruct (sel_eval _ sl src st0) as [[s' st']| | | |] eqn:Es; cbn [obind] in E0; try discriminate.
                 --- destruct (g && is_zero s'); [discriminate|]. eapply IHv. exact E0.
                 --- injection E0 as <-. eapply sel_eval_prov; [apply IHv|exact Es].
              ** match type of E1 with tag _ ?Y = _ => destruct Y as [[? ?]| | | |] eqn:E0 end; cbn [tag] in E1; try discriminate.
                 injection E1 as <-. apply from_push. eapply IHv. exact E0.
      + destruct src; try discriminate. eapply IHa. exact H.
      + destruct old; try discriminate.
        destruct (eval_a e M F f cx a' src old st) as [[r st1]| | | |] eqn:E; cbn [obind] in H; try discriminate.
        injection H as <-. eapply IHa. exact E.
  Qed.

  Theorem errors_originate fuel : forall cx, prov_v (eval_v e M F fuel cx) /\ prov_a (eval_a e M F fuel cx).
  Proof.
    induction fuel as [|f IH]; intros cx; [split; [intros p src st er H|intros a src old st er H]; cbn in H; discriminate|].
    split; [apply prov_step_v|apply prov_step_a]; intros c; apply IH.
  Qed.

  (* a failing fallible function makes the call fail; a succeeding one yields its result and no error *)
  Lemma call_fails f cx fi args fl src st fd :
    args_ok cx args = true -> nth_error F (N.to_nat fi) = Some fd -> fd_err fd = true ->
    fn_fails fi (match fd_src fd with Some _ => leaf0 src | None => 0%Z end) = true ->
    eval_v e M F (S f) cx (PCallX (CFn fi) args fl) src st = Errored {| er_fn := fi; er_wraps := []; er_pending := [] |}.
  Proof. intros Ha Hn He Hf. rewrite eval_v_S. rewrite Ha. cbn [negb]. cbv zeta. rewrite Hn, He, Hf. reflexivity. Qed.
  Lemma call_succeeds f cx fi args fl src st fd :
    args_ok cx args = true -> nth_error F (N.to_nat fi) = Some fd ->
    fd_err fd && fn_fails fi (match fd_src fd with Some _ => leaf0 src | None => 0%Z end) = false ->
    exists v st1, eval_v e M F (S f) cx (PCallX (CFn fi) args fl) src st = Done (v, st1).
  Proof.
    intros Ha Hn Hf. rewrite eval_v_S. rewrite Ha. cbn [negb]. cbv zeta. rewrite Hn, Hf.
    destruct (mark e 60 _ _ st) as [[v st1] ok]. eauto.
  Qed.
  (* contexts are handed on unchanged: what the callee finds for a context type is the caller's value for the
     (identical) type of its own context parameter *)
  Lemma ctx_passed_on cx ts t t0 v :
    find (fun kv => ty_eqb (fst kv) t) (map (fun t1 => (t1, ctx_get cx t1)) ts) = Some (t0, v) ->
    In t0 ts /\ ty_eqb t0 t = true /\ v = ctx_get cx t0.
  Proof.
    induction ts as [|t1 r IH]; cbn; [discriminate|]. destruct (ty_eqb t1 t) eqn:E.
    - intros [= <- <-]. auto.
    - intros H. apply IH in H as (A & B & C). auto.
  Qed.
  (* ... so: for every context type the callee declares, it receives exactly the caller's value of that type *)
  Theorem ctx_value_unchanged cx ts t : existsb (ty_eqb t) ts = true ->
    ctx_get (map (fun t1 => (t1, ctx_get cx t1)) ts) t = ctx_get cx t.
  Proof.
    intros H. unfold ctx_get at 1.
    destruct (find (fun kv => ty_eqb (fst kv) t) (map (fun t1 => (t1, ctx_get cx t1)) ts)) as [[t0 v]|] eqn:E.
    - apply ctx_passed_on in E as (_ & Heq & ->). apply ty_eqb_eq in Heq. subst. reflexivity.
    - exfalso. apply existsb_exists in H as [t1 [Hin Heq]]. apply ty_eqb_eq in Heq. subst t1.
      assert (X : In (t, ctx_get cx t) (map (fun t1 => (t1, ctx_get cx t1)) ts)) by (apply in_map_iff; eauto).
      eapply find_none in E; [|exact X]. cbn in E. rewrite ty_eqb_refl in E. discriminate.
  Qed.
End provenance.
