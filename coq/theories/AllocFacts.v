(* AllocFacts.v — the allocation counter only grows, and every pointer / slice / map node a
   conversion builds itself carries an address taken from the counter (C04: containers are
   always re-made and pointers re-addressed). *)
From Coq Require Import List NArith ZArith Bool Lia.
From GV Require Import Base Ty Conf Val Plan Eval EvalFacts.
Import ListNotations.
Open Scope N_scope.

Ltac fin H := unfold obind, tag in H; cbv beta iota in H; injection H as ? ?; subst; lia.

Ltac mid H := apply (f_equal (fun x => snd (fst x))) in H; cbn [fst snd] in H.
(* the custom-function oracle allocates monotonically, too *)
Lemma mark_fields_mono mk zr : (forall t st v st' ok, mk t st = (v, st', ok) -> st <= st') ->
  forall l st dn vs st' d, mark_fields mk zr l st dn = (vs, st', d) -> st <= st'.
Proof.
  intros Hm l. induction l as [|[nm ft] r IH]; intros st dn vs st' d H; cbn [mark_fields] in H; [mid H; subst; lia|].
  destruct (mk ft st) as [[v1 st1] ok1] eqn:Em. apply Hm in Em.
  destruct (mark_fields mk zr r st1 (dn || ok1)) as [[vs' st3] d3] eqn:E3. mid H. subst. apply IH in E3. lia.
Qed.
Lemma mark_mono e fuel : forall t tok st v st' ok, mark e fuel t tok st = (v, st', ok) -> st <= st'.
Proof.
  induction fuel as [|f IH]; intros t tok st v st' ok H; [cbn [mark] in H; mid H; subst; lia|].
  rewrite mark_S in H.
  destruct (under e t) as [k|id|x|x|n x|k v0|p fs|k i]; try (mid H; subst; lia).
  - destruct (mark e f x tok st) as [[v1 st1] ok1] eqn:E. apply IH in E. mid H. subst. lia.
  - destruct (mark e f x tok st) as [[v1 st1] ok1] eqn:E. apply IH in E. mid H. subst. lia.
  - destruct (mark_fields _ _ fs st false) as [[vs st1] ok1] eqn:E. mid H. subst.
    eapply mark_fields_mono; [|exact E]. intros t0 st0 v0 st0' ok0 H0. eapply IH. exact H0.
Qed.

Section alloc.
  Variable e : env.
  Variable M : table.
  Variable F : ftable.

  Definition mono_v (ev : vplan -> val -> N -> outcome (val * N)) : Prop :=
    forall p src st v st', ev p src st = Done (v, st') -> st <= st'.
  Definition mono_a (ea : aplan -> val -> val -> N -> outcome (val * N)) : Prop :=
    forall a src old st v st', ea a src old st = Done (v, st') -> st <= st'.

  Lemma tag_done {A} d (o : outcome A) x : tag d o = Done x -> o = Done x.
  Proof. destruct o; cbn; congruence. Qed.

  Lemma each_assign_mono ea : mono_a ea ->
    forall a srcs i olds st rs st', each_assign ea i a srcs olds st = Done (rs, st') -> st <= st'.
  Proof.
    intros Hm a srcs. induction srcs as [|s sr IH]; intros i olds st rs st' H; cbn in H.
    - inversion H; subst. lia.
    - destruct olds as [|o orr].
      + destruct (touches a s); [exfalso; eapply store_into_nil_not_done; exact H|]. eapply IH. exact H.
      + destruct (ea a s o st) as [[v st1]| | | |] eqn:E1; cbn [obind tag] in H; try discriminate.
        destruct (each_assign ea (i + 1) a sr orr st1) as [[vs st2]| | | |] eqn:E2; cbn [obind] in H; try discriminate.
        injection H as ? ?; subst. apply Hm in E1. apply IH in E2. lia.
  Qed.

  Lemma each_entry_mono ev : mono_v ev ->
    forall k v kvs st rs st', each_entry ev k v kvs st = Done (rs, st') -> st <= st'.
  Proof.
    intros Hm k v kvs. induction kvs as [|[k0 v0] r IH]; intros st rs st' H; cbn in H.
    - inversion H; subst. lia.
    - destruct (ev k k0 st) as [[k1 st1]| | | |] eqn:E1; cbn [obind tag] in H; try discriminate.
      destruct (ev v v0 st1) as [[v1 st2]| | | |] eqn:E2; cbn [obind tag] in H; try discriminate.
      destruct (each_entry ev k v r st2) as [[rs' st3]| | | |] eqn:E3; cbn [obind] in H; try discriminate.
      injection H as ? ?; subst. apply Hm in E1. apply Hm in E2. apply IH in E3. lia.
  Qed.

  Lemma sel_eval_mono ev : mono_v ev -> forall sel src st s st0, sel_eval ev sel src st = Done (s, st0) -> st <= st0.
  Proof.
    intros Hv sel src st s st0 H. destruct sel as [|steps w|steps rd fi args fl w]; cbn in H.
    - injection H as ? ?; subst. lia.
    - destruct (walk steps src) as [[v|]|]; try discriminate; destruct w; try discriminate; injection H as ? ?; subst; lia.
    - match type of H with match ?R with _ => _ end = _ => destruct R as [[rv|]|] end; try discriminate.
      + destruct (ev (PCallX (CFn fi) args fl) rv st) as [[r st1]| | | |] eqn:E; cbn [obind] in H; try discriminate.
        apply Hv in E. destruct w; injection H as ? ?; subst; lia.
      + destruct w; try discriminate; injection H as ? ?; subst; lia.
  Qed.

  Lemma each_field_mono ev ea : mono_v ev -> mono_a ea ->
    forall fs src olds st rs st', each_field ev ea fs src olds st = Done (rs, st') -> st <= st'.
  Proof.
    intros Hv Hm fs. induction fs as [|f fr IH]; intros src olds st rs st' H; cbn [each_field] in H.
    - destruct olds; [|discriminate]. inversion H; subst. lia.
    - destruct olds as [|o orr]; [discriminate|].
      assert (K : forall (x : outcome (val * N)),
                 (forall v st1, x = Done (v, st1) -> st <= st1) ->
                 (let* (v, st1) := x in let* (vs, st2) := each_field ev ea fr src orr st1 in Done (v :: vs, st2)) = Done (rs, st') -> st <= st').
      { intros x Hx Hk. destruct x as [[v st1]| | | |]; cbn [obind] in Hk; try discriminate.
        destruct (each_field ev ea fr src orr st1) as [[vs st2]| | | |] eqn:E2; cbn [obind] in Hk; try discriminate.
        injection Hk as ? ?; subst. specialize (Hx _ _ eq_refl). apply IH in E2. lia. }
      eapply K; [|exact H]. intros v st1 Hd.
      destruct f as [|nm sel g a|nm osel g p].
      + injection Hd as ? ?; subst. lia.
      + apply tag_done in Hd. destruct (sel_eval ev sel src st) as [[s st0]| | | |] eqn:Es; cbn [obind] in Hd; try discriminate.
        apply (sel_eval_mono _ Hv) in Es. destruct (g && is_zero s).
        * injection Hd as ? ?; subst. lia.
        * apply Hm in Hd. lia.
      + destruct osel as [sl|].
        * apply tag_done in Hd. destruct (sel_eval ev sl src st) as [[s st0]| | | |] eqn:Es; cbn [obind] in Hd; try discriminate.
          apply (sel_eval_mono _ Hv) in Es. destruct (g && is_zero s).
          -- injection Hd as ? ?; subst. lia.
          -- apply Hv in Hd. lia.
        * apply tag_done in Hd. eapply Hv. exact Hd.
  Qed.

  Theorem alloc_mono fuel : forall cx, mono_v (eval_v e M F fuel cx) /\ mono_a (eval_a e M F fuel cx).
  Proof.
    induction fuel as [|f IH]; intros cx; [split; intros ? ? ? ? ? ? H; try intros H'; cbn in *; discriminate|].
    assert (IHv : forall cx, mono_v (eval_v e M F f cx)) by (intros c; apply IH).
    assert (IHa : forall cx, mono_a (eval_a e M F f cx)) by (intros c; apply IH).
    split.
    - intros p src st v st' H. rewrite eval_v_S in H. destruct p as [| |al q|m|c args fl|t a|ini tp a|el a|ini t cases dflt].
      + destruct (plain src); [fin H|discriminate].
      + fin H.
      + destruct (eval_v e M F f cx q src st) as [[r st1]| | | |] eqn:E; cbn [obind] in H; try discriminate.
        apply IHv in E. destruct al; fin H.
      + destruct (nth_error M (N.to_nat m)) as [mt|]; [|discriminate].
        destruct (body_plan mt) as [[p' wr]|]; try discriminate.
        destruct (eval_v e M F f [] p' src st) as [[r st1]| | | |] eqn:E; try discriminate.
        apply IHv in E. injection H as ? ?; subst. exact E.
      + destruct (negb (args_ok cx args)); [discriminate|]. cbv zeta in H. destruct c as [fi|m].
        * destruct (nth_error F (N.to_nat fi)) as [fd|]; [|discriminate].
          destruct (fd_err fd && _); [discriminate|].
          destruct (mark e 60 _ _ st) as [[v1 st1] ok] eqn:E.
          apply mark_mono in E. injection H as ? ?; subst. exact E.
        * destruct (nth_error M (N.to_nat m)) as [mt|]; [|discriminate].
          destruct (body_plan mt) as [[p' wr]|]; try discriminate.
          match type of H with match ?X with _ => _ end = _ => destruct X as [[r st1]| | | |] eqn:E end; try discriminate.
          apply IHv in E. injection H as ? ?; subst. exact E.
      + eapply IHa. exact H.
      + destruct (eval_v e M F f cx ini src st) as [[v0 st1]| | | |] eqn:E; cbn [obind] in H; try discriminate.
        apply IHv in E. destruct tp; apply IHa in H; lia.
      + destruct src; try discriminate. apply IHa in H. lia.
      + assert (X : forall (o : outcome (val * N)), (forall v0 s1, o = Done (v0, s1) -> st <= s1) ->
                    (let* (old, st1) := o in
                     match src with
                     | VBasic z => match enum_action cases dflt z with
                                   | EASet v1 => Done (VBasic v1, st1) | EAIgnore => Done (old, st1) | EAPanic => Panicked
                                   | EAError => Errored {| er_fn := ENUM_ERR; er_wraps := []; er_pending := [] |}
                                   end
                     | _ => Stuck
                     end) = Done (v, st') -> st <= st').
        { intros o Ho Hx. destruct o as [[old st1]| | | |]; cbn [obind] in Hx; try discriminate.
          specialize (Ho _ _ eq_refl). destruct src; try discriminate. destruct (enum_action cases dflt z); try discriminate; injection Hx as ? ?; subst; exact Ho. }
        eapply X; [|exact H]. intros v0 s1 Hd. destruct ini as [[ip tp]|].
        * destruct (eval_v e M F f cx ip src st) as [[v1 s2]| | | |] eqn:E; cbn [obind] in Hd; try discriminate.
          apply IHv in E. destruct tp; injection Hd as ? ?; subst; lia.
        * apply (f_equal (fun o : outcome (val * N) => match o with Done x => snd x | _ => 0 end)) in Hd. cbv beta iota in Hd. cbn [snd] in Hd. subst. lia.
    - intros a src old st v st' H. rewrite eval_a_S in H. destruct a as [q|q|q|fx el a'|k vv|fs|a'|a'].
      + eapply IHv. exact H.
      + destruct src; try discriminate; [fin H|].
        destruct (eval_v e M F f cx q src st) as [[r st1]| | | |] eqn:E; cbn [obind] in H; try discriminate.
        apply IHv in E. fin H.
      + destruct src; try discriminate; [fin H|]. eapply IHv. exact H.
      + destruct fx.
        * destruct src; try discriminate. destruct old; try discriminate.
          -- destruct (each_assign (eval_a e M F f cx) 0 a' vs [] st) as [[rs st1]| | | |] eqn:E; cbn [obind] in H; try discriminate.
             apply (each_assign_mono _ (IHa cx)) in E. fin H.
          -- destruct (each_assign (eval_a e M F f cx) 0 a' vs vs0 st) as [[rs st1]| | | |] eqn:E; cbn [obind] in H; try discriminate.
             apply (each_assign_mono _ (IHa cx)) in E. fin H.
        * destruct src; try discriminate; [fin H|].
          destruct (each_assign _ _ _ _ _ _) as [[rs st1]| | | |] eqn:E; cbn [obind] in H; try discriminate.
          apply (each_assign_mono _ (IHa cx)) in E. fin H.
      + destruct src; try discriminate; [fin H|].
        destruct (each_entry _ _ _ _ _) as [[rs st1]| | | |] eqn:E; cbn [obind] in H; try discriminate.
        apply (each_entry_mono _ (IHv cx)) in E. fin H.
      + destruct old; try discriminate.
        destruct (each_field _ _ _ _ _ _) as [[rs st1]| | | |] eqn:E; cbn [obind] in H; try discriminate.
        apply (each_field_mono _ _ (IHv cx) (IHa cx)) in E. fin H.
      + destruct src; try discriminate; [fin H|]. eapply IHa. exact H.
      + destruct old; try discriminate.
        destruct (eval_a e M F f cx a' src old st) as [[r st1]| | | |] eqn:E; cbn [obind] in H; try discriminate.
        apply IHa in E. fin H.
  Qed.
End alloc.
