(* AllocFacts.v — the allocation counter only grows, and every pointer / slice / map node a
   conversion builds itself carries an address taken from the counter (C04: containers are
   always re-made and pointers re-addressed). *)
From Coq Require Import List NArith ZArith Bool Lia.
From GV Require Import Base Ty Conf Val Plan Eval EvalFacts.
Import ListNotations.
Open Scope N_scope.

Ltac fin H := unfold obind in H; cbv beta iota in H; injection H as ? ?; subst; lia.

Section alloc.
  Variable e : env.
  Variable M : table.

  Definition mono_v (ev : vplan -> val -> N -> outcome (val * N)) : Prop :=
    forall p src st v st', ev p src st = Done (v, st') -> st <= st'.
  Definition mono_a (ea : aplan -> val -> val -> N -> outcome (val * N)) : Prop :=
    forall a src old st v st', ea a src old st = Done (v, st') -> st <= st'.

  Lemma each_assign_mono ea : mono_a ea ->
    forall a srcs olds st rs st', each_assign ea a srcs olds st = Done (rs, st') -> st <= st'.
  Proof.
    intros Hm a srcs. induction srcs as [|s sr IH]; intros olds st rs st' H; cbn in H.
    - fin H.
    - destruct olds as [|o orr].
      + destruct (touches a s); [discriminate|]. eapply IH. exact H.
      + destruct (ea a s o st) as [[v st1]| | |] eqn:E1; cbn [obind] in H; try discriminate.
        destruct (each_assign ea a sr orr st1) as [[vs st2]| | |] eqn:E2; cbn [obind] in H; try discriminate.
        inversion H; subst. apply Hm in E1. apply IH in E2. lia.
  Qed.

  Lemma each_entry_mono ev : mono_v ev ->
    forall k v kvs st rs st', each_entry ev k v kvs st = Done (rs, st') -> st <= st'.
  Proof.
    intros Hm k v kvs. induction kvs as [|[k0 v0] r IH]; intros st rs st' H; cbn in H.
    - fin H.
    - destruct (ev k k0 st) as [[k1 st1]| | |] eqn:E1; cbn [obind] in H; try discriminate.
      destruct (ev v v0 st1) as [[v1 st2]| | |] eqn:E2; cbn [obind] in H; try discriminate.
      destruct (each_entry ev k v r st2) as [[rs' st3]| | |] eqn:E3; cbn [obind] in H; try discriminate.
      inversion H; subst. apply Hm in E1. apply Hm in E2. apply IH in E3. lia.
  Qed.

  Lemma each_field_mono ea : mono_a ea ->
    forall fs src olds st rs st', each_field ea fs src olds st = Done (rs, st') -> st <= st'.
  Proof.
    intros Hm fs. induction fs as [|f fr IH]; intros src olds st rs st' H; cbn in H.
    - destruct olds; [|discriminate]. fin H.
    - destruct olds as [|o orr]; [discriminate|].
      destruct f as [|sel g a].
      + cbn in H. destruct (each_field ea fr src orr st) as [[vs st2]| | |] eqn:E2; cbn [obind] in H; try discriminate.
        inversion H; subst. eapply IH. exact E2.
      + destruct (eval_sel sel src) as [s|]; [|discriminate].
        destruct (g && is_zero s).
        * cbn in H. destruct (each_field ea fr src orr st) as [[vs st2]| | |] eqn:E2; cbn [obind] in H; try discriminate.
          inversion H; subst. eapply IH. exact E2.
        * destruct (ea a s o st) as [[v st1]| | |] eqn:E1; cbn [obind] in H; try discriminate.
          destruct (each_field ea fr src orr st1) as [[vs st2]| | |] eqn:E2; cbn [obind] in H; try discriminate.
          inversion H; subst. apply Hm in E1. apply IH in E2. lia.
  Qed.

  Theorem alloc_mono fuel : mono_v (eval_v e M fuel) /\ mono_a (eval_a e M fuel).
  Proof.
    induction fuel as [|f [IHv IHa]]; [split; intros ? ? ? ? ? ? H; try intros H'; cbn in *; discriminate|].
    split.
    - intros p src st v st' H. rewrite eval_v_S in H. destruct p as [| |al q|m|t a|el a].
      + fin H.
      + fin H.
      + destruct (eval_v e M f q src st) as [[r st1]| | |] eqn:E; cbn [obind] in H; try discriminate.
        apply IHv in E. destruct al; fin H.
      + destruct (nth_error M (N.to_nat m)) as [mt|]; [|discriminate].
        destruct (g_body mt) as [[p'|a']|]; try discriminate. eapply IHv. exact H.
      + eapply IHa. exact H.
      + destruct src; try discriminate. apply IHa in H. lia.
    - intros a src old st v st' H. rewrite eval_a_S in H. destruct a as [q|q|q|fx el a'|k vv|fs|a'].
      + eapply IHv. exact H.
      + destruct src; try discriminate; [fin H|].
        destruct (eval_v e M f q src st) as [[r st1]| | |] eqn:E; cbn [obind] in H; try discriminate.
        apply IHv in E. fin H.
      + destruct src; try discriminate; [fin H|]. eapply IHv. exact H.
      + destruct fx.
        * destruct src; try discriminate. destruct old; try discriminate.
          -- destruct (each_assign (eval_a e M f) a' vs [] st) as [[rs st1]| | |] eqn:E; cbn [obind] in H; try discriminate.
             apply (each_assign_mono _ IHa) in E. fin H.
          -- destruct (each_assign (eval_a e M f) a' vs vs0 st) as [[rs st1]| | |] eqn:E; cbn [obind] in H; try discriminate.
             apply (each_assign_mono _ IHa) in E. fin H.
        * destruct src; try discriminate; [fin H|].
          destruct (each_assign _ _ _ _ _) as [[rs st1]| | |] eqn:E; cbn [obind] in H; try discriminate.
          apply (each_assign_mono _ IHa) in E. fin H.
      + destruct src; try discriminate; [fin H|].
        destruct (each_entry _ _ _ _ _) as [[rs st1]| | |] eqn:E; cbn [obind] in H; try discriminate.
        apply (each_entry_mono _ IHv) in E. fin H.
      + destruct old; try discriminate.
        destruct (each_field _ _ _ _ _) as [[rs st1]| | |] eqn:E; cbn [obind] in H; try discriminate.
        apply (each_field_mono _ IHa) in E. fin H.
      + destruct src; try discriminate; [fin H|]. eapply IHa. exact H.
  Qed.
End alloc.
