(* Emit.v — what the emitted file consists of: the functions (declared + generated sub-methods)
   and the import set, derived from the method table (generator.appendGenerated; imports follow
   from every jen.Qual, i.e. from every rendered type). *)
From Coq Require Import List NArith Bool.
From GV Require Import Base Ty Conf Plan.
Import ListNotations.
Open Scope N_scope.

(* packages whose names appear when a type is rendered: a named type is rendered as pkg.Name only *)
Fixpoint pkgs_of_ty (e : env) (t : ty) : list N :=
  match t with
  | TNamed id => match lookup e id with Some d => if n_pkg d =? 0 then [] else [n_pkg d] | None => [] end
  | TPtr x | TSlice x | TArr _ x => pkgs_of_ty e x
  | TMap k v => pkgs_of_ty e k ++ pkgs_of_ty e v
  | TStruct _ fs => (fix go (l : list (rstr * ty)) := match l with [] => [] | (_, ft) :: r => pkgs_of_ty e ft ++ go r end) fs
  | TBasic _ | TOther _ _ => []
  end.

Fixpoint dedup (l : list N) : list N :=
  match l with
  | [] => []
  | x :: r => if existsb (N.eqb x) r then dedup r else x :: dedup r
  end.

(* import set of the file of one converter: packages of all rendered types, minus the output package *)
Definition imports (e : env) (out : N) (tab : table) : list N :=
  dedup (filter (fun p => negb (p =? out)) (flat_map (fun m => flat_map (pkgs_of_ty e) (g_types m)) tab)).

(* names of the emitted functions / methods *)
Definition function_names (tab : table) : list rstr := map g_name tab.

Definition same_set_N (a b : list N) : bool := forallb (fun x => existsb (N.eqb x) b) a && forallb (fun x => existsb (N.eqb x) a) b.
Definition same_set_str (a b : list rstr) : bool :=
  forallb (fun x => existsb (rstr_eqb x) b) a && forallb (fun x => existsb (rstr_eqb x) a) b && Nat.eqb (List.length a) (List.length b).
