(* Funcs.v — custom functions (extend, map ... | FUNC, default FUNC, struct-method sources) as the
   package loader hands them to method.Parse, and the roles Parse assigns (Sig.v): which parameter
   is the source, which are contexts, whether the converter is passed, the target and the error result. *)
From Coq Require Import List NArith Bool.
From GV Require Import Base Ty Conf Plan Extracted Sig SigUses.
Import ListNotations.
Open Scope N_scope.

Record fparam := { fp_sig : param; fp_ty : ty }.
Record fraw := { fr_name : rstr; fr_pkg : N; fr_accessible : bool; fr_generic : bool;
                 fr_params : list fparam;
                 fr_results : list (option ty);     (* None = the built-in error *)
                 fr_recv : option ty }.             (* struct method: type of the receiver *)

Definition sig_fn (f : fraw) : fn :=
  {| accessible := fr_accessible f; is_func := true; variadic := false; type_params := fr_generic f;
     params := map fp_sig (fr_params f);
     results := map (fun r => match r with None => RErr | Some _ => ROther end) (fr_results f) |}.

Definition arg_of (u : use) (t : ty) : list argsrc :=
  match u with UInterface => [ArgConv] | UContext => [ArgCtx t] | USource => [ArgSource] | _ => [] end.

Definition used (f : fraw) : list (use * ty) :=
  combine (uses_of false (map role_of (map fp_sig (fr_params f)))) (map fp_ty (fr_params f)).

Definition fdecl_of (f : fraw) : fdecl :=
  let ut := used f in
  {| fd_name := fr_name f; fd_pkg := fr_pkg f;
     fd_src := match fr_recv f with
               | Some r => Some r
               | None => match find (fun x => use_eqb (fst x) USource) ut with Some x => Some (snd x) | None => None end
               end;
     fd_ctx := map snd (filter (fun x => use_eqb (fst x) UContext) ut);
     fd_conv := existsb (fun x => use_eqb (fst x) UInterface) ut;
     fd_tgt := match fr_results f with Some t :: _ => t | _ => TOther 99 0 end;
     fd_err := returns_error false (results (sig_fn f));
     fd_args := flat_map (fun x => arg_of (fst x) (snd x)) ut |}.

Definition valid_for (o : opts) (f : fraw) : bool :=
  match classify o (sig_fn f) with inr _ => true | inl _ => false end.

(* goverter:extend arguments as the loader resolves them: an exact name must parse; a pattern keeps
   the matching package members (in scope order) that parse and must keep at least one *)
Inductive extspec := ExtExact (f : N) | ExtPattern (fs : list N).

Definition fn_valid (raws : list fraw) (o : opts) (f : N) : bool :=
  match nth_error raws (N.to_nat f) with Some r => valid_for o r | None => false end.

Fixpoint resolve_ext (raws : list fraw) (specs : list extspec) : option (list N) :=
  match specs with
  | [] => Some []
  | ExtExact f :: r => if fn_valid raws opts_extend f
                       then match resolve_ext raws r with Some l => Some (f :: l) | None => None end
                       else None
  | ExtPattern fs :: r => match filter (fn_valid raws opts_extend) fs with
                          | [] => None
                          | ok => match resolve_ext raws r with Some l => Some (ok ++ l) | None => None end
                          end
  end.

(* generator/setup.go: extend functions are registered with RegisterOverrideOverlapping — a later function
   replaces the first earlier one with the same signature whose context set contains or is contained in its own *)
Section register.
  Variable FT : ftable.
  Definition fd_at (f : N) : option fdecl := nth_error FT (N.to_nat f).
  Definition sub_tys (req avail : list ty) : bool := forallb (fun t => existsb (ty_eqb t) avail) req.
  Definition same_sig_fn (g f : N) : bool :=
    match fd_at g, fd_at f with
    | Some a, Some b => option_eqb ty_eqb (fd_src a) (fd_src b) && ty_eqb (fd_tgt a) (fd_tgt b)
    | _, _ => false
    end.
  Definition ctx_of_fn (f : N) : list ty := match fd_at f with Some d => fd_ctx d | None => [] end.
  Fixpoint ext_replace (f : N) (l : list N) : option (list N) :=
    match l with
    | [] => None
    | g :: r => if same_sig_fn g f && (sub_tys (ctx_of_fn g) (ctx_of_fn f) || sub_tys (ctx_of_fn f) (ctx_of_fn g))
                then Some (f :: r)
                else match ext_replace f r with Some r' => Some (g :: r') | None => None end
    end.
  Definition ext_register (l : list N) (f : N) : list N :=
    match ext_replace f l with Some l' => l' | None => l ++ [f] end.
  Definition ext_index (fs : list N) : list N := fold_left ext_register fs [].
End register.
