(* ErrFmt.v — model of builder/error.go ToString as far as it can fail: every argument passed to
   strings.Repeat (a negative count panics) and the explicit panic on an empty path. *)
From Coq Require Import List ZArith Bool.
Import ListNotations.
Open Scope Z_scope.

(* projection of builder.Path: lengths of Prefix / SourceID / TargetID, presence of the types *)
Record path := { prefix_len : Z; sid_len : Z; tid_len : Z; has_stype : bool; has_ttype : bool }.

Definition iters (a b : Z) : nat := Z.to_nat (b - a).   (* iterations of for j := a; j < b; j++ *)

(* all arguments of space(), in program order; state: sourceTypeLine (stl), targetTypeLine (ttl) *)
Fixpoint space_args (sl tl : Z) (stl ttl : Z) (ps : list path) : list Z :=
  match ps with
  | [] => []
  | p :: r =>
    let padding := Z.max (sid_len p) (tid_len p) in
    let src :=
      if has_stype p
      then [prefix_len p] ++ concat (repeat [prefix_len p; padding - 1] (iters (stl + 1) sl))
      else repeat (prefix_len p + padding) (iters stl sl) in
    let stl' := if has_stype p then stl + 2 else stl in
    let mid := [padding - sid_len p] in
    let tgt :=
      if has_ttype p
      then [padding - tid_len p] ++ concat (repeat [prefix_len p; padding - 1] (iters (tl + 1) ttl)) ++ [prefix_len p]
      else repeat (prefix_len p + padding) (iters tl (ttl + 1)) in
    let ttl' := if has_ttype p then ttl - 2 else ttl in
    src ++ mid ++ tgt ++ space_args sl tl stl' ttl' r
  end.

Definition count (f : path -> bool) (ps : list path) : Z := Z.of_nat (length (filter f ps)).

Definition to_string_args (ps : list path) : option (list Z) :=
  match ps with
  | [] => None                                   (* panic("oops that shouldn't happen") *)
  | _ =>
    let sp := count has_stype ps in
    let tp := count has_ttype ps in
    let end_ := 2 + (sp + tp) * 2 - 1 in
    let sl := sp * 2 in
    Some (space_args sl (sl + 1) 0 end_ ps)
  end.

(* space(l) clamps negative counts (fix of F-C13-3); clamp = false is the behaviour before the fix *)
Definition panics (clamp : bool) (ps : list path) : bool :=
  match to_string_args ps with
  | None => true
  | Some args => if clamp then false else existsb (fun n => n <? 0) args
  end.

(* the extractor reports whether space() guards against negative counts *)
