(* Val.v — Go-like run-time values with address identities, and zero values. *)
From Coq Require Import List NArith ZArith Bool.
From GV Require Import Base Ty.
Import ListNotations.
Open Scope N_scope.

Inductive val :=
| VBasic (z : Z)                       (* payload token of a basic value; 0 = zero value (0, "", false) *)
| VNil                                 (* nil pointer / slice / map / interface / func / chan *)
| VPtr (a : N) (v : val)               (* pointer with address identity a *)
| VSlice (a : N) (vs : list val)       (* non-nil slice; a = identity of the backing array *)
| VArr (vs : list val)
| VMap (a : N) (kvs : list (val * val))
| VStruct (fs : list val)
| VOpaque (id : N).                    (* non-nil interface / func / chan value *)

(* values the identity plan (Basic rule, empty struct) may pass on: they carry no address *)
Definition plain (v : val) : bool := match v with VBasic _ => true | VStruct [] => true | _ => false end.

(* address reserved for "pointer into the interior of the source value" *)
Definition ALIAS : N := 1.

Section zero.
  Variable e : env.
  (* zero value of a type; fuel bounds the unfolding of names (a named struct cannot contain itself by value) *)
  Fixpoint zero (fuel : nat) (t : ty) {struct fuel} : val :=
    match fuel with
    | O => VNil
    | S f =>
      match under e t with
      | TBasic _ => VBasic 0
      | TStruct _ fs => VStruct (map (fun nt => zero f (snd nt)) fs)
      | TArr n x => VArr (repeat (zero f x) (N.to_nat n))
      | _ => VNil
      end
    end.
End zero.
Definition ZFUEL : nat := 40.

(* comparison against xtype.ZeroValue: == 0 / "" / false, == T{} (deep, comparable), != nil *)
Fixpoint is_zero (v : val) : bool :=
  match v with
  | VBasic z => Z.eqb z 0
  | VNil => true
  | VStruct fs => forallb is_zero fs
  | VArr vs => forallb is_zero vs
  | _ => false
  end.

(* structure without addresses (C02 compares structure only) *)
Fixpoint erase (v : val) : val :=
  match v with
  | VPtr _ x => VPtr 0 (erase x)
  | VSlice _ vs => VSlice 0 (map erase vs)
  | VArr vs => VArr (map erase vs)
  | VMap _ kvs => VMap 0 (map (fun kv => (erase (fst kv), erase (snd kv))) kvs)
  | VStruct fs => VStruct (map erase fs)
  | _ => v
  end.

(* equality; maps are compared as multisets of entries (Go map order is unspecified) *)
Section eqb.
  Variable veqb : val -> val -> bool.
  Fixpoint remove_first (x : val * val) (l : list (val * val)) : option (list (val * val)) :=
    match l with
    | [] => None
    | y :: r => if veqb (fst x) (fst y) && veqb (snd x) (snd y) then Some r
                else match remove_first x r with Some r' => Some (y :: r') | None => None end
    end.
  Fixpoint perm_eqb (a b : list (val * val)) : bool :=
    match a with
    | [] => match b with [] => true | _ => false end
    | x :: a' => match remove_first x b with Some b' => perm_eqb a' b' | None => false end
    end.
End eqb.

Fixpoint val_eqb (fuel : nat) (a b : val) {struct fuel} : bool :=
  match fuel with
  | O => false
  | S f =>
    match a, b with
    | VBasic x, VBasic y => Z.eqb x y
    | VNil, VNil => true
    | VPtr i x, VPtr j y => (i =? j) && val_eqb f x y
    | VSlice i xs, VSlice j ys => (i =? j) && list_eqb (val_eqb f) xs ys
    | VArr xs, VArr ys => list_eqb (val_eqb f) xs ys
    | VMap i xs, VMap j ys => (i =? j) && perm_eqb (val_eqb f) xs ys
    | VStruct xs, VStruct ys => list_eqb (val_eqb f) xs ys
    | VOpaque i, VOpaque j => i =? j
    | _, _ => false
    end
  end.

(* ---- custom function oracle: deterministic, value dependent (the harness generates the same Go bodies) ---- *)
(* first basic leaf of a value (depth first; nil / empty parts have none) *)
Fixpoint leaf (fuel : nat) (v : val) : option Z :=
  match fuel with
  | O => None
  | S f =>
    match v with
    | VBasic z => Some z
    | VPtr _ x => leaf f x
    | VSlice _ (x :: _) => leaf f x
    | VArr (x :: _) => leaf f x
    | VStruct fs => (fix first (l : list val) := match l with [] => None | x :: r => match leaf f x with Some z => Some z | None => first r end end) fs
    | _ => None
    end
  end.
Definition leaf0 (v : val) : Z := match leaf 60 v with Some z => z | None => 0%Z end.

(* error values: failing function, completed Wrap calls (outermost first), path elements not yet wrapped *)
Inductive delem := DField (name : rstr) | DIndex (i : N) | DKey (k : Z).
Record errv := { er_fn : N; er_wraps : list (list delem); er_pending : list delem }.
Definition push_elem (d : delem) (er : errv) : errv :=
  {| er_fn := er_fn er; er_wraps := er_wraps er; er_pending := d :: er_pending er |}.
(* leaving a method body: the failing call site wrapped the error according to the method's wrap setting:
   2 wrapErrorsUsing (all elements), 1 wrapErrors (innermost element if it is a field or an index), 0 none *)
Definition finalize (mode : N) (er : errv) : errv :=
  match mode with
  | 2 => {| er_fn := er_fn er; er_wraps := er_pending er :: er_wraps er; er_pending := [] |}
  | 1 => match rev (er_pending er) with
         | DField n :: _ => {| er_fn := er_fn er; er_wraps := [DField n] :: er_wraps er; er_pending := [] |}
         | DIndex i :: _ => {| er_fn := er_fn er; er_wraps := [DIndex i] :: er_wraps er; er_pending := [] |}
         | _ => {| er_fn := er_fn er; er_wraps := er_wraps er; er_pending := [] |}
         end
  | _ => {| er_fn := er_fn er; er_wraps := er_wraps er; er_pending := [] |}
  end.

(* a token as a value of basic kind k (bool: parity; uint8: below 251) *)
Definition fit (k : N) (tok : Z) : Z := if k =? BK_BOOL then Z.modulo tok 2 else if k =? 8 then Z.modulo tok 251 else tok.

Section mark.
  Variable e : env.
  (* value of type t carrying token tok at every markable leaf (basic values below pointers, one-element slices and struct fields); fresh addresses from the counter *)
  (* every field of a struct is marked *)
  Fixpoint mark_fields (mk : ty -> N -> val * N * bool) (zr : ty -> val) (l : list (rstr * ty)) (st : N) (done : bool) {struct l} : list val * N * bool :=
    match l with
    | [] => ([], st, done)
    | (_, ft) :: r =>
      let '(v, st1, ok) := mk ft st in
      let '(vs, st', d) := mark_fields mk zr r st1 (done || ok) in (v :: vs, st', d)
    end.
  Fixpoint mark (fuel : nat) (t : ty) (tok : Z) (st : N) {struct fuel} : val * N * bool :=   (* value, counter, marked? *)
    match fuel with
    | O => (zero e ZFUEL t, st, false)
    | S f =>
      match under e t with
      | TBasic k => (VBasic (fit k tok), st, true)
      | TPtr x => let '(v, st1, ok) := mark f x tok st in (VPtr st1 v, st1 + 1, ok)
      | TSlice x => let '(v, st1, ok) := mark f x tok st in (VSlice st1 [v], st1 + 1, ok)
      | TStruct _ fs => let '(vs, st1, ok) := mark_fields (fun ft st => mark f ft tok st) (zero e ZFUEL) fs st false in (VStruct vs, st1, ok)
      | _ => (zero e ZFUEL t, st, false)
      end
    end.
  Lemma mark_S f t tok st : mark (S f) t tok st =
      match under e t with
      | TBasic k => (VBasic (fit k tok), st, true)
      | TPtr x => let '(v, st1, ok) := mark f x tok st in (VPtr st1 v, st1 + 1, ok)
      | TSlice x => let '(v, st1, ok) := mark f x tok st in (VSlice st1 [v], st1 + 1, ok)
      | TStruct _ fs => let '(vs, st1, ok) := mark_fields (fun ft st => mark f ft tok st) (zero e ZFUEL) fs st false in (VStruct vs, st1, ok)
      | _ => (zero e ZFUEL t, st, false)
      end.
  Proof. reflexivity. Qed.
End mark.
Definition mark_token (f : N) (src_leaf ctx_sum : Z) : Z := (Z.of_N (f + 1) * 1000 + Z.modulo src_leaf 97 * 7 + Z.modulo ctx_sum 13)%Z.
(* a fallible function fails on the source values whose leaf is congruent to its number modulo 5 *)
Definition fn_fails (f : N) (src_leaf : Z) : bool := Z.eqb (Z.modulo src_leaf 5) (Z.modulo (Z.of_N f) 5).

(* paths (for C04): where in a value does an address below n0 (i.e. one of the source) occur *)
Inductive pstep := PDeref | PIdx (i : N) | PKey (k : Z) | PField (i : N).
Definition pstep_eqb (a b : pstep) : bool :=
  match a, b with
  | PDeref, PDeref => true | PIdx i, PIdx j => i =? j | PKey i, PKey j => Z.eqb i j | PField i, PField j => i =? j
  | _, _ => false
  end.
