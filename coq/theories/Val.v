(* Val.v — Go-like run-time values with address identities, and zero values. *)
From Coq Require Import List NArith ZArith Bool.
From GV Require Import Base Ty.
Import ListNotations.
Open Scope N_scope.

Inductive val :=
| VBasic (z : Z)                       (* payload token of a basic value; 0 = zero value (0, "", false) *)
| VNil                                 (* nil pointer / slice / map / interface / func / chan *)
| VPtr (a : N) (v : val)               (* pointer with address identity a *)
| VSlice (a : N) (vs : list val)       (* non-nil slice; a = identity of the backing array *)
| VArr (vs : list val)
| VMap (a : N) (kvs : list (val * val))
| VStruct (fs : list val)
| VOpaque (id : N).                    (* non-nil interface / func / chan value *)

(* address reserved for "pointer into the interior of the source value" *)
Definition ALIAS : N := 1.

Section zero.
  Variable e : env.
  (* zero value of a type; fuel bounds the unfolding of names (a named struct cannot contain itself by value) *)
  Fixpoint zero (fuel : nat) (t : ty) {struct fuel} : val :=
    match fuel with
    | O => VNil
    | S f =>
      match under e t with
      | TBasic _ => VBasic 0
      | TStruct _ fs => VStruct (map (fun nt => zero f (snd nt)) fs)
      | TArr n x => VArr (repeat (zero f x) (N.to_nat n))
      | _ => VNil
      end
    end.
End zero.
Definition ZFUEL : nat := 40.

(* comparison against xtype.ZeroValue: == 0 / "" / false, == T{} (deep, comparable), != nil *)
Fixpoint is_zero (v : val) : bool :=
  match v with
  | VBasic z => Z.eqb z 0
  | VNil => true
  | VStruct fs => forallb is_zero fs
  | VArr vs => forallb is_zero vs
  | _ => false
  end.

(* structure without addresses (C02 compares structure only) *)
Fixpoint erase (v : val) : val :=
  match v with
  | VPtr _ x => VPtr 0 (erase x)
  | VSlice _ vs => VSlice 0 (map erase vs)
  | VArr vs => VArr (map erase vs)
  | VMap _ kvs => VMap 0 (map (fun kv => (erase (fst kv), erase (snd kv))) kvs)
  | VStruct fs => VStruct (map erase fs)
  | _ => v
  end.

(* equality; maps are compared as multisets of entries (Go map order is unspecified) *)
Section eqb.
  Variable veqb : val -> val -> bool.
  Fixpoint remove_first (x : val * val) (l : list (val * val)) : option (list (val * val)) :=
    match l with
    | [] => None
    | y :: r => if veqb (fst x) (fst y) && veqb (snd x) (snd y) then Some r
                else match remove_first x r with Some r' => Some (y :: r') | None => None end
    end.
  Fixpoint perm_eqb (a b : list (val * val)) : bool :=
    match a with
    | [] => match b with [] => true | _ => false end
    | x :: a' => match remove_first x b with Some b' => perm_eqb a' b' | None => false end
    end.
End eqb.

Fixpoint val_eqb (fuel : nat) (a b : val) {struct fuel} : bool :=
  match fuel with
  | O => false
  | S f =>
    match a, b with
    | VBasic x, VBasic y => Z.eqb x y
    | VNil, VNil => true
    | VPtr i x, VPtr j y => (i =? j) && val_eqb f x y
    | VSlice i xs, VSlice j ys => (i =? j) && list_eqb (val_eqb f) xs ys
    | VArr xs, VArr ys => list_eqb (val_eqb f) xs ys
    | VMap i xs, VMap j ys => (i =? j) && perm_eqb (val_eqb f) xs ys
    | VStruct xs, VStruct ys => list_eqb (val_eqb f) xs ys
    | VOpaque i, VOpaque j => i =? j
    | _, _ => false
    end
  end.

(* paths (for C04): where in a value does an address below n0 (i.e. one of the source) occur *)
Inductive pstep := PDeref | PIdx (i : N) | PKey (k : Z) | PField (i : N).
Definition pstep_eqb (a b : pstep) : bool :=
  match a, b with
  | PDeref, PDeref => true | PIdx i, PIdx j => i =? j | PKey i, PKey j => Z.eqb i j | PField i, PField j => i =? j
  | _, _ => false
  end.
