(* IdFacts.v — identifiers derived from types (xtype.Type.ID, used for the temporaries of emitted code) are
   never Go keywords (C01).  Before fix 66143db the channel case returned "chan" (finding F-C01-9). *)
From Coq Require Import List NArith Bool String Lia.
From GV Require Import Base Ty.
Import ListNotations.
Open Scope N_scope.

Definition go_keywords : list rstr := map s2r
  ["break"; "default"; "func"; "interface"; "select"; "case"; "defer"; "go"; "map"; "struct"; "chan"; "else"; "goto";
   "package"; "switch"; "const"; "fallthrough"; "if"; "range"; "type"; "continue"; "for"; "import"; "return"; "var"]%string.

Fixpoint is_prefix (p l : rstr) : bool :=
  match p, l with
  | [], _ => true
  | x :: p', y :: l' => (x =? y) && is_prefix p' l'
  | _ :: _, [] => false
  end.
Definition ends_with (s l : rstr) : bool := is_prefix (rev s) (rev l).

Lemma is_prefix_app p r : is_prefix p (p ++ r) = true.
Proof. induction p as [|x p IH]; cbn; [reflexivity|]. rewrite N.eqb_refl. exact IH. Qed.
Lemma ends_with_app l s : ends_with s (l ++ s) = true.
Proof. unfold ends_with. rewrite rev_app_distr. apply is_prefix_app. Qed.

Definition wf_env (e : env) : Prop := forall id d, lookup e id = Some d -> n_name d <> [].

Lemma basic_name_nonempty k : basic_name k <> [].
Proof.
  unfold basic_name. destruct k as [|p]; [discriminate|].
  do 5 (destruct p as [p|p|]; try discriminate).
Qed.

Lemma title_nonempty s : s <> [] -> title s <> [].
Proof. destruct s; [congruence|]. cbn. discriminate. Qed.
Lemma title_first s c r : title s = c :: r -> is_lower c = false.
Proof.
  destruct s as [|x s]; cbn; [discriminate|]. intros [= <- _].
  destruct (is_lower x) eqn:E; [|exact E]. unfold is_lower in *. apply andb_true_iff in E as [A B].
  apply N.leb_le in A, B. apply andb_false_iff. left. apply N.leb_gt. lia.
Qed.

Lemma as_id_nonempty e : wf_env e -> forall t esc, as_id e esc t <> [].
Proof.
  intros W t. induction t as [k|id|x IH|x IH|n x IH|k IHk v IHv|p fs|k i]; intros esc; cbn [as_id].
  - destruct esc; [discriminate|apply basic_name_nonempty].
  - destruct (lookup e id) as [d|] eqn:L; [|discriminate]. specialize (W _ _ L).
    destruct (n_pkg d =? 0); [destruct esc; [discriminate|exact W]|].
    intros H. apply app_eq_nil in H as [_ H]. exact (W H).
  - discriminate.
  - intros H. apply app_eq_nil in H as [_ H]. discriminate.
  - intros H. apply app_eq_nil in H as [_ H]. discriminate.
  - discriminate.
  - discriminate.
  - repeat match goal with |- context [match ?x with _ => _ end] => destruct x end; discriminate.
Qed.

Definition kw_check (f : rstr -> bool) : bool := forallb (fun k => negb (f k)) go_keywords.

Theorem type_id_no_keyword e t : wf_env e -> (forall id, t <> TNamed id) -> ~ In (type_id e t) go_keywords.
Proof.
  intros W NN Hin. unfold type_id in Hin.
  destruct t as [k|id|x|x|n x|k v|p fs|k i]; cbn [as_id] in Hin.
  - (* x<basic>: no keyword starts with x *)
    assert (C : kw_check (is_prefix (s2r "x")) = true) by (vm_compute; reflexivity).
    unfold kw_check in C. rewrite forallb_forall in C. specialize (C _ Hin).
    change (s2r "x" ++ basic_name k) with ([120] ++ basic_name k) in C. rewrite is_prefix_app in C. discriminate.
  - exact (NN id eq_refl).
  - (* p<Title>: only "package" starts with p, and "ackage" starts with a lower-case letter *)
    assert (C : forallb (fun kw => negb (is_prefix (s2r "p") kw) || rstr_eqb kw (s2r "package")) go_keywords = true) by (vm_compute; reflexivity).
    rewrite forallb_forall in C. specialize (C _ Hin).
    change (s2r "p" ++ title (as_id e false x)) with ([112] ++ title (as_id e false x)) in C. rewrite is_prefix_app in C. cbn [negb orb] in C.
    apply rstr_eqb_spec in C. change (s2r "package") with ([112] ++ s2r "ackage") in C.
    apply app_inv_head in C. apply title_first in C. vm_compute in C. discriminate.
  - (* ...List *)
    assert (C : kw_check (ends_with (s2r "List")) = true) by (vm_compute; reflexivity).
    unfold kw_check in C. rewrite forallb_forall in C. specialize (C _ Hin). rewrite ends_with_app in C. discriminate.
  - assert (C : kw_check (ends_with (s2r "List")) = true) by (vm_compute; reflexivity).
    unfold kw_check in C. rewrite forallb_forall in C. specialize (C _ Hin). rewrite ends_with_app in C. discriminate.
  - (* map<Key><Value>: the only keyword starting with map is map itself, and the suffix is not empty *)
    assert (C : forallb (fun kw => negb (is_prefix (s2r "map") kw) || rstr_eqb kw (s2r "map")) go_keywords = true) by (vm_compute; reflexivity).
    rewrite forallb_forall in C. specialize (C _ Hin). rewrite is_prefix_app in C. cbn [negb orb] in C.
    apply rstr_eqb_spec in C. rewrite <- (app_nil_r (s2r "map")) in C at 2. apply app_inv_head in C.
    apply (title_nonempty (as_id e false k ++ title (as_id e false v))); [|exact C].
    intros H. apply app_eq_nil in H as [H _]. exact (as_id_nonempty e W k false H).
  - revert Hin. vm_compute. intuition discriminate.
  - repeat match type of Hin with context [match ?x with _ => _ end] => destruct x end; revert Hin; vm_compute; intuition discriminate.
Qed.
