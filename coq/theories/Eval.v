(* Eval.v — big-step, fuelled evaluation of plans on values: what the emitted Go code
   computes.  The state is the allocation counter (next fresh address). *)
From Coq Require Import List NArith ZArith Bool.
From GV Require Import Base Ty Conf Val Plan.
Import ListNotations.
Open Scope N_scope.

Inductive outcome (A : Type) := Done (a : A) | Panicked | OutOfFuel | Stuck.
Arguments Done {A} a. Arguments Panicked {A}. Arguments OutOfFuel {A}. Arguments Stuck {A}.

Definition obind {A B} (o : outcome A) (f : A -> outcome B) : outcome B :=
  match o with Done a => f a | Panicked => Panicked | OutOfFuel => OutOfFuel | Stuck => Stuck end.
Notation "'let*' x ':=' o 'in' k" := (obind o (fun x => k)) (at level 200, x pattern, o at level 100, k at level 200).

(* selector evaluation: Some None = a nil pointer was crossed *)
Fixpoint walk (steps : list (bool * N)) (cur : val) : option (option val) :=
  match steps with
  | [] => Some (Some cur)
  | (d, i) :: r =>
    let after_deref : option (option val) :=
      if d then match cur with VNil => Some None | VPtr _ v => Some (Some v) | _ => None end
      else Some (Some cur) in
    match after_deref with
    | None => None
    | Some None => Some None
    | Some (Some c) => match c with
                       | VStruct fs => match nth_error fs (N.to_nat i) with Some f => walk r f | None => None end
                       | _ => None
                       end
    end
  end.

Definition eval_sel (s : selector) (src : val) : option val :=
  match s with
  | SelWhole => Some src
  | SelPath steps w =>
    match walk steps src with
    | None => None
    | Some None => match w with WNone => None | _ => Some VNil end
    | Some (Some v) => match w with WAddr => Some (VPtr ALIAS v) | _ => Some v end
    end
  end.

(* does executing an Assign plan on this source value access its l-value at all?  (for i := range src
   { a(lhs[i]) } only panics on a short lhs when the loop body really indexes lhs[i]) *)
Fixpoint touches (a : aplan) (src : val) {struct a} : bool :=
  match a with
  | ASet _ => true
  | APtr _ | ASrcPtr _ | AMap _ _ => match src with VNil => false | _ => true end
  | AList false _ _ => match src with VNil => false | _ => true end
  | AList true _ a' => match src with VArr vs => existsb (touches a') vs | _ => true end
  | AStruct fs =>
      existsb (fun f => match f with
                        | FSkip => false
                        | FAssign sel g a' => match eval_sel sel src with
                                              | Some s => negb (g && is_zero s) && touches a' s
                                              | None => true
                                              end
                        end) fs
  | AIfNotNil a' => match src with VNil => false | VPtr _ s => touches a' s | _ => true end
  end.

Section eval.
  Variable e : env.
  Variable M : table.

  (* helpers parameterised by the recursive calls (guard-checker friendly, DESIGN 3.2) *)
  Section inner.
    Variable ev : vplan -> val -> N -> outcome (val * N).
    Variable ea : aplan -> val -> val -> N -> outcome (val * N).

    (* for i := range src { a(lhs[i]) } *)
    Fixpoint each_assign (a : aplan) (srcs olds : list val) (st : N) : outcome (list val * N) :=
      match srcs, olds with
      | [], _ => Done (olds, st)
      | s :: sr, o :: orr => let* (v, st1) := ea a s o st in
                             let* (vs, st2) := each_assign a sr orr st1 in Done (v :: vs, st2)
      | s :: sr, [] => if touches a s then Panicked   (* index out of range *)
                       else each_assign a sr [] st
      end.

    Fixpoint each_entry (k v : vplan) (kvs : list (val * val)) (st : N) : outcome (list (val * val) * N) :=
      match kvs with
      | [] => Done ([], st)
      | (k0, v0) :: r => let* (k1, st1) := ev k k0 st in
                         let* (v1, st2) := ev v v0 st1 in
                         let* (rs, st3) := each_entry k v r st2 in Done ((k1, v1) :: rs, st3)
      end.

    Fixpoint each_field (fs : list fplan) (src : val) (olds : list val) (st : N) : outcome (list val * N) :=
      match fs, olds with
      | [], [] => Done ([], st)
      | f :: fr, o :: orr =>
        let* (v, st1) :=
          match f with
          | FSkip => Done (o, st)
          | FAssign sel guard a =>
            match eval_sel sel src with
            | None => Stuck
            | Some s => if guard && is_zero s then Done (o, st) else ea a s o st
            end
          end in
        let* (vs, st2) := each_field fr src orr st1 in Done (v :: vs, st2)
      | _, _ => Stuck
      end.
  End inner.

  Fixpoint eval_v (fuel : nat) (p : vplan) (src : val) (st : N) {struct fuel} : outcome (val * N) :=
    match fuel with
    | O => OutOfFuel
    | S f =>
      match p with
      | PId => Done (src, st)
      | PShare => Done (src, st)
      | PRef alias v => let* (r, st1) := eval_v f v src st in
                        if alias then Done (VPtr ALIAS r, st1) else Done (VPtr st1 r, st1 + 1)
      | PCall m => match nth_error M (N.to_nat m) with
                   | Some mt => match g_body mt with
                                | Some (BVal p') => eval_v f p' src st
                                | _ => Stuck
                                end
                   | None => Stuck
                   end
      | POfAssign t a => eval_a f a src (zero e ZFUEL t) st
      | PMakeList elem a =>
        match src with
        | VArr vs => eval_a f a src (VSlice st (repeat (zero e ZFUEL elem) (length vs))) (st + 1)
        | _ => Stuck
        end
      end
    end
  with eval_a (fuel : nat) (a : aplan) (src old : val) (st : N) {struct fuel} : outcome (val * N) :=
    match fuel with
    | O => OutOfFuel
    | S f =>
      match a with
      | ASet v => eval_v f v src st
      | APtr v => match src with
                  | VNil => Done (old, st)
                  | VPtr _ s => let* (r, st1) := eval_v f v s st in Done (VPtr st1 r, st1 + 1)
                  | _ => Stuck
                  end
      | ASrcPtr v => match src with
                     | VNil => Done (old, st)
                     | VPtr _ s => eval_v f v s st
                     | _ => Stuck
                     end
      | AList false elem a' =>
        match src with
        | VNil => Done (old, st)
        | VSlice _ vs =>
          let* (rs, st1) := each_assign (eval_a f) a' vs (repeat (zero e ZFUEL elem) (length vs)) (st + 1) in
          Done (VSlice st rs, st1)
        | _ => Stuck
        end
      | AList true elem a' =>
        match src with
        | VArr vs =>
          match old with
          | VSlice id olds => let* (rs, st1) := each_assign (eval_a f) a' vs olds st in Done (VSlice id rs, st1)
          | VNil => let* (_, st1) := each_assign (eval_a f) a' vs [] st in Done (VNil, st1)
          | _ => Stuck
          end
        | _ => Stuck
        end
      | AMap k v => match src with
                    | VNil => Done (old, st)
                    | VMap _ kvs => let* (rs, st1) := each_entry (eval_v f) k v kvs (st + 1) in Done (VMap st rs, st1)
                    | _ => Stuck
                    end
      | AStruct fs => match old with
                      | VStruct olds => let* (rs, st1) := each_field (eval_a f) fs src olds st in Done (VStruct rs, st1)
                      | _ => Stuck
                      end
      | AIfNotNil a' => match src with
                        | VNil => Done (old, st)
                        | VPtr _ s => eval_a f a' s old st
                        | _ => Stuck
                        end
      end
    end.

  (* run a (non-update) method of the table on a source value; addresses >= n0 are fresh *)
  Definition run (fuel : nat) (m : N) (src : val) (n0 : N) : outcome (val * N) := eval_v fuel (PCall m) src n0.

  (* run an update method: old = the struct the target pointer points to *)
  Definition run_update (fuel : nat) (m : N) (src old : val) (n0 : N) : outcome (val * N) :=
    match nth_error M (N.to_nat m) with
    | Some mt => match g_body mt with Some (BUpd a) => eval_a fuel a src old n0 | _ => Stuck end
    | None => Stuck
    end.
End eval.
