(* Eval.v — big-step, fuelled evaluation of plans on values: what the emitted Go code
   computes.  The state is the allocation counter (next fresh address). *)
From Coq Require Import List NArith ZArith Bool.
From GV Require Import Base Ty Conf Val Plan.
Import ListNotations.
Open Scope N_scope.

Inductive outcome (A : Type) := Done (a : A) | Panicked | OutOfFuel | Stuck | Errored (er : errv).
Arguments Done {A} a. Arguments Panicked {A}. Arguments OutOfFuel {A}. Arguments Stuck {A}. Arguments Errored {A} er.

Definition obind {A B} (o : outcome A) (f : A -> outcome B) : outcome B :=
  match o with Done a => f a | Panicked => Panicked | OutOfFuel => OutOfFuel | Stuck => Stuck | Errored er => Errored er end.
(* an error raised below the target position d gets d as path element *)
Definition tag {A} (d : delem) (o : outcome A) : outcome A :=
  match o with Errored er => Errored (push_elem d er) | x => x end.
Definition retag {A B} (o : outcome A) : outcome B :=
  match o with Done _ => Stuck | Panicked => Panicked | OutOfFuel => OutOfFuel | Stuck => Stuck | Errored er => Errored er end.
Notation "'let*' x ':=' o 'in' k" := (obind o (fun x => k)) (at level 200, x pattern, o at level 100, k at level 200).

(* selector evaluation: Some None = a nil pointer was crossed *)
Fixpoint walk (steps : list (bool * N)) (cur : val) : option (option val) :=
  match steps with
  | [] => Some (Some cur)
  | (d, i) :: r =>
    let after_deref : option (option val) :=
      if d then match cur with VNil => Some None | VPtr _ v => Some (Some v) | _ => None end
      else Some (Some cur) in
    match after_deref with
    | None => None
    | Some None => Some None
    | Some (Some c) => match c with
                       | VStruct fs => match nth_error fs (N.to_nat i) with Some f => walk r f | None => None end
                       | _ => None
                       end
    end
  end.

Definition eval_sel (s : selector) (src : val) : option val :=
  match s with
  | SelWhole => Some src
  | SelPath steps w =>
    match walk steps src with
    | None => None
    | Some None => match w with WNone => None | _ => Some VNil end
    | Some (Some v) => match w with WAddr => Some (VPtr ALIAS v) | _ => Some v end
    end
  | SelMeth _ _ _ _ _ _ => None        (* needs the evaluator: sel_eval below *)
  end.

(* does executing an Assign plan on this source value access its l-value at all?  (for i := range src
   { a(lhs[i]) } only panics on a short lhs when the loop body really indexes lhs[i]) *)
Fixpoint touches (a : aplan) (src : val) {struct a} : bool :=
  match a with
  | ASet _ => true
  | APtr _ | ASrcPtr _ | AMap _ _ => match src with VNil => false | _ => true end
  | AList false _ _ => match src with VNil => false | _ => true end
  | AList true _ a' => match src with VArr vs => existsb (touches a') vs | _ => true end
  | AStruct fs =>
      existsb (fun f => match f with
                        | FSkip => false
                        | FAssign _ sel g a' => match eval_sel sel src with
                                                | Some s => negb (g && is_zero s) && touches a' s
                                                | None => true
                                                end
                        | FCall _ _ _ _ => true
                        end) fs
  | AIfNotNil a' => match src with VNil => false | VPtr _ s => touches a' s | _ => true end
  | ADerefTgt _ => true
  end.

(* wrap mode of a method: 2 wrapErrorsUsing, 1 wrapErrors, 0 none *)
Definition wrap_mode (m : gmethod) : N :=
  match c_WrapErrorsUsing (m_common (g_conf m)) with
  | _ :: _ => 2
  | [] => if c_WrapErrors (m_common (g_conf m)) then 1 else 0
  end.

(* enum switch: the first case whose value equals the source, else the default action *)
Definition enum_action (cases : list (Z * eaction)) (dflt : eaction) (z : Z) : eaction :=
  match find (fun c => Z.eqb (fst c) z) cases with Some c => snd c | None => dflt end.
(* the error an enum switch returns for enum:unknown @error (fmt.Errorf, not a custom function) *)
Definition ENUM_ERR : N := 1000000.

(* context values of the running method, by type *)
Definition ctxs := list (ty * val).
Definition ctx_get (cx : ctxs) (t : ty) : val :=
  match find (fun kv => ty_eqb (fst kv) t) cx with Some kv => snd kv | None => VNil end.
Definition ctx_has (cx : ctxs) (t : ty) : bool := existsb (fun kv => ty_eqb (fst kv) t) cx.
Definition args_ok (cx : ctxs) (args : list argsrc) : bool :=
  forallb (fun a => match a with ArgCtx t => ctx_has cx t | _ => true end) args.
(* the value-producing body of a method and whether its errors are wrapped when they leave it *)
Definition body_plan (m : gmethod) : option (vplan * bool) :=
  match g_body m with Some (BVal p) => Some (p, true) | Some (BTail p) => Some (p, false) | _ => None end.

Section eval.
  Variable e : env.
  Variable M : table.
  Variable F : ftable.

  (* helpers parameterised by the recursive calls (guard-checker friendly, DESIGN 3.2) *)
  Section inner.
    Variable ev : vplan -> val -> N -> outcome (val * N).
    Variable ea : aplan -> val -> val -> N -> outcome (val * N).

    (* storing element i into a nil slice: index out of range; a conversion that is built before it is stored
       (lhs[i] = f(src[i])) runs first and may fail first (finding F-C02-1 with a fallible element conversion) *)
    Definition store_into_nil (i : N) (a : aplan) (s : val) (st : N) : outcome (list val * N) :=
      match a with
      | ASet _ | APtr _ | ASrcPtr _ =>
        match ea a s VNil st with Errored er => Errored (push_elem (DIndex i) er) | _ => Panicked end
      | _ => Panicked
      end.

    (* for i := range src { a(lhs[i]) } *)
    Fixpoint each_assign (i : N) (a : aplan) (srcs olds : list val) (st : N) : outcome (list val * N) :=
      match srcs, olds with
      | [], _ => Done (olds, st)
      | s :: sr, o :: orr => let* (v, st1) := tag (DIndex i) (ea a s o st) in
                             let* (vs, st2) := each_assign (i + 1) a sr orr st1 in Done (v :: vs, st2)
      | s :: sr, [] => if touches a s then store_into_nil i a s st
                       else each_assign (i + 1) a sr [] st
      end.

    Fixpoint each_entry (k v : vplan) (kvs : list (val * val)) (st : N) : outcome (list (val * val) * N) :=
      match kvs with
      | [] => Done ([], st)
      | (k0, v0) :: r => let kz := match k0 with VBasic z => z | _ => 0%Z end in
                         let* (k1, st1) := tag (DKey kz) (ev k k0 st) in
                         let* (v1, st2) := tag (DKey kz) (ev v v0 st1) in
                         let* (rs, st3) := each_entry k v r st2 in Done ((k1, v1) :: rs, st3)
      end.

    (* the selected source part of a struct field; a path ending in a method calls it on the value reached *)
    Definition sel_eval (sel : selector) (src : val) (st : N) : outcome (val * N) :=
      match sel with
      | SelMeth steps rd fi args fl w =>
        let recv : option (option val) :=
          match walk steps src with
          | Some (Some v) => if rd then match v with VNil => Some None | VPtr _ x => Some (Some x) | _ => None end
                             else Some (Some v)
          | x => x
          end in
        match recv with
        | None => Stuck
        | Some None => match w with WNone => Stuck | _ => Done (VNil, st) end
        | Some (Some rv) => let* (r, st1) := ev (PCallX (CFn fi) args fl) rv st in
                            match w with WAddr => Done (VPtr st1 r, st1 + 1) | _ => Done (r, st1) end
        end
      | _ => match eval_sel sel src with None => Stuck | Some s => Done (s, st) end
      end.

    Fixpoint each_field (fs : list fplan) (src : val) (olds : list val) (st : N) : outcome (list val * N) :=
      match fs, olds with
      | [], [] => Done ([], st)
      | f :: fr, o :: orr =>
        let* (v, st1) :=
          match f with
          | FSkip => Done (o, st)
          | FAssign name sel guard a =>
            tag (DField name) (let* (s, st0) := sel_eval sel src st in
                               if guard && is_zero s then Done (o, st0) else ea a s o st0)
          | FCall name sel guard v =>
            match sel with
            | None => tag (DField name) (ev v VNil st)
            | Some sl => tag (DField name) (let* (s, st0) := sel_eval sl src st in
                                            if guard && is_zero s then Done (o, st0) else ev v s st0)
            end
          end in
        let* (vs, st2) := each_field fr src orr st1 in Done (v :: vs, st2)
      | _, _ => Stuck
      end.
  End inner.

  Fixpoint eval_v (fuel : nat) (cx : ctxs) (p : vplan) (src : val) (st : N) {struct fuel} : outcome (val * N) :=
    match fuel with
    | O => OutOfFuel
    | S f =>
      match p with
      | PId => if plain src then Done (src, st) else Stuck   (* only values without addresses: basic values, struct{} *)
      | PShare => Done (src, st)
      | PRef alias v => let* (r, st1) := eval_v f cx v src st in
                        if alias then Done (VPtr ALIAS r, st1) else Done (VPtr st1 r, st1 + 1)
      | PCall m => match nth_error M (N.to_nat m) with
                   | Some mt => match body_plan mt with
                                | Some (p', wr) => match eval_v f [] p' src st with
                                                   | Errored er => Errored (if wr then finalize (wrap_mode mt) er else er)
                                                   | o => o
                                                   end
                                | None => Stuck
                                end
                   | None => Stuck
                   end
      | PCallX c args _ =>
        if negb (args_ok cx args) then Stuck else
        let ctx_sum := fold_left (fun acc a => match a with ArgCtx t => (acc + leaf0 (ctx_get cx t))%Z | _ => acc end) args 0%Z in
        match c with
        | CFn fi =>
          match nth_error F (N.to_nat fi) with
          | Some fd =>
            let sl := match fd_src fd with Some _ => leaf0 src | None => 0%Z end in
            if fd_err fd && fn_fails fi sl then Errored {| er_fn := fi; er_wraps := []; er_pending := [] |}
            else let '(v, st1, _) := mark e 60 (fd_tgt fd) (mark_token fi sl ctx_sum) st in Done (v, st1)
          | None => Stuck
          end
        | CMeth m =>
          match nth_error M (N.to_nat m) with
          | Some mt => match body_plan mt with
                       | Some (p', wr) =>
                         match eval_v f (map (fun t => (t, ctx_get cx t)) (g_ctx mt)) p' src st with
                         | Errored er => Errored (if wr then finalize (wrap_mode mt) er else er)
                         | o => o
                         end
                       | None => Stuck
                       end
          | None => Stuck
          end
        end
      | POfAssign t a => eval_a f cx a src (zero e ZFUEL t) st
      | PInit init to_ptr a =>
        let* (v0, st1) := eval_v f cx init src st in
        if to_ptr then eval_a f cx a src (VPtr st1 v0) (st1 + 1) else eval_a f cx a src v0 st1
      | PMakeList elem a =>
        match src with
        | VArr vs => eval_a f cx a src (VSlice st (repeat (zero e ZFUEL elem) (length vs))) (st + 1)
        | _ => Stuck
        end
      | PEnum init t cases dflt =>
        let* (old, st1) := match init with
                           | None => Done (zero e ZFUEL t, st)
                           | Some (ip, to_ptr) => let* (v0, s1) := eval_v f cx ip src st in
                                                  if to_ptr then Done (VPtr s1 v0, s1 + 1) else Done (v0, s1)
                           end in
        match src with
        | VBasic z => match enum_action cases dflt z with
                      | EASet v => Done (VBasic v, st1)
                      | EAIgnore => Done (old, st1)
                      | EAPanic => Panicked
                      | EAError => Errored {| er_fn := ENUM_ERR; er_wraps := []; er_pending := [] |}
                      end
        | _ => Stuck
        end
      end
    end
  with eval_a (fuel : nat) (cx : ctxs) (a : aplan) (src old : val) (st : N) {struct fuel} : outcome (val * N) :=
    match fuel with
    | O => OutOfFuel
    | S f =>
      match a with
      | ASet v => eval_v f cx v src st
      | APtr v => match src with
                  | VNil => Done (old, st)
                  | VPtr _ s => let* (r, st1) := eval_v f cx v s st in Done (VPtr st1 r, st1 + 1)
                  | _ => Stuck
                  end
      | ASrcPtr v => match src with
                     | VNil => Done (old, st)
                     | VPtr _ s => eval_v f cx v s st
                     | _ => Stuck
                     end
      | AList false elem a' =>
        match src with
        | VNil => Done (old, st)
        | VSlice _ vs =>
          let* (rs, st1) := each_assign (eval_a f cx) 0 a' vs (repeat (zero e ZFUEL elem) (length vs)) (st + 1) in
          Done (VSlice st rs, st1)
        | _ => Stuck
        end
      | AList true elem a' =>
        match src with
        | VArr vs =>
          match old with
          | VSlice id olds => let* (rs, st1) := each_assign (eval_a f cx) 0 a' vs olds st in Done (VSlice id rs, st1)
          | VNil => let* (_, st1) := each_assign (eval_a f cx) 0 a' vs [] st in Done (VNil, st1)
          | _ => Stuck
          end
        | _ => Stuck
        end
      | AMap k v => match src with
                    | VNil => Done (old, st)
                    | VMap _ kvs => let* (rs, st1) := each_entry (eval_v f cx) k v kvs (st + 1) in Done (VMap st rs, st1)
                    | _ => Stuck
                    end
      | AStruct fs => match old with
                      | VStruct olds => let* (rs, st1) := each_field (eval_v f cx) (eval_a f cx) fs src olds st in Done (VStruct rs, st1)
                      | _ => Stuck
                      end
      | AIfNotNil a' => match src with
                        | VNil => Done (old, st)
                        | VPtr _ s => eval_a f cx a' s old st
                        | _ => Stuck
                        end
      | ADerefTgt a' => match old with
                        | VPtr ad v => let* (r, st1) := eval_a f cx a' src v st in Done (VPtr ad r, st1)
                        | VNil => Panicked        (* nil pointer dereference *)
                        | _ => Stuck
                        end
      end
    end.

  (* run a declared (non-update) method on a source value and context values; addresses >= n0 are fresh *)
  Definition run (fuel : nat) (m : N) (cx : ctxs) (src : val) (n0 : N) : outcome (val * N) :=
    match nth_error M (N.to_nat m) with
    | Some mt => match body_plan mt with
                 | Some (p, wr) => match eval_v fuel cx p src n0 with
                                   | Errored er => Errored (if wr then finalize (wrap_mode mt) er else er)
                                   | o => o
                                   end
                 | None => Stuck
                 end
    | None => Stuck
    end.

  (* run an update method: old = the struct the target pointer points to *)
  Definition run_update (fuel : nat) (m : N) (cx : ctxs) (src old : val) (n0 : N) : outcome (val * N) :=
    match nth_error M (N.to_nat m) with
    | Some mt => match g_body mt with
                 | Some (BUpd a) => match eval_a fuel cx a src old n0 with
                                    | Errored er => Errored (finalize (wrap_mode mt) er)
                                    | o => o
                                    end
                 | _ => Stuck
                 end
    | None => Stuck
    end.
End eval.
