(* Sig.v — model of method/parse.go Parse: role assignment of parameters and
   validation of arity / results.  A parameter is abstracted to the three tests
   Parse applies to it, in the order it applies them. *)
From Coq Require Import List Bool Arith.
Import ListNotations.

Record param := { is_conv : bool;    (* types.Identical(arg.Type, opts.Converter) *)
                  is_upd  : bool;    (* opts.UpdateParam <> "" /\ arg.Name = opts.UpdateParam *)
                  is_ctx  : bool }.  (* context regex matches the name, or local `context NAME` *)
Inductive use := UInterface | UTarget | UContext | USource | UMulti.
Inductive pmode := Required | Optional | NoneAllowed.
Record opts := { o_mode : pmode; o_multi : bool; o_allow_tp : bool;
                 o_update : bool (* UpdateParam <> "" *) }.
Inductive rkind := RErr | ROther.      (* result is the built-in error / anything else *)
Record fn := { accessible : bool; is_func : bool; variadic : bool; type_params : bool;
               params : list param; results : list rkind }.

Inductive err := EExported | ENotFunc | EVariadic | EUpdateSig | EUpdateArgMissing | EReturns | ESecondNotError
               | EGeneric | ENoSourceAllowed | ENeedSource | EOneSource.
Record def := { uses : list use; ret_err : bool; update : bool }.

(* loop state of Parse *)
Record st := { s_uses : list use; (* reversed *) s_src : bool; s_upd : bool; s_reterr : bool; s_multi : nat }.
Definition st0 : st := {| s_uses := []; s_src := false; s_upd := false; s_reterr := false; s_multi := 0 |}.

Definition step (rs : list rkind) (s : st) (p : param) : err + st :=
  if is_conv p then inr {| s_uses := UInterface :: s_uses s; s_src := s_src s; s_upd := s_upd s; s_reterr := s_reterr s; s_multi := s_multi s |}
  else if is_upd p then
    match rs with
    | [] => inr {| s_uses := UTarget :: s_uses s; s_src := s_src s; s_upd := true; s_reterr := s_reterr s; s_multi := s_multi s |}
    | [RErr] => inr {| s_uses := UTarget :: s_uses s; s_src := s_src s; s_upd := true; s_reterr := true; s_multi := s_multi s |}
    | _ => inl EUpdateSig
    end
  else if is_ctx p then inr {| s_uses := UContext :: s_uses s; s_src := s_src s; s_upd := s_upd s; s_reterr := s_reterr s; s_multi := s_multi s |}
  else if negb (s_src s) then inr {| s_uses := USource :: s_uses s; s_src := true; s_upd := s_upd s; s_reterr := s_reterr s; s_multi := s_multi s |}
  else inr {| s_uses := UMulti :: s_uses s; s_src := true; s_upd := s_upd s; s_reterr := s_reterr s; s_multi := S (s_multi s) |}.

Fixpoint run (rs : list rkind) (ps : list param) (s : st) : err + st :=
  match ps with
  | [] => inr s
  | p :: r => match step rs s p with inl e => inl e | inr s' => run rs r s' end
  end.

Definition classify (o : opts) (f : fn) : err + def :=
  if negb (accessible f) then inl EExported else
  if negb (is_func f) then inl ENotFunc else
  if variadic f then inl EVariadic else
  match run (results f) (params f) st0 with
  | inl e => inl e
  | inr s =>
    if negb (s_upd s) && o_update o then inl EUpdateArgMissing else
    let chk_results : err + bool :=
      if s_upd s then inr (s_reterr s) else
      match results f with
      | [] => inl EReturns
      | [_] => inr false
      | [_; RErr] => inr true
      | [_; ROther] => inl ESecondNotError
      | _ => inl EReturns
      end in
    match chk_results with
    | inl e => inl e
    | inr re =>
      if type_params f && negb (o_allow_tp o) then inl EGeneric else
      match o_mode o, s_src s with
      | NoneAllowed, true => inl ENoSourceAllowed
      | Required, false => inl ENeedSource
      | _, _ => if negb (o_multi o) && negb (Nat.eqb (s_multi s) 0) then inl EOneSource
                else inr {| uses := rev (s_uses s); ret_err := re; update := s_upd s |}
      end
    end
  end.

(* ---------------- declarative specification (C14) ---------------- *)
Inductive role := RoleConv | RoleTarget | RoleCtx | RoleSrc.
Definition role_of (p : param) : role :=
  if is_conv p then RoleConv else if is_upd p then RoleTarget else if is_ctx p then RoleCtx else RoleSrc.
Definition is_src_role (r : role) : bool := match r with RoleSrc => true | _ => false end.
Definition is_tgt_role (r : role) : bool := match r with RoleTarget => true | _ => false end.
Definition nsrc (ps : list param) : nat := length (filter is_src_role (map role_of ps)).
Definition has_upd (ps : list param) : bool := existsb is_tgt_role (map role_of ps).

(* declared order is kept; the first source-role parameter is "the source" *)
Fixpoint uses_of (seen : bool) (rs : list role) : list use :=
  match rs with
  | [] => []
  | RoleConv :: r => UInterface :: uses_of seen r
  | RoleTarget :: r => UTarget :: uses_of seen r
  | RoleCtx :: r => UContext :: uses_of seen r
  | RoleSrc :: r => (if seen then UMulti else USource) :: uses_of true r
  end.

Definition results_ok_update (rs : list rkind) : bool := match rs with [] | [RErr] => true | _ => false end.
Definition results_ok_plain (rs : list rkind) : bool := match rs with [_] | [_; RErr] => true | _ => false end.
Definition returns_error (upd : bool) (rs : list rkind) : bool :=
  if upd then match rs with [RErr] => true | _ => false end
  else match rs with [_; RErr] => true | _ => false end.

Definition valid (o : opts) (f : fn) : bool :=
  accessible f && is_func f && negb (variadic f)
  && (if has_upd (params f) then results_ok_update (results f)
      else negb (o_update o) && results_ok_plain (results f))
  && negb (type_params f && negb (o_allow_tp o))
  && match o_mode o with
     | Required => Nat.leb 1 (nsrc (params f))
     | Optional => true
     | NoneAllowed => Nat.eqb (nsrc (params f)) 0
     end
  && (o_multi o || Nat.leb (nsrc (params f)) 1).

Definition expected (f : fn) : def :=
  {| uses := uses_of false (map role_of (params f));
     ret_err := returns_error (has_upd (params f)) (results f);
     update := has_upd (params f) |}.

(* boolean equalities for case files *)
Definition use_eqb (a b : use) : bool :=
  match a, b with UInterface, UInterface | UTarget, UTarget | UContext, UContext | USource, USource | UMulti, UMulti => true | _, _ => false end.
Definition err_eqb (a b : err) : bool :=
  match a, b with
  | EExported, EExported | ENotFunc, ENotFunc | EVariadic, EVariadic | EUpdateSig, EUpdateSig | EUpdateArgMissing, EUpdateArgMissing
  | EReturns, EReturns | ESecondNotError, ESecondNotError | EGeneric, EGeneric | ENoSourceAllowed, ENoSourceAllowed
  | ENeedSource, ENeedSource | EOneSource, EOneSource => true
  | _, _ => false
  end.
Fixpoint uses_eqb (a b : list use) : bool :=
  match a, b with [], [] => true | x :: a', y :: b' => use_eqb x y && uses_eqb a' b' | _, _ => false end.
Definition def_eqb (a b : def) : bool := uses_eqb (uses a) (uses b) && Bool.eqb (ret_err a) (ret_err b) && Bool.eqb (update a) (update b).
Definition out_eqb (a b : err + def) : bool :=
  match a, b with inl x, inl y => err_eqb x y | inr x, inr y => def_eqb x y | _, _ => false end.
