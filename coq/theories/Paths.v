(* Paths.v — path/filepath (Unix) as used by goverter, and the output location arithmetic:
   config/parse/file.go File, generator/filemanager.go getOutputDir, config/converter.go
   defaultOutputFile / resolveOutputPackage, config/package.go resolvePackage, jennifer guessAlias. *)
From Coq Require Import List NArith Bool String.
From GV Require Import Base.
Import ListNotations.
Open Scope N_scope.

Definition SL : N := 47. Definition DOT : N := 46.

(* split on '/' (never empty) *)
Fixpoint split_sl_aux (cur : rstr) (l : rstr) : list rstr :=
  match l with
  | [] => [rev cur]
  | c :: r => if c =? SL then rev cur :: split_sl_aux [] r else split_sl_aux (c :: cur) r
  end.
Definition split_sl (l : rstr) : list rstr := split_sl_aux [] l.
Fixpoint join_sl (ls : list rstr) : rstr :=
  match ls with [] => [] | [l] => l | l :: r => l ++ SL :: join_sl r end.

Definition is_abs (p : rstr) : bool := match p with c :: _ => c =? SL | [] => false end.
Definition is_dot (s : rstr) : bool := rstr_eqb s [DOT].
Definition is_dotdot (s : rstr) : bool := rstr_eqb s [DOT; DOT].
Definition nonempty (s : rstr) : bool := match s with [] => false | _ => true end.

(* the element stack of Clean: out = cleaned elements (reversed) *)
Fixpoint clean_segs (rooted : bool) (segs : list rstr) (out : list rstr) : list rstr :=
  match segs with
  | [] => rev out
  | s :: r =>
    if negb (nonempty s) || is_dot s then clean_segs rooted r out
    else if is_dotdot s then
      match out with
      | o :: out' => if is_dotdot o then clean_segs rooted r (s :: out) else clean_segs rooted r out'
      | [] => if rooted then clean_segs rooted r [] else clean_segs rooted r [s]
      end
    else clean_segs rooted r (s :: out)
  end.

Definition clean (p : rstr) : rstr :=
  match p with
  | [] => [DOT]
  | _ =>
    let rooted := is_abs p in
    let segs := clean_segs rooted (split_sl p) [] in
    match segs, rooted with
    | [], true => [SL]
    | [], false => [DOT]
    | _, true => SL :: join_sl segs
    | _, false => join_sl segs
    end
  end.

(* filepath.Join: empty elements are ignored, the result is cleaned; all empty => "" *)
Definition join (elems : list rstr) : rstr :=
  match filter nonempty elems with
  | [] => []
  | es => clean (join_sl es)
  end.

(* everything up to and including the last slash *)
Fixpoint last_slash_split (p : rstr) : rstr * rstr :=   (* (dir part incl. slash, file part) *)
  match p with
  | [] => ([], [])
  | c :: r => let '(d, f) := last_slash_split r in
              if c =? SL then (match d with [] => [c] | _ => c :: d end, f)
              else match d with [] => ([], c :: f) | _ => (c :: d, f) end
  end.
Definition dir (p : rstr) : rstr := clean (fst (last_slash_split p)).

Definition strip_trailing_sl (l : rstr) : rstr := rev (let fix go (r : rstr) := match r with c :: t => if c =? SL then go t else r | [] => [] end in go (rev l)).
Definition base (p : rstr) : rstr :=
  match p with
  | [] => [DOT]
  | _ => match strip_trailing_sl p with
         | [] => [SL]
         | q => snd (last_slash_split q)
         end
  end.

(* extension: from the last '.' of the last element *)
Fixpoint ext_aux (l : rstr) : option rstr :=   (* Some suffix from last dot *)
  match l with
  | [] => None
  | c :: r => match ext_aux r with
              | Some e => Some e
              | None => if c =? DOT then Some (c :: r) else None
              end
  end.
Definition ext (p : rstr) : rstr := match ext_aux (snd (last_slash_split p)) with Some e => e | None => [] end.

Fixpoint drop_common (a b : list rstr) : list rstr * list rstr :=
  match a, b with
  | x :: a', y :: b' => if rstr_eqb x y then drop_common a' b' else (a, b)
  | _, _ => (a, b)
  end.
(* filepath.Rel for two absolute paths *)
Definition rel (basep targ : rstr) : rstr :=
  let b := clean_segs true (split_sl basep) [] in
  let t := clean_segs true (split_sl targ) [] in
  let '(b', t') := drop_common b t in
  match map (fun _ => [DOT; DOT]) b' ++ t' with
  | [] => [DOT]
  | segs => join_sl segs
  end.

(* ---------------- goverter ---------------- *)
Fixpoint has_prefix (p l : rstr) : option rstr :=
  match p, l with
  | [], _ => Some l
  | a :: p', b :: l' => if a =? b then has_prefix p' l' else None
  | _, [] => None
  end.
Definition CWD_PREFIX : rstr := s2r "@cwd/"%string.

(* parse.File (value already reduced to its single field): "@cwd/x" is taken under the absolute working directory *)
Definition parse_file (abs_cwd : rstr) (field : rstr) : rstr :=
  match has_prefix CWD_PREFIX field with
  | Some rest => join [abs_cwd; rest]
  | None => field
  end.

(* generator/filemanager.go getOutputDir: where the converter's code is written *)
Definition output_path (source_file output_file : rstr) : rstr :=
  if is_abs output_file then output_file else join [dir source_file; output_file].

(* config/converter.go defaultOutputFile: <file>.gen.go next to a variables block *)
Definition drop_suffix_len (l : rstr) (n : nat) : rstr := firstn (List.length l - n) l.
Definition default_output_file (source_file : rstr) : rstr :=
  let f := base source_file in
  let e := ext f in
  drop_suffix_len f (List.length e) ++ s2r ".gen"%string ++ e.
Definition DEFAULT_INTERFACE_OUTPUT : rstr := s2r "./generated/generated.go"%string.

(* config/package.go resolvePackage: the import path of the directory the output lands in *)
Definition resolve_package (source_file source_pkg target_file : rstr) : rstr :=
  let relf := if is_abs target_file then rel (dir source_file) target_file else target_file in
  dir (join [source_pkg; relf]).

(* jennifer guessAlias: lower-cased last element, alphanumerics only, no leading digits, "pkg" if empty *)
Definition to_lower (c : N) : N := if (65 <=? c) && (c <=? 90) then c + 32 else c.
Definition is_alnum (c : N) : bool := ((97 <=? c) && (c <=? 122)) || ((48 <=? c) && (c <=? 57)).
Fixpoint drop_digits (l : rstr) : rstr := match l with c :: r => if (48 <=? c) && (c <=? 57) then drop_digits r else l | [] => [] end.
Definition guess_alias (path : rstr) : rstr :=
  let p := match rev path with c :: r => if c =? SL then rev r else path | [] => path end in
  let last := snd (last_slash_split p) in
  match drop_digits (filter is_alnum (map to_lower last)) with
  | [] => s2r "pkg"%string
  | a => a
  end.

(* package clause: output:package name > name of the existing package at that path > guessAlias *)
Definition package_clause (configured_name : rstr) (existing_name : option rstr) (pkg_path : rstr) : rstr :=
  match configured_name with
  | _ :: _ => configured_name
  | [] => match existing_name with Some n => n | None => guess_alias pkg_path end
  end.

(* ---- converters sharing an output file (generator/filemanager.go Get) ---- *)
(* identity of a converter's output package: path, or path:name when a name is known (configured, or taken
   from the package existing at the target) *)
Definition package_id (path name : rstr) : rstr :=
  match name with [] => path | _ => path ++ 58 :: name end.
Definition effective_name (configured : rstr) (existing : option rstr) : rstr :=
  match configured with _ :: _ => configured | [] => match existing with Some n => n | None => [] end end.
(* the second converter selecting a file is accepted iff its identity equals the first one's *)
Definition same_file_accepts (a b : rstr * rstr) : bool :=
  rstr_eqb (package_id (fst a) (snd a)) (package_id (fst b) (snd b)).
