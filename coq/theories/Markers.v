(* Markers.v — model of comments/parse_docs.go: which declarations become converters,
   with which setting lines (parseGenDecl / parseFunctions / parseInterface /
   parseInterfaceMethods).  Declarations are abstracted to what that code inspects. *)
From Coq Require Import List NArith Bool.
From GV Require Import Base Extracted Comment.
Import ListNotations.
Open Scope N_scope.

Inductive dtok := TImport | TConst | TType | TVar.
Definition dtok_eqb (a b : dtok) : bool :=
  match a, b with TImport, TImport | TConst, TConst | TType, TType | TVar, TVar => true | _, _ => false end.

(* one entry of an interface's method list: its names (0 for an embedded interface) and doc *)
Record imethod := { m_names : list rstr; m_doc : list comment }.

Inductive sshape :=
| SIface (methods : list imethod)    (* TypeSpec whose type is an interface literal *)
| STypeOther                         (* any other TypeSpec *)
| SValue (names : list rstr)         (* ValueSpec *)
| SImport.

Record dspec := { s_name : rstr; s_doc : list comment; s_shape : sshape }.
Record gdecl := { d_tok : dtok; d_doc : list comment; d_specs : list dspec }.

(* top-level declarations as ParseDocs sees them *)
Inductive decl := DGen (g : gdecl) | DFunc (doc : list comment).

Record rawconv := { rc_iface : rstr;                       (* InterfaceName, [] for a variables block *)
                    rc_lines : list rstr;                  (* converter-level setting lines *)
                    rc_methods : list (rstr * list rstr) } (* per method / variable, in source order *).

(* diagnostic classes *)
Definition E_VARS_NOT_VAR : N := 1.     (* goverter:variables must be defined on "var"-block *)
Definition E_CONV_NOT_TYPE : N := 2.    (* goverter:converter must be defined on "type"-block *)
Definition E_MULTIPLE : N := 3.         (* found marker on type but it has multiple interfaces inside *)
Definition E_NOT_TYPESPEC : N := 4.     (* may only be applied to type declarations *)
Definition E_NOT_IFACE : N := 5.        (* may only be applied to type interface declarations *)
Definition E_METHOD_NAME : N := 6.      (* method must have one name *)
Definition E_VALUE_NAME : N := 7.       (* must have one name *)
Definition E_NOT_VALUESPEC : N := 8.    (* expected value spec *)
Definition E_ON_FUNC : N := 9.          (* marker may not be defined on a func declaration *)

Definition doc_lines (doc : list comment) : list rstr := setting_lines (comment_to_string doc).
Definition has_marker (m : rstr) (doc : list comment) : bool := contains m (comment_to_string doc).

Fixpoint map_res {A B} (f : A -> res B) (l : list A) : res (list B) :=
  match l with
  | [] => Ok []
  | a :: r => do b <- f a; do bs <- map_res f r; Ok (b :: bs)
  end.

Definition parse_method (m : imethod) : res (rstr * list rstr) :=
  match m_names m with
  | [n] => Ok (n, doc_lines (m_doc m))
  | _ => Diag E_METHOD_NAME
  end.

Definition parse_interface (s : dspec) (docs : list comment) : res rawconv :=
  match s_shape s with
  | SIface ms => do methods <- map_res parse_method ms;
                 Ok {| rc_iface := s_name s; rc_lines := doc_lines docs; rc_methods := methods |}
  | _ => Diag E_NOT_IFACE
  end.

Definition parse_value (s : dspec) : res (rstr * list rstr) :=
  match s_shape s with
  | SValue [n] => Ok (n, doc_lines (s_doc s))
  | SValue _ => Diag E_VALUE_NAME
  | _ => Diag E_NOT_VALUESPEC
  end.

Definition is_typespec (s : dspec) : bool :=
  match s_shape s with SIface _ | STypeOther => true | _ => false end.

(* the fall-through loop of parseGenDecl: every TypeSpec whose own doc carries the marker *)
Fixpoint parse_specs (ss : list dspec) : res (list rawconv) :=
  match ss with
  | [] => Ok []
  | s :: r => if is_typespec s && has_marker x_converter_marker (s_doc s)
              then do c <- parse_interface s (s_doc s); do cs <- parse_specs r; Ok (c :: cs)
              else parse_specs r
  end.

Definition parse_gen_decl (d : gdecl) : res (list rawconv) :=
  if has_marker x_variables_marker (d_doc d) then
    if negb (dtok_eqb (d_tok d) TVar) then Diag E_VARS_NOT_VAR
    else do ms <- map_res parse_value (d_specs d);
         Ok [ {| rc_iface := []; rc_lines := doc_lines (d_doc d); rc_methods := ms |} ]
  else if has_marker x_converter_marker (d_doc d) then
    if negb (dtok_eqb (d_tok d) TType) then Diag E_CONV_NOT_TYPE
    else match d_specs d with
         | [s] => if is_typespec s then do c <- parse_interface s (d_doc d); Ok [c] else Diag E_NOT_TYPESPEC
         | _ => Diag E_MULTIPLE
         end
  else parse_specs (d_specs d).

(* a function declaration never is a converter; a marker in its doc is an error *)
Definition parse_decl (d : decl) : res (list rawconv) :=
  match d with
  | DGen g => parse_gen_decl g
  | DFunc doc => if has_marker x_converter_marker doc || has_marker x_variables_marker doc
                 then Diag E_ON_FUNC else Ok []
  end.

(* ParseDocs over the declarations of a file: first error aborts *)
Fixpoint parse_decls (ds : list decl) : res (list rawconv) :=
  match ds with
  | [] => Ok []
  | d :: r => do cs <- parse_decl d; do rest <- parse_decls r; Ok (cs ++ rest)
  end.

(* boolean equalities for case files *)
Definition rawconv_eqb (a b : rawconv) : bool :=
  rstr_eqb (rc_iface a) (rc_iface b) && list_eqb rstr_eqb (rc_lines a) (rc_lines b)
  && list_eqb (pair_eqb rstr_eqb (list_eqb rstr_eqb)) (rc_methods a) (rc_methods b).

