(* EvalFacts.v — run-time meaning of the plan constructors that C02/C04/C05/C11 talk about. *)
From Coq Require Import List NArith ZArith Bool Lia.
From GV Require Import Base Ty Conf Val Plan Eval.
Import ListNotations.
Open Scope N_scope.

Section facts.
  Variable e : env.
  Variable M : table.
  Variable F : ftable.
  Notation eval_v := (eval_v e M F).
  Notation eval_a := (eval_a e M F).

  (* one-step unfolding of the evaluator with the recursive calls by name (checked by reflexivity) *)
  Lemma eval_v_S f cx p src st :
    eval_v (S f) cx p src st =
    match p with
    | PId => if plain src then Done (src, st) else Stuck
    | PShare => Done (src, st)
    | PRef alias v => let* (r, st1) := eval_v f cx v src st in
                      if alias then Done (VPtr ALIAS r, st1) else Done (VPtr st1 r, st1 + 1)
    | PCall m => match nth_error M (N.to_nat m) with
                 | Some mt => match body_plan mt with
                              | Some (p', wr) => match eval_v f [] p' src st with
                                                 | Errored er => Errored (if wr then finalize (wrap_mode mt) er else er)
                                                 | o => o
                                                 end
                              | None => Stuck
                              end
                 | None => Stuck
                 end
    | PCallX c args _ =>
      if negb (args_ok cx args) then Stuck else
      let ctx_sum := fold_left (fun acc a => match a with ArgCtx t => (acc + leaf0 (ctx_get cx t))%Z | _ => acc end) args 0%Z in
      match c with
      | CFn fi =>
        match nth_error F (N.to_nat fi) with
        | Some fd =>
          let sl := match fd_src fd with Some _ => leaf0 src | None => 0%Z end in
          if fd_err fd && fn_fails fi sl then Errored {| er_fn := fi; er_wraps := []; er_pending := [] |}
          else let '(v, st1, _) := mark e 60 (fd_tgt fd) (mark_token fi sl ctx_sum) st in Done (v, st1)
        | None => Stuck
        end
      | CMeth m =>
        match nth_error M (N.to_nat m) with
        | Some mt => match body_plan mt with
                     | Some (p', wr) =>
                       match eval_v f (map (fun t => (t, ctx_get cx t)) (g_ctx mt)) p' src st with
                       | Errored er => Errored (if wr then finalize (wrap_mode mt) er else er)
                       | o => o
                       end
                     | None => Stuck
                     end
        | None => Stuck
        end
      end
    | POfAssign t a => eval_a f cx a src (zero e ZFUEL t) st
    | PInit init to_ptr a =>
      let* (v0, st1) := eval_v f cx init src st in
      if to_ptr then eval_a f cx a src (VPtr st1 v0) (st1 + 1) else eval_a f cx a src v0 st1
    | PMakeList elem a =>
      match src with
      | VArr vs => eval_a f cx a src (VSlice st (repeat (zero e ZFUEL elem) (length vs))) (st + 1)
      | _ => Stuck
      end
    | PEnum init t cases dflt =>
      let* (old, st1) := match init with
                         | None => Done (zero e ZFUEL t, st)
                         | Some (ip, to_ptr) => let* (v0, s1) := eval_v f cx ip src st in
                                                if to_ptr then Done (VPtr s1 v0, s1 + 1) else Done (v0, s1)
                         end in
      match src with
      | VBasic z => match enum_action cases dflt z with
                    | EASet v => Done (VBasic v, st1)
                    | EAIgnore => Done (old, st1)
                    | EAPanic => Panicked
                    | EAError => Errored {| er_fn := ENUM_ERR; er_wraps := []; er_pending := [] |}
                    end
      | _ => Stuck
      end
    end.
  Proof. destruct p; reflexivity. Qed.

  Lemma eval_a_S f cx a src old st :
    eval_a (S f) cx a src old st =
    match a with
    | ASet v => eval_v f cx v src st
    | APtr v => match src with
                | VNil => Done (old, st)
                | VPtr _ s => let* (r, st1) := eval_v f cx v s st in Done (VPtr st1 r, st1 + 1)
                | _ => Stuck
                end
    | ASrcPtr v => match src with VNil => Done (old, st) | VPtr _ s => eval_v f cx v s st | _ => Stuck end
    | AList false elem a' =>
      match src with
      | VNil => Done (old, st)
      | VSlice _ vs =>
        let* (rs, st1) := each_assign (eval_a f cx) 0 a' vs (repeat (zero e ZFUEL elem) (length vs)) (st + 1) in
        Done (VSlice st rs, st1)
      | _ => Stuck
      end
    | AList true elem a' =>
      match src with
      | VArr vs =>
        match old with
        | VSlice id olds => let* (rs, st1) := each_assign (eval_a f cx) 0 a' vs olds st in Done (VSlice id rs, st1)
        | VNil => let* (_, st1) := each_assign (eval_a f cx) 0 a' vs [] st in Done (VNil, st1)
        | _ => Stuck
        end
      | _ => Stuck
      end
    | AMap k v => match src with
                  | VNil => Done (old, st)
                  | VMap _ kvs => let* (rs, st1) := each_entry (eval_v f cx) k v kvs (st + 1) in Done (VMap st rs, st1)
                  | _ => Stuck
                  end
    | AStruct fs => match old with
                    | VStruct olds => let* (rs, st1) := each_field (eval_v f cx) (eval_a f cx) fs src olds st in Done (VStruct rs, st1)
                    | _ => Stuck
                    end
    | AIfNotNil a' => match src with VNil => Done (old, st) | VPtr _ s => eval_a f cx a' s old st | _ => Stuck end
    | ADerefTgt a' => match old with
                      | VPtr ad v => let* (r, st1) := eval_a f cx a' src v st in Done (VPtr ad r, st1)
                      | VNil => Panicked
                      | _ => Stuck
                      end
    end.
  Proof. destruct a as [| | |[|]| | | |]; reflexivity. Qed.

  (* unfolding equations, checked by reflexivity against Eval.v *)
  Lemma eval_v_ofassign f cx t a src st : eval_v (S f) cx (POfAssign t a) src st = eval_a f cx a src (zero e ZFUEL t) st.
  Proof. reflexivity. Qed.
  Lemma eval_a_ptr f cx q src old st :
    eval_a (S f) cx (APtr q) src old st =
    match src with
    | VNil => Done (old, st)
    | VPtr _ s => let* (r, st1) := eval_v f cx q s st in Done (VPtr st1 r, st1 + 1)
    | _ => Stuck
    end.
  Proof. reflexivity. Qed.
  Lemma eval_a_list f cx el a src old st :
    eval_a (S f) cx (AList false el a) src old st =
    match src with
    | VNil => Done (old, st)
    | VSlice _ vs => let* (rs, st1) := each_assign (eval_a f cx) 0 a vs (repeat (zero e ZFUEL el) (length vs)) (st + 1) in
                     Done (VSlice st rs, st1)
    | _ => Stuck
    end.
  Proof. reflexivity. Qed.
  Lemma eval_a_map f cx k v src old st :
    eval_a (S f) cx (AMap k v) src old st =
    match src with
    | VNil => Done (old, st)
    | VMap _ kvs => let* (rs, st1) := each_entry (eval_v f cx) k v kvs (st + 1) in Done (VMap st rs, st1)
    | _ => Stuck
    end.
  Proof. reflexivity. Qed.
  Lemma eval_v_ref f cx al q src st :
    eval_v (S f) cx (PRef al q) src st =
    let* (r, st1) := eval_v f cx q src st in if al then Done (VPtr ALIAS r, st1) else Done (VPtr st1 r, st1 + 1).
  Proof. reflexivity. Qed.

  (* T -> *U : non-nil, freshly addressed pointer to the conversion of the value *)
  Lemma eval_ref f cx q src st :
    eval_v (S f) cx (PRef false q) src st =
    match eval_v f cx q src st with
    | Done (r, st1) => Done (VPtr st1 r, st1 + 1)
    | Panicked => Panicked | OutOfFuel => OutOfFuel | Stuck => Stuck | Errored er => Errored er
    end.
  Proof. rewrite eval_v_ref. destruct (eval_v f cx q src st) as [[r st1]| | | |]; reflexivity. Qed.

  Lemma eval_ref_nonnil f cx q src st v st' :
    eval_v (S f) cx (PRef false q) src st = Done (v, st') ->
    exists a r, v = VPtr a r /\ eval_v f cx q src st = Done (r, a) /\ st' = a + 1.
  Proof. rewrite eval_ref. destruct (eval_v f cx q src st) as [[r st1]| | | |]; try discriminate. intros [= <- <-]. eauto. Qed.

  (* *T -> U with useZeroValueOnPointerInconsistency *)
  Lemma eval_ptr_to_value_nil f cx t q st :
    eval_v (S (S f)) cx (POfAssign t (ASrcPtr q)) VNil st = Done (zero e ZFUEL t, st).
  Proof. reflexivity. Qed.
  Lemma eval_ptr_to_value_some f cx t q a v st :
    eval_v (S (S f)) cx (POfAssign t (ASrcPtr q)) (VPtr a v) st = eval_v f cx q v st.
  Proof. reflexivity. Qed.

  (* *T -> *U : nil stays nil, non-nil becomes a fresh non-nil pointer to the conversion of the pointee *)
  Lemma eval_ptr_nil f cx t q st :
    eval_v (S (S f)) cx (POfAssign t (APtr q)) VNil st = Done (zero e ZFUEL t, st).
  Proof. reflexivity. Qed.
  Lemma eval_ptr_some f cx t q a v st :
    eval_v (S (S f)) cx (POfAssign t (APtr q)) (VPtr a v) st =
    match eval_v f cx q v st with
    | Done (r, st1) => Done (VPtr st1 r, st1 + 1)
    | Panicked => Panicked | OutOfFuel => OutOfFuel | Stuck => Stuck | Errored er => Errored er
    end.
  Proof. rewrite eval_v_ofassign, eval_a_ptr. destruct (eval_v f cx q v st) as [[r st1]| | | |]; reflexivity. Qed.

  (* slices: nil stays nil (the zero value of a slice type is nil); a non-nil slice (also an empty one)
     becomes a non-nil slice with a fresh backing array, same length, elements converted in order *)
  Lemma store_into_nil_not_done (ea' : aplan -> val -> val -> N -> outcome (val * N)) i a s st x :
    store_into_nil ea' i a s st <> Done x.
  Proof. unfold store_into_nil. destruct a; try discriminate; destruct (ea' _ s VNil st); discriminate. Qed.
  Lemma store_into_nil_error (ea' : aplan -> val -> val -> N -> outcome (val * N)) i a s st er' :
    store_into_nil ea' i a s st = Errored er' -> exists er, ea' a s VNil st = Errored er /\ er' = push_elem (DIndex i) er.
  Proof.
    unfold store_into_nil. destruct a; try discriminate; destruct (ea' _ s VNil st) as [x| | | |er] eqn:E; try discriminate;
      intros [= <-]; exists er; split; reflexivity.
  Qed.
  Lemma each_assign_length ea i a srcs olds st rs st' :
    length olds = length srcs ->
    each_assign ea i a srcs olds st = Done (rs, st') -> length rs = length srcs.
  Proof.
    revert i olds st rs st'. induction srcs as [|s sr IH]; intros i olds st rs st' L H; cbn in H.
    - destruct olds; [|discriminate L]. inversion H; reflexivity.
    - destruct olds as [|o orr]; [discriminate|]. cbn in L.
      destruct (ea a s o st) as [[v st1]| | | |]; cbn in H; try discriminate.
      destruct (each_assign ea (i + 1) a sr orr st1) as [[vs st2]| | | |] eqn:E; cbn in H; try discriminate.
      inversion H; subst. cbn. f_equal. eapply IH; [|exact E]. lia.
  Qed.

  Lemma eval_slice_nil f cx el a old st : eval_a (S f) cx (AList false el a) VNil old st = Done (old, st).
  Proof. reflexivity. Qed.

  Lemma eval_slice_nonnil f cx el a i vs old st v st' :
    eval_a (S f) cx (AList false el a) (VSlice i vs) old st = Done (v, st') ->
    exists rs, v = VSlice st rs /\ length rs = length vs.
  Proof.
    rewrite eval_a_list. destruct (each_assign _ _ _ _ _ _) as [[rs st1]| | | |] eqn:E; cbn; try discriminate.
    intros [= <- <-]. exists rs. split; [reflexivity|].
    eapply each_assign_length; [|exact E]. apply repeat_length.
  Qed.

  (* maps: nil stays nil, non-nil becomes a fresh non-nil map with one entry per source entry *)
  Lemma each_entry_length ev k v kvs st rs st' :
    each_entry ev k v kvs st = Done (rs, st') -> length rs = length kvs.
  Proof.
    revert st rs st'. induction kvs as [|[k0 v0] r IH]; intros st rs st' H; cbn in H.
    - inversion H; reflexivity.
    - destruct (ev k k0 st) as [[k1 st1]| | | |]; cbn in H; try discriminate.
      destruct (ev v v0 st1) as [[v1 st2]| | | |]; cbn in H; try discriminate.
      destruct (each_entry ev k v r st2) as [[rs' st3]| | | |] eqn:E; cbn in H; try discriminate.
      inversion H; subst. cbn. f_equal. eapply IH. exact E.
  Qed.
  Lemma eval_map_nil f cx k v old st : eval_a (S f) cx (AMap k v) VNil old st = Done (old, st).
  Proof. reflexivity. Qed.
  Lemma eval_map_nonnil f cx k v i kvs old st r st' :
    eval_a (S f) cx (AMap k v) (VMap i kvs) old st = Done (r, st') ->
    exists rs, r = VMap st rs /\ length rs = length kvs.
  Proof.
    rewrite eval_a_map. destruct (each_entry _ _ _ _ _) as [[rs st1]| | | |] eqn:E; cbn; try discriminate.
    intros [= <- <-]. exists rs. split; [reflexivity|]. eapply each_entry_length. exact E.
  Qed.

  (* basic values are unchanged; sharing plans return the source itself *)
  Lemma eval_id f cx src st : plain src = true -> eval_v (S f) cx PId src st = Done (src, st).
  Proof. intros H. cbn [eval_v]. rewrite H. reflexivity. Qed.
  Lemma eval_id_basic f cx z st : eval_v (S f) cx PId (VBasic z) st = Done (VBasic z, st).
  Proof. reflexivity. Qed.
  Lemma eval_share f cx src st : eval_v (S f) cx PShare src st = Done (src, st).
  Proof. reflexivity. Qed.

  (* struct fields: a skipped field keeps what the target variable held (zero value, constructor result, or
     the previous content for update methods) *)
  Lemma each_field_skip ev ea fr src o orr st rs st' :
    each_field ev ea (FSkip :: fr) src (o :: orr) st = Done (rs, st') -> exists rs', rs = o :: rs'.
  Proof.
    cbn. destruct (each_field ev ea fr src orr st) as [[vs st2]| | | |]; cbn; try discriminate.
    intros [= <- <-]. eauto.
  Qed.

  (* a dotted source path through a nil pointer yields nil at the target field *)
  Lemma walk_nil_pointer i r : walk ((true, i) :: r) VNil = Some None.
  Proof. reflexivity. Qed.
  Lemma eval_sel_nil_path steps src w :
    walk steps src = Some None -> w <> WNone -> eval_sel (SelPath steps w) src = Some VNil.
  Proof. intros H Hw. cbn. rewrite H. destruct w; [congruence|reflexivity|reflexivity]. Qed.
  Lemma eval_sel_whole src : eval_sel SelWhole src = Some src.
  Proof. reflexivity. Qed.
End facts.

(* ---------- update methods (C10) ---------- *)
Section update_facts.
  Variable e : env.
  Variable M : table.
  Variable F : ftable.
  Notation eval_a := (eval_a e M F).

  (* a nil source pointer leaves the target untouched *)
  Lemma eval_update_nil_source f cx a old st : eval_a (S f) cx (AIfNotNil a) VNil old st = Done (old, st).
  Proof. reflexivity. Qed.

  (* a zero-valued source under a zero guard leaves the field unchanged *)
  Lemma each_field_zero_guard ev ea name sel a fr src o orr st rs st' s st0 :
    sel_eval ev sel src st = Done (s, st0) -> is_zero s = true ->
    each_field ev ea (FAssign name sel true a :: fr) src (o :: orr) st = Done (rs, st') -> exists rs', rs = o :: rs'.
  Proof.
    intros Hs Hz. cbn [each_field]. rewrite Hs. cbn [obind andb]. rewrite Hz. cbn [obind tag].
    destruct (each_field ev ea fr src orr st0) as [[vs st2]| | | |]; cbn; try discriminate.
    intros [= <- <-]. eauto.
  Qed.

  (* without a guard the field is whatever the conversion yields *)
  Lemma each_field_unguarded ev ea name sel a fr src o orr st rs st' s st0 :
    sel_eval ev sel src st = Done (s, st0) ->
    each_field ev ea (FAssign name sel false a :: fr) src (o :: orr) st = Done (rs, st') ->
    exists v st1 rs', ea a s o st0 = Done (v, st1) /\ rs = v :: rs'.
  Proof.
    intros Hs. cbn [each_field]. rewrite Hs. cbn [obind andb].
    destruct (ea a s o st0) as [[v st1]| | | |]; cbn [obind tag]; try discriminate.
    destruct (each_field ev ea fr src orr st1) as [[vs st2]| | | |]; cbn; try discriminate.
    intros [= <- <-]. eauto.
  Qed.

  (* plain selectors (no method call) do not depend on the evaluator or the counter *)
  Lemma sel_eval_plain ev sel src st s :
    eval_sel sel src = Some s -> sel_eval ev sel src st = Done (s, st).
  Proof. destruct sel; cbn; intros H; [injection H as ->; reflexivity|rewrite H; reflexivity|discriminate]. Qed.
  (* the frame of an update: EVERY skipped position (ignored / unmapped field) of the target struct keeps its value,
     wherever it is and whatever the other fields do; the result has as many fields as the target had *)
  Lemma each_field_frame ev ea : forall fs src olds st rs st',
    each_field ev ea fs src olds st = Done (rs, st') ->
    length rs = length olds /\ forall i, nth_error fs i = Some FSkip -> nth_error rs i = nth_error olds i.
  Proof.
    induction fs as [|f fr IH]; intros src olds st rs st' H; cbn [each_field] in H.
    - destruct olds; [|discriminate]. injection H as <- _. split; [reflexivity|]. intros i Hi. destruct i; discriminate.
    - destruct olds as [|o orr]; [discriminate|].
      match type of H with obind ?X _ = _ => destruct X as [[v st1]| | | |] eqn:E1 end; cbn [obind] in H; try discriminate.
      destruct (each_field ev ea fr src orr st1) as [[vs st2]| | | |] eqn:E2; cbn [obind] in H; try discriminate.
      injection H as <- _. apply IH in E2 as [L Fr]. split; [cbn; congruence|].
      intros [|i] Hi; cbn in Hi |- *.
      + injection Hi as ->. injection E1 as <- _. reflexivity.
      + apply Fr. exact Hi.
  Qed.
  (* ... and so does every guarded position whose selected source part is the zero value *)
  Lemma each_field_frame_zero ev ea : forall fs src olds st rs st',
    each_field ev ea fs src olds st = Done (rs, st') ->
    forall i nm sel a s, nth_error fs i = Some (FAssign nm sel true a) -> eval_sel sel src = Some s -> is_zero s = true ->
      nth_error rs i = nth_error olds i.
  Proof.
    induction fs as [|f fr IH]; intros src olds st rs st' H; cbn [each_field] in H.
    - intros i nm sel a s Hi. destruct i; discriminate.
    - destruct olds as [|o orr]; [discriminate|].
      match type of H with obind ?X _ = _ => destruct X as [[v st1]| | | |] eqn:E1 end; cbn [obind] in H; try discriminate.
      destruct (each_field ev ea fr src orr st1) as [[vs st2]| | | |] eqn:E2; cbn [obind] in H; try discriminate.
      injection H as <- _. intros [|i] nm sel a s Hi Hs Hz; cbn in Hi |- *.
      + injection Hi as ->. rewrite (sel_eval_plain ev _ _ st _ Hs) in E1. cbn [obind andb] in E1. rewrite Hz in E1. cbn [tag] in E1.
        injection E1 as <- _. reflexivity.
      + eapply IH; eauto.
  Qed.
End update_facts.

(* F-C10-1 on the model: a nillable field converted through a (sub-)method call is assigned unconditionally,
   so a nil source overwrites a non-nil target although the nillable category is selected *)
Definition f_c10_1_table : table :=
  [ {| g_name := []; g_src := TPtr (TBasic 2); g_tgt := TPtr (TBasic 2); g_explicit := false; g_dirty := false; g_update := false;
       g_conf := {| m_common := {| c_WrapErrors := false; c_WrapErrorsUsing := []; c_IgnoreUnexported := false; c_IgnoreBasicZeroValueField := true;
                                    c_IgnoreStructZeroValueField := true; c_IgnoreNillableZeroValueField := true; c_MatchIgnoreCase := false;
                                    c_IgnoreMissing := false; c_SkipCopySameType := false; c_UseZeroValueOnPointerInconsistency := false;
                                    c_UseUnderlyingTypeMethods := false; c_DefaultUpdate := false; c_Enum_Enabled := true; c_Enum_Unknown := [];
                                    c_ArgContextRegex := [] |};
                    m_fields := []; m_automap := []; m_raw_field_settings := false; m_UpdateTarget := false; m_constructor := None; m_enum_map := []; m_enum_transforms := []; m_enum_excluded := [] |};
       g_origin := []; g_ctx := []; g_ret_err := false; g_body := Some (BVal (POfAssign (TPtr (TBasic 2)) (APtr PId))); g_types := [] |} ].
Lemma zero_skip_through_call_refuted :
  eval_a [] f_c10_1_table [] 5 [] (AStruct [FAssign [70] (SelPath [(false, 0)] WNone) false (ASet (PCall 0))])
         (VStruct [VNil]) (VStruct [VPtr 7 (VBasic 1)]) 10
  = Done (VStruct [VNil], 10).
Proof. vm_compute. reflexivity. Qed.
