(* Comment.v — model of config/parse/comment.go CommentToString, config/parse/line.go
   SettingLines and config/parse/parse.go Command (Go strings as rune lists). *)
From Coq Require Import List NArith Bool Lia String Ascii.
From GV Require Export Base.
From GV Require Import Extracted.
Import ListNotations.
Open Scope N_scope.

Definition NL : N := 10. Definition CR : N := 13. Definition SP : N := 32. Definition TAB : N := 9.

(* Go unicode.IsSpace *)
Definition go_is_space (c : N) : bool :=
  ((9 <=? c) && (c <=? 13)) || (c =? 32) || (c =? 133) || (c =? 160) || (c =? 5760)
  || ((8192 <=? c) && (c <=? 8202)) || (c =? 8232) || (c =? 8233) || (c =? 8239) || (c =? 8287) || (c =? 12288).
(* comment.go isWhitespace: ' ' \t \n \r *)
Definition ascii_ws (c : N) : bool := (c =? 32) || (c =? 9) || (c =? 10) || (c =? 13).

Fixpoint drop_while (p : N -> bool) (l : rstr) : rstr :=
  match l with [] => [] | c :: r => if p c then drop_while p r else l end.
Definition drop_while_end (p : N -> bool) (l : rstr) : rstr := rev (drop_while p (rev l)).
Definition trim_space (l : rstr) : rstr := drop_while_end go_is_space (drop_while go_is_space l).
Definition strip_trailing (l : rstr) : rstr := drop_while_end ascii_ws l.

(* strings.Split(s, "\n") : never empty *)
Fixpoint split_nl_aux (cur : rstr) (l : rstr) : list rstr :=
  match l with
  | [] => [rev cur]
  | c :: r => if c =? NL then rev cur :: split_nl_aux [] r else split_nl_aux (c :: cur) r
  end.
Definition split_nl (l : rstr) : list rstr := split_nl_aux [] l.

Fixpoint join_nl (ls : list rstr) : rstr :=
  match ls with [] => [] | [l] => l | l :: r => l ++ NL :: join_nl r end.

Inductive comment := LineC (body : rstr) | BlockC (body : rstr).

Definition comment_lines (c : comment) : list rstr :=
  match c with
  | LineC [] => [[]]
  | LineC (c0 :: r) => if c0 =? SP then map strip_trailing (split_nl r)
                       else map strip_trailing (split_nl (c0 :: r))
  | BlockC b => map strip_trailing (split_nl b)
  end.

Definition is_empty (l : rstr) : bool := match l with [] => true | _ => false end.

(* the in-place compaction loop: keep line if non-empty or previous kept line non-empty (and n>0) *)
Fixpoint compact (prev_nonempty : bool) (ls : list rstr) : list rstr :=
  match ls with
  | [] => []
  | l :: r => if negb (is_empty l) then l :: compact true r
              else if prev_nonempty then l :: compact false r
              else compact false r
  end.

Definition comment_to_string (g : list comment) : rstr :=
  let lines := compact false (flat_map comment_lines g) in
  let lines' := match rev lines with
                | [] => lines
                | last :: _ => if negb (is_empty last) then lines ++ [[]] else lines
                end in
  join_nl lines'.

Fixpoint strip_prefix (p l : rstr) : option rstr :=
  match p, l with
  | [], _ => Some l
  | a :: p', b :: l' => if a =? b then strip_prefix p' l' else None
  | _, [] => None
  end.

(* parse.Prefix + parse.Delimiter, read from the Go source by the extractor *)
Definition prefix : rstr := x_prefix ++ x_delimiter.

Fixpoint filter_map {A B} (f : A -> option B) (l : list A) : list B :=
  match l with [] => [] | a :: r => match f a with Some b => b :: filter_map f r | None => filter_map f r end end.

(* SettingLines: strings.Split(comment, "\n"), TrimSpace, HasPrefix/TrimPrefix *)
Definition setting_lines (s : rstr) : list rstr :=
  filter_map (fun l => strip_prefix prefix (trim_space l)) (split_nl s).

(* specification side *)
Definition logical_lines (g : list comment) : list rstr :=
  flat_map (fun c => match c with LineC b => [b] | BlockC b => split_nl b end) g.
Definition spec (g : list comment) : list rstr :=
  filter_map (fun l => strip_prefix prefix (trim_space l)) (logical_lines g).


(* parse.Command: strings.SplitN(value, " ", 2) *)
Fixpoint break_sp (l : rstr) : rstr * option rstr :=
  match l with
  | [] => ([], None)
  | c :: r => if c =? SP then ([], Some r)
              else let '(a, b) := break_sp r in (c :: a, b)
  end.
Definition command (v : rstr) : rstr * rstr :=
  match break_sp v with (a, Some b) => (a, b) | (a, None) => (a, []) end.

(* strings.Contains *)
Fixpoint is_prefix (p l : rstr) : bool :=
  match p, l with
  | [], _ => true
  | a :: p', b :: l' => (a =? b) && is_prefix p' l'
  | _, [] => false
  end.
Fixpoint contains (p l : rstr) : bool :=
  is_prefix p l || match l with [] => false | _ :: r => contains p r end.

(* n copies of c (case files use it for very long lines) *)
Definition pad (n c : N) : rstr := N.iter n (cons c) [].
