(* Ty.v — the Go type grammar goverter works on, an environment of named types, and the
   view xtype.Type gives of a type (xtype/type.go TypeOf/applyTo, asID, xtype/access.go). *)
From Coq Require Import List NArith ZArith Bool String Ascii.
From GV Require Import Base.
Import ListNotations.
Open Scope N_scope.

Inductive ty :=
| TBasic (k : N)                          (* unnamed basic type, k = types.BasicKind *)
| TNamed (id : N)                         (* named type: index into the environment *)
| TPtr (t : ty)
| TSlice (t : ty)
| TArr (n : N) (t : ty)
| TMap (k v : ty)
| TStruct (pkg : N) (fs : list (rstr * ty))   (* unnamed struct declared in package pkg *)
| TOther (kind : N) (id : N).             (* 0 interface, 1 signature (func type), 2 chan; id = identity *)

Definition K_IFACE : N := 0. Definition K_SIG : N := 1. Definition K_CHAN : N := 2.

(* types.BasicKind codes used by the harness *)
Definition BK_BOOL : N := 1. Definition BK_INT : N := 2. Definition BK_INT64 : N := 6.
Definition BK_STRING : N := 17. Definition BK_UNSAFEPTR : N := 18.

Record ndecl := {
  n_pkg : N;                (* package id; 0 = universe (no package, e.g. the built-in error) *)
  n_pkgname : rstr;         (* package name (for identifiers) *)
  n_name : rstr;
  n_under : ty;             (* underlying type: never TNamed *)
  n_enum : bool;            (* enum.Detect succeeds: named basic with a constant in its package *)
  n_methods : list (rstr * ty);  (* method name, result type of argument-less methods usable as sources *)
  n_consts : list (rstr * Z)     (* constants of this type declared in its package: name, value token *)
}.
Definition env := list ndecl.

Definition lookup (e : env) (id : N) : option ndecl := nth_error e (N.to_nat id).

(* ---- structural equality = identity of types (types.Type.String() equality) ---- *)
Fixpoint ty_eqb (a b : ty) {struct a} : bool :=
  match a, b with
  | TBasic k, TBasic k' => k =? k'
  | TNamed i, TNamed j => i =? j
  | TPtr x, TPtr y => ty_eqb x y
  | TSlice x, TSlice y => ty_eqb x y
  | TArr n x, TArr m y => (n =? m) && ty_eqb x y
  | TMap k v, TMap k' v' => ty_eqb k k' && ty_eqb v v'
  | TStruct p fs, TStruct q gs =>
      (p =? q) &&
      (fix go (l : list (rstr * ty)) (m : list (rstr * ty)) {struct l} : bool :=
         match l, m with
         | [], [] => true
         | (n1, t1) :: l', (n2, t2) :: m' => rstr_eqb n1 n2 && ty_eqb t1 t2 && go l' m'
         | _, _ => false
         end) fs gs
  | TOther k i, TOther k' j => (k =? k') && (i =? j)
  | _, _ => false
  end.

(* ---- the xtype.Type view: flags of a type, looking through one name ---- *)
Definition under (e : env) (t : ty) : ty :=
  match t with
  | TNamed id => match lookup e id with Some d => n_under d | None => TOther 99 id end
  | _ => t
  end.

Definition f_Named (e : env) (t : ty) : bool := match t with TNamed _ => true | _ => false end.
Definition f_Basic (e : env) (t : ty) : bool := match under e t with TBasic _ => true | _ => false end.
Definition f_Pointer (e : env) (t : ty) : bool := match under e t with TPtr _ => true | _ => false end.
Definition f_Struct (e : env) (t : ty) : bool := match under e t with TStruct _ _ => true | _ => false end.
Definition f_List (e : env) (t : ty) : bool := match under e t with TSlice _ | TArr _ _ => true | _ => false end.
Definition f_ListFixed (e : env) (t : ty) : bool := match under e t with TArr _ _ => true | _ => false end.
Definition f_Map (e : env) (t : ty) : bool := match under e t with TMap _ _ => true | _ => false end.
Definition f_Interface (e : env) (t : ty) : bool := match under e t with TOther 0 _ => true | _ => false end.
Definition f_Signature (e : env) (t : ty) : bool := match under e t with TOther 1 _ => true | _ => false end.
Definition f_Chan (e : env) (t : ty) : bool := match under e t with TOther 2 _ => true | _ => false end.
(* Func is only set by Type.inStruct for methods / func-typed fields of named structs; never on a
   type reached through source/target themselves *)
Definition f_Func (e : env) (t : ty) : bool := false.

Definition f_PointerInner (e : env) (t : ty) : ty := match under e t with TPtr x => x | _ => t end.
Definition f_ListInner (e : env) (t : ty) : ty := match under e t with TSlice x | TArr _ x => x | _ => t end.
Definition f_MapKey (e : env) (t : ty) : ty := match under e t with TMap k _ => k | _ => t end.
Definition f_MapValue (e : env) (t : ty) : ty := match under e t with TMap _ v => v | _ => t end.
Definition f_BasicType (e : env) (t : ty) : ty := t.
Definition f_String (e : env) (t : ty) : ty := t.
Definition f_T (e : env) (t : ty) : ty := t.
Definition m_Kind (e : env) (t : ty) : N := match under e t with TBasic k => k | _ => 0 end.
Definition struct_fields (e : env) (t : ty) : list (rstr * ty) := match under e t with TStruct _ fs => fs | _ => [] end.
Definition struct_pkg (e : env) (t : ty) : N :=
  match t with
  | TNamed id => match lookup e id with Some d => n_pkg d | None => 0 end
  | TStruct p _ => p
  | _ => 0
  end.

(* overloaded equality used by extracted predicates *)
Class Eqv (A : Type) := eqv : A -> A -> bool.
#[global] Instance eqv_bool : Eqv bool := Bool.eqb.
#[global] Instance eqv_N : Eqv N := N.eqb.
#[global] Instance eqv_ty : Eqv ty := ty_eqb.
Definition ty_identical (a b : ty) : bool := ty_eqb a b.

(* ---- identifiers ---- *)
Definition is_upper (c : N) : bool := (65 <=? c) && (c <=? 90).
Definition is_lower (c : N) : bool := (97 <=? c) && (c <=? 122).
Definition exported (name : rstr) : bool := match name with c :: _ => is_upper c | [] => false end.
(* strings.Title on an identifier: upper-case the first letter (ASCII) *)
Definition title (s : rstr) : rstr := match s with c :: r => (if is_lower c then c - 32 else c) :: r | [] => [] end.

Definition basic_name (k : N) : rstr :=
  s2r (match k with
       | 1 => "bool" | 2 => "int" | 3 => "int8" | 4 => "int16" | 5 => "int32" | 6 => "int64"
       | 7 => "uint" | 8 => "uint8" | 9 => "uint16" | 10 => "uint32" | 11 => "uint64" | 12 => "uintptr"
       | 13 => "float32" | 14 => "float64" | 15 => "complex64" | 16 => "complex128" | 17 => "string"
       | 18 => "unsafe.Pointer" | _ => "invalid"
       end)%string.

(* Type.asID(seeNamed := true, escapeReserved) ; inner calls use (true, false) *)
Fixpoint as_id (e : env) (escape : bool) (t : ty) : rstr :=
  match t with
  | TNamed id =>
      match lookup e id with
      | Some d => if n_pkg d =? 0 then (if escape then s2r "x"%string ++ n_name d else n_name d)
                  else n_pkgname d ++ n_name d
      | None => s2r "unknown"%string
      end
  | TSlice x | TArr _ x => as_id e false x ++ s2r "List"%string
  | TBasic k => if escape then s2r "x"%string ++ basic_name k else basic_name k
  | TPtr x => s2r "p"%string ++ title (as_id e false x)
  | TMap k v => s2r "map"%string ++ title (as_id e false k ++ title (as_id e false v))
  | TStruct _ _ => s2r "unnamed"%string
  | TOther 2 _ => if escape then s2r "xchan"%string else s2r "chan"%string
  | TOther _ _ => s2r "unknown"%string
  end.
Definition type_id (e : env) (t : ty) : rstr := as_id e true t.
Definition unescaped_id (e : env) (t : ty) : rstr := as_id e false t.

(* xtype.Accessible for a struct field: exported, or declared in the output package *)
Definition field_accessible (name : rstr) (field_pkg out_pkg : N) : bool := exported name || (field_pkg =? out_pkg).
