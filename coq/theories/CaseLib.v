(* CaseLib.v — how a correspondence case (one converter: declarations, settings, observed
   generation outcome, observed runs of the compiled output) is compared with the model. *)
From Coq Require Import List NArith ZArith Bool String.
From GV Require Import Base Ty Conf Extracted Comment Settings Val Plan Eval Sig SigUses Funcs Gen Emit.
Import ListNotations.
Open Scope N_scope.

Record run_obs := { r_method : N; r_src : val; r_n0 : N;
                    r_pre : option val;                 (* update methods: content of the target struct before the call *)
                    r_out : option val;                 (* None = the call panicked *)
                    r_shared : list (list pstep);       (* result positions whose address belongs to the source *)
                    r_ctx : ctxs;                       (* values passed for the context parameters, by type *)
                    r_err : option (N * list (list delem));
                    r_anyerr : bool }.    (* the source holds a map with several entries: Go visits them in random order, so which of several failing entries reports first is not determined; only the presence of an error is compared *)  (* the call returned an error: failing function, Wrap paths outermost first *)

(* a declared method as written: signature and its goverter: lines (text after the prefix) *)
Record decl_src := { ds_name : rstr; ds_src : ty; ds_tgt : ty; ds_update : bool; ds_lines : list rstr;
                     ds_ctx : list ty; ds_err : bool;       (* context parameter types; error result *)
                     ds_transforms : list (list (rstr * rstr)) }.  (* per enum:transform line: source member -> rewritten name *)

Record conv_case := { k_id : N; k_env : env; k_global : list rstr; k_lines : list rstr; k_out : N;
                      k_methods : list decl_src;
                      k_fraws : list fraw;               (* custom functions of the program, as declared *)
                      k_extend : list extspec;           (* goverter:extend arguments in order, resolved to candidates *)
                      k_fnames : list (rstr * N);        (* FUNC texts of map ... | FUNC / default FUNC lines -> function *)
                      k_smeths : list (N * rstr * N);    (* methods of named types usable as field sources *)
                      k_enum_excluded : list N;          (* named types matched by the converter's enum:exclude patterns *)
                      k_outcome : N;                     (* 0 = generated, 1 = generator panicked, else diagnostic class *)
                      k_imports : option (list N);       (* packages imported by the emitted file (None: not inspected) *)
                      k_funcs : list rstr;               (* names of the emitted methods / functions *)
                      k_runs : list run_obs }.

(* where does a value contain an address of the source (below n0, or the interior alias)? not below such a node *)
Section shared.
  Variable n0 : N.
  Definition is_src_addr (a : N) : bool := (a =? ALIAS) || ((2 <=? a) && (a <? n0)).
  Fixpoint shared_paths (fuel : nat) (v : val) (path : list pstep) : list (list pstep) :=
    match fuel with
    | O => []
    | S f =>
      match v with
      | VPtr a x => if is_src_addr a then [rev path] else shared_paths f x (PDeref :: path)
      | VSlice a vs => if is_src_addr a then [rev path]
                       else (fix go (l : list val) (i : N) := match l with [] => [] | x :: r => shared_paths f x (PIdx i :: path) ++ go r (i + 1) end) vs 0
      | VArr vs => (fix go (l : list val) (i : N) := match l with [] => [] | x :: r => shared_paths f x (PIdx i :: path) ++ go r (i + 1) end) vs 0
      | VMap a kvs => if is_src_addr a then [rev path]
                      else flat_map (fun kv => shared_paths f (snd kv) (PKey (match fst kv with VBasic z => z | _ => 0%Z end) :: path)) kvs
      | VStruct fs => (fix go (l : list val) (i : N) := match l with [] => [] | x :: r => shared_paths f x (PField i :: path) ++ go r (i + 1) end) fs 0
      | _ => []
      end
    end.
End shared.

Definition EQ_FUEL_K : nat := 60.
Definition path_eqb : list pstep -> list pstep -> bool := list_eqb pstep_eqb.
Definition subset (a b : list (list pstep)) : bool := forallb (fun p => existsb (path_eqb p) b) a.
Definition paths_eq (a b : list (list pstep)) : bool := subset a b && subset b a.

(* a map built by the conversion in which two entries got the same key (a custom function on the keys that is
   not injective): Go keeps one of them, which one depends on the iteration order — such results are not compared *)
Fixpoint dup_keys (fuel : nat) (v : val) : bool :=
  match fuel with
  | O => false
  | S f =>
    match v with
    | VPtr _ x => dup_keys f x
    | VSlice _ vs | VArr vs | VStruct vs => existsb (dup_keys f) vs
    | VMap _ kvs =>
      (fix dup (l : list (val * val)) : bool :=
         match l with
         | [] => false
         | kv :: r => existsb (fun kv' => val_eqb EQ_FUEL_K (erase (fst kv)) (erase (fst kv'))) r || dup r
         end) kvs
      || existsb (fun kv => dup_keys f (snd kv)) kvs
    | _ => false
    end
  end.

Definition RUN_FUEL : nat := 400.
Definition EQ_FUEL : nat := 200.

(* failure codes: 7 import set differs; 8 set of emitted functions differs; 1 success/failure of generation differs; 6 both fail with different diagnostic classes; 2 result value differs; 3 panic-ness differs; 4 sharing differs;
   5 model out of fuel / stuck; 9 one side returned an error, the other did not; 10 the errors differ (failing function or Wrap paths) *)
Definition delem_eqb (a b : delem) : bool :=
  match a, b with DField x, DField y => rstr_eqb x y | DIndex i, DIndex j => i =? j | DKey i, DKey j => Z.eqb i j | _, _ => false end.
Definition err_matches (er : errv) (obs : N * list (list delem)) : bool :=
  (er_fn er =? fst obs) && list_eqb (list_eqb delem_eqb) (er_wraps er) (snd obs).
Definition check_err (er : errv) (r : run_obs) : list N :=
  match r_err r with Some obs => if r_anyerr r || err_matches er obs then [] else [10] | None => [9] end.

Definition check_run (e : env) (tab : table) (F : ftable) (r : run_obs) : list N :=
  match r_pre r with
  | Some old =>
    match run_update e tab F RUN_FUEL (r_method r) (r_ctx r) (r_src r) old (r_n0 r) with
    | Done (v, _) => match r_err r with Some _ => [9] | None =>
                     match r_out r with Some o => if dup_keys EQ_FUEL v || val_eqb EQ_FUEL (erase v) (erase o) then [] else [2] | None => [3] end end
    | Panicked => match r_out r, r_err r with None, None => [] | _, _ => [3] end
    | Errored er => check_err er r
    | _ => [5]
    end
  | None =>
  match Eval.run e tab F RUN_FUEL (r_method r) (r_ctx r) (r_src r) (r_n0 r) with
  | Done (v, _) =>
    match r_err r with Some _ => [9] | None =>
    match r_out r with
    | Some o => (if dup_keys EQ_FUEL v || val_eqb EQ_FUEL (erase v) (erase o) then [] else [2])
                ++ (if dup_keys EQ_FUEL v || paths_eq (shared_paths (r_n0 r) EQ_FUEL v []) (r_shared r) then [] else [4])
    | None => [3]
    end end
  | Panicked => match r_out r, r_err r with None, None => [] | _, _ => [3] end
  | Errored er => check_err er r
  | _ => [5]
  end
  end.

(* settings in effect, computed by the settings model from the raw lines.  Lines naming a custom function
   (map ... | FUNC, default FUNC) need the package loader: the case supplies FUNC text -> function, the
   signature check of method.Parse for that use is the Sig model. *)
Definition D_SIG : N := 40.
Definition resolve_fn (names : list (rstr * N)) (txt : rstr) : option N :=
  match find (fun kv => rstr_eqb (fst kv) txt) names with Some kv => Some (snd kv) | None => None end.

Section lines.
  Variable raws : list fraw.
  Variable names : list (rstr * N).
  Definition set_func (t : rstr) (f : N) (m : mstate) : mstate :=
    {| ms_common := ms_common m; ms_fields := upd_field t (fun x => {| fm_source := fm_source x; fm_ignore := fm_ignore x; fm_func := Some f |}) (ms_fields m);
       ms_automap := ms_automap m; ms_raw := ms_raw m; ms_update := ms_update m; ms_context := ms_context m |}.
  Record xstate := { x_ms : mstate; x_ctor : option N; x_emap : list (rstr * rstr); x_ntr : nat }.
  Definition with_ms (x : xstate) (m : mstate) : xstate := {| x_ms := m; x_ctor := x_ctor x; x_emap := x_emap x; x_ntr := x_ntr x |}.
  Definition valid_action (s : rstr) : bool := is s "@panic" || is s "@error" || is s "@ignore".
  Definition method_line_f (x : xstate) (line : rstr) : res xstate :=
    let m := x_ms x in
    let '(cmd, rest) := command line in
    if is cmd "map" then
      let '(lhs, custom) := break_bar rest in
      match custom with
      | Some cs =>
        match fields cs with
        | [fname] =>
          match resolve_fn names fname with
          | Some f => if negb (fn_valid raws opts_map_func f) then Diag D_SIG
                      else do m' <- method_line m (s2r "map "%string ++ lhs);
                           match rev (fields lhs) with
                           | t :: _ => Ok (with_ms x (set_func t f m'))
                           | [] => Diag D_BAD_VALUE
                           end
          | None => Diag D_FUNC_REF
          end
        | _ => do m' <- method_line m line; Ok (with_ms x m')
        end
      | None => do m' <- method_line m line; Ok (with_ms x m')
      end
    else if is cmd "default" then
      match fields rest with
      | [fname] => match resolve_fn names fname with
                   | Some f => if fn_valid raws opts_default f then Ok {| x_ms := m; x_ctor := Some f; x_emap := x_emap x; x_ntr := x_ntr x |} else Diag D_SIG
                   | None => Diag D_FUNC_REF
                   end
      | _ => Diag D_FUNC_REF
      end
    else if is cmd "enum:map" then
      match fields rest with
      | [a; b] => if Gen.is_action b && negb (valid_action b) then Diag D_BAD_VALUE
                  else Ok {| x_ms := m; x_ctor := x_ctor x; x_emap := x_emap x ++ [(a, b)]; x_ntr := x_ntr x |}
      | _ => Diag D_BAD_VALUE
      end
    else if is cmd "enum:transform" then
      match fields rest with
      | name :: _ => if is name "regex" then Ok {| x_ms := m; x_ctor := x_ctor x; x_emap := x_emap x; x_ntr := S (x_ntr x) |} else Diag D_BAD_VALUE
      | [] => Diag D_BAD_VALUE
      end
    else do m' <- method_line m line; Ok (with_ms x m').

  Definition method_state_f (cc : smap) (lines : list rstr) : res xstate :=
    fold_res method_line_f lines
      {| x_ms := {| ms_common := cc; ms_fields := []; ms_automap := []; ms_raw := false; ms_update := []; ms_context := [] |};
         x_ctor := None; x_emap := []; x_ntr := 0 |}.

  Variable excluded : list N.
  Fixpoint decl_methods (cc : smap) (ms : list decl_src) : res (list decl_method) :=
    match ms with
    | [] => Ok []
    | m :: r => do sc <- method_state_f cc (ds_lines m);
                do rest <- decl_methods cc r;
                let c0 := mconf_of (x_ms sc) (ds_update m) in
                Ok ({| dm_name := ds_name m; dm_src := ds_src m; dm_tgt := ds_tgt m; dm_update := ds_update m;
                       dm_conf := {| m_common := m_common c0; m_fields := m_fields c0; m_automap := m_automap c0;
                                     m_raw_field_settings := m_raw_field_settings c0; m_UpdateTarget := m_UpdateTarget c0;
                                     m_constructor := x_ctor sc; m_enum_map := x_emap sc;
                                     m_enum_transforms := firstn (x_ntr sc) (ds_transforms m);
                                     m_enum_excluded := excluded |};
                       dm_ctx := ds_ctx m; dm_err := ds_err m |} :: rest)
    end.
End lines.

Definition case_ftable (c : conv_case) : ftable := map fdecl_of (k_fraws c).

Definition case_generate (c : conv_case) : gres table :=
  match converter_smap (k_global c) (k_lines c) with
  | Ok cc =>
    match resolve_ext (k_fraws c) (k_extend c) with
    | None => GDiag D_SIG
    | Some exts =>
      match decl_methods (k_fraws c) (k_fnames c) (k_enum_excluded c) cc (k_methods c) with
      | Ok ms => generate (k_env c) (common_of cc) (k_out c) (k_enum_excluded c) (case_ftable c) (ext_index (case_ftable c) exts) (k_smeths c) ms
      | Diag cl => GDiag cl
      | Panic s => GPanic s
      end
    end
  | Diag cl => GDiag cl
  | Panic s => GPanic s
  end.

Definition check_case (c : conv_case) : list N :=
  match case_generate c with
  | GOk tab => if k_outcome c =? 0
               then flat_map (check_run (k_env c) tab (case_ftable c)) (k_runs c)
                    (* 11: no record of the converter has skipCopySameType, yet a method body is not share-free: the
                       hypothesis of the deep-copy theorem (C04_no_shared_address) would not hold for this table *)
                    ++ (if existsb (fun m => c_SkipCopySameType (m_common (g_conf m))) tab || sf_tableb tab then [] else [11])
                    ++ match k_imports c with
                       | Some obs => (if same_set_N (imports (k_env c) (k_out c) tab) obs then [] else [7])
                                     ++ (if same_set_str (function_names tab) (k_funcs c) then [] else [8])
                       | None => []
                       end
               else [1]
  | GDiag cl => if cl =? k_outcome c then [] else if k_outcome c =? 0 then [1] else [6]
  | GPanic _ => if k_outcome c =? 1 then [] else [1]
  | GFuel => [5]
  end.

Definition failing (cs : list conv_case) : list (N * list N) :=
  filter (fun x => match snd x with [] => false | _ => true end) (map (fun c => (k_id c, check_case c)) cs).
