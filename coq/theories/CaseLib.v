(* CaseLib.v — how a correspondence case (one converter: declarations, settings, observed
   generation outcome, observed runs of the compiled output) is compared with the model. *)
From Coq Require Import List NArith ZArith Bool.
From GV Require Import Base Ty Conf Extracted Comment Settings Val Plan Eval Gen Emit.
Import ListNotations.
Open Scope N_scope.

Record run_obs := { r_method : N; r_src : val; r_n0 : N;
                    r_pre : option val;                 (* update methods: content of the target struct before the call *)
                    r_out : option val;                 (* None = the call panicked *)
                    r_shared : list (list pstep) }.     (* result positions whose address belongs to the source *)

(* a declared method as written: signature and its goverter: lines (text after the prefix) *)
Record decl_src := { ds_name : rstr; ds_src : ty; ds_tgt : ty; ds_update : bool; ds_lines : list rstr }.

Record conv_case := { k_id : N; k_env : env; k_global : list rstr; k_lines : list rstr; k_out : N;
                      k_methods : list decl_src;
                      k_outcome : N;                     (* 0 = generated, 1 = generator panicked, else diagnostic class *)
                      k_imports : option (list N);       (* packages imported by the emitted file (None: not inspected) *)
                      k_funcs : list rstr;               (* names of the emitted methods / functions *)
                      k_runs : list run_obs }.

(* where does a value contain an address of the source (below n0, or the interior alias)? not below such a node *)
Section shared.
  Variable n0 : N.
  Definition is_src_addr (a : N) : bool := (a =? ALIAS) || ((2 <=? a) && (a <? n0)).
  Fixpoint shared_paths (fuel : nat) (v : val) (path : list pstep) : list (list pstep) :=
    match fuel with
    | O => []
    | S f =>
      match v with
      | VPtr a x => if is_src_addr a then [rev path] else shared_paths f x (PDeref :: path)
      | VSlice a vs => if is_src_addr a then [rev path]
                       else (fix go (l : list val) (i : N) := match l with [] => [] | x :: r => shared_paths f x (PIdx i :: path) ++ go r (i + 1) end) vs 0
      | VArr vs => (fix go (l : list val) (i : N) := match l with [] => [] | x :: r => shared_paths f x (PIdx i :: path) ++ go r (i + 1) end) vs 0
      | VMap a kvs => if is_src_addr a then [rev path]
                      else flat_map (fun kv => shared_paths f (snd kv) (PKey (match fst kv with VBasic z => z | _ => 0%Z end) :: path)) kvs
      | VStruct fs => (fix go (l : list val) (i : N) := match l with [] => [] | x :: r => shared_paths f x (PField i :: path) ++ go r (i + 1) end) fs 0
      | _ => []
      end
    end.
End shared.

Definition path_eqb : list pstep -> list pstep -> bool := list_eqb pstep_eqb.
Definition subset (a b : list (list pstep)) : bool := forallb (fun p => existsb (path_eqb p) b) a.
Definition paths_eq (a b : list (list pstep)) : bool := subset a b && subset b a.

Definition RUN_FUEL : nat := 400.
Definition EQ_FUEL : nat := 200.

(* failure codes: 7 import set differs; 8 set of emitted functions differs; 1 success/failure of generation differs; 6 both fail with different diagnostic classes; 2 result value differs; 3 panic-ness differs; 4 sharing differs;
   5 model out of fuel / stuck *)
Definition check_run (e : env) (tab : table) (r : run_obs) : list N :=
  match r_pre r with
  | Some old =>
    match run_update e tab RUN_FUEL (r_method r) (r_src r) old (r_n0 r) with
    | Done (v, _) => match r_out r with Some o => if val_eqb EQ_FUEL (erase v) (erase o) then [] else [2] | None => [3] end
    | Panicked => match r_out r with None => [] | Some _ => [3] end
    | _ => [5]
    end
  | None =>
  match run e tab RUN_FUEL (r_method r) (r_src r) (r_n0 r) with
  | Done (v, _) =>
    match r_out r with
    | Some o => (if val_eqb EQ_FUEL (erase v) (erase o) then [] else [2])
                ++ (if paths_eq (shared_paths (r_n0 r) EQ_FUEL v []) (r_shared r) then [] else [4])
    | None => [3]
    end
  | Panicked => match r_out r with None => [] | Some _ => [3] end
  | _ => [5]
  end
  end.

(* settings in effect, computed by the settings model from the raw lines *)
Fixpoint decl_methods (cc : smap) (ms : list decl_src) : res (list decl_method) :=
  match ms with
  | [] => Ok []
  | m :: r => do st <- method_state cc (ds_lines m);
              do rest <- decl_methods cc r;
              Ok ({| dm_name := ds_name m; dm_src := ds_src m; dm_tgt := ds_tgt m; dm_update := ds_update m;
                     dm_conf := mconf_of st (ds_update m) |} :: rest)
  end.

Definition case_generate (c : conv_case) : gres table :=
  match converter_smap (k_global c) (k_lines c) with
  | Ok cc => match decl_methods cc (k_methods c) with
             | Ok ms => generate (k_env c) (common_of cc) (k_out c) ms
             | Diag cl => GDiag cl
             | Panic s => GPanic s
             end
  | Diag cl => GDiag cl
  | Panic s => GPanic s
  end.

Definition check_case (c : conv_case) : list N :=
  match case_generate c with
  | GOk tab => if k_outcome c =? 0
               then flat_map (check_run (k_env c) tab) (k_runs c)
                    ++ match k_imports c with
                       | Some obs => (if same_set_N (imports (k_env c) (k_out c) tab) obs then [] else [7])
                                     ++ (if same_set_str (function_names tab) (k_funcs c) then [] else [8])
                       | None => []
                       end
               else [1]
  | GDiag cl => if cl =? k_outcome c then [] else if k_outcome c =? 0 then [1] else [6]
  | GPanic _ => if k_outcome c =? 1 then [] else [1]
  | GFuel => [5]
  end.

Definition failing (cs : list conv_case) : list (N * list N) :=
  filter (fun x => match snd x with [] => false | _ => true end) (map (fun c => (k_id c, check_case c)) cs).
