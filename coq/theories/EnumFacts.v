(* EnumFacts.v — enum conversion (C08): the emitted switch is total on the declared source members and names
   their mapped targets; every other value follows the enum:unknown action; generation fails on the
   documented conditions. *)
From Coq Require Import List NArith ZArith Bool Lia String.
From GV Require Import Base Ty Conf Extracted Val Plan Eval EvalFacts Gen.
Import ListNotations.
Open Scope N_scope.

(* ---------------- run time ---------------- *)
Lemma enum_action_member cases d z a :
  find (fun c => Z.eqb (fst c) z) cases = Some (z, a) -> enum_action cases d z = a.
Proof. unfold enum_action. intros ->. reflexivity. Qed.
Lemma enum_action_unknown cases d z :
  (forall c, In c cases -> fst c <> z) -> enum_action cases d z = d.
Proof.
  intros H. unfold enum_action. destruct (find _ cases) as [c|] eqn:E; [|reflexivity].
  apply find_some in E as [Hin Heq]. apply Z.eqb_eq in Heq. exfalso. exact (H c Hin Heq).
Qed.

Section enum_eval.
  Variable e : env. Variable M : table. Variable F : ftable.
  (* a switch without default FUNC: var x T; switch ... *)
  Lemma eval_enum f cx t cases d z st :
    eval_v e M F (S f) cx (PEnum None t cases d) (VBasic z) st =
    match enum_action cases d z with
    | EASet v => Done (VBasic v, st)
    | EAIgnore => Done (zero e ZFUEL t, st)
    | EAPanic => Panicked
    | EAError => Errored {| er_fn := ENUM_ERR; er_wraps := []; er_pending := [] |}
    end.
  Proof. rewrite eval_v_S. cbn [obind]. destruct (enum_action cases d z); reflexivity. Qed.

  (* every value that is no declared member follows enum:unknown exactly *)
  Theorem unknown_value_follows_policy f cx t cases d z st :
    (forall c, In c cases -> fst c <> z) ->
    eval_v e M F (S f) cx (PEnum None t cases d) (VBasic z) st =
    match d with
    | EASet v => Done (VBasic v, st)                       (* enum:unknown KEY *)
    | EAIgnore => Done (zero e ZFUEL t, st)                (* @ignore: the zero value *)
    | EAPanic => Panicked                                  (* @panic *)
    | EAError => Errored {| er_fn := ENUM_ERR; er_wraps := []; er_pending := [] |}   (* @error *)
    end.
  Proof. intros H. rewrite eval_enum, (enum_action_unknown _ _ _ H). reflexivity. Qed.
End enum_eval.

(* ---------------- generation ---------------- *)
Section enum_gen.
  Variable e : env.

  (* caseAction without the state: what a target name means *)
  Definition action_of (tgt : list (rstr * Z)) (name : rstr) : option eaction :=
    if is_action name then
      if rstr_eqb name (s2r "@ignore"%string) then Some EAIgnore
      else if rstr_eqb name (s2r "@panic"%string) then Some EAPanic
      else if rstr_eqb name (s2r "@error"%string) then Some EAError
      else None
    else match member_value tgt name with Some v => Some (EASet v) | None => None end.

  Lemma case_action_sound ctx tgt name st a st' :
    case_action ctx tgt name st = GOk (a, st') -> action_of tgt name = Some a.
  Proof.
    unfold case_action, action_of. destruct (is_action name).
    - destruct (rstr_eqb name (s2r "@ignore")); [intros [= <- _]; reflexivity|].
      destruct (rstr_eqb name (s2r "@panic")); [intros [= <- _]; reflexivity|].
      destruct (rstr_eqb name (s2r "@error")); [|discriminate].
      unfold mbind. destruct (return_error ctx st) as [[ok st1]| | |]; try discriminate.
      destruct ok; [intros [= <- _]; reflexivity|discriminate].
    - destruct (member_value tgt name); [intros [= <- _]; reflexivity|discriminate].
  Qed.
  (* a target name that is neither an action nor a member of the target enum makes generation fail *)
  Lemma case_action_missing ctx tgt name st :
    is_action name = false -> member_value tgt name = None -> case_action ctx tgt name st = GDiag D_ENUM.
  Proof. intros A B. unfold case_action. rewrite A, B. reflexivity. Qed.
  Lemma case_action_invalid_action ctx tgt name st :
    is_action name = true -> action_of tgt name = None -> case_action ctx tgt name st = GDiag D_ENUM.
  Proof.
    intros A B. unfold case_action, action_of in *. rewrite A in *.
    destruct (rstr_eqb name (s2r "@ignore")); [discriminate|].
    destruct (rstr_eqb name (s2r "@panic")); [discriminate|].
    destruct (rstr_eqb name (s2r "@error")); [discriminate|]. reflexivity.
  Qed.

  Definition target_name (emap tmap : list (rstr * rstr)) (name : rstr) : rstr :=
    match map_last emap name with
    | Some x => x
    | None => match map_last tmap name with Some x => x | None => name end
    end.

  (* the loop: invariant "every value seen so far has a case" *)
  Lemma enum_cases_spec ctx tgt emap tmap : forall ms seen acc st cs st',
    enum_cases ctx tgt emap tmap ms seen acc st = GOk (cs, st') ->
    (forall v, In v (map fst seen) -> In v (map fst acc)) ->
    (forall v a, In (v, a) acc -> exists n, action_of tgt (target_name emap tmap n) = Some a) ->
    (forall n v, In (n, v) ms -> In v (map fst cs)) /\
    (forall v, In v (map fst acc) -> In v (map fst cs)) /\
    (forall v a, In (v, a) cs -> exists n, action_of tgt (target_name emap tmap n) = Some a).
  Proof.
    induction ms as [|[name v] r IH]; intros seen acc st cs st' H Hseen Hacc; cbn [enum_cases] in H.
    - injection H as <- _. repeat split.
      + intros n v [].
      + intros v Hv. rewrite map_rev. apply -> in_rev. exact Hv.
      + intros v a Hin. apply in_rev in Hin. eauto.
    - unfold mbind in H. fold (target_name emap tmap name) in H.
      destruct (case_action ctx tgt (target_name emap tmap name) st) as [[act st1]| | |] eqn:CA; try discriminate.
      apply case_action_sound in CA.
      destruct (find (fun sv => Z.eqb (fst sv) v) seen) as [prev|] eqn:Fd.
      + destruct (target_mismatch tgt (snd prev) (target_name emap tmap name)); [discriminate|].
        destruct (IH _ _ _ _ _ H Hseen Hacc) as (A & B & C). repeat split; auto.
        intros n v0 [[= <- <-]|Hin]; [|eauto].
        apply B. apply Hseen. apply find_some in Fd as [Hin Heq]. apply Z.eqb_eq in Heq. subst.
        apply in_map. exact Hin.
      + assert (Hseen' : forall v0, In v0 (map fst (seen ++ [(v, target_name emap tmap name)])) -> In v0 (map fst ((v, act) :: acc))).
        { intros v0 Hv0. rewrite map_app in Hv0. apply in_app_or in Hv0 as [Hv0|[<-|[]]]; [right; auto|left; reflexivity]. }
        assert (Hacc' : forall v0 a, In (v0, a) ((v, act) :: acc) -> exists n, action_of tgt (target_name emap tmap n) = Some a).
        { intros v0 a [[= <- <-]|Hin]; eauto. }
        destruct (IH _ _ _ _ _ H Hseen' Hacc') as (A & B & C). repeat split; auto.
        * intros n v0 [[= <- <-]|Hin]; [|eauto]. apply B. left. reflexivity.
        * intros v0 Hv0. apply B. right. exact Hv0.
  Qed.

  (* C08: the switch has a case for the value of every declared source member, and every case carries the
     action / member the name-driven mapping (enum:map, else transformers, else the same name) selects *)
  Theorem enum_switch_total ctx tgt emap tmap ms st cs st' :
    enum_cases ctx tgt emap tmap ms [] [] st = GOk (cs, st') ->
    (forall n v, In (n, v) ms -> In v (map fst cs)) /\
    (forall v a, In (v, a) cs -> exists n, action_of tgt (target_name emap tmap n) = Some a).
  Proof.
    intros H. destruct (enum_cases_spec _ _ _ _ _ _ _ _ _ _ H) as (A & _ & C); [intros v []|intros v a []|]. auto.
  Qed.

  (* members with equal values must agree on their target *)
  Lemma equal_values_must_agree ctx tgt emap tmap name v r seen acc st act st1 prev :
    case_action ctx tgt (target_name emap tmap name) st = GOk (act, st1) ->
    find (fun sv => Z.eqb (fst sv) v) seen = Some prev ->
    target_mismatch tgt (snd prev) (target_name emap tmap name) = true ->
    enum_cases ctx tgt emap tmap ((name, v) :: r) seen acc st = GDiag D_ENUM.
  Proof.
    intros CA Fd TM. cbn [enum_cases]. unfold mbind. fold (target_name emap tmap name). rewrite CA, Fd, TM. reflexivity.
  Qed.
  Lemma mismatch_means_different_values tgt a b va vb :
    is_action a = false -> is_action b = false -> member_value tgt a = Some va -> member_value tgt b = Some vb ->
    target_mismatch tgt a b = negb (Z.eqb va vb).
  Proof. intros A B Ha Hb. unfold target_mismatch. rewrite A, B, Ha, Hb. reflexivity. Qed.

  Variable FT : ftable.
  (* enum:unknown must be configured *)
  Lemma build_enum_needs_unknown ctx s t st tv st1 tmap cs st2 :
    target_var e FT ctx s t st = GOk (tv, st1) ->
    run_transformers (m_enum_transforms (bc_conf ctx)) (enum_consts e t) [] = Some tmap ->
    enum_cases ctx (enum_consts e t) (m_enum_map (bc_conf ctx)) tmap (sorted_members (enum_consts e s)) [] [] st1 = GOk (cs, st2) ->
    c_Enum_Unknown (m_common (bc_conf ctx)) = [] ->
    build_enum e FT ctx s t st = GDiag D_ENUM.
  Proof.
    intros TV TR EC U. unfold build_enum, mbind. rewrite TV, TR, EC, U. reflexivity.
  Qed.
  (* an enum:map key that is no member of the source enum (on the method the setting belongs to) *)
  Lemma build_enum_unknown_key ctx s t st tv st1 tmap cs st2 d st3 :
    target_var e FT ctx s t st = GOk (tv, st1) ->
    run_transformers (m_enum_transforms (bc_conf ctx)) (enum_consts e t) [] = Some tmap ->
    enum_cases ctx (enum_consts e t) (m_enum_map (bc_conf ctx)) tmap (sorted_members (enum_consts e s)) [] [] st1 = GOk (cs, st2) ->
    c_Enum_Unknown (m_common (bc_conf ctx)) <> [] ->
    case_action ctx (enum_consts e t) (c_Enum_Unknown (m_common (bc_conf ctx))) st2 = GOk (d, st3) ->
    ty_eqb (bc_ftarget ctx) t = true ->
    forallb (fun kv => match member_value (enum_consts e s) (fst kv) with Some _ => true | None => false end) (m_enum_map (bc_conf ctx)) = false ->
    build_enum e FT ctx s t st = GDiag D_ENUM.
  Proof.
    intros TV TR EC U CA O K. unfold build_enum, mbind. rewrite TV, TR, EC.
    destruct (c_Enum_Unknown (m_common (bc_conf ctx))) as [|c r] eqn:EU; [congruence|].
    rewrite CA, O, K. reflexivity.
  Qed.
  (* a transformer that maps nothing is a configuration error *)
  Lemma build_enum_empty_transformer ctx s t st tv st1 :
    target_var e FT ctx s t st = GOk (tv, st1) ->
    run_transformers (m_enum_transforms (bc_conf ctx)) (enum_consts e t) [] = None ->
    build_enum e FT ctx s t st = GDiag D_ENUM.
  Proof. intros TV TR. unfold build_enum, mbind. rewrite TV, TR. reflexivity. Qed.
End enum_gen.
