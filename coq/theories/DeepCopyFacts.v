(* DeepCopyFacts.v — C04, first sentence at full strength on the evaluator: a plan that contains no SkipCopy plan and
   no aliasing address-of ("share-free"), run against a method table whose bodies are share-free, yields a value all
   of whose addresses were allocated by this very evaluation (for an Assign: or already occurred in the previous
   content of the target).  Hence the result has no address in common with the source, whatever the source looks
   like (arbitrary internal sharing), for every plan, table, custom-function table, context and fuel.
   The identity plan passes on plain values only (basic values, struct{}: Val.plain), custom functions hand out fresh
   nodes (mark_fresh). *)
From Coq Require Import List NArith ZArith Bool Lia.
From GV Require Import Base Ty Conf Val Plan Eval EvalFacts AllocFacts FreshFacts.
Import ListNotations.
Open Scope N_scope.

Definition sf_table (M : table) : Prop :=
  forall m mt p wr, nth_error M m = Some mt -> body_plan mt = Some (p, wr) -> sf_v p = true.

Lemma sf_tableb_sound M : sf_tableb M = true -> sf_table M.
Proof.
  unfold sf_tableb, sf_table. intros H m mt p wr Hn Hb. rewrite forallb_forall in H.
  specialize (H mt (nth_error_In _ _ Hn)). unfold body_plan in Hb. unfold sf_body in H.
  destruct (g_body mt) as [[q|a|q]|]; try discriminate; injection Hb as <- _; exact H.
Qed.

Lemma plain_no_addrs v : plain v = true -> addrs v = [].
Proof. destruct v as [z| |a x|a vs|vs|a kvs|fs|i]; cbn; try discriminate; try reflexivity. destruct fs; [reflexivity|discriminate]. Qed.

Section deep.
  Variable e : env.
  Variable M : table.
  Variable F : ftable.
  Hypothesis HM : sf_table M.

  Definition deep_v (ev : vplan -> val -> N -> outcome (val * N)) : Prop :=
    forall p src st v st', sf_v p = true -> ev p src st = Done (v, st') ->
      st <= st' /\ forall a, In a (addrs v) -> st <= a < st'.
  Definition deep_a (ea : aplan -> val -> val -> N -> outcome (val * N)) : Prop :=
    forall a0 src old st v st', sf_a a0 = true -> ea a0 src old st = Done (v, st') ->
      st <= st' /\ forall a, In a (addrs v) -> In a (addrs old) \/ st <= a < st'.

  Lemma each_assign_deep ea : deep_a ea -> forall a0, sf_a a0 = true ->
    forall srcs i olds st rs st', each_assign ea i a0 srcs olds st = Done (rs, st') ->
      st <= st' /\ forall a, In a (flat_map addrs rs) -> In a (flat_map addrs olds) \/ st <= a < st'.
  Proof.
    intros Hf a0 Hs srcs. induction srcs as [|s sr IH]; intros i olds st rs st' H; cbn [each_assign] in H.
    - injection H as <- <-. split; [lia|]. intros a Ha. left. exact Ha.
    - destruct olds as [|o orr].
      + destruct (touches a0 s); [exfalso; eapply store_into_nil_not_done; exact H|]. apply IH in H as [Hm Hr]. split; [exact Hm|exact Hr].
      + destruct (ea a0 s o st) as [[v st1]| | | |] eqn:E1; cbn [tag obind] in H; try discriminate.
        destruct (each_assign ea (i + 1) a0 sr orr st1) as [[vs st2]| | | |] eqn:E2; cbn [obind] in H; try discriminate.
        injection H as <- <-. apply (Hf _ _ _ _ _ _ Hs) in E1 as [M1 F1]. apply IH in E2 as [M2 F2]. split; [lia|].
        intros a Ha. cbn [flat_map] in Ha |- *. apply in_app_or in Ha as [Ha|Ha].
        * destruct (F1 a Ha) as [X|X]; [left; apply in_or_app; left; exact X|right; lia].
        * destruct (F2 a Ha) as [X|X]; [left; apply in_or_app; right; exact X|right; lia].
  Qed.

  Lemma each_entry_deep ev : deep_v ev -> forall k v, sf_v k = true -> sf_v v = true ->
    forall kvs st rs st', each_entry ev k v kvs st = Done (rs, st') ->
      st <= st' /\ forall a, In a (flat_map kv_addrs rs) -> st <= a < st'.
  Proof.
    intros Hf k v Hk Hv kvs. induction kvs as [|[k0 v0] r IH]; intros st rs st' H; cbn [each_entry] in H.
    - injection H as <- <-. split; [lia|intros a []].
    - destruct (ev k k0 st) as [[k1 st1]| | | |] eqn:E1; cbn [tag obind] in H; try discriminate.
      destruct (ev v v0 st1) as [[v1 st2]| | | |] eqn:E2; cbn [tag obind] in H; try discriminate.
      destruct (each_entry ev k v r st2) as [[rs' st3]| | | |] eqn:E3; cbn [obind] in H; try discriminate.
      injection H as <- <-. apply (Hf _ _ _ _ _ Hk) in E1 as [M1 F1]. apply (Hf _ _ _ _ _ Hv) in E2 as [M2 F2].
      apply IH in E3 as [M3 F3]. split; [lia|].
      intros a Ha. cbn [flat_map] in Ha. unfold kv_addrs at 1 in Ha. cbn [fst snd] in Ha.
      apply in_app_or in Ha as [Ha|Ha]; [apply in_app_or in Ha as [Ha|Ha]|].
      + specialize (F1 a Ha). lia.
      + specialize (F2 a Ha). lia.
      + specialize (F3 a Ha). lia.
  Qed.

  Lemma each_field_deep ev ea : fresh_v ev -> deep_v ev -> deep_a ea ->
    forall fs, forallb (fun f => match f with
                                 | FSkip => true
                                 | FAssign _ _ _ a' => sf_a a'
                                 | FCall _ _ _ v => sf_v v
                                 end) fs = true ->
    forall src olds st rs st', each_field ev ea fs src olds st = Done (rs, st') ->
      st <= st' /\ forall a, In a (flat_map addrs rs) -> In a (flat_map addrs olds) \/ st <= a < st'.
  Proof.
    intros Hfr Hv Ha fs. induction fs as [|f fr IH]; intros Hs src olds st rs st' H; cbn [each_field] in H.
    - destruct olds; [|discriminate]. injection H as <- <-. split; [lia|intros a []].
    - destruct olds as [|o orr]; [discriminate|].
      cbn [forallb] in Hs. apply andb_prop in Hs as [Hs1 Hs2].
      match type of H with obind ?X _ = _ => destruct X as [[v st1]| | | |] eqn:E1 end; cbn [obind] in H; try discriminate.
      destruct (each_field ev ea fr src orr st1) as [[vs st2]| | | |] eqn:E2; cbn [obind] in H; try discriminate.
      injection H as <- <-. apply (IH Hs2) in E2 as [M2 F2].
      assert (X1 : st <= st1 /\ forall a, In a (addrs v) -> In a (addrs o) \/ st <= a < st1).
      { destruct f as [|nm sel g a0|nm osel g p].
        - injection E1 as <- <-. split; [lia|]. intros a Hx. auto.
        - apply tag_done in E1. destruct (sel_eval ev sel src st) as [[s st0]| | | |] eqn:Es; cbn [obind] in E1; try discriminate.
          apply (sel_eval_fresh _ Hfr) in Es as [Ms _]. destruct (g && is_zero s).
          + injection E1 as <- <-. split; [lia|]. intros a Hx. auto.
          + apply (Ha _ _ _ _ _ _ Hs1) in E1 as [M1 F1]. split; [lia|]. intros a Hx. destruct (F1 a Hx) as [Y|Y]; auto. right. lia.
        - destruct osel as [sl|].
          + apply tag_done in E1. destruct (sel_eval ev sl src st) as [[s st0]| | | |] eqn:Es; cbn [obind] in E1; try discriminate.
            apply (sel_eval_fresh _ Hfr) in Es as [Ms _]. destruct (g && is_zero s).
            * injection E1 as <- <-. split; [lia|]. intros a Hx. auto.
            * apply (Hv _ _ _ _ _ Hs1) in E1 as [M1 F1]. split; [lia|]. intros a Hx. specialize (F1 a Hx). right. lia.
          + apply tag_done in E1. apply (Hv _ _ _ _ _ Hs1) in E1 as [M1 F1]. split; [lia|]. intros a Hx. right. apply F1. exact Hx. }
      destruct X1 as [M1 F1]. split; [lia|]. intros a Hx. cbn [flat_map] in Hx |- *. apply in_app_or in Hx as [Hx|Hx].
      + destruct (F1 a Hx) as [Y|Y]; [left; apply in_or_app; left; exact Y|right; lia].
      + destruct (F2 a Hx) as [Y|Y]; [left; apply in_or_app; right; exact Y|right; lia].
  Qed.

  Opaque zero mark ZFUEL.
  Lemma deep_step_v f : (forall cx, deep_v (eval_v e M F f cx)) -> (forall cx, deep_a (eval_a e M F f cx)) ->
    forall cx, deep_v (eval_v e M F (S f) cx).
  Proof.
    intros IHv IHa cx.
    intros p src st v st' Hs H. rewrite eval_v_S in H.
    destruct p as [| |al q|m|c args fl|t a0|ini tp a0|el a0|ini t cases dflt]; cbn [sf_v] in Hs.
    - destruct (plain src) eqn:Ep; [|discriminate]. injection H as <- <-. split; [lia|].
      rewrite (plain_no_addrs _ Ep). intros a [].
    - discriminate.
    - apply andb_prop in Hs as [Hal Hq]. destruct al; [discriminate|].
      destruct (eval_v e M F f cx q src st) as [[r st1]| | | |] eqn:E; cbn [obind] in H; try discriminate.
      apply (IHv _ _ _ _ _ _ Hq) in E as [M1 F1]. injection H as <- <-.
      split; [lia|]. intros a [<-|Ha]; [lia|]. specialize (F1 a Ha). lia.
    - destruct (nth_error M (N.to_nat m)) as [mt|] eqn:En; [|discriminate].
      destruct (body_plan mt) as [[p' wr]|] eqn:Eb; try discriminate.
      destruct (eval_v e M F f [] p' src st) as [[r st1]| | | |] eqn:E; try discriminate.
      injection H as <- <-. eapply IHv; [|exact E]. eapply HM; eauto.
    - destruct (negb (args_ok cx args)); [discriminate|]. cbv zeta in H. destruct c as [fi|m].
      + destruct (nth_error F (N.to_nat fi)) as [fd|]; [|discriminate].
        destruct (fd_err fd && _); [discriminate|].
        destruct (mark e 60 _ _ st) as [[v1 st1] ok] eqn:E. apply mark_fresh in E as [M1 F1].
        injection H as <- <-. split; [exact M1|exact F1].
      + destruct (nth_error M (N.to_nat m)) as [mt|] eqn:En; [|discriminate].
        destruct (body_plan mt) as [[p' wr]|] eqn:Eb; try discriminate.
        match type of H with match ?X with _ => _ end = _ => destruct X as [[r st1]| | | |] eqn:E end; try discriminate.
        injection H as <- <-. eapply IHv; [|exact E]. eapply HM; eauto.
    - apply (IHa _ _ _ _ _ _ _ Hs) in H as [M1 F1]. split; [exact M1|]. intros a Ha. destruct (F1 a Ha) as [X|X]; [|exact X].
      rewrite zero_no_addrs in X. destruct X.
    - apply andb_prop in Hs as [Hi Ha0].
      destruct (eval_v e M F f cx ini src st) as [[v0 st1]| | | |] eqn:E; cbn [obind] in H; try discriminate.
      apply (IHv _ _ _ _ _ _ Hi) in E as [M0 F0]. destruct tp; apply (IHa _ _ _ _ _ _ _ Ha0) in H as [M1 F1].
      + split; [lia|]. intros a Ha. destruct (F1 a Ha) as [X|X]; [|lia].
        cbn [addrs] in X. destruct X as [<-|X]; [lia|]. specialize (F0 a X). lia.
      + split; [lia|]. intros a Ha. destruct (F1 a Ha) as [X|X]; [|lia]. specialize (F0 a X). lia.
    - destruct src; try discriminate. apply (IHa _ _ _ _ _ _ _ Hs) in H as [M1 F1]. split; [lia|]. intros a Ha.
      destruct (F1 a Ha) as [X|X]; [|lia].
      cbn [addrs] in X. destruct X as [<-|X]; [lia|]. rewrite repeat_zero_addrs in X. destruct X.
    - assert (X : forall (o : outcome (val * N)),
                  (forall v0 s1, o = Done (v0, s1) -> st <= s1 /\ forall a, In a (addrs v0) -> st <= a < s1) ->
                  (let* (old, st1) := o in
                   match src with
                   | VBasic z => match enum_action cases dflt z with
                                 | EASet v1 => Done (VBasic v1, st1) | EAIgnore => Done (old, st1) | EAPanic => Panicked
                                 | EAError => Errored {| er_fn := ENUM_ERR; er_wraps := []; er_pending := [] |}
                                 end
                   | _ => Stuck
                   end) = Done (v, st') ->
                  st <= st' /\ forall a, In a (addrs v) -> st <= a < st').
      { intros o Ho Hx. destruct o as [[old st1]| | | |]; cbn [obind] in Hx; try discriminate.
        destruct (Ho _ _ eq_refl) as [M1 F1]. destruct src; try discriminate.
        destruct (enum_action cases dflt z); try discriminate; injection Hx as <- <-; (split; [exact M1|]); [intros a []|exact F1]. }
      eapply X; [|exact H]. intros v0 s1 Hd. destruct ini as [[ip tp]|].
      + destruct (eval_v e M F f cx ip src st) as [[v1 s2]| | | |] eqn:E; cbn [obind] in Hd; try discriminate.
        apply (IHv _ _ _ _ _ _ Hs) in E as [M0 F0]. destruct tp; injection Hd as <- <-.
        * split; [lia|]. intros a [<-|Ha]; [lia|]. specialize (F0 a Ha). lia.
        * split; [lia|]. exact F0.
      + apply (f_equal (fun o : outcome (val * N) => match o with Done x => x | _ => (VNil, 0) end)) in Hd. cbv beta iota in Hd.
        apply (f_equal snd) in Hd as Hs'. apply (f_equal fst) in Hd as Hv. cbn [fst snd] in Hs', Hv. subst s1 v0.
        split; [lia|]. rewrite zero_no_addrs. intros a [].
  Qed.

  Lemma deep_step_a f : (forall cx, deep_v (eval_v e M F f cx)) -> (forall cx, deep_a (eval_a e M F f cx)) ->
    forall cx, deep_a (eval_a e M F (S f) cx).
  Proof.
    intros IHv IHa cx.
    intros a0 src old st v st' Hs H. rewrite eval_a_S in H.
    destruct a0 as [q|q|q|fx el a'|k vv|fs|a'|a']; cbn [sf_a] in Hs.
    - apply (IHv _ _ _ _ _ _ Hs) in H as [M1 F1]. split; [exact M1|]. intros b Hb. right. apply F1. exact Hb.
    - destruct src; try discriminate.
      + injection H as <- <-. split; [lia|]. intros b Hb. auto.
      + destruct (eval_v e M F f cx q src st) as [[r st1]| | | |] eqn:E; cbn [obind] in H; try discriminate.
        apply (IHv _ _ _ _ _ _ Hs) in E as [M1 F1]. injection H as <- <-. split; [lia|].
        intros b [<-|Hb]; [right; lia|]. specialize (F1 b Hb). right. lia.
    - destruct src; try discriminate.
      + injection H as <- <-. split; [lia|]. intros b Hb. auto.
      + apply (IHv _ _ _ _ _ _ Hs) in H as [M1 F1]. split; [exact M1|]. intros b Hb. right. apply F1. exact Hb.
    - destruct fx.
      + destruct src; try discriminate. destruct old; try discriminate.
        * destruct (each_assign (eval_a e M F f cx) 0 a' vs [] st) as [[rs st1]| | | |] eqn:E; cbn [obind] in H; try discriminate.
          apply (each_assign_deep _ (IHa cx) _ Hs) in E as [M1 F1]. injection H as <- <-. split; [exact M1|]. intros b [].
        * destruct (each_assign (eval_a e M F f cx) 0 a' vs vs0 st) as [[rs st1]| | | |] eqn:E; cbn [obind] in H; try discriminate.
          apply (each_assign_deep _ (IHa cx) _ Hs) in E as [M1 F1]. injection H as <- <-. split; [exact M1|].
          intros b [<-|Hb]; [left; left; reflexivity|]. destruct (F1 b Hb) as [X|X]; auto. left. right. exact X.
      + destruct src; try discriminate.
        * injection H as <- <-. split; [lia|]. intros b Hb. auto.
        * destruct (each_assign _ _ _ _ _ _) as [[rs st1]| | | |] eqn:E; cbn [obind] in H; try discriminate.
          apply (each_assign_deep _ (IHa cx) _ Hs) in E as [M1 F1]. injection H as <- <-. split; [lia|].
          intros b [<-|Hb]; [right; lia|]. destruct (F1 b Hb) as [X|X].
          -- rewrite repeat_zero_addrs in X. destruct X.
          -- right. lia.
    - apply andb_prop in Hs as [Hk Hv]. destruct src; try discriminate.
      + injection H as <- <-. split; [lia|]. intros b Hb. auto.
      + destruct (each_entry _ _ _ _ _) as [[rs st1]| | | |] eqn:E; cbn [obind] in H; try discriminate.
        apply (each_entry_deep _ (IHv cx) _ _ Hk Hv) in E as [M1 F1]. injection H as <- <-. split; [lia|].
        intros b [<-|Hb]; [right; lia|]. specialize (F1 b Hb). right. lia.
    - destruct old; try discriminate.
      destruct (each_field _ _ _ _ _ _) as [[rs st1]| | | |] eqn:E; cbn [obind] in H; try discriminate.
      apply (each_field_deep _ _ (proj1 (fresh_or_source e M F f cx)) (IHv cx) (IHa cx) _ Hs) in E as [M1 F1].
      injection H as <- <-. split; [exact M1|]. exact F1.
    - destruct src; try discriminate.
      + injection H as <- <-. split; [lia|]. intros b Hb. auto.
      + apply (IHa _ _ _ _ _ _ _ Hs) in H as [M1 F1]. split; [exact M1|]. exact F1.
    - destruct old; try discriminate.
      destruct (eval_a e M F f cx a' src old st) as [[r st1]| | | |] eqn:E; cbn [obind] in H; try discriminate.
      apply (IHa _ _ _ _ _ _ _ Hs) in E as [M1 F1]. injection H as <- <-. split; [exact M1|].
      intros b [<-|Hb]; [left; left; reflexivity|]. destruct (F1 b Hb) as [X|X]; auto. left. right. exact X.
  Qed.

  Theorem deep_copy fuel : forall cx, deep_v (eval_v e M F fuel cx) /\ deep_a (eval_a e M F fuel cx).
  Proof.
    induction fuel as [|f IH]; intros cx; [split; [intros p src st v st' _ H|intros a0 src old st v st' _ H]; cbn in H; discriminate|].
    split; [apply deep_step_v|apply deep_step_a]; intros c; apply IH.
  Qed.
  Transparent zero mark ZFUEL.

  (* a declared method run on any source value: result and source have no address in common when the allocation
     counter starts above the source's addresses (which is how the harness numbers fresh addresses) *)
  Theorem run_no_shared_address fuel m cx src n0 v st' :
    run e M F fuel m cx src n0 = Done (v, st') ->
    (forall a, In a (addrs src) -> a < n0) ->
    forall a, In a (addrs v) -> ~ In a (addrs src).
  Proof.
    unfold run. intros H Hsrc a Ha Hin.
    destruct (nth_error M (N.to_nat m)) as [mt|] eqn:En; [|discriminate].
    destruct (body_plan mt) as [[p wr]|] eqn:Eb; [|discriminate].
    destruct (eval_v e M F fuel cx p src n0) as [[r st1]| | | |] eqn:E; try discriminate.
    injection H as <- <-.
    destruct (proj1 (deep_copy fuel cx) p src n0 r st1 (HM _ _ _ _ En Eb) E) as [_ Fr].
    specialize (Fr a Ha). specialize (Hsrc a Hin). lia.
  Qed.

  (* an update method: every address of the new target content was in the old one or is fresh — never the source's *)
  Theorem run_update_no_shared_address fuel m cx src old n0 v st' a0 :
    nth_error M (N.to_nat m) = Some a0 -> sf_body (g_body a0) = true ->
    run_update e M F fuel m cx src old n0 = Done (v, st') ->
    forall a, In a (addrs v) -> In a (addrs old) \/ n0 <= a < st'.
  Proof.
    unfold run_update. intros En Hb H a Ha. rewrite En in H.
    destruct (g_body a0) as [[p|u|p]|] eqn:Eb; try discriminate.
    destruct (eval_a e M F fuel cx u src old n0) as [[r st1]| | | |] eqn:E; try discriminate.
    injection H as <- <-. cbn [sf_body] in Hb.
    destruct (proj2 (deep_copy fuel cx) u src old n0 r st1 Hb E) as [_ Fr]. exact (Fr a Ha).
  Qed.
End deep.

(* non-vacuity: a share-free table, a source with internal sharing (the same pointer twice), a run that ends in Done;
   the result's addresses are all fresh (>= 10) *)
Example deep_copy_applies :
  sf_tableb f_c10_1_table = true /\
  run [] f_c10_1_table [] 6 0 [] (VPtr 7 (VBasic 5)) 10 = Done (VPtr 10 (VBasic 5), 11).
Proof. split; vm_compute; reflexivity. Qed.
(* ... and what the hypothesis excludes: the SkipCopy plan hands the source pointer itself out *)
Example share_plan_shares : eval_v [] [] [] 3 [] PShare (VPtr 7 (VBasic 5)) 10 = Done (VPtr 7 (VBasic 5), 10) /\ sf_v PShare = false.
Proof. split; reflexivity. Qed.
