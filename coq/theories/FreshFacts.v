(* FreshFacts.v — C04: every address occurring in the result of a conversion either occurs in the source value
   (or in the previous content of the target, for update methods), is the interior-pointer marker, or was
   allocated by this very evaluation.  Nothing else can be shared, and nothing of the source is written. *)
From Coq Require Import List NArith ZArith Bool Lia.
From GV Require Import Base Ty Conf Val Plan Eval EvalFacts AllocFacts.
Import ListNotations.
Open Scope N_scope.

Fixpoint addrs (v : val) : list N :=
  match v with
  | VPtr a x => a :: addrs x
  | VSlice a vs => a :: flat_map addrs vs
  | VArr vs => flat_map addrs vs
  | VMap a kvs => a :: flat_map (fun kv => addrs (fst kv) ++ addrs (snd kv)) kvs
  | VStruct fs => flat_map addrs fs
  | _ => []
  end.

Lemma flat_map_nil {A B} (f : A -> list B) l : (forall x, In x l -> f x = []) -> flat_map f l = [].
Proof.
  induction l as [|x l IH]; cbn; intros H; [reflexivity|]. rewrite (H x (or_introl eq_refl)). cbn. apply IH. intros y Hy. apply H. right. exact Hy.
Qed.

Lemma zero_no_addrs e f : forall t, addrs (zero e f t) = [].
Proof.
  induction f as [|f IH]; intros t; cbn [zero]; [reflexivity|].
  destruct (under e t) as [k|id|x|x|n x|k v|p fs|k i]; cbn [addrs]; try reflexivity.
  - apply flat_map_nil. intros v Hv. apply repeat_spec in Hv. subst. apply IH.
  - apply flat_map_nil. intros v Hv. apply in_map_iff in Hv as [nt [<- _]]. apply IH.
Qed.

Lemma in_flat_map_nth {A} (f : A -> list N) l i x a : nth_error l i = Some x -> In a (f x) -> In a (flat_map f l).
Proof. intros Hn Ha. apply in_flat_map. exists x. split; [eapply nth_error_In; exact Hn|exact Ha]. Qed.

(* selectors only hand out parts of the source (or its interior-pointer marker) *)
Lemma walk_addrs steps : forall cur v, walk steps cur = Some (Some v) -> forall a, In a (addrs v) -> In a (addrs cur).
Proof.
  induction steps as [|[d i] r IH]; intros cur v H a Ha; cbn [walk] in H.
  - injection H as <-. exact Ha.
  - destruct d.
    + destruct cur; try discriminate. destruct cur; try discriminate.
      destruct (nth_error fs (N.to_nat i)) as [f|] eqn:E; [|discriminate].
      cbn [addrs]. right. eapply in_flat_map_nth; [exact E|]. eapply IH; eauto.
    + destruct cur; try discriminate.
      destruct (nth_error fs (N.to_nat i)) as [f|] eqn:E; [|discriminate].
      cbn [addrs]. eapply in_flat_map_nth; [exact E|]. eapply IH; eauto.
Qed.
Lemma eval_sel_addrs sel src s : eval_sel sel src = Some s -> forall a, In a (addrs s) -> In a (addrs src) \/ a = ALIAS.
Proof.
  destruct sel as [|steps w|steps rd fi args fl w]; cbn [eval_sel]; intros H a Ha.
  - injection H as <-. left. exact Ha.
  - destruct (walk steps src) as [[v|]|] eqn:W; try discriminate.
    + destruct w; injection H as <-.
      * left. eapply walk_addrs; eauto.
      * left. eapply walk_addrs; eauto.
      * cbn [addrs] in Ha. destruct Ha as [<-|Ha]; [right; reflexivity|left; eapply walk_addrs; eauto].
    + destruct w; try discriminate; injection H as <-; destruct Ha.
  - discriminate.
Qed.

(* the custom-function oracle only hands out fresh nodes *)
Lemma mark_fields_fresh mk zr : (forall t, addrs (zr t) = []) ->
  (forall t st v st' ok, mk t st = (v, st', ok) -> st <= st' /\ forall a, In a (addrs v) -> st <= a < st') ->
  forall l st dn vs st' d, mark_fields mk zr l st dn = (vs, st', d) -> st <= st' /\ forall a, In a (flat_map addrs vs) -> st <= a < st'.
Proof.
  intros Hz Hm l. induction l as [|[nm ft] r IH]; intros st dn vs st' d H; cbn [mark_fields] in H.
  - injection H as <- <- _. split; [lia|intros a []].
  - destruct (mk ft st) as [[v1 st1] ok1] eqn:Em. destruct (Hm _ _ _ _ _ Em) as [M1 F1].
    destruct (mark_fields mk zr r st1 (dn || ok1)) as [[vs' st3] d3] eqn:E3. destruct (IH _ _ _ _ _ E3) as [M2 F2].
    injection H as <- <- _. split; [lia|]. intros a Ha. cbn [flat_map] in Ha. apply in_app_or in Ha as [Ha|Ha].
    + specialize (F1 a Ha). lia.
    + specialize (F2 a Ha). lia.
Qed.
Lemma triple_inv {A B C} (a a' : A) (b b' : B) (c c' : C) : (a, b, c) = (a', b', c') -> a = a' /\ b = b' /\ c = c'.
Proof. intros H. inversion H. auto. Qed.

Lemma mark_fresh e fuel : forall t tok st v st' ok, mark e fuel t tok st = (v, st', ok) ->
  st <= st' /\ forall a, In a (addrs v) -> st <= a < st'.
Proof.
  assert (Z : forall t st v st' (ok : bool), (zero e ZFUEL t, st, false) = (v, st', ok) -> st <= st' /\ forall a, In a (addrs v) -> st <= a < st').
  { intros t st v st' ok H. apply triple_inv in H as (Hv & Hs & _). subst v st'. split; [lia|]. rewrite zero_no_addrs. intros a []. }
  induction fuel as [|f IH]; intros t tok st v st' ok H.
  - eapply Z. exact H.
  - rewrite mark_S in H. destruct (under e t) as [k|id|x|x|n x|k v0|p fs|k i]; try (eapply Z; exact H).
    + apply triple_inv in H as (Hv & Hs & _). subst v st'. split; [lia|intros a []].
    + destruct (mark e f x tok st) as [[v1 st1] ok1] eqn:E. destruct (IH _ _ _ _ _ _ E) as [M1 F1].
      apply triple_inv in H as (Hv & Hs & _). subst v st'. split; [lia|]. intros a [<-|Ha]; [lia|]. specialize (F1 a Ha). lia.
    + destruct (mark e f x tok st) as [[v1 st1] ok1] eqn:E. destruct (IH _ _ _ _ _ _ E) as [M1 F1].
      apply triple_inv in H as (Hv & Hs & _). subst v st'. split; [lia|]. intros a [<-|Ha]; [lia|]. cbn [flat_map] in Ha. rewrite app_nil_r in Ha. specialize (F1 a Ha). lia.
    + destruct (mark_fields _ _ fs st false) as [[vs st1] ok1] eqn:E.
      apply mark_fields_fresh in E as [M1 F1]; [|intros t0; apply zero_no_addrs|intros t0 st0 v0 st0' ok0 H0; eapply IH; exact H0].
      apply triple_inv in H as (Hv & Hs & _). subst v st'. split; [exact M1|exact F1].
Qed.

Section fresh.
  Variable e : env.
  Variable M : table.
  Variable F : ftable.

  Definition fresh_v (ev : vplan -> val -> N -> outcome (val * N)) : Prop :=
    forall p src st v st', ev p src st = Done (v, st') ->
      st <= st' /\ forall a, In a (addrs v) -> In a (addrs src) \/ a = ALIAS \/ st <= a < st'.
  Definition fresh_a (ea : aplan -> val -> val -> N -> outcome (val * N)) : Prop :=
    forall a0 src old st v st', ea a0 src old st = Done (v, st') ->
      st <= st' /\ forall a, In a (addrs v) -> In a (addrs src) \/ In a (addrs old) \/ a = ALIAS \/ st <= a < st'.

  Lemma repeat_zero_addrs t n : flat_map addrs (repeat (zero e ZFUEL t) n) = [].
  Proof. apply flat_map_nil. intros v Hv. apply repeat_spec in Hv. subst. apply zero_no_addrs. Qed.

  Lemma each_assign_fresh ea : fresh_a ea ->
    forall a0 srcs i olds st rs st', each_assign ea i a0 srcs olds st = Done (rs, st') ->
      st <= st' /\ forall a, In a (flat_map addrs rs) -> In a (flat_map addrs srcs) \/ In a (flat_map addrs olds) \/ a = ALIAS \/ st <= a < st'.
  Proof.
    intros Hf a0 srcs. induction srcs as [|s sr IH]; intros i olds st rs st' H; cbn [each_assign] in H.
    - injection H as <- <-. split; [lia|]. intros a Ha. right. left. exact Ha.
    - destruct olds as [|o orr].
      + destruct (touches a0 s); [exfalso; eapply store_into_nil_not_done; exact H|]. apply IH in H as [Hm Hr]. split; [exact Hm|].
        intros a Ha. destruct (Hr a Ha) as [X|[X|[X|X]]]; auto.
        left. cbn [flat_map]. apply in_or_app. right. exact X.
      + destruct (ea a0 s o st) as [[v st1]| | | |] eqn:E1; cbn [tag obind] in H; try discriminate.
        destruct (each_assign ea (i + 1) a0 sr orr st1) as [[vs st2]| | | |] eqn:E2; cbn [obind] in H; try discriminate.
        injection H as <- <-. apply Hf in E1 as [M1 F1]. apply IH in E2 as [M2 F2]. split; [lia|].
        intros a Ha. cbn [flat_map] in Ha |- *. apply in_app_or in Ha as [Ha|Ha].
        * destruct (F1 a Ha) as [X|[X|[X|X]]].
          -- left. apply in_or_app. left. exact X.
          -- right. left. apply in_or_app. left. exact X.
          -- auto.
          -- right. right. right. lia.
        * destruct (F2 a Ha) as [X|[X|[X|X]]].
          -- left. apply in_or_app. right. exact X.
          -- right. left. apply in_or_app. right. exact X.
          -- auto.
          -- right. right. right. lia.
  Qed.

  Definition kv_addrs (kv : val * val) : list N := addrs (fst kv) ++ addrs (snd kv).
  Lemma each_entry_fresh ev : fresh_v ev ->
    forall k v kvs st rs st', each_entry ev k v kvs st = Done (rs, st') ->
      st <= st' /\ forall a, In a (flat_map kv_addrs rs) -> In a (flat_map kv_addrs kvs) \/ a = ALIAS \/ st <= a < st'.
  Proof.
    intros Hf k v kvs. induction kvs as [|[k0 v0] r IH]; intros st rs st' H; cbn [each_entry] in H.
    - injection H as <- <-. split; [lia|intros a []].
    - destruct (ev k k0 st) as [[k1 st1]| | | |] eqn:E1; cbn [tag obind] in H; try discriminate.
      destruct (ev v v0 st1) as [[v1 st2]| | | |] eqn:E2; cbn [tag obind] in H; try discriminate.
      destruct (each_entry ev k v r st2) as [[rs' st3]| | | |] eqn:E3; cbn [obind] in H; try discriminate.
      injection H as <- <-. apply Hf in E1 as [M1 F1]. apply Hf in E2 as [M2 F2]. apply IH in E3 as [M3 F3]. split; [lia|].
      intros a Ha. cbn [flat_map] in Ha |- *. unfold kv_addrs at 1 in Ha. cbn [fst snd] in Ha.
      apply in_app_or in Ha as [Ha|Ha]; [apply in_app_or in Ha as [Ha|Ha]|].
      + destruct (F1 a Ha) as [X|[X|X]]; [left; apply in_or_app; left; unfold kv_addrs; cbn [fst snd]; apply in_or_app; left; exact X|auto|right; right; lia].
      + destruct (F2 a Ha) as [X|[X|X]]; [left; apply in_or_app; left; unfold kv_addrs; cbn [fst snd]; apply in_or_app; right; exact X|auto|right; right; lia].
      + destruct (F3 a Ha) as [X|[X|X]]; [left; apply in_or_app; right; exact X|auto|right; right; lia].
  Qed.

  Lemma sel_eval_fresh ev : fresh_v ev -> forall sel src st s st0, sel_eval ev sel src st = Done (s, st0) ->
    st <= st0 /\ forall a, In a (addrs s) -> In a (addrs src) \/ a = ALIAS \/ st <= a < st0.
  Proof.
    intros Hf sel src st s st0 H.
    destruct sel as [|steps w|steps rd fi args fl w].
    - cbn in H. injection H as <- <-. split; [lia|]. intros a Ha. left. exact Ha.
    - cbn [sel_eval] in H. destruct (eval_sel (SelPath steps w) src) as [s'|] eqn:Es; [|discriminate].
      injection H as <- <-. split; [lia|]. intros a Ha. destruct (eval_sel_addrs _ _ _ Es a Ha); auto.
    - cbn [sel_eval] in H.
      assert (R : forall rv, match walk steps src with
                             | Some (Some v) => if rd then match v with VNil => Some None | VPtr _ x => Some (Some x) | _ => None end else Some (Some v)
                             | x => x
                             end = Some (Some rv) -> forall a, In a (addrs rv) -> In a (addrs src)).
      { intros rv Hr a Ha. destruct (walk steps src) as [[v|]|] eqn:W; try discriminate.
        destruct rd.
        - destruct v; try discriminate. injection Hr as <-. eapply walk_addrs; [exact W|]. cbn [addrs]. right. exact Ha.
        - injection Hr as <-. eapply walk_addrs; eauto. }
      match type of H with match ?X with _ => _ end = _ => destruct X as [[rv|]|] eqn:ER end; try discriminate.
      + destruct (ev (PCallX (CFn fi) args fl) rv st) as [[r st1]| | | |] eqn:E; cbn [obind] in H; try discriminate.
        apply Hf in E as [M1 F1]. specialize (R rv eq_refl).
        destruct w; injection H as <- <-.
        * split; [lia|]. intros a Ha. destruct (F1 a Ha) as [X|[X|X]]; auto.
        * split; [lia|]. intros a Ha. destruct (F1 a Ha) as [X|[X|X]]; auto.
        * split; [lia|]. intros a [<-|Ha]; [right; right; lia|]. destruct (F1 a Ha) as [X|[X|X]]; auto. right. right. lia.
      + destruct w; try discriminate; injection H as <- <-; (split; [lia|intros a []]).
  Qed.

  Lemma each_field_fresh ev ea : fresh_v ev -> fresh_a ea ->
    forall fs src olds st rs st', each_field ev ea fs src olds st = Done (rs, st') ->
      st <= st' /\ forall a, In a (flat_map addrs rs) -> In a (addrs src) \/ In a (flat_map addrs olds) \/ a = ALIAS \/ st <= a < st'.
  Proof.
    intros Hv Ha fs. induction fs as [|f fr IH]; intros src olds st rs st' H; cbn [each_field] in H.
    - destruct olds; [|discriminate]. injection H as <- <-. split; [lia|intros a []].
    - destruct olds as [|o orr]; [discriminate|].
      match type of H with obind ?X _ = _ => destruct X as [[v st1]| | | |] eqn:E1 end; cbn [obind] in H; try discriminate.
      destruct (each_field ev ea fr src orr st1) as [[vs st2]| | | |] eqn:E2; cbn [obind] in H; try discriminate.
      injection H as <- <-. apply IH in E2 as [M2 F2].
      assert (X1 : st <= st1 /\ forall a, In a (addrs v) -> In a (addrs src) \/ In a (addrs o) \/ a = ALIAS \/ st <= a < st1).
      { destruct f as [|nm sel g a0|nm osel g p].
        - injection E1 as <- <-. split; [lia|]. intros a Hx. auto.
        - apply tag_done in E1. destruct (sel_eval ev sel src st) as [[s st0]| | | |] eqn:Es; cbn [obind] in E1; try discriminate.
          apply (sel_eval_fresh _ Hv) in Es as [Ms Fs]. destruct (g && is_zero s).
          + injection E1 as <- <-. split; [lia|]. intros a Hx. auto.
          + apply Ha in E1 as [M1 F1]. split; [lia|]. intros a Hx. destruct (F1 a Hx) as [Y|[Y|[Y|Y]]]; auto.
            * destruct (Fs a Y) as [Z|[Z|Z]]; auto. right. right. right. lia.
            * right. right. right. lia.
        - destruct osel as [sl|].
          + apply tag_done in E1. destruct (sel_eval ev sl src st) as [[s st0]| | | |] eqn:Es; cbn [obind] in E1; try discriminate.
            apply (sel_eval_fresh _ Hv) in Es as [Ms Fs]. destruct (g && is_zero s).
            * injection E1 as <- <-. split; [lia|]. intros a Hx. auto.
            * apply Hv in E1 as [M1 F1]. split; [lia|]. intros a Hx. destruct (F1 a Hx) as [Y|[Y|Y]]; auto.
              -- destruct (Fs a Y) as [Z|[Z|Z]]; auto. right. right. right. lia.
              -- right. right. right. lia.
          + apply tag_done in E1. apply Hv in E1 as [M1 F1]. split; [lia|]. intros a Hx.
            destruct (F1 a Hx) as [Y|[Y|Y]]; auto. destruct Y. }
      destruct X1 as [M1 F1]. split; [lia|]. intros a Hx. cbn [flat_map] in Hx |- *. apply in_app_or in Hx as [Hx|Hx].
      + destruct (F1 a Hx) as [Y|[Y|[Y|Y]]]; auto.
        * right. left. apply in_or_app. left. exact Y.
        * right. right. right. lia.
      + destruct (F2 a Hx) as [Y|[Y|[Y|Y]]]; auto.
        * right. left. apply in_or_app. right. exact Y.
        * right. right. right. lia.
  Qed.

  (* the kernel must not unfold the (large) fuelled constants while re-checking these proofs *)
  Opaque zero mark ZFUEL.
  Lemma fresh_step_v f : (forall cx, fresh_v (eval_v e M F f cx)) -> (forall cx, fresh_a (eval_a e M F f cx)) ->
    forall cx, fresh_v (eval_v e M F (S f) cx).
  Proof.
    intros IHv IHa cx.
    intros p src st v st' H. rewrite eval_v_S in H. destruct p as [| |al q|m|c args fl|t a0|ini tp a0|el a0|ini t cases dflt].
      + destruct (plain src); [|discriminate]. injection H as <- <-. split; [lia|]. intros a Ha. auto.
      + injection H as <- <-. split; [lia|]. intros a Ha. auto.
      + destruct (eval_v e M F f cx q src st) as [[r st1]| | | |] eqn:E; cbn [obind] in H; try discriminate.
        apply IHv in E as [M1 F1]. destruct al; injection H as <- <-.
        * split; [lia|]. intros a [<-|Ha]; [auto|]. apply F1. exact Ha.
        * split; [lia|]. intros a [<-|Ha]; [right; right; lia|]. destruct (F1 a Ha) as [X|[X|X]]; auto. right. right. lia.
      + destruct (nth_error M (N.to_nat m)) as [mt|]; [|discriminate].
        destruct (body_plan mt) as [[p' wr]|]; try discriminate.
        destruct (eval_v e M F f [] p' src st) as [[r st1]| | | |] eqn:E; try discriminate.
        injection H as <- <-. apply IHv in E. exact E.
      + destruct (negb (args_ok cx args)); [discriminate|]. cbv zeta in H. destruct c as [fi|m].
        * destruct (nth_error F (N.to_nat fi)) as [fd|]; [|discriminate].
          destruct (fd_err fd && _); [discriminate|].
          destruct (mark e 60 _ _ st) as [[v1 st1] ok] eqn:E. apply mark_fresh in E as [M1 F1].
          injection H as <- <-. split; [exact M1|]. intros a Ha. right. right. apply F1. exact Ha.
        * destruct (nth_error M (N.to_nat m)) as [mt|]; [|discriminate].
          destruct (body_plan mt) as [[p' wr]|]; try discriminate.
          match type of H with match ?X with _ => _ end = _ => destruct X as [[r st1]| | | |] eqn:E end; try discriminate.
          injection H as <- <-. apply IHv in E. exact E.
      + apply IHa in H as [M1 F1]. split; [exact M1|]. intros a Ha. destruct (F1 a Ha) as [X|[X|[X|X]]]; auto.
        rewrite zero_no_addrs in X. destruct X.
      + destruct (eval_v e M F f cx ini src st) as [[v0 st1]| | | |] eqn:E; cbn [obind] in H; try discriminate.
        apply IHv in E as [M0 F0]. destruct tp; apply IHa in H as [M1 F1].
        * split; [lia|]. intros a Ha. destruct (F1 a Ha) as [X|[X|[X|X]]]; auto.
          -- cbn [addrs] in X. destruct X as [<-|X]; [right; right; lia|]. destruct (F0 a X) as [Y|[Y|Y]]; auto. right. right. lia.
          -- right. right. lia.
        * split; [lia|]. intros a Ha. destruct (F1 a Ha) as [X|[X|[X|X]]]; auto.
          -- destruct (F0 a X) as [Y|[Y|Y]]; auto. right. right. lia.
          -- right. right. lia.
      + destruct src; try discriminate. apply IHa in H as [M1 F1]. split; [lia|]. intros a Ha.
        destruct (F1 a Ha) as [X|[X|[X|X]]]; auto.
        * cbn [addrs] in X. destruct X as [<-|X]; [right; right; lia|]. rewrite repeat_zero_addrs in X. destruct X.
        * right. right. lia.
      + assert (X : forall (o : outcome (val * N)),
                    (forall v0 s1, o = Done (v0, s1) -> st <= s1 /\ forall a, In a (addrs v0) -> In a (addrs src) \/ a = ALIAS \/ st <= a < s1) ->
                    (let* (old, st1) := o in
                     match src with
                     | VBasic z => match enum_action cases dflt z with
                                   | EASet v1 => Done (VBasic v1, st1) | EAIgnore => Done (old, st1) | EAPanic => Panicked
                                   | EAError => Errored {| er_fn := ENUM_ERR; er_wraps := []; er_pending := [] |}
                                   end
                     | _ => Stuck
                     end) = Done (v, st') ->
                    st <= st' /\ forall a, In a (addrs v) -> In a (addrs src) \/ a = ALIAS \/ st <= a < st').
        { intros o Ho Hx. destruct o as [[old st1]| | | |]; cbn [obind] in Hx; try discriminate.
          destruct (Ho _ _ eq_refl) as [M1 F1]. destruct src; try discriminate.
          destruct (enum_action cases dflt z); try discriminate; injection Hx as <- <-; (split; [exact M1|]); [intros a []|exact F1]. }
        eapply X; [|exact H]. intros v0 s1 Hd. destruct ini as [[ip tp]|].
        * destruct (eval_v e M F f cx ip src st) as [[v1 s2]| | | |] eqn:E; cbn [obind] in Hd; try discriminate.
          apply IHv in E as [M0 F0]. destruct tp; injection Hd as <- <-.
          -- split; [lia|]. intros a [<-|Ha]; [right; right; lia|]. destruct (F0 a Ha) as [Y|[Y|Y]]; auto. right. right. lia.
          -- split; [lia|]. exact F0.
        * apply (f_equal (fun o : outcome (val * N) => match o with Done x => x | _ => (VNil, 0) end)) in Hd. cbv beta iota in Hd.
          apply (f_equal snd) in Hd as Hs. apply (f_equal fst) in Hd as Hv. cbn [fst snd] in Hs, Hv. subst s1 v0.
          split; [lia|]. rewrite zero_no_addrs. intros a [].
  Qed.

  Lemma fresh_step_a f : (forall cx, fresh_v (eval_v e M F f cx)) -> (forall cx, fresh_a (eval_a e M F f cx)) ->
    forall cx, fresh_a (eval_a e M F (S f) cx).
  Proof.
    intros IHv IHa cx.
    intros a0 src old st v st' H. rewrite eval_a_S in H. destruct a0 as [q|q|q|fx el a'|k vv|fs|a'|a'].
      + apply IHv in H as [M1 F1]. split; [exact M1|]. intros b Ha. destruct (F1 b Ha) as [X|[X|X]]; auto.
      + destruct src; try discriminate.
        * injection H as <- <-. split; [lia|]. intros b Ha. auto.
        * destruct (eval_v e M F f cx q src st) as [[r st1]| | | |] eqn:E; cbn [obind] in H; try discriminate.
          apply IHv in E as [M1 F1]. injection H as <- <-. split; [lia|]. intros b [<-|Ha]; [right; right; right; lia|].
          destruct (F1 b Ha) as [X|[X|X]]; auto.
          -- left. cbn [addrs]. right. exact X.
          -- right. right. right. lia.
      + destruct src; try discriminate.
        * injection H as <- <-. split; [lia|]. intros b Ha. auto.
        * apply IHv in H as [M1 F1]. split; [exact M1|]. intros b Ha. destruct (F1 b Ha) as [X|[X|X]]; auto.
          left. cbn [addrs]. right. exact X.
      + destruct fx.
        * destruct src; try discriminate. destruct old; try discriminate.
          -- destruct (each_assign (eval_a e M F f cx) 0 a' vs [] st) as [[rs st1]| | | |] eqn:E; cbn [obind] in H; try discriminate.
             apply (each_assign_fresh _ (IHa cx)) in E as [M1 F1]. injection H as <- <-. split; [exact M1|]. intros b [].
          -- destruct (each_assign (eval_a e M F f cx) 0 a' vs vs0 st) as [[rs st1]| | | |] eqn:E; cbn [obind] in H; try discriminate.
             apply (each_assign_fresh _ (IHa cx)) in E as [M1 F1]. injection H as <- <-. split; [exact M1|].
             intros b [<-|Ha]; [right; left; left; reflexivity|]. destruct (F1 b Ha) as [X|[X|[X|X]]]; auto.
             right. left. right. exact X.
        * destruct src; try discriminate.
          -- injection H as <- <-. split; [lia|]. intros b Ha. auto.
          -- destruct (each_assign _ _ _ _ _ _) as [[rs st1]| | | |] eqn:E; cbn [obind] in H; try discriminate.
             apply (each_assign_fresh _ (IHa cx)) in E as [M1 F1]. injection H as <- <-. split; [lia|].
             intros b [<-|Ha]; [right; right; right; lia|]. destruct (F1 b Ha) as [X|[X|[X|X]]]; auto.
             ++ left. cbn [addrs]. right. exact X.
             ++ rewrite repeat_zero_addrs in X. destruct X.
             ++ right. right. right. lia.
      + destruct src; try discriminate.
        * injection H as <- <-. split; [lia|]. intros b Ha. auto.
        * destruct (each_entry _ _ _ _ _) as [[rs st1]| | | |] eqn:E; cbn [obind] in H; try discriminate.
          apply (each_entry_fresh _ (IHv cx)) in E as [M1 F1]. injection H as <- <-. split; [lia|].
          intros b [<-|Ha]; [right; right; right; lia|]. destruct (F1 b Ha) as [X|[X|X]]; auto.
          -- left. cbn [addrs]. right. exact X.
          -- right. right. right. lia.
      + destruct old; try discriminate.
        destruct (each_field _ _ _ _ _ _) as [[rs st1]| | | |] eqn:E; cbn [obind] in H; try discriminate.
        apply (each_field_fresh _ _ (IHv cx) (IHa cx)) in E as [M1 F1]. injection H as <- <-. split; [exact M1|]. exact F1.
      + destruct src; try discriminate.
        * injection H as <- <-. split; [lia|]. intros b Ha. auto.
        * apply IHa in H as [M1 F1]. split; [exact M1|]. intros b Ha. destruct (F1 b Ha) as [X|[X|[X|X]]]; auto.
          left. cbn [addrs]. right. exact X.
      + destruct old; try discriminate.
        destruct (eval_a e M F f cx a' src old st) as [[r st1]| | | |] eqn:E; cbn [obind] in H; try discriminate.
        apply IHa in E as [M1 F1]. injection H as <- <-. split; [exact M1|].
        intros b [<-|Ha]; [right; left; left; reflexivity|]. destruct (F1 b Ha) as [X|[X|[X|X]]]; auto.
        right. left. right. exact X.
  Qed.

  Theorem fresh_or_source fuel : forall cx, fresh_v (eval_v e M F fuel cx) /\ fresh_a (eval_a e M F fuel cx).
  Proof.
    induction fuel as [|f IH]; intros cx; [split; [intros p src st v st' H|intros a0 src old st v st' H]; cbn in H; discriminate|].
    split; [apply fresh_step_v|apply fresh_step_a]; intros c; apply IH.
  Qed.
  Transparent zero mark ZFUEL.
End fresh.
