(* PanicFacts.v — C02 "never panic": the emitted templates can only panic in three places: the loop that fills a
   slice from a fixed array without making it (AList true: finding F-C02-1), the dereference of what a default FUNC
   returned (ADerefTgt), and an enum switch whose policy is @panic.  Plans without these never panic, on any value. *)
From Coq Require Import List NArith ZArith Bool Lia.
From GV Require Import Base Ty Conf Val Plan Eval EvalFacts.
Import ListNotations.
Open Scope N_scope.

Definition action_no_panic (a : eaction) : bool := match a with EAPanic => false | _ => true end.

Fixpoint pf_v (p : vplan) : bool :=
  match p with
  | PId | PShare | PCall _ | PCallX _ _ _ => true
  | PRef _ v => pf_v v
  | POfAssign _ a => pf_a a
  | PInit i _ a => pf_v i && pf_a a
  | PMakeList _ _ => false      (* array -> slice built up front: the inner loop is the AList true case *)
  | PEnum i _ cases d => match i with Some (ip, _) => pf_v ip | None => true end
                         && forallb (fun c => action_no_panic (snd c)) cases && action_no_panic d
  end
with pf_a (a : aplan) : bool :=
  match a with
  | ASet v | APtr v | ASrcPtr v => pf_v v
  | AList fixed _ a' => negb fixed && pf_a a'
  | AMap k v => pf_v k && pf_v v
  | AStruct fs => forallb (fun f => match f with
                                    | FSkip => true
                                    | FAssign _ _ _ a' => pf_a a'
                                    | FCall _ _ _ v => pf_v v
                                    end) fs
  | AIfNotNil a' => pf_a a'
  | ADerefTgt _ => false
  end.

Definition pf_table (M : table) : Prop :=
  forall m mt p wr, nth_error M m = Some mt -> body_plan mt = Some (p, wr) -> pf_v p = true.

Section no_panic.
  Variable e : env.
  Variable M : table.
  Variable F : ftable.
  Hypothesis HM : pf_table M.

  Definition np_v (ev : vplan -> val -> N -> outcome (val * N)) : Prop :=
    forall p src st, pf_v p = true -> ev p src st <> Panicked.
  Definition np_a (ea : aplan -> val -> val -> N -> outcome (val * N)) : Prop :=
    forall a src old st, pf_a a = true -> ea a src old st <> Panicked.

  Lemma tag_not_panicked {A} d (o : outcome A) : o <> Panicked -> tag d o <> Panicked.
  Proof. destruct o; cbn; congruence. Qed.

  Lemma each_assign_np ea a0 : (forall s o st, ea a0 s o st <> Panicked) ->
    forall srcs i olds st, length olds = length srcs -> each_assign ea i a0 srcs olds st <> Panicked.
  Proof.
    intros Hea srcs. induction srcs as [|s sr IH]; intros i olds st L; cbn [each_assign]; [discriminate|].
    destruct olds as [|o orr]; [discriminate|]. cbn in L.
    pose proof (Hea s o st) as H1. destruct (ea a0 s o st) as [[v st1]| | | |]; cbn [tag obind]; try discriminate; [|congruence].
    specialize (IH (i + 1) orr st1 (eq_add_S _ _ L)). destruct (each_assign ea (i + 1) a0 sr orr st1) as [[vs st2]| | | |]; cbn [obind]; congruence.
  Qed.

  Lemma each_entry_np ev k v : (forall s st, ev k s st <> Panicked) -> (forall s st, ev v s st <> Panicked) ->
    forall kvs st, each_entry ev k v kvs st <> Panicked.
  Proof.
    intros Hk Hv kvs. induction kvs as [|[k0 v0] r IH]; intros st; cbn [each_entry]; [discriminate|].
    pose proof (Hk k0 st) as H1. destruct (ev k k0 st) as [[k1 st1]| | | |]; cbn [tag obind]; try discriminate; [|congruence].
    pose proof (Hv v0 st1) as H2. destruct (ev v v0 st1) as [[v1 st2]| | | |]; cbn [tag obind]; try discriminate; [|congruence].
    specialize (IH st2). destruct (each_entry ev k v r st2) as [[rs st3]| | | |]; cbn [obind]; congruence.
  Qed.

  Lemma sel_eval_np ev : np_v ev -> forall sel src st, sel_eval ev sel src st <> Panicked.
  Proof.
    intros Hv sel src st. destruct sel as [|steps w|steps rd fi args fl w]; cbn [sel_eval].
    - cbn. discriminate.
    - destruct (eval_sel (SelPath steps w) src); discriminate.
    - match goal with |- match ?R with _ => _ end <> _ => destruct R as [[rv|]|] end; try discriminate.
      + pose proof (Hv (PCallX (CFn fi) args fl) rv st eq_refl) as H1.
        destruct (ev (PCallX (CFn fi) args fl) rv st) as [[r st1]| | | |]; cbn [obind]; try congruence; destruct w; discriminate.
      + destruct w; discriminate.
  Qed.

  Lemma each_field_np ev ea : np_v ev -> np_a ea ->
    forall fs src olds st,
      forallb (fun f => match f with FSkip => true | FAssign _ _ _ a' => pf_a a' | FCall _ _ _ v => pf_v v end) fs = true ->
      each_field ev ea fs src olds st <> Panicked.
  Proof.
    intros Hv Ha fs. induction fs as [|f fr IH]; intros src olds st Hp; cbn [each_field].
    - destruct olds; discriminate.
    - destruct olds as [|o orr]; [discriminate|]. cbn [forallb] in Hp. apply andb_true_iff in Hp as [Hf Hr].
      assert (X : forall (x : outcome (val * N)), x <> Panicked ->
                  (let* (v, st1) := x in let* (vs, st2) := each_field ev ea fr src orr st1 in Done (v :: vs, st2)) <> Panicked).
      { intros x Hx. destruct x as [[v st1]| | | |]; cbn [obind]; try congruence.
        specialize (IH src orr st1 Hr). destruct (each_field ev ea fr src orr st1) as [[vs st2]| | | |]; cbn [obind]; congruence. }
      apply X. destruct f as [|nm sel g a0|nm osel g p].
      + discriminate.
      + apply tag_not_panicked. pose proof (sel_eval_np ev Hv sel src st) as Hs.
        destruct (sel_eval ev sel src st) as [[s st0]| | | |]; cbn [obind]; try congruence.
        destruct (g && is_zero s); [discriminate|]. apply Ha. exact Hf.
      + destruct osel as [sl|].
        * apply tag_not_panicked. pose proof (sel_eval_np ev Hv sl src st) as Hs.
          destruct (sel_eval ev sl src st) as [[s st0]| | | |]; cbn [obind]; try congruence.
          destruct (g && is_zero s); [discriminate|]. apply Hv. exact Hf.
        * apply tag_not_panicked. apply Hv. exact Hf.
  Qed.

  Opaque zero mark ZFUEL.
  Theorem no_panic fuel : forall cx, np_v (eval_v e M F fuel cx) /\ np_a (eval_a e M F fuel cx).
  Proof.
    induction fuel as [|f IH]; intros cx; [split; [intros p src st _|intros a src old st _]; cbn; discriminate|].
    assert (IHv : forall cx, np_v (eval_v e M F f cx)) by (intros c; apply IH).
    assert (IHa : forall cx, np_a (eval_a e M F f cx)) by (intros c; apply IH).
    split.
    - intros p src st Hp. rewrite eval_v_S. destruct p as [| |al q|m|c args fl|t a0|ini tp a0|el a0|ini t cases dflt]; cbn [pf_v] in Hp.
      + destruct (plain src); discriminate.
      + discriminate.
      + pose proof (IHv cx q src st Hp) as H1. destruct (eval_v e M F f cx q src st) as [[r st1]| | | |]; cbn [obind]; try congruence.
        destruct al; discriminate.
      + destruct (nth_error M (N.to_nat m)) as [mt|] eqn:En; [|discriminate].
        destruct (body_plan mt) as [[p' wr]|] eqn:Eb; [|discriminate].
        pose proof (IHv [] p' src st (HM _ _ _ _ En Eb)) as H1.
        destruct (eval_v e M F f [] p' src st) as [[r st1]| | | |]; congruence.
      + destruct (negb (args_ok cx args)); [discriminate|]. cbv zeta. destruct c as [fi|m].
        * destruct (nth_error F (N.to_nat fi)) as [fd|]; [|discriminate].
          destruct (fd_err fd && _); [discriminate|]. destruct (mark e 60 _ _ st) as [[v1 st1] ok]. discriminate.
        * destruct (nth_error M (N.to_nat m)) as [mt|] eqn:En; [|discriminate].
          destruct (body_plan mt) as [[p' wr]|] eqn:Eb; [|discriminate].
          match goal with |- match ?X with _ => _ end <> _ => pose proof (IHv _ p' src st (HM _ _ _ _ En Eb) : X <> Panicked) as H1; destruct X as [[r st1]| | | |] end; congruence.
      + apply IHa. exact Hp.
      + apply andb_true_iff in Hp as [Hi Ha0]. pose proof (IHv cx ini src st Hi) as H1.
        destruct (eval_v e M F f cx ini src st) as [[v0 st1]| | | |]; cbn [obind]; try congruence.
        destruct tp; apply IHa; exact Ha0.
      + discriminate.
      + apply andb_true_iff in Hp as [Hp Hd]. apply andb_true_iff in Hp as [Hi Hc].
        assert (Hold : (match ini with
                        | None => Done (zero e ZFUEL t, st)
                        | Some (ip, to_ptr) => let* (v0, s1) := eval_v e M F f cx ip src st in if to_ptr then Done (VPtr s1 v0, s1 + 1) else Done (v0, s1)
                        end) <> Panicked).
        { destruct ini as [[ip tp]|]; [|discriminate]. pose proof (IHv cx ip src st Hi) as H1.
          destruct (eval_v e M F f cx ip src st) as [[v0 s1]| | | |]; cbn [obind]; try congruence. destruct tp; discriminate. }
        match goal with |- obind ?X _ <> _ => destruct X as [[old st1]| | | |] end; cbn [obind]; try congruence.
        destruct src; try discriminate.
        assert (Hact : action_no_panic (enum_action cases dflt z) = true).
        { unfold enum_action. destruct (find _ cases) as [c|] eqn:Ef; [|exact Hd].
          apply find_some in Ef as [Hin _]. rewrite forallb_forall in Hc. exact (Hc c Hin). }
        destruct (enum_action cases dflt z); try discriminate.
    - intros a src old st Hp. rewrite eval_a_S. destruct a as [q|q|q|fx el a'|k vv|fs|a'|a']; cbn [pf_a] in Hp.
      + apply IHv. exact Hp.
      + destruct src; try discriminate. pose proof (IHv cx q src st Hp) as H1.
        destruct (eval_v e M F f cx q src st) as [[r st1]| | | |]; cbn [obind]; congruence.
      + destruct src; try discriminate. apply IHv. exact Hp.
      + apply andb_true_iff in Hp as [Hfx Ha']. destruct fx; [discriminate|].
        destruct src; try discriminate.
        match goal with |- obind ?X _ <> _ => assert (Hx : X <> Panicked) end.
        { apply each_assign_np; [intros s o st0; apply IHa; exact Ha'|]. rewrite repeat_length. reflexivity. }
        match goal with |- obind ?X _ <> _ => destruct X as [[rs st1]| | | |] end; cbn [obind]; congruence.
      + apply andb_true_iff in Hp as [Hk Hv]. destruct src; try discriminate.
        match goal with |- obind ?X _ <> _ => assert (Hx : X <> Panicked) end.
        { apply each_entry_np; intros s st0; apply IHv; assumption. }
        match goal with |- obind ?X _ <> _ => destruct X as [[rs st1]| | | |] end; cbn [obind]; congruence.
      + destruct old; try discriminate.
        match goal with |- obind ?X _ <> _ => assert (Hx : X <> Panicked) end.
        { apply each_field_np; [apply IHv|apply IHa|exact Hp]. }
        match goal with |- obind ?X _ <> _ => destruct X as [[rs st1]| | | |] end; cbn [obind]; congruence.
      + destruct src; try discriminate. apply IHa. exact Hp.
      + discriminate.
  Qed.
  Transparent zero mark ZFUEL.
End no_panic.

(* F-C02-1 on the model: an array filled into a nil slice panics on its first element (an infallible element conversion) *)
Lemma array_into_nil_slice_panics e M F f cx el v vs st :
  eval_a e M F (S (S f)) cx (AList true el (ASet PId)) (VArr (v :: vs)) VNil st = Panicked.
Proof.
  rewrite eval_a_S. cbn [each_assign touches]. unfold store_into_nil. rewrite eval_a_S.
  destruct f as [|f]; [reflexivity|]. rewrite eval_v_S. destruct (plain v); reflexivity.
Qed.
