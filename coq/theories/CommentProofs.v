From Coq Require Import List NArith Bool Lia.
Import ListNotations.
From GV Require Import Comment.
Open Scope N_scope.

(* ---------- drop_while / drop_while_end ---------- *)
Lemma dw_app_all p l m : forallb p l = true -> drop_while p (l ++ m) = drop_while p m.
Proof. induction l as [|c l IH]; cbn; [auto|]. intros H. apply andb_true_iff in H as [Hc Hl]. rewrite Hc. auto. Qed.

Lemma dw_app_some p l m : drop_while p l <> [] -> drop_while p (l ++ m) = drop_while p l ++ m.
Proof. induction l as [|c l IH]; cbn; [congruence|]. destruct (p c); auto. Qed.

Lemma dw_nil_all p l : drop_while p l = [] -> forallb p l = true.
Proof. induction l as [|c l IH]; cbn; [auto|]. destruct (p c); [auto|discriminate]. Qed.

Lemma dw_all_nil p l : forallb p l = true -> drop_while p l = [].
Proof. intros H. rewrite <- (app_nil_r l). rewrite dw_app_all; auto. Qed.

(* decomposition: l = kept ++ dropped-suffix *)
Lemma dw_decomp p l : exists ws, l = ws ++ drop_while p l /\ forallb p ws = true.
Proof.
  induction l as [|c l (ws & E & H)]; cbn; [exists []; auto|].
  destruct (p c) eqn:Pc.
  - exists (c :: ws). cbn. rewrite Pc, H. split; [f_equal; exact E|reflexivity].
  - exists []. auto.
Qed.

Lemma dwe_decomp p l : exists ws, l = drop_while_end p l ++ ws /\ forallb p ws = true.
Proof.
  unfold drop_while_end. destruct (dw_decomp p (rev l)) as (ws & E & H).
  exists (rev ws). split.
  - rewrite <- rev_app_distr, <- E, rev_involutive. reflexivity.
  - rewrite forallb_forall in *. intros x Hx. apply H. apply in_rev. exact Hx.
Qed.

Lemma forallb_rev {A} (p : A -> bool) l : forallb p (rev l) = forallb p l.
Proof.
  destruct (forallb p l) eqn:E.
  - rewrite forallb_forall in *. intros x Hx. apply E. apply in_rev. exact Hx.
  - destruct (forallb p (rev l)) eqn:E2; [|reflexivity].
    rewrite forallb_forall in E2. assert (forallb p l = true); [|congruence].
    rewrite forallb_forall. intros x Hx. apply E2. apply -> in_rev. exact Hx.
Qed.

Lemma dwe_app_all p l ws : forallb p ws = true -> drop_while_end p (l ++ ws) = drop_while_end p l.
Proof. intros H. unfold drop_while_end. rewrite rev_app_distr, dw_app_all; [reflexivity|]. rewrite forallb_rev; exact H. Qed.

(* ---------- trim_space absorbs p-suffixes ---------- *)
Lemma trim_app_ws l ws : forallb go_is_space ws = true -> trim_space (l ++ ws) = trim_space l.
Proof.
  intros H. unfold trim_space.
  destruct (drop_while go_is_space l) eqn:E.
  - rewrite dw_app_all by (apply dw_nil_all; exact E).
    rewrite (dw_all_nil _ ws H). reflexivity.
  - rewrite dw_app_some by (rewrite E; discriminate). rewrite E. apply dwe_app_all. exact H.
Qed.

Lemma ascii_ws_sub c : ascii_ws c = true -> go_is_space c = true.
Proof.
  unfold ascii_ws, go_is_space. intros H.
  repeat (apply orb_true_iff in H as [H|H]); apply N.eqb_eq in H; subst; reflexivity.
Qed.

Lemma forallb_sub {A} (p q : A -> bool) l : (forall c, p c = true -> q c = true) -> forallb p l = true -> forallb q l = true.
Proof. intros S. rewrite !forallb_forall. auto. Qed.

Lemma trim_strip_trailing l : trim_space (strip_trailing l) = trim_space l.
Proof.
  unfold strip_trailing. destruct (dwe_decomp ascii_ws l) as (ws & E & H).
  rewrite E at 2. symmetry. apply trim_app_ws. eapply forallb_sub; [apply ascii_ws_sub|exact H].
Qed.

Lemma trim_cons_sp r : trim_space (SP :: r) = trim_space r.
Proof. reflexivity. Qed.

(* ---------- the per-line classifier ---------- *)
Definition F (l : rstr) : option rstr := strip_prefix prefix (trim_space l).
Arguments F : simpl never.
Lemma F_nil : F [] = None. Proof. reflexivity. Qed.

Lemma fm_app {A B} (f : A -> option B) l m : filter_map f (l ++ m) = filter_map f l ++ filter_map f m.
Proof. induction l as [|a l IH]; cbn; [auto|]. destruct (f a); cbn; rewrite IH; auto. Qed.

Lemma fm_map_ext {A B C} (f : B -> option C) (g : A -> B) (h : A -> option C) l :
  (forall a, f (g a) = h a) -> filter_map f (map g l) = filter_map h l.
Proof. intros E. induction l as [|a l IH]; cbn; [auto|]. rewrite E, IH. reflexivity. Qed.

Lemma fm_compact b ls : filter_map F (compact b ls) = filter_map F ls.
Proof.
  revert b. induction ls as [|l ls IH]; intros b; cbn; [auto|].
  destruct l as [|c l]; cbn [is_empty negb].
  - destruct b; cbn; rewrite ?F_nil, IH; reflexivity.
  - cbn. rewrite IH. reflexivity.
Qed.

(* ---------- split / join ---------- *)
Lemma split_aux_no_nl cur l : ~ In NL l -> split_nl_aux cur l = [rev cur ++ l].
Proof.
  revert cur. induction l as [|c l IH]; intros cur H; cbn.
  - rewrite app_nil_r. reflexivity.
  - destruct (N.eqb_spec c NL) as [->|_]; [exfalso; apply H; left; reflexivity|].
    rewrite IH by (intros X; apply H; right; exact X). cbn. rewrite <- app_assoc. reflexivity.
Qed.
Lemma split_no_nl l : ~ In NL l -> split_nl l = [l].
Proof. intros H. unfold split_nl. rewrite split_aux_no_nl by exact H. reflexivity. Qed.

Lemma split_aux_app cur l m : ~ In NL l -> split_nl_aux cur (l ++ NL :: m) = (rev cur ++ l) :: split_nl_aux [] m.
Proof.
  revert cur. induction l as [|c l IH]; intros cur H; cbn.
  - rewrite app_nil_r. reflexivity.
  - destruct (N.eqb_spec c NL) as [->|_]; [exfalso; apply H; left; reflexivity|].
    rewrite IH by (intros X; apply H; right; exact X). cbn. rewrite <- app_assoc. reflexivity.
Qed.

Lemma split_join ls : ls <> [] -> Forall (fun l => ~ In NL l) ls -> split_nl (join_nl ls) = ls.
Proof.
  induction ls as [|l ls IH]; [congruence|]. intros _ H. inversion H as [|? ? Hl Hls]; subst.
  destruct ls as [|l2 ls].
  - cbn. apply split_no_nl. exact Hl.
  - change (join_nl (l :: l2 :: ls)) with (l ++ NL :: join_nl (l2 :: ls)).
    unfold split_nl. rewrite split_aux_app by exact Hl. cbn [rev app].
    f_equal. apply IH; [discriminate|exact Hls].
Qed.

Lemma split_aux_lines_no_nl l : forall cur, ~ In NL cur -> Forall (fun x => ~ In NL x) (split_nl_aux cur l).
Proof.
  induction l as [|c l IH]; intros cur H; cbn.
  - constructor; [|constructor]. intros X. apply H. apply in_rev. exact X.
  - destruct (N.eqb_spec c NL) as [->|Hc].
    + constructor; [intros X; apply H; apply in_rev; exact X|]. apply IH. intros [].
    + apply IH. intros [X|X]; [congruence|auto].
Qed.
Lemma split_lines_no_nl l : Forall (fun x => ~ In NL x) (split_nl l).
Proof. apply split_aux_lines_no_nl. intros []. Qed.

Lemma strip_trailing_incl l x : In x (strip_trailing l) -> In x l.
Proof.
  unfold strip_trailing. destruct (dwe_decomp ascii_ws l) as (ws & E & _). intros H. rewrite E. apply in_or_app. left. exact H.
Qed.

(* ---------- scan_lines of the rendered comment ---------- *)
Lemma compact_no_nl b ls : Forall (fun x => ~ In NL x) ls -> Forall (fun x => ~ In NL x) (compact b ls).
Proof.
  revert b. induction ls as [|l ls IH]; intros b H; cbn; [constructor|].
  inversion H; subst. destruct (negb (is_empty l)); [constructor; auto|]. destruct b; [constructor; auto|auto].
Qed.

Lemma fm_scan_render lines : Forall (fun x => ~ In NL x) lines ->
  filter_map F (split_nl (join_nl (match rev lines with
                | [] => lines
                | last :: _ => if negb (is_empty last) then lines ++ [[]] else lines
                end))) = filter_map F lines.
Proof.
  intros H. destruct (rev lines) as [|last r] eqn:E.
  - assert (lines = []) by (rewrite <- (rev_involutive lines), E; reflexivity). subst. reflexivity.
  - assert (NE : lines <> []) by (intros ->; discriminate).
    destruct (negb (is_empty last)).
    + rewrite split_join; [| destruct lines; discriminate |].
      * rewrite fm_app. cbn. rewrite F_nil, app_nil_r. reflexivity.
      * apply Forall_app. split; [exact H|]. constructor; [intros []|constructor].
    + rewrite split_join by assumption. reflexivity.
Qed.

(* ---------- per comment ---------- *)
Definition well_lexed (c : comment) : Prop := match c with LineC b => ~ In NL b | BlockC _ => True end.

Lemma comment_lines_no_nl c : well_lexed c -> Forall (fun x => ~ In NL x) (comment_lines c).
Proof.
  assert (M : forall b, Forall (fun x => ~ In NL x) (map strip_trailing (split_nl b))).
  { intros b. pose proof (split_lines_no_nl b) as H. induction H; cbn; constructor; auto.
    intros X. apply strip_trailing_incl in X. auto. }
  destruct c as [[|c0 r]|b]; cbn [comment_lines well_lexed]; intros H.
  - constructor; [intros []|constructor].
  - destruct (c0 =? SP); apply M.
  - apply M.
Qed.

Lemma fm_comment_lines c : well_lexed c ->
  filter_map F (comment_lines c) = filter_map F (match c with LineC b => [b] | BlockC b => split_nl b end).
Proof.
  assert (S : forall l, F (strip_trailing l) = F l) by (intros l; unfold F; rewrite trim_strip_trailing; reflexivity).
  destruct c as [[|c0 r]|b]; cbn [comment_lines well_lexed]; intros H.
  - reflexivity.
  - destruct (N.eqb_spec c0 SP) as [->|_].
    + rewrite split_no_nl by (intros X; apply H; right; exact X). cbn [map filter_map]. rewrite S. unfold F. rewrite trim_cons_sp. reflexivity.
    + rewrite split_no_nl by exact H. cbn [map filter_map]. rewrite S. reflexivity.
  - apply fm_map_ext. exact S.
Qed.

Theorem setting_lines_spec g : Forall well_lexed g -> setting_lines (comment_to_string g) = spec g.
Proof.
  intros W. unfold setting_lines, comment_to_string, spec. fold F.
  assert (NN : Forall (fun x => ~ In NL x) (flat_map comment_lines g)).
  { induction W as [|c g Hc Hg IH]; cbn; [constructor|]. apply Forall_app. split; [apply comment_lines_no_nl; exact Hc|exact IH]. }
  rewrite (fm_scan_render _ (compact_no_nl _ _ NN)). rewrite fm_compact.
  clear NN. unfold logical_lines. induction W as [|c g Hc Hg IH]; cbn [flat_map]; [reflexivity|].
  rewrite !fm_app. rewrite fm_comment_lines by exact Hc. f_equal. exact IH.
Qed.
