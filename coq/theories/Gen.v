(* Gen.v — model of the generator: generator/generator.go (Build, Assign, callExisting,
   shouldCreateSubMethod, createSubMethod, buildMethod, convertTo, buildMethods dirty loop,
   getOverlappingStructDefinition), generator/setup.go, generator/validate.go and the
   builders of builder/*.go (rule order and Matches predicates come from Extracted.v).
   Output: the table of method plans (Plan.v) or a diagnostic class. *)
From Coq Require Import List NArith Bool String DecimalString.
From GV Require Import Base Ty Conf Extracted Plan.
Import ListNotations.
Open Scope N_scope.

Inductive gres (A : Type) := GOk (a : A) | GDiag (c : N) | GPanic (site : N) | GFuel.
Arguments GOk {A} a. Arguments GDiag {A} c. Arguments GPanic {A} site. Arguments GFuel {A}.

(* diagnostic classes (DESIGN appendix C) *)
Definition D_TYPE_MISMATCH : N := 20.   Definition D_POINTER_MISMATCH : N := 21.
Definition D_NO_MATCH : N := 22.        Definition D_AMBIGUOUS : N := 23.
Definition D_UNEXPORTED : N := 24.      Definition D_BAD_PATH : N := 25.
Definition D_UNKNOWN_FIELD : N := 26.   Definition D_OVERLAP_SETTINGS : N := 27.
Definition D_OVERLAP_SIGNATURE : N := 28. Definition D_FIELD_SETTING_TARGET : N := 29.
Definition D_USE_METHOD : N := 30.      Definition D_ENUM : N := 31.
Definition D_UPDATE_SHAPE : N := 32.    Definition D_UNMODELLED : N := 99.

(* ---------------- state ---------------- *)
Record bst := { b_tab : table; b_names : list rstr; b_seen : list N; b_types : list ty }.
Definition M (A : Type) := bst -> gres (A * bst).
Definition ret {A} (a : A) : M A := fun s => GOk (a, s).
Definition fail {A} (c : N) : M A := fun _ => GDiag c.
Definition mbind {A B} (m : M A) (f : A -> M B) : M B :=
  fun s => match m s with GOk (a, s') => f a s' | GDiag c => GDiag c | GPanic p => GPanic p | GFuel => GFuel end.
Notation "'let!' x ':=' m 'in' k" := (mbind m (fun x => k)) (at level 200, x pattern, m at level 100, k at level 200).

Record bctx := { bc_id : N; bc_conf : mconf; bc_ftarget : ty; bc_ssig : ty; bc_tsig : ty }.

Section gen.
  Variable e : env.
  Variable conv_common : common.   (* converter-level settings: what generated sub-methods get *)
  Variable out_pkg : N.            (* output package *)

  Definition sub_conf : mconf :=
    {| m_common := conv_common; m_fields := []; m_automap := []; m_raw_field_settings := false;
       m_UpdateTarget := false; m_constructor := None |}.

  (* ---- method table ---- *)
  Definition sig_matches (m : gmethod) (s t : ty) : bool := negb (g_update m) && ty_eqb (g_src m) s && ty_eqb (g_tgt m) t.
  Fixpoint find_from (tab : table) (i : N) (s t : ty) : option N :=
    match tab with
    | [] => None
    | m :: r => if sig_matches m s t then Some i else find_from r (i + 1) s t
    end.
  Definition find_method (tab : table) (s t : ty) : option N := find_from tab 0 s t.
  Definition has_method (tab : table) (s t : ty) : bool := existsb (fun m => sig_matches m s t) tab.

  Fixpoint update_nth {A} (n : nat) (f : A -> A) (l : list A) : list A :=
    match l, n with
    | [], _ => []
    | x :: r, O => f x :: r
    | x :: r, S n' => x :: update_nth n' f r
    end.
  Definition set_dirty (d : bool) (m : gmethod) : gmethod :=
    {| g_name := g_name m; g_src := g_src m; g_tgt := g_tgt m; g_explicit := g_explicit m; g_dirty := d;
       g_update := g_update m; g_conf := g_conf m; g_origin := g_origin m; g_body := g_body m; g_types := g_types m |}.
  Definition set_body (b : body) (ts : list ty) (m : gmethod) : gmethod :=
    {| g_name := g_name m; g_src := g_src m; g_tgt := g_tgt m; g_explicit := g_explicit m; g_dirty := g_dirty m;
       g_update := g_update m; g_conf := g_conf m; g_origin := g_origin m; g_body := Some b; g_types := ts |}.

  (* the emitted code renders type t here (variable declaration, make, cast, zero literal) *)
  Definition note_ty (t : ty) : M unit :=
    fun s => GOk (tt, {| b_tab := b_tab s; b_names := b_names s; b_seen := b_seen s; b_types := t :: b_types s |}).
  (* xtype.ZeroValue renders a type only for structs and arrays *)
  Definition zero_renders (t : ty) : bool := f_Struct e t || f_ListFixed e t.

  Definition mark_dirty (id : N) : M unit :=
    fun s => GOk (tt, {| b_tab := update_nth (N.to_nat id) (set_dirty true) (b_tab s); b_names := b_names s; b_seen := b_seen s; b_types := b_types s |}).

  (* ---- namer.Name on the file-level namer ---- *)
  Definition dec (n : N) : rstr := s2r (NilEmpty.string_of_uint (N.to_uint n)).
  Fixpoint fresh_from (fuel : nat) (names : list rstr) (base : rstr) (i : N) : rstr :=
    let cand := if i =? 1 then base else base ++ dec i in
    match fuel with
    | O => cand
    | S f => if existsb (rstr_eqb cand) names then fresh_from f names base (i + 1) else cand
    end.
  Definition fresh_name (names : list rstr) (base : rstr) : rstr := fresh_from (S (List.length names)) names base 1.

  (* ---- field lookup (xtype/type.go findAllFields / FindExactField / FindField) ---- *)
  Definition lower (c : N) : N := if is_upper c then c + 32 else c.
  Definition fold_eqb (a b : rstr) : bool := rstr_eqb (map lower a) (map lower b).   (* strings.EqualFold, ASCII *)

  (* members of a struct type as findAllFields visits them: fields, then methods of the named type.
     (index, name, type, is_method) *)
  Definition methods_of (t : ty) : list (rstr * ty) :=
    match t with TNamed id => match lookup e id with Some d => n_methods d | None => [] end | _ => [] end.

  Fixpoint find_exact_idx (name : rstr) (fs : list (rstr * ty)) (i : N) : option (N * ty) :=
    match fs with
    | [] => None
    | (n, t) :: r => if rstr_eqb n name then Some (i, t) else find_exact_idx name r (i + 1)
    end.

  (* FindExactField restricted to fields (methods as sources are outside the modelled fragment: class D_UNMODELLED) *)
  Definition find_exact (t : ty) (name : rstr) : option (N * ty) := find_exact_idx name (struct_fields e t) 0.
  Definition exact_is_method (t : ty) (name : rstr) : bool :=
    match find_exact t name with Some _ => false | None => existsb (fun m => rstr_eqb (fst m) name) (methods_of t) end.

  Definition fold_matches (name : rstr) (fs : list (rstr * ty)) : list rstr :=
    map fst (filter (fun nt => negb (rstr_eqb (fst nt) name) && fold_eqb (fst nt) name) fs).

  (* candidates of one source (the struct itself or an autoMap source with its path prefix):
     (exact : option path, case-insensitive matches : list path); the scan stops at the first exact match *)
  Fixpoint scan_fields (prefix : list rstr) (name : rstr) (ignore_case : bool) (l : list (rstr * ty)) (acc : list (list rstr))
    : option (list rstr) * list (list rstr) :=
    match l with
    | [] => (None, rev acc)
    | (n, _) :: r => if rstr_eqb n name then (Some (prefix ++ [n]), rev acc)
                     else if ignore_case && fold_eqb n name then scan_fields prefix name ignore_case r ((prefix ++ [n]) :: acc)
                     else scan_fields prefix name ignore_case r acc
    end.
  Definition all_fields (prefix : list rstr) (t : ty) (name : rstr) (ignore_case : bool) : option (list rstr) * list (list rstr) :=
    scan_fields prefix name ignore_case (struct_fields e t ++ methods_of t) [].

  Inductive ffres := FFOne (path : list rstr) | FFNone | FFAmbiguous.
  Definition find_field (name : rstr) (ignore_case : bool) (src : ty) (additional : list (list rstr * ty)) : ffres :=
    let '(ex, ic) := all_fields [] src name ignore_case in
    let exacts0 := match ex with Some p => [p] | None => [] end in
    let '(exacts, ics) :=
      fold_left (fun acc a => let '(ex', ic') := all_fields (fst a) (snd a) name ignore_case in
                              (fst acc ++ match ex' with Some p => [p] | None => [] end, snd acc ++ ic'))
                additional (exacts0, ic) in
    let matches := match exacts with [] => ics | _ => exacts end in
    match matches with
    | [p] => FFOne p
    | [] => FFNone
    | _ => FFAmbiguous
    end.

  (* strings.Split(s, ".") *)
  Fixpoint split_dot_aux (cur : rstr) (l : rstr) : list rstr :=
    match l with
    | [] => [rev cur]
    | c :: r => if c =? 46 then rev cur :: split_dot_aux [] r else split_dot_aux (c :: cur) r
    end.
  Definition split_dot (l : rstr) : list rstr := split_dot_aux [] l.

  (* walking a source path (mapField): returns steps, final type, whether a pointer was crossed *)
  Fixpoint walk_path (path : list rstr) (cur : ty) (crossed : bool) (acc : list (bool * N)) : gres (list (bool * N) * ty * bool) :=
    match path with
    | [] => GOk (rev acc, cur, crossed)
    | name :: r =>
      let d := f_Pointer e cur in
      let cur1 := if d then f_PointerInner e cur else cur in
      if negb (f_Struct e cur1) then GDiag D_BAD_PATH
      else match find_exact cur1 name with
           | Some (i, t) => walk_path r t (crossed || d) ((d, i) :: acc)
           | None => if exact_is_method cur1 name then GDiag D_UNMODELLED else GDiag D_BAD_PATH
           end
    end.

  (* parseAutoMap: each path must lead through structs / struct pointers *)
  Fixpoint automap_walk (path : list rstr) (cur : ty) : gres ty :=
    match path with
    | [] => GOk cur
    | name :: r =>
      match find_exact cur name with
      | None => if exact_is_method cur name then GDiag D_UNMODELLED else GDiag D_BAD_PATH
      | Some (_, t) =>
        if f_Pointer e t && f_Struct e (f_PointerInner e t)
        then (* xtype.TypeOf(innerSource.PointerInner.StructType): the unnamed struct type *)
             automap_walk r (under e (f_PointerInner e t))
        else if f_Struct e t then automap_walk r t
        else GDiag D_BAD_PATH
      end
    end.
  Fixpoint parse_automap (paths : list rstr) (src : ty) : gres (list (list rstr * ty)) :=
    match paths with
    | [] => GOk []
    | p :: r => match automap_walk (split_dot p) src with
                | GOk t => match parse_automap r src with
                           | GOk l => GOk ((split_dot p, t) :: l)
                           | GDiag c => GDiag c | GPanic s => GPanic s | GFuel => GFuel
                           end
                | GDiag c => GDiag c | GPanic s => GPanic s | GFuel => GFuel
                end
    end.

  Definition field_setting (ctx : bctx) (target : ty) (name : rstr) : fmap :=
    if negb (ty_eqb (bc_ftarget ctx) target) then empty_fmap
    else match find (fun kv => rstr_eqb (fst kv) name) (m_fields (bc_conf ctx)) with
         | Some kv => snd kv
         | None => empty_fmap
         end.
  Definition defined_fields (ctx : bctx) (target : ty) : list rstr :=
    if negb (ty_eqb (bc_ftarget ctx) target) then [] else map fst (m_fields (bc_conf ctx)).

  (* getOverlappingStructDefinition *)
  Definition overlap_check (ctx : bctx) (tab : table) (s t : ty) : bool :=
    if negb (f_Struct e s && f_Struct e t) then false
    else existsb (fun sig : ty * ty =>
                    negb (ty_eqb (bc_ssig ctx) (fst sig) && ty_eqb (bc_tsig ctx) (snd sig)) &&
                    match find_method tab (fst sig) (snd sig) with
                    | Some id => match nth_error tab (N.to_nat id) with
                                 | Some m => m_raw_field_settings (g_conf m)
                                 | None => false
                                 end
                    | None => false
                    end)
                 [(TPtr s, t); (TPtr s, TPtr t); (s, TPtr t)].

  (* shouldCreateSubMethod *)
  Definition should_sub (ctx : bctx) (s t : ty) : M bool :=
    fun st =>
      let cur := f_Struct e s && f_Struct e t && (ty_eqb (bc_ssig ctx) (TPtr s) || ty_eqb (bc_tsig ctx) (TPtr t)) in
      let named_id := match s with TNamed id => Some id | _ => None end in
      let seen := match named_id with Some id => existsb (N.eqb id) (b_seen st) | None => false end in
      let conf := bc_conf ctx in
      let create :=
        if seen then true
        else if negb cur then
          let c := (f_Named e s && negb (f_Basic e s)) || (f_Named e t && negb (f_Basic e t))
                   || (f_Pointer e s && f_Named e (f_PointerInner e s) && negb (f_Basic e (f_PointerInner e s)))
                   || (enum_ok e conf s && enum_ok e conf t) in
          if cc_SkipCopySameType conf && ty_eqb s t then false else c
        else false in
      let tab' := if seen then update_nth (N.to_nat (bc_id ctx)) (set_dirty true) (b_tab st) else b_tab st in
      let seen' := match named_id with Some id => id :: b_seen st | None => b_seen st end in
      GOk (create, {| b_tab := tab'; b_names := b_names st; b_seen := seen'; b_types := b_types st |}).

  Definition first_rule (hm : ty -> ty -> bool) (conf : mconf) (s t : ty) : option N :=
    find (fun r => x_matches r e hm conf s t) x_build_steps.

  Definition mismatch {A} (s t : ty) : M A :=
    if f_Pointer e s && negb (f_Pointer e t) then fail D_POINTER_MISMATCH else fail D_TYPE_MISMATCH.

  Definition fields_target (t : ty) : ty :=
    if f_Pointer e t && f_Struct e (f_PointerInner e t) then f_PointerInner e t else t.

  (* l-value class of the current source expression (xtype.JenID.Variable plus where it lives):
     0 value expression (call result, cast)   1 variable in local storage (parameter, field of a by-value
     parameter, range variables, temporaries)   2 variable in memory reachable from the caller's value
     (slice element, field behind a pointer)   3 dereference *p (not a JenID variable; its fields/elements are class 2).
     id.Pointer() takes the address of a variable instead of copying it: for class 2 that aliases the source. *)
  Definition LV_VALUE : N := 0. Definition LV_LOCAL : N := 1. Definition LV_HEAP : N := 2. Definition LV_DEREF : N := 3.
  Definition lv_field (lv : N) : N := if lv =? LV_DEREF then LV_HEAP else if lv =? LV_VALUE then LV_LOCAL else lv.
  Definition lv_elem (is_slice : bool) (lv : N) : N := if is_slice then LV_HEAP else lv_field lv.
  Definition aliasing (lv : N) (p : vplan) : bool :=
    (lv =? LV_HEAP) && match p with PShare => true | _ => false end.

  (* ---------------- the mutually recursive core ---------------- *)
  Fixpoint build (fuel : nat) (ctx : bctx) (srcvar : N) (s t : ty) {struct fuel} : M vplan :=
    match fuel with
    | O => fun _ => GFuel
    | S f =>
      fun st =>
      match find_method (b_tab st) s t with
      | Some id => GOk (PCall id, st)
      | None =>
        (let! sub := should_sub ctx s t in
         if sub then create_sub f ctx s t else build_no_lookup f ctx srcvar s t) st
      end
    end
  with assign (fuel : nat) (ctx : bctx) (must : bool) (srcvar : N) (is_update : bool) (s t : ty) {struct fuel} : M aplan :=
    match fuel with
    | O => fun _ => GFuel
    | S f =>
      if must then (let! p := build f ctx srcvar s t in ret (ASet p))
      else fun st =>
      match find_method (b_tab st) s t with
      | Some id => GOk (ASet (PCall id), st)
      | None =>
        (let! sub := should_sub ctx s t in
         if sub then (let! p := create_sub f ctx s t in ret (ASet p))
         else assign_no_lookup f ctx srcvar is_update s t) st
      end
    end
  with create_sub (fuel : nat) (ctx : bctx) (s t : ty) {struct fuel} : M vplan :=
    match fuel with
    | O => fun _ => GFuel
    | S f =>
      fun st =>
        let name := fresh_name (b_names st) (unescaped_id e s ++ s2r "To"%string ++ title (unescaped_id e t)) in
        let id := N.of_nat (List.length (b_tab st)) in
        let origin := match nth_error (b_tab st) (N.to_nat (bc_id ctx)) with Some m => bc_id ctx :: g_origin m | None => [bc_id ctx] end in
        let m := {| g_name := name; g_src := s; g_tgt := t; g_explicit := false; g_dirty := false; g_update := false;
                    g_conf := sub_conf; g_origin := origin; g_body := None; g_types := [] |} in
        let st1 := {| b_tab := b_tab st ++ [m]; b_names := name :: b_names st; b_seen := []; b_types := [] |} in
        match build_method f id st1 with
        | GOk (_, st2) => GOk (PCall id, {| b_tab := b_tab st2; b_names := b_names st2; b_seen := b_seen st; b_types := b_types st |})
        | GDiag c => GDiag c | GPanic p => GPanic p | GFuel => GFuel
        end
    end
  with build_method (fuel : nat) (id : N) {struct fuel} : M unit :=
    match fuel with
    | O => fun _ => GFuel
    | S f =>
      fun st =>
      match nth_error (b_tab st) (N.to_nat id) with
      | None => GPanic 1
      | Some m =>
        let ctx := {| bc_id := id; bc_conf := g_conf m; bc_ftarget := fields_target (g_tgt m); bc_ssig := g_src m; bc_tsig := g_tgt m |} in
        let st0 := {| b_tab := b_tab st; b_names := b_names st; b_seen := []; b_types := [g_tgt m; g_src m] |} in
        if g_update m then
          (* convertTo *)
          let s := g_src m in let t := g_tgt m in
          if negb (f_Pointer e t && f_Struct e (f_PointerInner e t)) then GDiag D_UPDATE_SHAPE
          else
            let sp := negb (f_Struct e s) in
            if sp && negb (f_Pointer e s && f_Struct e (f_PointerInner e s)) then GDiag D_UPDATE_SHAPE
            else
              let s' := if sp then f_PointerInner e s else s in
              match struct_assign f ctx (if sp then LV_DEREF else LV_LOCAL) false s' (f_PointerInner e t) st0 with
              | GOk (a, st1) =>
                let a' := if sp then AIfNotNil a else a in
                GOk (tt, {| b_tab := update_nth (N.to_nat id) (set_body (BUpd a') (b_types st1)) (b_tab st1); b_names := b_names st1; b_seen := b_seen st; b_types := b_types st |})
              | GDiag c => GDiag c | GPanic p => GPanic p | GFuel => GFuel
              end
        else
          match build_no_lookup f ctx LV_LOCAL (g_src m) (g_tgt m) st0 with
          | GOk (p, st1) => GOk (tt, {| b_tab := update_nth (N.to_nat id) (set_body (BVal p) (b_types st1)) (b_tab st1); b_names := b_names st1; b_seen := b_seen st; b_types := b_types st |})
          | GDiag c => GDiag c | GPanic p => GPanic p | GFuel => GFuel
          end
      end
    end
  with build_no_lookup (fuel : nat) (ctx : bctx) (srcvar : N) (s t : ty) {struct fuel} : M vplan :=
    match fuel with
    | O => fun _ => GFuel
    | S f =>
      fun st =>
      if overlap_check ctx (b_tab st) s t then GDiag D_OVERLAP_SETTINGS
      else
      match first_rule (has_method (b_tab st)) (bc_conf ctx) s t with
      | None => mismatch s t st
      | Some r =>
        (match r with
         | 0 => (* UseUnderlyingTypeMethods *)
           if x_isEnum e (bc_conf ctx) s t then fail D_ENUM
           else let '(su, tu) := x_findUnderlyingExtendMapping e (has_method (b_tab st)) (bc_conf ctx) s t in
                build f ctx LV_VALUE (if su then under e s else s) (if tu then under e t else t)
         | 1 => ret PShare
         | 2 => fail D_UNMODELLED
         | 3 => let! p := build f ctx srcvar s (f_PointerInner e t) in ret (PRef false p)
         | 4 => let! _ := note_ty t in let! a := assign_no_lookup f ctx srcvar false s t in ret (POfAssign t a)
         | 5 => let! _ := note_ty t in let! a := assign_no_lookup f ctx srcvar false s t in ret (POfAssign t a)
         | 6 => let! p := build f ctx srcvar s (f_PointerInner e t) in ret (PRef (aliasing srcvar p) p)
         | 7 => if f_Named e t || f_Named e s then (let! _ := note_ty t in ret PId) else ret PId
         | 8 => if negb (f_Named e s) && negb (f_Named e t) && match struct_fields e s, struct_fields e t with [], [] => true | _, _ => false end
                then ret PId
                else let! _ := note_ty t in let! a := struct_assign f ctx srcvar false s t in ret (POfAssign t a)
         | 9 => let! _ := note_ty t in let! a := assign_no_lookup f ctx srcvar false s t in
                ret (if f_ListFixed e s then PMakeList (f_ListInner e t) a else POfAssign t a)
         | _ => let! _ := note_ty t in let! a := assign_no_lookup f ctx srcvar false s t in ret (POfAssign t a)
         end) st
      end
    end
  with assign_no_lookup (fuel : nat) (ctx : bctx) (srcvar : N) (is_update : bool) (s t : ty) {struct fuel} : M aplan :=
    match fuel with
    | O => fun _ => GFuel
    | S f =>
      fun st =>
      if overlap_check ctx (b_tab st) s t then GDiag D_OVERLAP_SETTINGS
      else
      match first_rule (has_method (b_tab st)) (bc_conf ctx) s t with
      | None => mismatch s t st
      | Some r =>
        (match r with
         | 1 => ret (ASet PShare)
         | 4 => let! p := build f ctx LV_DEREF (f_PointerInner e s) (f_PointerInner e t) in ret (APtr p)
         | 5 => let! p := build f ctx LV_DEREF (f_PointerInner e s) t in ret (ASrcPtr p)
         | 8 => struct_assign f ctx srcvar is_update s t
         | 9 => let! _ := (if f_ListFixed e s then ret tt else note_ty t) in
                let! a := assign f ctx false (lv_elem (negb (f_ListFixed e s)) srcvar) false (f_ListInner e s) (f_ListInner e t) in
                ret (AList (f_ListFixed e s) (f_ListInner e t) a)
         | 10 => let! _ := note_ty t in let! k := build f ctx LV_LOCAL (f_MapKey e s) (f_MapKey e t) in
                 let! v := build f ctx LV_LOCAL (f_MapValue e s) (f_MapValue e t) in
                 ret (AMap k v)
         | _ => (* AssignByBuild *) let! p := build_no_lookup f ctx srcvar s t in ret (ASet p)
         end) st
      end
    end
  with struct_assign (fuel : nat) (ctx : bctx) (srcvar : N) (is_update : bool) (s t : ty) {struct fuel} : M aplan :=
    match fuel with
    | O => fun _ => GFuel
    | S f =>
      fun st =>
      match parse_automap (m_automap (bc_conf ctx)) s with
      | GDiag c => GDiag c | GPanic p => GPanic p | GFuel => GFuel
      | GOk additional =>
        let conf := bc_conf ctx in
        let tpkg := struct_pkg e t in
        (fix fields (fs : list (rstr * ty)) (defined : list rstr) (acc : list fplan) (st : bst) {struct fs} : gres (aplan * bst) :=
           match fs with
           | [] => match defined with
                   | [] => GOk (AStruct (rev acc), st)
                   | _ => GDiag D_UNKNOWN_FIELD
                   end
           | (name, fty) :: r =>
             let defined' := filter (fun n => negb (rstr_eqb n name)) defined in
             let fm := field_setting ctx t name in
             if fm_ignore fm then fields r defined' (FSkip :: acc) st
             else if negb (exported name) && cc_IgnoreUnexported conf then fields r defined' (FSkip :: acc) st
             else if negb (field_accessible name tpkg out_pkg) then GDiag D_UNEXPORTED
             else match fm_func fm with
             | Some _ => GDiag D_UNMODELLED
             | None =>
               (* mapField *)
               let sel_res : gres (option (selector * ty * N)) :=
                 match fm_source fm with
                 | [46] => GOk (Some (SelWhole, s, srcvar))
                 | src_path =>
                   let path_res : gres (option (list rstr)) :=
                     match src_path with
                     | [] => match find_field name (cc_MatchIgnoreCase conf) s additional with
                             | FFOne p => GOk (Some p)
                             | FFNone => if cc_IgnoreMissing conf then GOk None else GDiag D_NO_MATCH
                             | FFAmbiguous => GDiag D_AMBIGUOUS
                             end
                     | _ => GOk (Some (split_dot src_path))
                     end in
                   match path_res with
                   | GOk None => GOk None
                   | GOk (Some path) =>
                     match walk_path path s false [] with
                     | GOk (steps, ft, crossed) =>
                       if crossed then
                         if f_Pointer e ft then GOk (Some (SelPath steps WKeepPtr, ft, LV_LOCAL))
                         else GOk (Some (SelPath steps WAddr, TPtr ft, LV_LOCAL))
                       else GOk (Some (SelPath steps WNone, ft, lv_field srcvar))
                     | GDiag c => GDiag c | GPanic p => GPanic p | GFuel => GFuel
                     end
                   | GDiag c => GDiag c | GPanic p => GPanic p | GFuel => GFuel
                   end
                 end in
               match sel_res with
               | GOk None => fields r defined' (FSkip :: acc) st
               | GOk (Some (sel, ns, lv)) =>
                 let guard := x_shouldCheckAgainstZero e conf ns fty is_update false in
                 let noted := (match sel with SelPath _ WNone | SelWhole => [] | _ => [ns] end) ++ (if guard && zero_renders ns then [ns] else []) in
                 match assign f ctx false lv false ns fty {| b_tab := b_tab st; b_names := b_names st; b_seen := b_seen st; b_types := noted ++ b_types st |} with
                 | GOk (a, st') =>
                   fields r defined' (FAssign sel guard a :: acc) st'
                 | GDiag c => GDiag c | GPanic p => GPanic p | GFuel => GFuel
                 end
               | GDiag c => GDiag c | GPanic p => GPanic p | GFuel => GFuel
               end
             end
           end) (struct_fields e t) (defined_fields ctx t) [] st
      end
    end.

  (* ---------------- converter level ---------------- *)
  (* string order of method names (sort.Slice by Name) *)
  Fixpoint rstr_ltb (a b : rstr) : bool :=
    match a, b with
    | [], [] => false
    | [], _ => true
    | _, [] => false
    | x :: a', y :: b' => (x <? y) || ((x =? y) && rstr_ltb a' b')
    end.
  Fixpoint insert_by_name (tab : table) (id : N) (l : list N) : list N :=
    match l with
    | [] => [id]
    | j :: r =>
      let nm i := match nth_error tab (N.to_nat i) with Some m => g_name m | None => [] end in
      if rstr_ltb (nm id) (nm j) then id :: l else j :: insert_by_name tab id r
    end.
  Definition sorted_ids (tab : table) : list N :=
    fold_left (fun acc i => insert_by_name tab i acc) (map N.of_nat (seq 0 (List.length tab))) [].

  Definition is_dirty (tab : table) (id : N) : bool := match nth_error tab (N.to_nat id) with Some m => g_dirty m | None => false end.

  (* buildDirtyMethods: one pass over the snapshot of methods sorted by name *)
  Fixpoint dirty_pass (fuel : nat) (ids : list N) (st : bst) : gres bst :=
    match ids with
    | [] => GOk st
    | id :: r =>
      if is_dirty (b_tab st) id then
        let st1 := {| b_tab := update_nth (N.to_nat id) (set_dirty false) (b_tab st); b_names := b_names st; b_seen := []; b_types := [] |} in
        match build_method fuel id st1 with
        | GOk (_, st2) => dirty_pass fuel r st2
        | GDiag c => GDiag c | GPanic p => GPanic p | GFuel => GFuel
        end
      else dirty_pass fuel r st
    end.

  Fixpoint build_all (passes : nat) (fuel : nat) (st : bst) : gres bst :=
    match passes with
    | O => GFuel
    | S p => if existsb (fun m => g_dirty m) (b_tab st)
             then match dirty_pass fuel (sorted_ids (b_tab st)) st with
                  | GOk st' => build_all p fuel st'
                  | GDiag c => GDiag c | GPanic s => GPanic s | GFuel => GFuel
                  end
             else GOk st
    end.

  (* declared method of a converter *)
  Record decl_method := { dm_name : rstr; dm_src : ty; dm_tgt : ty; dm_update : bool; dm_conf : mconf }.

  (* setupGenerator: Register rejects two declared methods with the same signature (no contexts in this fragment) *)
  Fixpoint register_all (ms : list decl_method) (tab : table) : gres table :=
    match ms with
    | [] => GOk tab
    | m :: r =>
      if negb (dm_update m) && has_method tab (dm_src m) (dm_tgt m) then GDiag D_OVERLAP_SIGNATURE
      else register_all r (tab ++ [ {| g_name := dm_name m; g_src := dm_src m; g_tgt := dm_tgt m; g_explicit := true; g_dirty := true;
                                       g_update := dm_update m; g_conf := dm_conf m; g_origin := []; g_body := None; g_types := [] |} ])
    end.

  (* validateMethods: field settings only on struct / struct pointer targets (update methods are not in Exact) *)
  Definition validate (tab : table) : bool :=
    forallb (fun m => negb (g_explicit m && negb (g_update m) && m_raw_field_settings (g_conf m)) ||
                      f_Struct e (g_tgt m) || (f_Pointer e (g_tgt m) && f_Struct e (f_PointerInner e (g_tgt m)))) tab.

  Definition GEN_FUEL : nat := 400.
  Definition GEN_PASSES : nat := 60.

  Definition generate (ms : list decl_method) : gres table :=
    match register_all ms [] with
    | GOk tab =>
      if negb (validate tab) then GDiag D_FIELD_SETTING_TARGET
      else match build_all GEN_PASSES GEN_FUEL {| b_tab := tab; b_names := [s2r "c"%string]; b_seen := []; b_types := [] |} with
           | GOk st => GOk (b_tab st)
           | GDiag c => GDiag c | GPanic s => GPanic s | GFuel => GFuel
           end
    | GDiag c => GDiag c | GPanic s => GPanic s | GFuel => GFuel
    end.
End gen.
