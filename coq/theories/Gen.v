(* Gen.v — model of the generator: generator/generator.go (Build, Assign, callExisting,
   shouldCreateSubMethod, createSubMethod, buildMethod, convertTo, buildMethods dirty loop,
   getOverlappingStructDefinition), generator/setup.go, generator/validate.go and the
   builders of builder/*.go (rule order and Matches predicates come from Extracted.v).
   Output: the table of method plans (Plan.v) or a diagnostic class. *)
From Coq Require Import List NArith ZArith Bool String DecimalString.
From GV Require Import Base Ty Conf Extracted Plan.
(* custom functions: Plan.fdecl / ftable (roles assigned by Funcs.fdecl_of) *)
Import ListNotations.
Open Scope N_scope.

Inductive gres (A : Type) := GOk (a : A) | GDiag (c : N) | GPanic (site : N) | GFuel.
Arguments GOk {A} a. Arguments GDiag {A} c. Arguments GPanic {A} site. Arguments GFuel {A}.

(* diagnostic classes (DESIGN appendix C) *)
Definition D_TYPE_MISMATCH : N := 20.   Definition D_POINTER_MISMATCH : N := 21.
Definition D_NO_MATCH : N := 22.        Definition D_AMBIGUOUS : N := 23.
Definition D_UNEXPORTED : N := 24.      Definition D_BAD_PATH : N := 25.
Definition D_UNKNOWN_FIELD : N := 26.   Definition D_OVERLAP_SETTINGS : N := 27.
Definition D_OVERLAP_SIGNATURE : N := 28. Definition D_FIELD_SETTING_TARGET : N := 29.
Definition D_USE_METHOD : N := 30.      Definition D_ENUM : N := 31.
Definition D_UPDATE_SHAPE : N := 32.    Definition D_UNMODELLED : N := 99.
Definition D_CONTEXT_UNSAT : N := 33.   (* a function / method for the pair exists but needs contexts the method cannot supply *)
Definition D_CONTEXT_REQUIRED : N := 34. (* CallMethod: could not satisfy all required context parameters *)
Definition D_ERR_NOT_RETURNED : N := 35. (* used method returns error but conversion method does not *)
Definition D_DELEGATE_ERR : N := 36.    (* extend function with error behind a declared method without *)
Definition D_CALL_SOURCE : N := 37.     (* method source type mismatches with conversion source *)
Definition D_CALL_TARGET : N := 38.     (* method return type mismatches with target *)
Definition D_STRUCT_METHOD : N := 39.   (* error parsing struct method *)

(* ---------------- state ---------------- *)
Record bst := { b_tab : table; b_names : list rstr; b_seen : list N; b_types : list ty;
                b_ctor : bool (* ctx.UseConstructor: default FUNC not applied yet *) }.
Definition M (A : Type) := bst -> gres (A * bst).
Definition ret {A} (a : A) : M A := fun s => GOk (a, s).
Definition fail {A} (c : N) : M A := fun _ => GDiag c.
Definition mbind {A B} (m : M A) (f : A -> M B) : M B :=
  fun s => match m s with GOk (a, s') => f a s' | GDiag c => GDiag c | GPanic p => GPanic p | GFuel => GFuel end.
Notation "'let!' x ':=' m 'in' k" := (mbind m (fun x => k)) (at level 200, x pattern, m at level 100, k at level 200).

Record bctx := { bc_id : N; bc_conf : mconf; bc_ftarget : ty; bc_ssig : ty; bc_tsig : ty;
                 bc_avail : N;             (* the method whose context set is ctx.AvailableContext (a shared map) *)
                 bc_context : list ty }.   (* ctx.Context: context variables declared by the method being built *)

Section gen.
  Variable e : env.
  Variable conv_common : common.   (* converter-level settings: what generated sub-methods get *)
  Variable out_pkg : N.            (* output package *)
  Variable enum_excluded : list N. (* named types excluded from enum handling (converter-level enum:exclude) *)
  Variable FT : ftable.            (* custom functions by index *)
  Variable ext : list N.           (* generator.extend: registered extend functions (setup.go), registration order *)
  Variable smeths : list (N * rstr * N).   (* (named type, method name, function): argument-less methods usable as sources *)

  Definition sub_conf : mconf :=
    {| m_common := conv_common; m_fields := []; m_automap := []; m_raw_field_settings := false;
       m_UpdateTarget := false; m_constructor := None; m_enum_map := []; m_enum_transforms := []; m_enum_excluded := enum_excluded |}.

  (* ---- method table (method.Index: entries by signature; Get returns the first whose contexts are available) ---- *)
  Definition sig_matches (m : gmethod) (s t : ty) : bool := negb (g_update m) && ty_eqb (g_src m) s && ty_eqb (g_tgt m) t.
  Definition ctx_sub (req avail : list ty) : bool := forallb (fun t => existsb (ty_eqb t) avail) req.
  Inductive getres := GFound (i : N) | GUnsat | GAbsent.
  Fixpoint tab_scan (tab : table) (i : N) (s t : ty) (avail : list ty) (hit : bool) : getres :=
    match tab with
    | [] => if hit then GUnsat else GAbsent
    | m :: r => if sig_matches m s t
                then if ctx_sub (g_ctx m) avail then GFound i else tab_scan r (i + 1) s t avail true
                else tab_scan r (i + 1) s t avail hit
    end.
  Definition tab_get (tab : table) (s t : ty) (avail : list ty) : getres := tab_scan tab 0 s t avail false.
  Definition find_method (tab : table) (s t : ty) : option N :=
    match tab_get tab s t [] with GFound i => Some i | _ => None end.
  Definition fdecl_at (f : N) : option fdecl := nth_error FT (N.to_nat f).
  Definition fn_sig_matches (f : N) (s t : ty) : bool :=
    match fdecl_at f with
    | Some d => match fd_src d with Some s' => ty_eqb s' s && ty_eqb (fd_tgt d) t | None => false end
    | None => false
    end.
  Definition fn_ctx (f : N) : list ty := match fdecl_at f with Some d => fd_ctx d | None => [] end.
  Definition ext_get (s t : ty) (avail : list ty) : getres :=
    match filter (fun f => fn_sig_matches f s t) ext with
    | [] => GAbsent
    | hits => match find (fun f => ctx_sub (fn_ctx f) avail) hits with Some f => GFound f | None => GUnsat end
    end.
  (* generator.hasMethod: by signature only *)
  Definition has_method (tab : table) (s t : ty) : bool :=
    existsb (fun f => fn_sig_matches f s t) ext || existsb (fun m => sig_matches m s t) tab.

  Fixpoint update_nth {A} (n : nat) (f : A -> A) (l : list A) : list A :=
    match l, n with
    | [], _ => []
    | x :: r, O => f x :: r
    | x :: r, S n' => x :: update_nth n' f r
    end.
  Definition set_dirty (d : bool) (m : gmethod) : gmethod :=
    {| g_name := g_name m; g_src := g_src m; g_tgt := g_tgt m; g_explicit := g_explicit m; g_dirty := d;
       g_update := g_update m; g_conf := g_conf m; g_origin := g_origin m; g_ctx := g_ctx m; g_ret_err := g_ret_err m; g_body := g_body m; g_types := g_types m |}.
  Definition set_body (b : body) (ts : list ty) (m : gmethod) : gmethod :=
    {| g_name := g_name m; g_src := g_src m; g_tgt := g_tgt m; g_explicit := g_explicit m; g_dirty := g_dirty m;
       g_update := g_update m; g_conf := g_conf m; g_origin := g_origin m; g_ctx := g_ctx m; g_ret_err := g_ret_err m; g_body := Some b; g_types := ts |}.
  (* requireContext / ReturnError retrofit a generated method and mark it for re-generation *)
  Definition add_ctx (need : ty) (m : gmethod) : gmethod :=
    {| g_name := g_name m; g_src := g_src m; g_tgt := g_tgt m; g_explicit := g_explicit m; g_dirty := true;
       g_update := g_update m; g_conf := g_conf m; g_origin := g_origin m; g_ctx := g_ctx m ++ [need]; g_ret_err := g_ret_err m; g_body := g_body m; g_types := g_types m |}.
  Definition add_err (m : gmethod) : gmethod :=
    {| g_name := g_name m; g_src := g_src m; g_tgt := g_tgt m; g_explicit := g_explicit m; g_dirty := true;
       g_update := g_update m; g_conf := g_conf m; g_origin := g_origin m; g_ctx := g_ctx m; g_ret_err := true; g_body := g_body m; g_types := g_types m |}.
  Definition set_tab (tab : table) (s : bst) : bst :=
    {| b_tab := tab; b_names := b_names s; b_seen := b_seen s; b_types := b_types s; b_ctor := b_ctor s |}.
  Definition set_ctor (c : bool) (s : bst) : bst :=
    {| b_tab := b_tab s; b_names := b_names s; b_seen := b_seen s; b_types := b_types s; b_ctor := c |}.

  (* the emitted code renders type t here (variable declaration, make, cast, zero literal) *)
  Definition note_ty (t : ty) : M unit :=
    fun s => GOk (tt, {| b_tab := b_tab s; b_names := b_names s; b_seen := b_seen s; b_types := t :: b_types s; b_ctor := b_ctor s |}).
  (* xtype.ZeroValue renders a type only for structs and arrays *)
  Definition zero_renders (t : ty) : bool := f_Struct e t || f_ListFixed e t.

  Definition mark_dirty (id : N) : M unit :=
    fun s => GOk (tt, {| b_tab := update_nth (N.to_nat id) (set_dirty true) (b_tab s); b_names := b_names s; b_seen := b_seen s; b_types := b_types s; b_ctor := b_ctor s |}).

  (* ---- namer.Name on the file-level namer ---- *)
  Definition dec (n : N) : rstr := s2r (NilEmpty.string_of_uint (N.to_uint n)).
  Fixpoint fresh_from (fuel : nat) (names : list rstr) (base : rstr) (i : N) : rstr :=
    let cand := if i =? 1 then base else base ++ dec i in
    match fuel with
    | O => cand
    | S f => if existsb (rstr_eqb cand) names then fresh_from f names base (i + 1) else cand
    end.
  Definition fresh_name (names : list rstr) (base : rstr) : rstr := fresh_from (S (List.length names)) names base 1.

  (* ---- field lookup (xtype/type.go findAllFields / FindExactField / FindField) ---- *)
  Definition lower (c : N) : N := if is_upper c then c + 32 else c.
  Definition fold_eqb (a b : rstr) : bool := rstr_eqb (map lower a) (map lower b).   (* strings.EqualFold, ASCII *)

  (* members of a struct type as findAllFields visits them: fields, then methods of the named type.
     (index, name, type, is_method) *)
  Definition methods_of (t : ty) : list (rstr * ty) :=
    match t with TNamed id => match lookup e id with Some d => n_methods d | None => [] end | _ => [] end.

  Fixpoint find_exact_idx (name : rstr) (fs : list (rstr * ty)) (i : N) : option (N * ty) :=
    match fs with
    | [] => None
    | (n, t) :: r => if rstr_eqb n name then Some (i, t) else find_exact_idx name r (i + 1)
    end.

  (* FindExactField restricted to fields (methods as sources are outside the modelled fragment: class D_UNMODELLED) *)
  Definition find_exact (t : ty) (name : rstr) : option (N * ty) := find_exact_idx name (struct_fields e t) 0.
  Definition exact_is_method (t : ty) (name : rstr) : bool :=
    match find_exact t name with Some _ => false | None => existsb (fun m => rstr_eqb (fst m) name) (methods_of t) end.

  Definition fold_matches (name : rstr) (fs : list (rstr * ty)) : list rstr :=
    map fst (filter (fun nt => negb (rstr_eqb (fst nt) name) && fold_eqb (fst nt) name) fs).

  (* candidates of one source (the struct itself or an autoMap source with its path prefix):
     (exact : option path, case-insensitive matches : list path); the scan stops at the first exact match *)
  Fixpoint scan_fields (prefix : list rstr) (name : rstr) (ignore_case : bool) (l : list (rstr * ty)) (acc : list (list rstr))
    : option (list rstr) * list (list rstr) :=
    match l with
    | [] => (None, rev acc)
    | (n, _) :: r => if rstr_eqb n name then (Some (prefix ++ [n]), rev acc)
                     else if ignore_case && fold_eqb n name then scan_fields prefix name ignore_case r ((prefix ++ [n]) :: acc)
                     else scan_fields prefix name ignore_case r acc
    end.
  Definition all_fields (prefix : list rstr) (t : ty) (name : rstr) (ignore_case : bool) : option (list rstr) * list (list rstr) :=
    scan_fields prefix name ignore_case (struct_fields e t ++ methods_of t) [].

  Inductive ffres := FFOne (path : list rstr) | FFNone | FFAmbiguous.
  Definition find_field (name : rstr) (ignore_case : bool) (src : ty) (additional : list (list rstr * ty)) : ffres :=
    let '(ex, ic) := all_fields [] src name ignore_case in
    let exacts0 := match ex with Some p => [p] | None => [] end in
    let '(exacts, ics) :=
      fold_left (fun acc a => let '(ex', ic') := all_fields (fst a) (snd a) name ignore_case in
                              (fst acc ++ match ex' with Some p => [p] | None => [] end, snd acc ++ ic'))
                additional (exacts0, ic) in
    let matches := match exacts with [] => ics | _ => exacts end in
    match matches with
    | [p] => FFOne p
    | [] => FFNone
    | _ => FFAmbiguous
    end.

  (* strings.Split(s, ".") *)
  Fixpoint split_dot_aux (cur : rstr) (l : rstr) : list rstr :=
    match l with
    | [] => [rev cur]
    | c :: r => if c =? 46 then rev cur :: split_dot_aux [] r else split_dot_aux (c :: cur) r
    end.
  Definition split_dot (l : rstr) : list rstr := split_dot_aux [] l.

  Definition smeth_of (t : ty) (name : rstr) : option N :=
    match t with
    | TNamed id => match find (fun x => (fst (fst x) =? id) && rstr_eqb (snd (fst x)) name) smeths with Some x => Some (snd x) | None => None end
    | _ => None
    end.

  (* walking a source path (mapField): returns steps, final type, whether a pointer was crossed, and the
     function when the last element is a method of the value reached *)
  Fixpoint walk_path (path : list rstr) (cur : ty) (crossed : bool) (acc : list (bool * N)) : gres (list (bool * N) * ty * bool * option N) :=
    match path with
    | [] => GOk (rev acc, cur, crossed, None)
    | name :: r =>
      let d := f_Pointer e cur in
      let cur1 := if d then f_PointerInner e cur else cur in
      if negb (f_Struct e cur1) then GDiag D_BAD_PATH
      else match find_exact cur1 name with
           | Some (i, t) => walk_path r t (crossed || d) ((d, i) :: acc)
           | None => if exact_is_method cur1 name
                     then match r with
                          | [] => match smeth_of cur1 name with
                                  | Some f => GOk (rev acc, cur, crossed || d, Some f)
                                  | None => GDiag D_UNMODELLED
                                  end
                          | _ => GDiag D_BAD_PATH          (* cannot access a field on a method value *)
                          end
                     else GDiag D_BAD_PATH
           end
    end.

  (* parseAutoMap: each path must lead through structs / struct pointers *)
  Fixpoint automap_walk (path : list rstr) (cur : ty) : gres ty :=
    match path with
    | [] => GOk cur
    | name :: r =>
      match find_exact cur name with
      | None => if exact_is_method cur name then GDiag D_UNMODELLED else GDiag D_BAD_PATH
      | Some (_, t) =>
        if f_Pointer e t && f_Struct e (f_PointerInner e t)
        then (* xtype.TypeOf(innerSource.PointerInner.StructType): the unnamed struct type *)
             automap_walk r (under e (f_PointerInner e t))
        else if f_Struct e t then automap_walk r t
        else GDiag D_BAD_PATH
      end
    end.
  Fixpoint parse_automap (paths : list rstr) (src : ty) : gres (list (list rstr * ty)) :=
    match paths with
    | [] => GOk []
    | p :: r => match automap_walk (split_dot p) src with
                | GOk t => match parse_automap r src with
                           | GOk l => GOk ((split_dot p, t) :: l)
                           | GDiag c => GDiag c | GPanic s => GPanic s | GFuel => GFuel
                           end
                | GDiag c => GDiag c | GPanic s => GPanic s | GFuel => GFuel
                end
    end.

  Definition field_setting (ctx : bctx) (target : ty) (name : rstr) : fmap :=
    if negb (ty_eqb (bc_ftarget ctx) target) then empty_fmap
    else match find (fun kv => rstr_eqb (fst kv) name) (m_fields (bc_conf ctx)) with
         | Some kv => snd kv
         | None => empty_fmap
         end.
  Definition defined_fields (ctx : bctx) (target : ty) : list rstr :=
    if negb (ty_eqb (bc_ftarget ctx) target) then [] else map fst (m_fields (bc_conf ctx)).

  Definition avail_of_tab (tab : table) (ctx : bctx) : list ty :=
    match nth_error tab (N.to_nat (bc_avail ctx)) with Some m => g_ctx m | None => [] end.

  (* getOverlappingStructDefinition *)
  Definition overlap_check (ctx : bctx) (tab : table) (s t : ty) : bool :=
    if negb (f_Struct e s && f_Struct e t) then false
    else existsb (fun sig : ty * ty =>
                    negb (ty_eqb (bc_ssig ctx) (fst sig) && ty_eqb (bc_tsig ctx) (snd sig)) &&
                    match tab_get tab (fst sig) (snd sig) (avail_of_tab tab ctx) with
                    | GFound id => match nth_error tab (N.to_nat id) with
                                   | Some m => m_raw_field_settings (g_conf m)
                                   | None => false
                                   end
                    | _ => false
                    end)
                 [(TPtr s, t); (TPtr s, TPtr t); (s, TPtr t)].

  (* shouldCreateSubMethod *)
  Definition should_sub (ctx : bctx) (s t : ty) : M bool :=
    fun st =>
      let cur := f_Struct e s && f_Struct e t && (ty_eqb (bc_ssig ctx) (TPtr s) || ty_eqb (bc_tsig ctx) (TPtr t)) in
      let named_id := match s with TNamed id => Some id | _ => None end in
      let seen := match named_id with Some id => existsb (N.eqb id) (b_seen st) | None => false end in
      let conf := bc_conf ctx in
      let skip := cc_SkipCopySameType conf && ty_eqb s t in   (* the SkipCopy rule handles it inline, however often the type occurs *)
      let seen := seen && negb skip in
      let create :=
        if skip then false
        else if seen then true
        else if negb cur then
          let c := (f_Named e s && negb (f_Basic e s)) || (f_Named e t && negb (f_Basic e t))
                   || (f_Pointer e s && f_Named e (f_PointerInner e s) && negb (f_Basic e (f_PointerInner e s)))
                   || (enum_ok e conf s && enum_ok e conf t) in
          if cc_SkipCopySameType conf && ty_eqb s t then false else c
        else false in
      let tab' := if seen then update_nth (N.to_nat (bc_id ctx)) (set_dirty true) (b_tab st) else b_tab st in
      let seen' := match named_id with Some id => id :: b_seen st | None => b_seen st end in
      GOk (create, {| b_tab := tab'; b_names := b_names st; b_seen := seen'; b_types := b_types st; b_ctor := b_ctor st |}).

  Definition first_rule (hm : ty -> ty -> bool) (conf : mconf) (s t : ty) : option N :=
    find (fun r => x_matches r e hm conf s t) x_build_steps.

  Definition mismatch {A} (s t : ty) : M A :=
    if f_Pointer e s && negb (f_Pointer e t) then fail D_POINTER_MISMATCH else fail D_TYPE_MISMATCH.

  Definition fields_target (t : ty) : ty :=
    if f_Pointer e t && f_Struct e (f_PointerInner e t) then f_PointerInner e t else t.

  (* l-value class of the current source expression (xtype.JenID.Variable plus where it lives):
     0 value expression (call result, cast)   1 variable in local storage (parameter, field of a by-value
     parameter, range variables, temporaries)   2 variable in memory reachable from the caller's value
     (slice element, field behind a pointer)   3 dereference *p (not a JenID variable; its fields/elements are class 2).
     id.Pointer() takes the address of a variable instead of copying it: for class 2 that would alias the source.
     Since fix f2ba6e9 (finding F-C04-2) TargetPointer.Build copies an unconverted source expression that is not a
     plain identifier into a local first, so the address handed out is never one of the source: [aliasing] is
     constantly false (plain identifiers are class 1: parameters and loop variables, copies already). *)
  Definition LV_VALUE : N := 0. Definition LV_LOCAL : N := 1. Definition LV_HEAP : N := 2. Definition LV_DEREF : N := 3.
  Definition lv_field (lv : N) : N := if lv =? LV_DEREF then LV_HEAP else if lv =? LV_VALUE then LV_LOCAL else lv.
  Definition lv_elem (is_slice : bool) (lv : N) : N := if is_slice then LV_HEAP else lv_field lv.
  Definition aliasing (lv : N) (p : vplan) : bool := false.

  (* ---------------- calling methods and custom functions (generator.CallMethod) ---------------- *)
  (* types.AssignableTo for the generated fragment: identical, or identical underlying types with at most one named *)
  Definition assignable (a b : ty) : bool :=
    ty_eqb a b || (ty_eqb (under e a) (under e b) && (negb (f_Named e a) || negb (f_Named e b))).

  Definition origin_path (tab : table) (id : N) : list N :=
    id :: match nth_error tab (N.to_nat id) with Some m => g_origin m | None => [] end.

  (* requireContext: walk the method and the chain of methods that caused it *)
  Fixpoint retro_ctx (need : ty) (path : list N) (tab : table) : option table :=
    match path with
    | [] => Some tab
    | id :: r => match nth_error tab (N.to_nat id) with
                 | None => Some tab
                 | Some m => if existsb (ty_eqb need) (g_ctx m) then retro_ctx need r tab
                             else if g_explicit m then None
                             else retro_ctx need r (update_nth (N.to_nat id) (add_ctx need) tab)
                 end
    end.
  (* generator.signatureChanged: a generated method got a context parameter or an error result: every method is
     regenerated (callers that found it by its signature are not on its origin path) *)
  Definition all_dirty (changed : bool) (tab : table) : table := if changed then map (set_dirty true) tab else tab.
  Definition tab_changed (old new : table) : bool :=
    negb (list_eqb (fun a b => Bool.eqb (g_ret_err a) (g_ret_err b) && (List.length (g_ctx a) =? List.length (g_ctx b))%nat) old new).
  Definition require_context (ctx : bctx) (need : ty) : M bool :=
    fun st => if existsb (ty_eqb need) (bc_context ctx) then GOk (true, st)
              else match retro_ctx need (origin_path (b_tab st) (bc_id ctx)) (b_tab st) with
                   | Some tab => GOk (true, set_tab (all_dirty (tab_changed (b_tab st) tab) tab) st)
                   | None => GOk (false, st)
                   end.

  (* generator.ReturnError *)
  Fixpoint retro_err (path : list N) (tab : table) : option table :=
    match path with
    | [] => Some tab
    | id :: r => match nth_error tab (N.to_nat id) with
                 | None => Some tab
                 | Some m => if g_ret_err m then retro_err r tab
                             else if g_explicit m then None
                             else retro_err r (update_nth (N.to_nat id) add_err tab)
                 end
    end.
  Definition return_error (ctx : bctx) : M bool :=
    fun st => match nth_error (b_tab st) (N.to_nat (bc_id ctx)) with
              | Some m => if g_ret_err m then GOk (true, st)
                          else match retro_err (origin_path (b_tab st) (bc_id ctx)) (b_tab st) with
                               | Some tab => GOk (true, set_tab (all_dirty (tab_changed (b_tab st) tab) tab) st)
                               | None => GOk (false, st)
                               end
              | None => GPanic 2
              end.

  Fixpoint check_args (ctx : bctx) (args : list argsrc) (dsrc : option ty) (s : option ty) : M unit :=
    match args with
    | [] => ret tt
    | ArgConv :: r => check_args ctx r dsrc s
    | ArgCtx t :: r => let! ok := require_context ctx t in if ok then check_args ctx r dsrc s else fail D_CONTEXT_REQUIRED
    | ArgSource :: r => match dsrc, s with
                        | Some ds, Some s' => if assignable s' ds then check_args ctx r dsrc s else fail D_CALL_SOURCE
                        | _, _ => fun _ => GPanic 3      (* source argument without a source expression *)
                        end
    end.

  Definition call_method (ctx : bctx) (c : callee) (args : list argsrc) (dsrc : option ty) (dtgt : ty) (derr : bool)
             (s : option ty) (t : ty) : M vplan :=
    let! _ := check_args ctx args dsrc s in
    if negb (assignable dtgt t) then fail D_CALL_TARGET
    else if derr then (let! ok := return_error ctx in if ok then ret (PCallX c args true) else fail D_ERR_NOT_RETURNED)
    else ret (match c, args with
              | CMeth m, [ArgSource] => PCall m
              | _, _ => PCallX c args false
              end).

  Definition call_fn (ctx : bctx) (f : N) (s : option ty) (t : ty) : M vplan :=
    match fdecl_at f with
    | Some d => call_method ctx (CFn f) (fd_args d) (fd_src d) (fd_tgt d) (fd_err d) s t
    | None => fun _ => GPanic 4
    end.
  Definition call_meth (ctx : bctx) (id : N) (s t : ty) : M vplan :=
    fun st => match nth_error (b_tab st) (N.to_nat id) with
              | Some m => call_method ctx (CMeth id) (ArgSource :: map ArgCtx (g_ctx m)) (Some (g_src m)) (g_tgt m) (g_ret_err m) (Some s) t st
              | None => GPanic 5
              end.

  (* generator.callExisting: extend functions first, then declared / generated methods *)
  Definition call_existing (ctx : bctx) (s t : ty) : M (option vplan) :=
    fun st =>
      let avail := avail_of_tab (b_tab st) ctx in
      match ext_get s t avail with
      | GFound f => (let! p := call_fn ctx f (Some s) t in ret (Some p)) st
      | GUnsat => GDiag D_CONTEXT_UNSAT
      | GAbsent => match tab_get (b_tab st) s t avail with
                   | GFound id => (let! p := call_meth ctx id s t in ret (Some p)) st
                   | GUnsat => GDiag D_CONTEXT_UNSAT
                   | GAbsent => GOk (None, st)
                   end
      end.

  (* builder/default.go buildTargetVar: the variable a BuildByAssign rule fills *)
  Inductive tvar := TVZero | TVCtor (init : vplan) (to_ptr : bool).
  Definition target_var (ctx : bctx) (s t : ty) : M tvar :=
    fun st =>
      if negb (b_ctor st) || negb (ty_eqb (bc_ssig ctx) s) || negb (ty_eqb (bc_tsig ctx) t)
      then (let! _ := note_ty t in ret TVZero) st
      else match m_constructor (bc_conf ctx) with
           | None => GPanic 6
           | Some f =>
             match fdecl_at f with
             | None => GPanic 4
             | Some d =>
               let to_ptr := f_Pointer e t && negb (f_Pointer e (fd_tgt d)) in
               let call_t := if to_ptr then f_PointerInner e t else t in
               (let! p := call_fn ctx f (Some s) call_t in ret (TVCtor p to_ptr)) (set_ctor false st)
             end
           end.
  Definition of_assign (tv : tvar) (t : ty) (a : aplan) : vplan :=
    match tv with TVZero => POfAssign t a | TVCtor init to_ptr => PInit init to_ptr a end.

  (* ---------------- builder/enum.go ---------------- *)
  Definition enum_consts (t : ty) : list (rstr * Z) :=
    match t with TNamed id => match lookup e id with Some d => n_consts d | None => [] end | _ => [] end.
  Definition is_action (s : rstr) : bool := match s with 64 :: _ => true | _ => false end.      (* strings.HasPrefix(s, "@") *)
  Fixpoint str_ltb (a b : rstr) : bool :=
    match a, b with
    | [], [] => false
    | [], _ => true
    | _, [] => false
    | x :: a', y :: b' => (x <? y) || ((x =? y) && str_ltb a' b')
    end.
  Fixpoint insert_sorted (x : rstr * Z) (l : list (rstr * Z)) : list (rstr * Z) :=
    match l with
    | [] => [x]
    | y :: r => if str_ltb (fst x) (fst y) then x :: l else y :: insert_sorted x r
    end.
  Definition sorted_members (ms : list (rstr * Z)) : list (rstr * Z) := fold_left (fun acc x => insert_sorted x acc) ms [].
  Definition member_value (ms : list (rstr * Z)) (name : rstr) : option Z :=
    match find (fun m => rstr_eqb (fst m) name) ms with Some m => Some (snd m) | None => None end.
  Definition map_last (m : list (rstr * rstr)) (k : rstr) : option rstr :=
    match find (fun kv => rstr_eqb (fst kv) k) (rev m) with Some kv => Some (snd kv) | None => None end.

  (* executeTransformers: each transformer keeps the rewritten names that are target members; it must keep at
     least one; later transformers override earlier ones *)
  Fixpoint run_transformers (trs : list (list (rstr * rstr))) (tgt : list (rstr * Z)) (acc : list (rstr * rstr)) : option (list (rstr * rstr)) :=
    match trs with
    | [] => Some acc
    | tr :: r => match filter (fun kv => match member_value tgt (snd kv) with Some _ => true | None => false end) tr with
                 | [] => None
                 | m => run_transformers r tgt (acc ++ m)
                 end
    end.

  (* caseAction *)
  Definition case_action (ctx : bctx) (tgt : list (rstr * Z)) (name : rstr) : M eaction :=
    if is_action name then
      if rstr_eqb name (s2r "@ignore"%string) then ret EAIgnore
      else if rstr_eqb name (s2r "@panic"%string) then ret EAPanic
      else if rstr_eqb name (s2r "@error"%string) then (let! ok := return_error ctx in if ok then ret EAError else fail D_ENUM)
      else fail D_ENUM
    else match member_value tgt name with Some v => ret (EASet v) | None => fail D_ENUM end.

  (* enumTargetMismatches *)
  Definition target_mismatch (tgt : list (rstr * Z)) (prev name : rstr) : bool :=
    if negb (is_action name) && negb (is_action prev)
    then negb (option_eqb Z.eqb (member_value tgt prev) (member_value tgt name))
    else negb (rstr_eqb name prev).

  (* the loop over the source members in name order: (value, source name, target name) of the cases emitted so far *)
  Fixpoint enum_cases (ctx : bctx) (tgt : list (rstr * Z)) (emap tmap : list (rstr * rstr)) (ms : list (rstr * Z))
           (seen : list (Z * rstr)) (acc : list (Z * eaction)) : M (list (Z * eaction)) :=
    match ms with
    | [] => ret (rev acc)
    | (name, v) :: r =>
      let tname := match map_last emap name with
                   | Some x => x
                   | None => match map_last tmap name with Some x => x | None => name end
                   end in
      let! act := case_action ctx tgt tname in
      match find (fun sv => Z.eqb (fst sv) v) seen with
      | Some prev => if target_mismatch tgt (snd prev) tname then fail D_ENUM else enum_cases ctx tgt emap tmap r seen acc
      | None => enum_cases ctx tgt emap tmap r (seen ++ [(v, tname)]) ((v, act) :: acc)
      end
    end.

  Definition build_enum (ctx : bctx) (s t : ty) : M vplan :=
    let! tv := target_var ctx s t in
    let conf := bc_conf ctx in
    let src := enum_consts s in let tgt := enum_consts t in
    let own := ty_eqb (bc_ftarget ctx) t in
    match run_transformers (m_enum_transforms conf) tgt [] with
    | None => fail D_ENUM
    | Some tmap =>
      let! cases := enum_cases ctx tgt (m_enum_map conf) tmap (sorted_members src) [] [] in
      match c_Enum_Unknown (m_common conf) with
      | [] => fail D_ENUM
      | unk =>
        let! dflt := case_action ctx tgt unk in
        (* configured keys that are no source member (only checked on the method's own target) *)
        if own && negb (forallb (fun kv => match member_value src (fst kv) with Some _ => true | None => false end) (m_enum_map conf))
        then fail D_ENUM
        else ret (PEnum (match tv with TVZero => None | TVCtor ip tp => Some (ip, tp) end) t cases dflt)
      end
    end.

  (* ---------------- the mutually recursive core ---------------- *)
  Fixpoint build (fuel : nat) (ctx : bctx) (srcvar : N) (s t : ty) {struct fuel} : M vplan :=
    match fuel with
    | O => fun _ => GFuel
    | S f =>
      let! ex := call_existing ctx s t in
      match ex with
      | Some p => ret p
      | None =>
        let! sub := should_sub ctx s t in
        if sub then create_sub f ctx s t else build_no_lookup f ctx srcvar s t
      end
    end
  with assign (fuel : nat) (ctx : bctx) (must : bool) (srcvar : N) (is_update : bool) (s t : ty) {struct fuel} : M aplan :=
    match fuel with
    | O => fun _ => GFuel
    | S f =>
      if must then (let! p := build f ctx srcvar s t in ret (ASet p))
      else
      let! ex := call_existing ctx s t in
      match ex with
      | Some p => ret (ASet p)
      | None =>
        let! sub := should_sub ctx s t in
        if sub then (let! p := create_sub f ctx s t in ret (ASet p))
        else assign_no_lookup f ctx srcvar is_update s t
      end
    end
  with create_sub (fuel : nat) (ctx : bctx) (s t : ty) {struct fuel} : M vplan :=
    match fuel with
    | O => fun _ => GFuel
    | S f =>
      fun st =>
        let name := fresh_name (b_names st) (unescaped_id e s ++ s2r "To"%string ++ title (unescaped_id e t)) in
        let id := N.of_nat (List.length (b_tab st)) in
        let m := {| g_name := name; g_src := s; g_tgt := t; g_explicit := false; g_dirty := false; g_update := false;
                    g_conf := sub_conf; g_origin := origin_path (b_tab st) (bc_id ctx); g_ctx := []; g_ret_err := false;
                    g_body := None; g_types := [] |} in
        let st1 := {| b_tab := b_tab st ++ [m]; b_names := name :: b_names st; b_seen := []; b_types := []; b_ctor := false |} in
        match build_method f id (bc_avail ctx) st1 with
        | GOk (_, st2) => call_meth ctx id s t {| b_tab := b_tab st2; b_names := b_names st2; b_seen := b_seen st; b_types := b_types st; b_ctor := b_ctor st |}
        | GDiag c => GDiag c | GPanic p => GPanic p | GFuel => GFuel
        end
    end
  with build_method (fuel : nat) (id : N) (avail : N) {struct fuel} : M unit :=
    match fuel with
    | O => fun _ => GFuel
    | S f =>
      fun st =>
      match nth_error (b_tab st) (N.to_nat id) with
      | None => GPanic 1
      | Some m =>
        let ctx := {| bc_id := id; bc_conf := g_conf m; bc_ftarget := fields_target (g_tgt m); bc_ssig := g_src m; bc_tsig := g_tgt m;
                      bc_avail := avail; bc_context := g_ctx m |} in
        let st0 := {| b_tab := b_tab st; b_names := b_names st; b_seen := []; b_types := [g_tgt m; g_src m] ++ g_ctx m;
                      b_ctor := match m_constructor (g_conf m) with Some _ => true | None => false end |} in
        let finish (b : body) (st1 : bst) : gres (unit * bst) :=
          GOk (tt, {| b_tab := update_nth (N.to_nat id) (set_body b (b_types st1)) (b_tab st1); b_names := b_names st1;
                      b_seen := b_seen st; b_types := b_types st; b_ctor := b_ctor st |}) in
        if g_update m then
          (* convertTo *)
          let s := g_src m in let t := g_tgt m in
          if negb (f_Pointer e t && f_Struct e (f_PointerInner e t)) then GDiag D_UPDATE_SHAPE
          else
            let sp := negb (f_Struct e s) in
            if sp && negb (f_Pointer e s && f_Struct e (f_PointerInner e s)) then GDiag D_UPDATE_SHAPE
            else
              let s' := if sp then f_PointerInner e s else s in
              match struct_assign f ctx (if sp then LV_DEREF else LV_LOCAL) false s' (f_PointerInner e t) st0 with
              | GOk (a, st1) => finish (BUpd (if sp then AIfNotNil a else a)) st1
              | GDiag c => GDiag c | GPanic p => GPanic p | GFuel => GFuel
              end
        else
          match ext_get (g_src m) (g_tgt m) (avail_of_tab (b_tab st) ctx) with
          | GFound fi =>
            (* delegateMethod: return f(args) *)
            match fdecl_at fi with
            | None => GPanic 4
            | Some d =>
              if negb (forallb (fun a => match a with ArgCtx t => existsb (ty_eqb t) (g_ctx m) | _ => true end) (fd_args d)) then GPanic 7
              else if fd_err d && negb (g_ret_err m) then GDiag D_DELEGATE_ERR
              else finish (BTail (PCallX (CFn fi) (fd_args d) (fd_err d))) st0
            end
          | GUnsat => GDiag D_CONTEXT_UNSAT
          | GAbsent =>
            match build_no_lookup f ctx LV_LOCAL (g_src m) (g_tgt m) st0 with
            | GOk (p, st1) => finish (BVal p) st1
            | GDiag c => GDiag c | GPanic p => GPanic p | GFuel => GFuel
            end
          end
      end
    end
  with build_no_lookup (fuel : nat) (ctx : bctx) (srcvar : N) (s t : ty) {struct fuel} : M vplan :=
    match fuel with
    | O => fun _ => GFuel
    | S f =>
      fun st =>
      if overlap_check ctx (b_tab st) s t then GDiag D_OVERLAP_SETTINGS
      else
      match first_rule (has_method (b_tab st)) (bc_conf ctx) s t with
      | None => mismatch s t st
      | Some r =>
        (match r with
         | 0 => (* UseUnderlyingTypeMethods *)
           if x_isEnum e (bc_conf ctx) s t then fail D_ENUM
           else let '(su, tu) := x_findUnderlyingExtendMapping e (has_method (b_tab st)) (bc_conf ctx) s t in
                build f ctx LV_VALUE (if su then under e s else s) (if tu then under e t else t)
         | 1 => ret PShare
         | 2 => build_enum ctx s t
         | 3 => let! p := build f ctx srcvar s (f_PointerInner e t) in ret (PRef false p)
         | 4 => if b_ctor st && cc_DefaultUpdate (bc_conf ctx)
                then let! tv := target_var ctx s t in
                     let! a := assign f ctx false LV_DEREF true (f_PointerInner e s) (f_PointerInner e t) in
                     ret (of_assign tv t (AIfNotNil (ADerefTgt a)))
                else let! tv := target_var ctx s t in let! a := assign_no_lookup f ctx srcvar false s t in ret (of_assign tv t a)
         | 5 => if b_ctor st && cc_DefaultUpdate (bc_conf ctx)
                then let! tv := target_var ctx s t in
                     let! a := assign f ctx false LV_DEREF true (f_PointerInner e s) t in
                     ret (of_assign tv t (AIfNotNil a))
                else let! tv := target_var ctx s t in let! a := assign_no_lookup f ctx srcvar false s t in ret (of_assign tv t a)
         | 6 => if b_ctor st
                then let! tv := target_var ctx s t in
                     let! a := assign f ctx false srcvar true s (f_PointerInner e t) in
                     ret (of_assign tv t (ADerefTgt a))
                else let! p := build f ctx srcvar s (f_PointerInner e t) in ret (PRef (aliasing srcvar p) p)
         | 7 => if f_Named e t || f_Named e s then (let! _ := note_ty t in ret PId) else ret PId
         | 8 => if negb (f_Named e s) && negb (f_Named e t) && match struct_fields e s, struct_fields e t with [], [] => true | _, _ => false end
                then ret PId
                else let! tv := target_var ctx s t in let! a := struct_assign f ctx srcvar false s t in ret (of_assign tv t a)
         | 9 => let! _ := note_ty t in let! a := assign_no_lookup f ctx srcvar false s t in
                ret (if f_ListFixed e s then PMakeList (f_ListInner e t) a else POfAssign t a)
         | _ => let! tv := target_var ctx s t in let! a := assign_no_lookup f ctx srcvar false s t in ret (of_assign tv t a)
         end) st
      end
    end
  with assign_no_lookup (fuel : nat) (ctx : bctx) (srcvar : N) (is_update : bool) (s t : ty) {struct fuel} : M aplan :=
    match fuel with
    | O => fun _ => GFuel
    | S f =>
      fun st =>
      if overlap_check ctx (b_tab st) s t then GDiag D_OVERLAP_SETTINGS
      else
      match first_rule (has_method (b_tab st)) (bc_conf ctx) s t with
      | None => mismatch s t st
      | Some r =>
        (match r with
         | 1 => ret (ASet PShare)
         | 4 => let! p := build f ctx LV_DEREF (f_PointerInner e s) (f_PointerInner e t) in ret (APtr p)
         | 5 => let! p := build f ctx LV_DEREF (f_PointerInner e s) t in ret (ASrcPtr p)
         | 8 => struct_assign f ctx srcvar is_update s t
         | 9 => let! _ := (if f_ListFixed e s then ret tt else note_ty t) in
                let! a := assign f ctx false (lv_elem (negb (f_ListFixed e s)) srcvar) false (f_ListInner e s) (f_ListInner e t) in
                ret (AList (f_ListFixed e s) (f_ListInner e t) a)
         | 10 => let! _ := note_ty t in let! k := build f ctx LV_LOCAL (f_MapKey e s) (f_MapKey e t) in
                 let! v := build f ctx LV_LOCAL (f_MapValue e s) (f_MapValue e t) in
                 ret (AMap k v)
         | _ => (* AssignByBuild *) let! p := build_no_lookup f ctx srcvar s t in ret (ASet p)
         end) st
      end
    end
  with struct_assign (fuel : nat) (ctx : bctx) (srcvar : N) (is_update : bool) (s t : ty) {struct fuel} : M aplan :=
    match fuel with
    | O => fun _ => GFuel
    | S f =>
      fun st =>
      (* field settings (autoMap too) only apply to the target struct of the method they are written on *)
      match parse_automap (if ty_eqb (bc_ftarget ctx) t then m_automap (bc_conf ctx) else []) s with
      | GDiag c => GDiag c | GPanic p => GPanic p | GFuel => GFuel
      | GOk additional =>
        let conf := bc_conf ctx in
        let tpkg := struct_pkg e t in
        (* mapField: the selected source part, its type and l-value class; None = skip (ignoreMissing) *)
        let map_field (name : rstr) (fm : fmap) (skip_missing : bool) : M (option (selector * ty * N)) :=
          match fm_source fm with
          | [46] => ret (Some (SelWhole, s, srcvar))
          | src_path =>
            let path_res : gres (option (list rstr)) :=
              match src_path with
              | [] => match find_field name (cc_MatchIgnoreCase conf) s additional with
                      | FFOne p => GOk (Some p)
                      | FFNone => if skip_missing then GOk None else GDiag D_NO_MATCH
                      | FFAmbiguous => GDiag D_AMBIGUOUS
                      end
              | _ => GOk (Some (split_dot src_path))
              end in
            match path_res with
            | GOk None => ret None
            | GOk (Some path) =>
              match walk_path path s false [] with
              | GOk (steps, ft, crossed, None) =>
                if crossed then
                  if f_Pointer e ft then ret (Some (SelPath steps WKeepPtr, ft, LV_LOCAL))
                  else ret (Some (SelPath steps WAddr, TPtr ft, LV_LOCAL))
                else ret (Some (SelPath steps WNone, ft, lv_field srcvar))
              | GOk (steps, recv, crossed, Some fi) =>
                (* the path ends in a method of recv: method.Parse (no source parameters) + CallMethod *)
                match fdecl_at fi with
                | None => fun _ => GPanic 4
                | Some d =>
                  let rd := f_Pointer e recv in
                  let! _ := call_method ctx (CFn fi) (fd_args d) None (fd_tgt d) (fd_err d) None (fd_tgt d) in
                  let fl := fd_err d in
                  let rt := fd_tgt d in
                  if crossed then
                    if f_Pointer e rt then ret (Some (SelMeth steps rd fi (fd_args d) fl WKeepPtr, rt, LV_LOCAL))
                    else ret (Some (SelMeth steps rd fi (fd_args d) fl WAddr, TPtr rt, LV_LOCAL))
                  else ret (Some (SelMeth steps rd fi (fd_args d) fl WNone, rt, LV_LOCAL))
                end
              | GDiag c => fail c | GPanic p => fun _ => GPanic p | GFuel => fun _ => GFuel
              end
            | GDiag c => fail c | GPanic p => fun _ => GPanic p | GFuel => fun _ => GFuel
            end
          end in
        (fix fields (fs : list (rstr * ty)) (defined : list rstr) (acc : list fplan) (st : bst) {struct fs} : gres (aplan * bst) :=
           match fs with
           | [] => match defined with
                   | [] => GOk (AStruct (rev acc), st)
                   | _ => GDiag D_UNKNOWN_FIELD
                   end
           | (name, fty) :: r =>
             let defined' := filter (fun n => negb (rstr_eqb n name)) defined in
             let fm := field_setting ctx t name in
             let noted_of (sel : selector) (ns : ty) (guard : bool) : list ty :=
               (match sel with SelPath _ WNone | SelWhole | SelMeth _ _ _ _ _ WNone => [] | _ => [ns] end) ++ (if guard && zero_renders ns then [ns] else []) in
             if fm_ignore fm then fields r defined' (FSkip :: acc) st
             else if negb (exported name) && cc_IgnoreUnexported conf && match fm_source fm, fm_func fm with [], None => true | _, _ => false end
                  then fields r defined' (FSkip :: acc) st   (* an explicit map onto an unexported field is honoured *)
             else if negb (field_accessible name tpkg out_pkg) then GDiag D_UNEXPORTED
             else match fm_func fm with
             | Some fi =>
               match fdecl_at fi with
               | None => GPanic 4
               | Some d =>
                 match fd_src d with
                 | Some dsrc =>
                   match map_field name fm false st with
                   | GOk (None, _) => GPanic 8
                   | GOk (Some (sel, ns, lv), st1) =>
                     if match fm_source fm with [46] => (srcvar =? LV_DEREF) && assignable dsrc (TPtr s) | _ => false end
                     then GDiag D_UNMODELLED      (* the function receives the enclosing pointer (ParentPointer) *)
                     else
                     match call_fn ctx fi (Some ns) fty st1 with
                     | GOk (p, st2) =>
                       let guard := x_shouldCheckAgainstZero e conf ns fty is_update true in
                       fields r defined' (FCall name (Some sel) guard p :: acc)
                              {| b_tab := b_tab st2; b_names := b_names st2; b_seen := b_seen st2; b_types := noted_of sel ns guard ++ b_types st2; b_ctor := b_ctor st2 |}
                     | GDiag c => GDiag c | GPanic p => GPanic p | GFuel => GFuel
                     end
                   | GDiag c => GDiag c | GPanic p => GPanic p | GFuel => GFuel
                   end
                 | None =>
                   match call_fn ctx fi None fty st with
                   | GOk (p, st2) => fields r defined' (FCall name None false p :: acc) st2
                   | GDiag c => GDiag c | GPanic p => GPanic p | GFuel => GFuel
                   end
                 end
               end
             | None =>
               match map_field name fm (cc_IgnoreMissing conf) st with
               | GOk (None, st1) => fields r defined' (FSkip :: acc) st1
               | GOk (Some (sel, ns, lv), st1) =>
                 let guard := x_shouldCheckAgainstZero e conf ns fty is_update false in
                 match assign f ctx false lv false ns fty {| b_tab := b_tab st1; b_names := b_names st1; b_seen := b_seen st1; b_types := noted_of sel ns guard ++ b_types st1; b_ctor := b_ctor st1 |} with
                 | GOk (a, st') =>
                   fields r defined' (FAssign name sel guard a :: acc) st'
                 | GDiag c => GDiag c | GPanic p => GPanic p | GFuel => GFuel
                 end
               | GDiag c => GDiag c | GPanic p => GPanic p | GFuel => GFuel
               end
             end
           end) (struct_fields e t) (defined_fields ctx t) [] st
      end
    end.

  (* ---------------- converter level ---------------- *)
  (* string order of method names (sort.Slice by Name) *)
  Fixpoint rstr_ltb (a b : rstr) : bool :=
    match a, b with
    | [], [] => false
    | [], _ => true
    | _, [] => false
    | x :: a', y :: b' => (x <? y) || ((x =? y) && rstr_ltb a' b')
    end.
  Fixpoint insert_by_name (tab : table) (id : N) (l : list N) : list N :=
    match l with
    | [] => [id]
    | j :: r =>
      let nm i := match nth_error tab (N.to_nat i) with Some m => g_name m | None => [] end in
      if rstr_ltb (nm id) (nm j) then id :: l else j :: insert_by_name tab id r
    end.
  Definition sorted_ids (tab : table) : list N :=
    fold_left (fun acc i => insert_by_name tab i acc) (map N.of_nat (seq 0 (List.length tab))) [].

  Definition is_dirty (tab : table) (id : N) : bool := match nth_error tab (N.to_nat id) with Some m => g_dirty m | None => false end.

  (* buildDirtyMethods: one pass over the snapshot of methods sorted by name *)
  Fixpoint dirty_pass (fuel : nat) (ids : list N) (st : bst) : gres bst :=
    match ids with
    | [] => GOk st
    | id :: r =>
      if is_dirty (b_tab st) id then
        let st1 := {| b_tab := update_nth (N.to_nat id) (set_dirty false) (b_tab st); b_names := b_names st; b_seen := []; b_types := []; b_ctor := false |} in
        match build_method fuel id id st1 with
        | GOk (_, st2) => dirty_pass fuel r st2
        | GDiag c => GDiag c | GPanic p => GPanic p | GFuel => GFuel
        end
      else dirty_pass fuel r st
    end.

  Fixpoint build_all (passes : nat) (fuel : nat) (st : bst) : gres bst :=
    match passes with
    | O => GFuel
    | S p => if existsb (fun m => g_dirty m) (b_tab st)
             then match dirty_pass fuel (sorted_ids (b_tab st)) st with
                  | GOk st' => build_all p fuel st'
                  | GDiag c => GDiag c | GPanic s => GPanic s | GFuel => GFuel
                  end
             else GOk st
    end.

  (* declared method of a converter *)
  Record decl_method := { dm_name : rstr; dm_src : ty; dm_tgt : ty; dm_update : bool; dm_conf : mconf;
                          dm_ctx : list ty; dm_err : bool }.

  (* setupGenerator: Register rejects a declared method whose signature and contexts overlap with an earlier one
     (either context set contained in the other) *)
  Fixpoint register_all (ms : list decl_method) (tab : table) : gres table :=
    match ms with
    | [] => GOk tab
    | m :: r =>
      if negb (dm_update m) &&
         existsb (fun x => sig_matches x (dm_src m) (dm_tgt m) && (ctx_sub (g_ctx x) (dm_ctx m) || ctx_sub (dm_ctx m) (g_ctx x))) tab
      then GDiag D_OVERLAP_SIGNATURE
      else register_all r (tab ++ [ {| g_name := dm_name m; g_src := dm_src m; g_tgt := dm_tgt m; g_explicit := true; g_dirty := true;
                                       g_update := dm_update m; g_conf := dm_conf m; g_origin := []; g_ctx := dm_ctx m; g_ret_err := dm_err m;
                                       g_body := None; g_types := [] |} ])
    end.

  (* validateMethods: field settings only on struct / struct pointer targets (update methods are not in Exact) *)
  Definition validate (tab : table) : bool :=
    forallb (fun m => negb (g_explicit m && negb (g_update m) && m_raw_field_settings (g_conf m)) ||
                      f_Struct e (g_tgt m) || (f_Pointer e (g_tgt m) && f_Struct e (f_PointerInner e (g_tgt m)))) tab.

  Definition GEN_FUEL : nat := 400.
  Definition GEN_PASSES : nat := 60.

  Definition generate (ms : list decl_method) : gres table :=
    match register_all ms [] with
    | GOk tab =>
      if negb (validate tab) then GDiag D_FIELD_SETTING_TARGET
      else match build_all GEN_PASSES GEN_FUEL {| b_tab := tab; b_names := [s2r "c"%string]; b_seen := []; b_types := []; b_ctor := false |} with
           | GOk st => GOk (b_tab st)
           | GDiag c => GDiag c | GPanic s => GPanic s | GFuel => GFuel
           end
    | GDiag c => GDiag c | GPanic s => GPanic s | GFuel => GFuel
    end.
End gen.
