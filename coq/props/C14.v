(* C14 — parameters/results are classified by role; invalid signatures are rejected.
   Only property statements, each closed by [exact]. *)
From Coq Require Import List Bool Arith.
From GV Require Import Sig SigProofs SigUses.
Import ListNotations.

(* Parse accepts exactly the valid declarations and assigns exactly the specified roles:
   converter-interface / update target / context by their tests, every other parameter a
   source; results: first = target (or none plus optional error for update), optional
   second must be the built-in error; not generic unless allowed; accessible; a function. *)
Theorem C14_classify_spec :
  forall o f, wf o f -> forall d, classify o f = inr d <-> (valid o f = true /\ d = expected f).
Proof. exact classify_spec. Qed.

Theorem C14_rejected_iff :
  forall o f, wf o f -> (exists e, classify o f = inl e) <-> valid o f = false.
Proof. exact rejected_iff. Qed.

(* accepted => one role per parameter in the declared order *)
Theorem C14_order_preserved :
  forall o f d, wf o f -> classify o f = inr d -> Forall2 use_fits (params f) (uses d).
Proof. exact order_preserved. Qed.

(* conversion methods / extend functions: exactly one source *)
Theorem C14_exactly_one_source :
  forall o f d, wf o f -> o_mode o = Required -> o_multi o = false ->
  classify o f = inr d -> count_use USource (uses d) = 1 /\ count_use UMulti (uses d) = 0.
Proof. exact exactly_one_source. Qed.

(* per use, with the options read from the Go call sites (Extracted.v) *)
Theorem C14_converter_method_one_source :
  forall u f d, wf (opts_converter_method u) f -> classify (opts_converter_method u) f = inr d ->
  count_use USource (uses d) = 1 /\ count_use UMulti (uses d) = 0 /\ type_params f = false.
Proof. exact converter_method_one_source. Qed.
Theorem C14_extend_one_source :
  forall f d, wf opts_extend f -> classify opts_extend f = inr d ->
  count_use USource (uses d) = 1 /\ count_use UMulti (uses d) = 0 /\ type_params f = false /\ update d = false.
Proof. exact extend_one_source. Qed.
Theorem C14_map_func_at_most_one_source :
  forall f d, wf opts_map_func f -> classify opts_map_func f = inr d ->
  count_use USource (uses d) <= 1 /\ count_use UMulti (uses d) = 0.
Proof. exact map_func_at_most_one_source. Qed.
Theorem C14_default_at_most_one_source :
  forall f d, wf opts_default f -> classify opts_default f = inr d ->
  count_use USource (uses d) <= 1 /\ count_use UMulti (uses d) = 0.
Proof. exact default_at_most_one_source. Qed.
Theorem C14_struct_method_no_source :
  forall f d, wf opts_struct_method f -> classify opts_struct_method f = inr d ->
  count_use USource (uses d) = 0 /\ count_use UMulti (uses d) = 0.
Proof. exact struct_method_no_source. Qed.

(* variadic functions and methods are rejected (a variadic parameter cannot be fed one source value or one context) *)
Theorem C14_variadic_rejected : forall o f, accessible f = true -> is_func f = true -> variadic f = true -> classify o f = inl EVariadic.
Proof. intros o f A B C. unfold classify. rewrite A, B, C. reflexivity. Qed.

Print Assumptions C14_classify_spec.
Print Assumptions C14_rejected_iff.
Print Assumptions C14_order_preserved.
Print Assumptions C14_exactly_one_source.
Print Assumptions C14_converter_method_one_source.
Print Assumptions C14_extend_one_source.
Print Assumptions C14_map_func_at_most_one_source.
Print Assumptions C14_default_at_most_one_source.
Print Assumptions C14_struct_method_no_source.
Print Assumptions C14_variadic_rejected.
