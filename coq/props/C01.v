(* C01 — successful generation yields code that compiles and implements the declared API.
   Partial by nature (DESIGN 4-C01): "type-checks under the Go compiler" is explored on every
   generated program (compilation + interface assignability); the theorems cover the identifier
   discipline; the emitted function set and import set of the model are compared with the output. *)
From Coq Require Import List NArith Bool String.
From GV Require Import Base Ty Conf Extracted Namer NamerProofs IdFacts.
Import ListNotations.
Open Scope N_scope.

(* for every history of Name / Index / Map / Register operations, on any initial set of used names: the
   identifiers handed out are pairwise distinct, differ from everything in use before, and are recorded *)
Theorem C01_names_fresh : forall ops u ns u', run_ops u ops = Some (ns, u') ->
  NoDup ns /\ (forall n, In n ns -> ~ In n u) /\ (forall n, In n ns \/ In n u -> In n u').
Proof. exact names_fresh. Qed.
(* ... in particular none equals the reserved receiver name "c" *)
Theorem C01_never_the_receiver : forall ops ns u', run_ops new ops = Some (ns, u') -> ~ In THIS ns.
Proof. exact never_the_receiver. Qed.
(* Name terminates: within |used| + 1 candidates one is unused (proved, not fuelled) *)
Theorem C01_name_terminates : forall name u, exists r u', op_name name u = Some (r, u').
Proof. exact name_terminates. Qed.
(* the numbered candidates name, name2, name3, ... are pairwise different *)
Theorem C01_candidates_distinct : forall name i j, cand name i = cand name j -> i = j.
Proof. exact cand_inj. Qed.

(* the base names of temporaries are derived from types (xtype.Type.ID): for every type that is not itself a named
   type, in every environment whose type names are non-empty, that identifier is not a Go keyword
   (before fix 66143db a channel type yielded "chan": finding F-C01-9; named types yield package name + type name) *)
Theorem C01_type_identifier_is_no_keyword : forall e t, wf_env e -> (forall id, t <> TNamed id) -> ~ In (type_id e t) go_keywords.
Proof. exact type_id_no_keyword. Qed.

(* ... and the source agrees with the model on the one kind whose natural name is a keyword (read from asID's AST) *)
Theorem C01_channel_identifier_escaped : x_chan_ids = [s2r "xchan"; s2r "chan"]%string /\
  (forall e i, as_id e true (TOther 2 i) = s2r "xchan"%string) /\ (forall e i, as_id e false (TOther 2 i) = s2r "chan"%string).
Proof. repeat split; reflexivity. Qed.

Print Assumptions C01_names_fresh.
Print Assumptions C01_never_the_receiver.
Print Assumptions C01_name_terminates.
Print Assumptions C01_candidates_distinct.
Print Assumptions C01_type_identifier_is_no_keyword.
Print Assumptions C01_channel_identifier_escaped.
