(* C03 — generation fails early exactly when no lossless rule-defined conversion exists.
   The rule list and every Matches predicate are regenerated from the Go source (Extracted.v);
   the statements below are re-proved against them on every run. *)
From Coq Require Import List NArith Bool.
From GV Require Import Base Ty Conf Extracted Plan Gen GenFacts.
Import ListNotations.
Open Scope N_scope.

(* different basic kinds (int vs int64, string vs int, ...) have no rule: TypeMismatch, nothing emitted *)
Theorem C03_basic_kinds_must_agree : forall e hm conf k1 k2, k1 <> k2 -> first_rule e hm conf (TBasic k1) (TBasic k2) = None.
Proof. exact basic_kind_mismatch. Qed.
Theorem C03_basic_kind_mismatch_fails : forall e cc out exc FT ext sm f ctx lv k1 k2 st, k1 <> k2 ->
  build_no_lookup e cc out exc FT ext sm (S f) ctx lv (TBasic k1) (TBasic k2) st = GDiag D_TYPE_MISMATCH.
Proof. exact gen_basic_kind_mismatch. Qed.
(* ... and equal kinds are accepted *)
Theorem C03_basic_same_kind_accepted : forall e hm conf k,
  first_rule e hm conf (TBasic k) (TBasic k) = Some (if cc_SkipCopySameType conf then 1 else 7).
Proof. exact basic_same_kind. Qed.

(* *T must not become T without useZeroValueOnPointerInconsistency *)
Theorem C03_pointer_to_value_needs_flag : forall e hm conf s t,
  cc_UseZeroValueOnPointerInconsistency conf = false -> (forall id, t <> TNamed id) -> f_Pointer e t = false ->
  first_rule e hm conf (TPtr s) t = None.
Proof. exact ptr_to_value_needs_flag. Qed.
Theorem C03_pointer_to_value_fails_with_hint : forall e cc out exc FT ext sm f ctx lv s t st,
  cc_UseZeroValueOnPointerInconsistency (bc_conf ctx) = false -> (forall id, t <> TNamed id) -> f_Pointer e t = false ->
  build_no_lookup e cc out exc FT ext sm (S f) ctx lv (TPtr s) t st = GDiag D_POINTER_MISMATCH.
Proof. exact gen_ptr_to_value_without_flag. Qed.

(* shapes without a rule *)
Theorem C03_list_to_array_rejected : forall e hm conf s n t,
  f_List e s = true -> (forall id, s <> TNamed id) -> ty_eqb s (TArr n t) = false -> first_rule e hm conf s (TArr n t) = None.
Proof. exact list_to_array_rejected. Qed.
Theorem C03_struct_to_map_rejected : forall e hm conf p fs k v, first_rule e hm conf (TStruct p fs) (TMap k v) = None.
Proof. exact struct_to_map_rejected. Qed.
Theorem C03_map_to_struct_rejected : forall e hm conf p fs k v, first_rule e hm conf (TMap k v) (TStruct p fs) = None.
Proof. exact map_to_struct_rejected. Qed.
(* interface / func / chan: only the identical type with skipCopySameType (or wrapped into a pointer) *)
Theorem C03_interface_func_chan : forall e hm conf k i t,
  (forall id, t <> TNamed id) -> k <= 2 ->
  first_rule e hm conf (TOther k i) t =
  if cc_UseUnderlyingTypeMethods conf && false then Some 0
  else if cc_SkipCopySameType conf && ty_eqb (TOther k i) t then Some 1
  else if f_Pointer e t then Some 6 else None.
Proof. exact other_kinds_rule. Qed.

(* no matching rule => a diagnostic of the documented class, never a plan *)
Theorem C03_no_rule_no_output : forall e cc out exc FT ext sm f ctx lv s t st,
  f_Struct e s && f_Struct e t = false ->
  first_rule e (has_method FT ext (b_tab st)) (bc_conf ctx) s t = None ->
  build_no_lookup e cc out exc FT ext sm (S f) ctx lv s t st =
  GDiag (if f_Pointer e s && negb (f_Pointer e t) then D_POINTER_MISMATCH else D_TYPE_MISMATCH).
Proof. exact no_rule_is_mismatch. Qed.

Print Assumptions C03_basic_kinds_must_agree.
Print Assumptions C03_basic_kind_mismatch_fails.
Print Assumptions C03_basic_same_kind_accepted.
Print Assumptions C03_pointer_to_value_needs_flag.
Print Assumptions C03_pointer_to_value_fails_with_hint.
Print Assumptions C03_list_to_array_rejected.
Print Assumptions C03_struct_to_map_rejected.
Print Assumptions C03_map_to_struct_rejected.
Print Assumptions C03_interface_func_chan.
Print Assumptions C03_no_rule_no_output.
