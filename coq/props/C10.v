(* C10 — update methods write only mapped, non-skipped fields of the target instance. *)
From Coq Require Import List NArith ZArith Bool.
From Coq Require String.
From GV Require Import Base Ty Conf Extracted Val Plan Eval Gen GenFacts EvalFacts.
Import ListNotations.
Open Scope N_scope.

(* a nil source pointer leaves the target untouched *)
Theorem C10_nil_source_pointer_noop : forall e M F f cx a old st, eval_a e M F (S f) cx (AIfNotNil a) VNil old st = Done (old, st).
Proof. exact eval_update_nil_source. Qed.
(* ignored and unmapped target fields keep their previous values *)
Theorem C10_skipped_field_keeps_value : forall ev ea fr src o orr st rs st',
  each_field ev ea (FSkip :: fr) src (o :: orr) st = Done (rs, st') -> exists rs', rs = o :: rs'.
Proof. exact each_field_skip. Qed.
(* a zero-valued source field under a guard leaves the target field unchanged *)
Theorem C10_zero_guard_keeps_value : forall ev ea nm sel a fr src o orr st rs st' s st0,
  sel_eval ev sel src st = Done (s, st0) -> is_zero s = true ->
  each_field ev ea (FAssign nm sel true a :: fr) src (o :: orr) st = Done (rs, st') -> exists rs', rs = o :: rs'.
Proof. exact each_field_zero_guard. Qed.
(* a mapped field without guard is replaced by the conversion of its source part *)
Theorem C10_mapped_field_replaced : forall ev ea nm sel a fr src o orr st rs st' s st0,
  sel_eval ev sel src st = Done (s, st0) ->
  each_field ev ea (FAssign nm sel false a :: fr) src (o :: orr) st = Done (rs, st') ->
  exists v st1 rs', ea a s o st0 = Done (v, st1) /\ rs = v :: rs'.
Proof. exact each_field_unguarded. Qed.

(* which fields get the guard: the decision table of the source, category by category *)
Theorem C10_zero_check_not_update : forall e conf s t call,
  cc_UpdateTarget conf = false -> x_shouldCheckAgainstZero e conf s t false call = false.
Proof. exact zero_check_not_update. Qed.
Theorem C10_zero_check_struct : forall e conf s t upd call,
  cc_UpdateTarget conf = true -> f_Struct e s = true -> cc_IgnoreStructZeroValueField conf = true ->
  x_shouldCheckAgainstZero e conf s t upd call = true.
Proof. exact zero_check_struct. Qed.
Theorem C10_zero_check_basic : forall e conf s t upd call,
  cc_UpdateTarget conf = true -> f_Struct e s = false -> f_Basic e s = true -> cc_IgnoreBasicZeroValueField conf = true ->
  x_shouldCheckAgainstZero e conf s t upd call = true.
Proof. exact zero_check_basic. Qed.
Theorem C10_zero_check_map_chan_func_iface : forall e conf s t upd call,
  cc_UpdateTarget conf = true -> f_Struct e s = false -> f_Basic e s = false -> cc_IgnoreNillableZeroValueField conf = true ->
  (f_Chan e s || f_Map e s || f_Func e s || f_Signature e s || f_Interface e s) = true ->
  x_shouldCheckAgainstZero e conf s t upd call = true.
Proof. exact zero_check_map_chan_func_iface. Qed.
Theorem C10_zero_check_pointer_slice_inline : forall e conf s t upd,
  f_Struct e s = false -> f_Basic e s = false ->
  (f_Chan e s || f_Map e s || f_Func e s || f_Signature e s || f_Interface e s) = false ->
  cc_SkipCopySameType conf = false -> x_shouldCheckAgainstZero e conf s t upd false = false.
Proof. exact zero_check_pointer_slice_inline. Qed.
Theorem C10_zero_check_nothing_selected : forall e conf s t upd call,
  cc_IgnoreStructZeroValueField conf = false -> cc_IgnoreBasicZeroValueField conf = false -> cc_IgnoreNillableZeroValueField conf = false ->
  x_shouldCheckAgainstZero e conf s t upd call = false.
Proof. exact zero_check_nothing_selected. Qed.
(* ... inline pointer / slice conversions keep the old value on nil by their own nil guard *)
Theorem C10_inline_pointer_nil_keeps : forall e M F f cx q old st, eval_a e M F (S f) cx (APtr q) VNil old st = Done (old, st).
Proof. reflexivity. Qed.
Theorem C10_inline_slice_nil_keeps : forall e M F f cx el a old st, eval_a e M F (S f) cx (AList false el a) VNil old st = Done (old, st).
Proof. exact eval_slice_nil. Qed.

(* known deviation F-C10-1 (faithful model): a nillable field converted through a method call is assigned
   unconditionally; a nil source overwrites a non-nil target field although every category is selected *)
Theorem C10_zero_skip_through_call_refuted :
  eval_a [] f_c10_1_table [] 5 [] (AStruct [FAssign [70] (SelPath [(false, 0)] WNone) false (ASet (PCall 0))])
         (VStruct [VNil]) (VStruct [VPtr 7 (VBasic 1)]) 10 = Done (VStruct [VNil], 10).
Proof. exact zero_skip_through_call_refuted. Qed.

(* the frame, for the whole target struct at once: every skipped position keeps its previous value and the struct keeps
   its shape; every guarded position whose selected source part is the zero value keeps its previous value *)
Theorem C10_frame : forall ev ea fs src olds st rs st',
  each_field ev ea fs src olds st = Done (rs, st') ->
  length rs = length olds /\ forall i, nth_error fs i = Some FSkip -> nth_error rs i = nth_error olds i.
Proof. exact each_field_frame. Qed.
Theorem C10_frame_zero_valued : forall ev ea fs src olds st rs st',
  each_field ev ea fs src olds st = Done (rs, st') ->
  forall i nm sel a s, nth_error fs i = Some (FAssign nm sel true a) -> eval_sel sel src = Some s -> is_zero s = true ->
    nth_error rs i = nth_error olds i.
Proof. exact each_field_frame_zero. Qed.

(* the zero check is asked about (source part, target field), in this order, at both of its call sites: the category
   that decides is the one of the SOURCE field (docs/reference/update.md), as in the model's struct_assign *)
Module Sites.
  Import String.
  Theorem C10_zero_check_call_sites :
    x_zero_check_calls = [ map s2r ["ctx"; "nextSource"; "targetFieldType"; "assignTo.Update"; "false"];
                           map s2r ["ctx"; "functionCallSourceType"; "targetFieldType"; "assignTo.Update"; "true"] ]%string.
  Proof. reflexivity. Qed.
End Sites.

Print Assumptions C10_nil_source_pointer_noop.
Print Assumptions Sites.C10_zero_check_call_sites.
Print Assumptions C10_skipped_field_keeps_value.
Print Assumptions C10_zero_guard_keeps_value.
Print Assumptions C10_mapped_field_replaced.
Print Assumptions C10_zero_check_not_update.
Print Assumptions C10_zero_check_struct.
Print Assumptions C10_zero_check_basic.
Print Assumptions C10_zero_check_map_chan_func_iface.
Print Assumptions C10_zero_check_pointer_slice_inline.
Print Assumptions C10_zero_check_nothing_selected.
Print Assumptions C10_inline_pointer_nil_keeps.
Print Assumptions C10_inline_slice_nil_keeps.
Print Assumptions C10_zero_skip_through_call_refuted.
Print Assumptions C10_frame.
Print Assumptions C10_frame_zero_valued.
