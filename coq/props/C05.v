(* C05 — field settings select sources as documented and are never silently dropped. *)
From Coq Require Import List NArith ZArith Bool.
From GV Require Import Base Ty Conf Extracted Val Plan Eval Gen EvalFacts FieldFacts.
Import ListNotations.
Open Scope N_scope.

(* FindField on the source struct: exact name, else (matchIgnoreCase) the unique case-insensitive
   candidate; several candidates are an error; none is NoMatch *)
Theorem C05_find_field_spec : forall e name ic s,
  find_field e name ic s [] =
  let members := struct_fields e s ++ methods_of e s in
  if has_exact name members then FFOne [name]
  else if ic then match fold_names name members with [n] => FFOne [n] | [] => FFNone | _ => FFAmbiguous end
       else FFNone.
Proof. exact find_field_spec. Qed.
Theorem C05_exact_precedence : forall e name s ic,
  has_exact name (struct_fields e s ++ methods_of e s) = true -> find_field e name ic s [] = FFOne [name].
Proof. exact exact_precedence. Qed.
Theorem C05_case_sensitive_by_default : forall e name s,
  has_exact name (struct_fields e s ++ methods_of e s) = false -> find_field e name false s [] = FFNone.
Proof. exact case_sensitive_by_default. Qed.

(* a dotted path through a nil pointer yields nil; '.' is the whole source *)
Theorem C05_nil_on_path : forall steps src w,
  walk steps src = Some None -> w <> WNone -> eval_sel (SelPath steps w) src = Some VNil.
Proof. exact eval_sel_nil_path. Qed.
Theorem C05_dot_is_whole_source : forall src, eval_sel SelWhole src = Some src.
Proof. exact eval_sel_whole. Qed.

(* ignored / unassigned fields keep what the target variable held *)
Theorem C05_skipped_field_untouched : forall ev ea fr src o orr st rs st',
  each_field ev ea (FSkip :: fr) src (o :: orr) st = Done (rs, st') -> exists rs', rs = o :: rs'.
Proof. exact each_field_skip. Qed.

Print Assumptions C05_find_field_spec.
Print Assumptions C05_exact_precedence.
Print Assumptions C05_case_sensitive_by_default.
Print Assumptions C05_nil_on_path.
Print Assumptions C05_dot_is_whole_source.
Print Assumptions C05_skipped_field_untouched.
