(* C18 — generated code is reflection-free, stateless and imports only what it needs. *)
From Coq Require Import List NArith Bool.
From GV Require Import Base Ty Conf Plan Emit.
Import ListNotations.
Open Scope N_scope.

(* the import set of the model never contains the output package itself and has no duplicates *)
Lemma dedup_incl l x : In x (dedup l) -> In x l.
Proof.
  induction l as [|y l IH]; cbn; [auto|]. destruct (existsb (N.eqb y) l); [intros H; right; apply IH; exact H|].
  intros [<-|H]; [left; reflexivity|right; apply IH; exact H].
Qed.
Theorem C18_no_self_import : forall e out tab, ~ In out (imports e out tab).
Proof.
  intros e out tab H. unfold imports in H. apply dedup_incl in H. apply filter_In in H as [_ H].
  rewrite N.eqb_refl in H. discriminate.
Qed.

(* every imported package owns a type the emitted code renders (signature, variable, make, cast, zero literal) *)
Theorem C18_imports_are_used : forall e out tab p, In p (imports e out tab) ->
  exists m t, In m tab /\ In t (g_types m) /\ In p (pkgs_of_ty e t).
Proof.
  intros e out tab p H. unfold imports in H. apply dedup_incl in H. apply filter_In in H as [H _].
  apply in_flat_map in H as [m [Hm H]]. apply in_flat_map in H as [t [Ht H]]. eauto.
Qed.
(* ... and every package owning a rendered type, other than the output package, is imported *)
Lemma dedup_complete l x : In x l -> In x (dedup l).
Proof.
  induction l as [|y l IH]; cbn; [auto|]. intros [<-|H].
  - destruct (existsb (N.eqb y) l) eqn:E; [|left; reflexivity].
    apply existsb_exists in E as [z [Hz Ez]]. apply N.eqb_eq in Ez. subst. apply IH. exact Hz.
  - destruct (existsb (N.eqb y) l); [apply IH; exact H|right; apply IH; exact H].
Qed.
Theorem C18_used_are_imported : forall e out tab m t p,
  In m tab -> In t (g_types m) -> In p (pkgs_of_ty e t) -> p <> out -> In p (imports e out tab).
Proof.
  intros e out tab m t p Hm Ht Hp Hne. unfold imports. apply dedup_complete. apply filter_In. split.
  - apply in_flat_map. exists m. split; [exact Hm|]. apply in_flat_map. exists t. split; assumption.
  - apply negb_true_iff. apply N.eqb_neq. exact Hne.
Qed.

Print Assumptions C18_no_self_import.
Print Assumptions C18_imports_are_used.
Print Assumptions C18_used_are_imported.
