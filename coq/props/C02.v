(* C02 — generated conversions preserve values and nil-ness structurally and never panic.
   Statements about the run-time meaning of the plans the generator model emits (Eval.v);
   the model is tied to the real generator and to the compiled output by the correspondence
   stream core-c02. Only statements, each closed by [exact]. *)
From Coq Require Import List NArith ZArith Bool.
From GV Require Import Base Ty Conf Val Plan Eval EvalFacts AllocFacts PanicFacts.
Import ListNotations.
Open Scope N_scope.

(* basic values are unchanged (only the static type may change) *)
Theorem C02_basic_unchanged : forall e M F f cx z st, eval_v e M F (S f) cx PId (VBasic z) st = Done (VBasic z, st).
Proof. exact eval_id_basic. Qed.

(* pointers: nil converts to nil, non-nil to a non-nil pointer to the conversion of the pointee *)
Theorem C02_pointer_nil : forall e M F f cx t q st,
  eval_v e M F (S (S f)) cx (POfAssign t (APtr q)) VNil st = Done (zero e ZFUEL t, st).
Proof. exact eval_ptr_nil. Qed.
Theorem C02_pointer_nonnil : forall e M F f cx t q a v st,
  eval_v e M F (S (S f)) cx (POfAssign t (APtr q)) (VPtr a v) st =
  match eval_v e M F f cx q v st with
  | Done (r, st1) => Done (VPtr st1 r, st1 + 1)
  | Panicked => Panicked | OutOfFuel => OutOfFuel | Stuck => Stuck | Errored er => Errored er
  end.
Proof. exact eval_ptr_some. Qed.

(* slices: nil stays nil; a non-nil (also empty) slice becomes non-nil with the same length *)
Theorem C02_slice_nil : forall e M F f cx el a old st, eval_a e M F (S f) cx (AList false el a) VNil old st = Done (old, st).
Proof. exact eval_slice_nil. Qed.
Theorem C02_slice_length : forall e M F f cx el a i vs old st v st',
  eval_a e M F (S f) cx (AList false el a) (VSlice i vs) old st = Done (v, st') ->
  exists rs, v = VSlice st rs /\ length rs = length vs.
Proof. exact eval_slice_nonnil. Qed.

(* maps: nil stays nil; a non-nil map becomes non-nil with one entry per source entry *)
Theorem C02_map_nil : forall e M F f cx k v old st, eval_a e M F (S f) cx (AMap k v) VNil old st = Done (old, st).
Proof. exact eval_map_nil. Qed.
Theorem C02_map_entries : forall e M F f cx k v i kvs old st r st',
  eval_a e M F (S f) cx (AMap k v) (VMap i kvs) old st = Done (r, st') ->
  exists rs, r = VMap st rs /\ length rs = length kvs.
Proof. exact eval_map_nonnil. Qed.

(* never panic: the emitted templates have exactly three places that can panic - the loop filling a slice from a fixed
   array without making it (AList true / PMakeList: finding F-C02-1), the dereference of a default FUNC's result
   (ADerefTgt) and an enum switch with the @panic policy. Plans (and method tables) without them never panic: for all
   values, contexts, custom-function tables and fuel. *)
Theorem C02_no_panic : forall e M F, pf_table M -> forall fuel cx,
  np_v (eval_v e M F fuel cx) /\ np_a (eval_a e M F fuel cx).
Proof. exact no_panic. Qed.
(* ... and F-C02-1 is exactly the excluded case: an array filled into a nil slice panics on its first element *)
Theorem C02_array_into_nil_slice_panics : forall e M F f cx el v vs st,
  eval_a e M F (S (S f)) cx (AList true el (ASet PId)) (VArr (v :: vs)) VNil st = Panicked.
Proof. exact array_into_nil_slice_panics. Qed.

Print Assumptions C02_basic_unchanged.
Print Assumptions C02_pointer_nil.
Print Assumptions C02_pointer_nonnil.
Print Assumptions C02_slice_nil.
Print Assumptions C02_slice_length.
Print Assumptions C02_map_nil.
Print Assumptions C02_map_entries.
Print Assumptions C02_no_panic.
Print Assumptions C02_array_into_nil_slice_panics.
