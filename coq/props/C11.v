(* C11 — pointer mismatches and default constructors follow the documented semantics. *)
From Coq Require Import List NArith ZArith Bool.
From GV Require Import Base Ty Conf Extracted Val Plan Eval Gen GenFacts EvalFacts.
Import ListNotations.
Open Scope N_scope.

(* T -> *U: the generator emits "pointer to the conversion of the value" ... *)
Theorem C11_value_to_pointer_plan : forall e cc out exc FT ext sm f ctx lv s t st p st',
  b_ctor st = false ->
  cc_UseUnderlyingTypeMethods (bc_conf ctx) = false -> (forall id, s <> TNamed id) -> f_Pointer e s = false ->
  build_no_lookup e cc out exc FT ext sm (S f) ctx lv s (TPtr t) st = GOk (p, st') ->
  exists al q, p = PRef al q /\ exists st0, build e cc out exc FT ext sm f ctx lv s t st = GOk (q, st0).
Proof. exact gen_value_to_ptr. Qed.
(* ... which evaluates to a non-nil pointer to that conversion *)
Theorem C11_value_to_pointer_nonnil : forall e M F f cx q src st v st',
  eval_v e M F (S f) cx (PRef false q) src st = Done (v, st') ->
  exists a r, v = VPtr a r /\ eval_v e M F f cx q src st = Done (r, a) /\ st' = a + 1.
Proof. exact eval_ref_nonnil. Qed.

(* *T -> U is generated only with the flag ... *)
Theorem C11_pointer_to_value_needs_flag : forall e hm conf s t,
  cc_UseZeroValueOnPointerInconsistency conf = false -> (forall id, t <> TNamed id) -> f_Pointer e t = false ->
  first_rule e hm conf (TPtr s) t = None.
Proof. exact ptr_to_value_needs_flag. Qed.
Theorem C11_pointer_to_value_plan : forall e cc out exc FT ext sm f ctx lv s t st p st',
  b_ctor st = false ->
  cc_UseZeroValueOnPointerInconsistency (bc_conf ctx) = true -> cc_UseUnderlyingTypeMethods (bc_conf ctx) = false ->
  (forall id, t <> TNamed id) -> f_Pointer e t = false ->
  build_no_lookup e cc out exc FT ext sm (S (S f)) ctx lv (TPtr s) t st = GOk (p, st') ->
  exists q, p = POfAssign t (ASrcPtr q) /\ exists st0 st1, b_tab st0 = b_tab st /\ build e cc out exc FT ext sm f ctx LV_DEREF s t st0 = GOk (q, st1).
Proof. exact gen_ptr_to_value_with_flag. Qed.
(* ... and then yields the zero value of U for nil and the conversion of the pointee otherwise *)
Theorem C11_pointer_to_value_nil : forall e M F f cx t q st,
  eval_v e M F (S (S f)) cx (POfAssign t (ASrcPtr q)) VNil st = Done (zero e ZFUEL t, st).
Proof. exact eval_ptr_to_value_nil. Qed.
Theorem C11_pointer_to_value_nonnil : forall e M F f cx t q a v st,
  eval_v e M F (S (S f)) cx (POfAssign t (ASrcPtr q)) (VPtr a v) st = eval_v e M F f cx q v st.
Proof. exact eval_ptr_to_value_some. Qed.

Print Assumptions C11_value_to_pointer_plan.
Print Assumptions C11_value_to_pointer_nonnil.
Print Assumptions C11_pointer_to_value_needs_flag.
Print Assumptions C11_pointer_to_value_plan.
Print Assumptions C11_pointer_to_value_nil.
Print Assumptions C11_pointer_to_value_nonnil.
