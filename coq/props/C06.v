(* C06 — custom functions and declared methods are used wherever their types occur; contexts are passed on
   unchanged and are never sources; a required context that is unavailable makes generation fail. *)
From Coq Require Import List NArith ZArith Bool String.
From GV Require Import Base Ty Conf Extracted Val Plan Eval Sig SigProofs SigUses Funcs Gen CallFacts ErrFacts.
Import ListNotations.
Open Scope N_scope.

(* lookup before any builder rule: an extend function for (S, T) is what Build / Assign yield for S -> T *)
Theorem C06_extend_takes_precedence : forall e cc out exc FT ext sm f ctx lv s t st fi p st',
  ext_get FT ext s t (avail_of_tab (b_tab st) ctx) = GFound fi ->
  build e cc out exc FT ext sm (S f) ctx lv s t st = GOk (p, st') -> calls (CFn fi) p.
Proof. exact extend_takes_precedence. Qed.
Theorem C06_extend_takes_precedence_assign : forall e cc out exc FT ext sm f ctx lv u s t st fi a st',
  ext_get FT ext s t (avail_of_tab (b_tab st) ctx) = GFound fi ->
  assign e cc out exc FT ext sm (S f) ctx false lv u s t st = GOk (a, st') -> exists p, a = ASet p /\ calls (CFn fi) p.
Proof. exact extend_takes_precedence_assign. Qed.
(* ... then a declared or already generated method with that signature *)
Theorem C06_method_takes_precedence : forall e cc out exc FT ext sm f ctx lv s t st id p st',
  ext_get FT ext s t (avail_of_tab (b_tab st) ctx) = GAbsent ->
  tab_get (b_tab st) s t (avail_of_tab (b_tab st) ctx) = GFound id ->
  build e cc out exc FT ext sm (S f) ctx lv s t st = GOk (p, st') -> calls (CMeth id) p.
Proof. exact method_takes_precedence. Qed.
Theorem C06_lookup_sound : forall tab s t avail id,
  tab_get tab s t avail = GFound id ->
  exists m, nth_error tab (N.to_nat id) = Some m /\ sig_matches m s t = true /\ ctx_sub (g_ctx m) avail = true.
Proof. exact tab_get_sound. Qed.

(* the call yields exactly the function's result (a function of the function, the source and the contexts only) *)
Theorem C06_call_yields_function_result : forall e M F f cx fi args fl src st fd,
  args_ok cx args = true -> nth_error F (N.to_nat fi) = Some fd ->
  fd_err fd && fn_fails fi (match fd_src fd with Some _ => leaf0 src | None => 0%Z end) = false ->
  exists v st1, eval_v e M F (S f) cx (PCallX (CFn fi) args fl) src st = Done (v, st1).
Proof. exact call_succeeds. Qed.

(* the predicate behind useUnderlyingTypeMethods asks whether a function / method with the signature EXISTS
   (regardless of contexts: a function whose contexts are unavailable must make generation fail, not be skipped);
   its expression is read from the source and is what Gen.has_method models *)
Theorem C06_has_method_by_signature_only : x_hasmethod_expr = s2r "extend.Has||lookup.Has"%string.
Proof. reflexivity. Qed.
Theorem C06_has_method_model : forall FT ext tab s t,
  has_method FT ext tab s t = existsb (fun f => fn_sig_matches FT f s t) ext || existsb (fun m => sig_matches m s t) tab.
Proof. reflexivity. Qed.

(* contexts: unavailable => generation fails; available => handed on unchanged *)
Theorem C06_unavailable_context_fails_lookup : forall e cc out exc FT ext sm f ctx lv s t st,
  ext_get FT ext s t (avail_of_tab (b_tab st) ctx) = GUnsat ->
  build e cc out exc FT ext sm (S f) ctx lv s t st = GDiag D_CONTEXT_UNSAT.
Proof. exact extend_without_context_fails. Qed.
Theorem C06_missing_context_on_declared_method_fails : forall e ctx need st m r dsrc s0,
  existsb (ty_eqb need) (bc_context ctx) = false ->
  nth_error (b_tab st) (N.to_nat (bc_id ctx)) = Some m -> g_explicit m = true -> existsb (ty_eqb need) (g_ctx m) = false ->
  check_args e ctx (ArgCtx need :: r) dsrc s0 st = GDiag D_CONTEXT_REQUIRED.
Proof. exact missing_context_on_declared_method_fails. Qed.
Theorem C06_context_passed_unchanged : forall cx ts t t0 v,
  find (fun kv => ty_eqb (fst kv) t) (map (fun t1 => (t1, ctx_get cx t1)) ts) = Some (t0, v) ->
  In t0 ts /\ ty_eqb t0 t = true /\ v = ctx_get cx t0.
Proof. exact ctx_passed_on. Qed.
Theorem C06_context_value_unchanged : forall cx ts t, existsb (ty_eqb t) ts = true ->
  ctx_get (map (fun t1 => (t1, ctx_get cx t1)) ts) t = ctx_get cx t.
Proof. exact ctx_value_unchanged. Qed.
(* a context parameter is never the source: an accepted extend function has exactly one source parameter, and
   it is not one of the parameters classified as context *)
Theorem C06_extend_has_one_source : forall f d, wf opts_extend f -> classify opts_extend f = inr d ->
  count_use USource (uses d) = 1%nat /\ count_use UMulti (uses d) = 0%nat /\ type_params f = false /\ update d = false.
Proof. exact extend_one_source. Qed.

Print Assumptions C06_extend_takes_precedence.
Print Assumptions C06_extend_takes_precedence_assign.
Print Assumptions C06_method_takes_precedence.
Print Assumptions C06_lookup_sound.
Print Assumptions C06_has_method_by_signature_only.
Print Assumptions C06_has_method_model.
Print Assumptions C06_call_yields_function_result.
Print Assumptions C06_unavailable_context_fails_lookup.
Print Assumptions C06_missing_context_on_declared_method_fails.
Print Assumptions C06_context_passed_unchanged.
Print Assumptions C06_context_value_unchanged.
Print Assumptions C06_extend_has_one_source.
