(* C13 — goverter never panics or hangs; every input ends in output or a diagnostic.
   Partial by nature (DESIGN 4-C13): theorems cover the diagnostic renderer, the settings front
   end and the inventory of explicit panic sites; the generator is fuzzed under recover. *)
From Coq Require Import List ZArith NArith Bool String.
From GV Require Import Base Ty Conf Extracted Comment Settings SettingsProofs ErrFmt ErrFmtProofs.
Import ListNotations.

(* builder.space clamps negative counts (read from the source) ... *)
Theorem C13_space_is_guarded : x_space_clamps = true.
Proof. reflexivity. Qed.
(* ... hence rendering a diagnostic with a non-empty path (Lift always adds an element) never panics *)
Theorem C13_to_string_total : forall ps, ps <> [] -> panics x_space_clamps ps = false.
Proof. unfold x_space_clamps. exact to_string_total. Qed.
(* the guard is necessary: without it the path built for `goverter:autoMap .` panics (F-C13-3) *)
Theorem C13_unguarded_refuted : panics false witness = true.
Proof. exact unguarded_refuted. Qed.
(* and sufficient condition without the guard: every element carrying a type has a non-empty id *)
Theorem C13_unguarded_total_on_good : forall ps, ps <> [] -> Forall good ps -> panics false ps = false.
Proof. exact unguarded_total_on_good. Qed.

(* the settings front end is total: a record or a diagnostic, never a panic *)
Theorem C13_converter_settings_total : forall global conv s, converter_smap global conv <> Panic s.
Proof. exact converter_settings_total. Qed.

(* inventory of explicit panic( calls in the sources: a new one breaks this statement *)
Theorem C13_panic_sites_known :
  x_panic_sites = map s2r [
    "builder/error.go:ToString"; "cli/run.go:Run";
    "generator/generator.go:CallMethod"; "generator/generator.go:CallMethod";
    "generator/generator.go:buildMethod"; "generator/generator.go:buildMethod";
    "generator/generator.go:delegateMethod"; "generator/generator.go:delegateMethod";
    "xtype/tocode.go:toChan"; "xtype/tocode.go:toCode"; "xtype/tocode.go:toCodeBasic";
    "xtype/type.go:applyTo"; "xtype/type.go:findAllFields"; "xtype/zero.go:ZeroValue"; "xtype/zero.go:ZeroValue" ]%string.
Proof. reflexivity. Qed.

Print Assumptions C13_space_is_guarded.
Print Assumptions C13_to_string_total.
Print Assumptions C13_unguarded_refuted.
Print Assumptions C13_unguarded_total_on_good.
Print Assumptions C13_converter_settings_total.
Print Assumptions C13_panic_sites_known.
