(* C19 — exactly the goverter: lines of attached doc comments are settings, in order.
   Only property statements, each closed by [exact]. *)
From Coq Require Import List NArith Bool.
From GV Require Import Base Extracted Comment CommentProofs Markers MarkersProofs.
Import ListNotations.
Open Scope N_scope.

(* SettingLines (CommentToString g) is, as a list (same lines, same order), the
   prefix-filtered trimmed logical lines of the attached comment group: first-space
   stripping, trailing-whitespace stripping, blank-line compaction, the final
   newline and the line scanner never add, drop or reorder a setting line. *)
Theorem C19_setting_lines_spec :
  forall g, Forall well_lexed g -> setting_lines (comment_to_string g) = spec g.
Proof. exact setting_lines_spec. Qed.

(* command / value: split at the first space *)
Theorem C19_command_split :
  forall v a b, command v = (a, b) -> ~ In SP a /\ (v = a ++ SP :: b \/ (v = a /\ b = [])).
Proof. exact command_split. Qed.

(* a general declaration yields a converter iff an attached doc comment carries a marker *)
Theorem C19_converter_iff_marked :
  forall d cs, parse_gen_decl d = Ok cs -> (cs <> [] <-> decl_marked d = true).
Proof. exact converter_iff_marked. Qed.

(* markers on the wrong kind of general declaration are errors *)
Theorem C19_variables_marker_wrong_kind :
  forall d, has_marker x_variables_marker (d_doc d) = true -> d_tok d <> TVar -> parse_gen_decl d = Diag E_VARS_NOT_VAR.
Proof. exact variables_marker_wrong_kind. Qed.
Theorem C19_converter_marker_wrong_kind :
  forall d, has_marker x_variables_marker (d_doc d) = false -> has_marker x_converter_marker (d_doc d) = true ->
  d_tok d <> TType -> parse_gen_decl d = Diag E_CONV_NOT_TYPE.
Proof. exact converter_marker_wrong_kind. Qed.
Theorem C19_converter_marker_on_non_interface :
  forall d s, has_marker x_variables_marker (d_doc d) = false -> has_marker x_converter_marker (d_doc d) = false ->
  In s (d_specs d) -> spec_marked s = true -> s_shape s = STypeOther -> exists c, parse_gen_decl d = Diag c.
Proof. exact converter_marker_on_non_interface. Qed.

(* the lines handed on are those of the attached docs, per method in source order *)
Theorem C19_variables_lines :
  forall d c, Forall well_lexed (d_doc d) -> has_marker x_variables_marker (d_doc d) = true ->
  parse_gen_decl d = Ok [c] -> rc_lines c = spec (d_doc d).
Proof. exact variables_lines. Qed.
Theorem C19_method_lines :
  forall ms methods, Forall (fun m => Forall well_lexed (m_doc m)) ms ->
  map_res parse_method ms = Ok methods -> map snd methods = map (fun m => spec (m_doc m)) ms.
Proof. exact method_lines. Qed.

(* a marker on a func declaration is an error; without marker a func declaration contributes nothing *)
Theorem C19_funcdecl_marker :
  forall doc, parse_decl (DFunc doc) =
  if has_marker x_converter_marker doc || has_marker x_variables_marker doc then Diag E_ON_FUNC else Ok [].
Proof. exact funcdecl_marker. Qed.

Print Assumptions C19_setting_lines_spec.
Print Assumptions C19_command_split.
Print Assumptions C19_converter_iff_marked.
Print Assumptions C19_variables_marker_wrong_kind.
Print Assumptions C19_converter_marker_wrong_kind.
Print Assumptions C19_converter_marker_on_non_interface.
Print Assumptions C19_variables_lines.
Print Assumptions C19_method_lines.
Print Assumptions C19_funcdecl_marker.
