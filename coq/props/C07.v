(* C07 — errors of custom functions always propagate, with an accurate location path. *)
From Coq Require Import List NArith ZArith Bool.
From GV Require Import Base Ty Conf Extracted Val Plan Eval Gen CallFacts ErrFacts.
Import ListNotations.
Open Scope N_scope.

(* a failing function makes its call site fail with that function's error ... *)
Theorem C07_failing_call_errors : forall e M F f cx fi args fl src st fd,
  args_ok cx args = true -> nth_error F (N.to_nat fi) = Some fd -> fd_err fd = true ->
  fn_fails fi (match fd_src fd with Some _ => leaf0 src | None => 0%Z end) = true ->
  eval_v e M F (S f) cx (PCallX (CFn fi) args fl) src st = Errored {| er_fn := fi; er_wraps := []; er_pending := [] |}.
Proof. exact call_fails. Qed.
(* ... and every error that leaves a conversion, at any depth, is the error of a fallible custom function *)
Theorem C07_errors_originate : forall e M F fuel cx,
  prov_v F (eval_v e M F fuel cx) /\ prov_a F (eval_a e M F fuel cx).
Proof. exact errors_originate. Qed.

(* location: the element added while leaving a slice / map / struct is the index / source key / target field
   of the failing element, and everything before it had succeeded *)
Theorem C07_index_is_failing_position : forall ea a srcs i olds st er',
  each_assign ea i a srcs olds st = Errored er' ->
  exists k s o st0 er, nth_error srcs k = Some s /\
                       (nth_error olds k = Some o \/ (nth_error olds k = None /\ o = VNil)) /\   (* second case: F-C02-1, the slot does not exist *)
                       ea a s o st0 = Errored er /\ er' = push_elem (DIndex (i + N.of_nat k)) er.
Proof. exact each_assign_error. Qed.
Theorem C07_key_is_source_key : forall ev k v kvs st er',
  each_entry ev k v kvs st = Errored er' ->
  exists k0 v0 st0 er, In (k0, v0) kvs /\ (ev k k0 st0 = Errored er \/ ev v v0 st0 = Errored er) /\
                       er' = push_elem (DKey (match k0 with VBasic z => z | _ => 0%Z end)) er.
Proof. exact each_entry_error. Qed.
Theorem C07_field_is_target_field : forall ev ea fs src olds st er',
  each_field ev ea fs src olds st = Errored er' ->
  exists f n er, In f fs /\ fplan_name f = Some n /\ er' = push_elem (DField n) er.
Proof. exact each_field_error. Qed.
(* the pending location reads outermost first *)
Theorem C07_path_outermost_first : forall d er, er_pending (push_elem d er) = d :: er_pending er.
Proof. exact push_elem_pending. Qed.

(* wrap modes *)
Theorem C07_wrapErrorsUsing_records_whole_path : forall er,
  finalize 2 er = {| er_fn := er_fn er; er_wraps := er_pending er :: er_wraps er; er_pending := [] |}.
Proof. exact finalize_using. Qed.
Theorem C07_wrapErrors_innermost_field : forall er pre n, er_pending er = pre ++ [DField n] ->
  finalize 1 er = {| er_fn := er_fn er; er_wraps := [DField n] :: er_wraps er; er_pending := [] |}.
Proof. exact finalize_wrap_field. Qed.
Theorem C07_wrapErrors_innermost_index : forall er pre i, er_pending er = pre ++ [DIndex i] ->
  finalize 1 er = {| er_fn := er_fn er; er_wraps := [DIndex i] :: er_wraps er; er_pending := [] |}.
Proof. exact finalize_wrap_index. Qed.
Theorem C07_wrapErrors_no_wrap_for_key : forall er pre k, er_pending er = pre ++ [DKey k] ->
  finalize 1 er = {| er_fn := er_fn er; er_wraps := er_wraps er; er_pending := [] |}.
Proof. exact finalize_wrap_key. Qed.
Theorem C07_wrapping_keeps_the_error : forall mode er, er_fn (finalize mode er) = er_fn er.
Proof. exact finalize_fn. Qed.

(* refusal: a declared method without error result cannot use a fallible function *)
Theorem C07_declared_method_without_error_refused : forall e ctx c args dsrc dtgt s t st m u st1,
  check_args e ctx args dsrc s st = GOk (u, st1) -> assignable e dtgt t = true ->
  nth_error (b_tab st1) (N.to_nat (bc_id ctx)) = Some m -> g_explicit m = true -> g_ret_err m = false ->
  call_method e ctx c args dsrc dtgt true s t st = GDiag D_ERR_NOT_RETURNED.
Proof. exact fallible_call_in_declared_method_without_error_fails. Qed.

(* both calls of mapField (plain field, map SRC F | FUNC) hand it the error path of the FIELD being set, so an error of a
   fallible struct method or of a path element is located at that field (finding of seed C07-b) *)
Module Sites.
  Import String.
  Theorem C07_mapfield_gets_the_field_path :
    map (fun args => last args []) x_mapfield_calls = map s2r ["targetFieldPath"; "targetFieldPath"]%string.
  Proof. reflexivity. Qed.
End Sites.

Print Assumptions Sites.C07_mapfield_gets_the_field_path.
Print Assumptions C07_failing_call_errors.
Print Assumptions C07_errors_originate.
Print Assumptions C07_index_is_failing_position.
Print Assumptions C07_key_is_source_key.
Print Assumptions C07_field_is_target_field.
Print Assumptions C07_path_outermost_first.
Print Assumptions C07_wrapErrorsUsing_records_whole_path.
Print Assumptions C07_wrapErrors_innermost_field.
Print Assumptions C07_wrapErrors_innermost_index.
Print Assumptions C07_wrapErrors_no_wrap_for_key.
Print Assumptions C07_wrapping_keeps_the_error.
Print Assumptions C07_declared_method_without_error_refused.
