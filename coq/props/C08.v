(* C08 — enum conversion is a total name-driven mapping with the configured unknown-value policy. *)
From Coq Require Import List NArith ZArith Bool String.
From GV Require Import Base Ty Conf Extracted Val Plan Eval Gen EnumFacts.
Import ListNotations.
Open Scope N_scope.

(* generation: the emitted switch has a case for the value of EVERY declared source member, and every case
   carries what the name-driven mapping selects for a member: enum:map, else the transformers, else the same name *)
Theorem C08_switch_total_and_name_driven : forall ctx tgt emap tmap ms st cs st',
  enum_cases ctx tgt emap tmap ms [] [] st = GOk (cs, st') ->
  (forall n v, In (n, v) ms -> In v (map fst cs)) /\
  (forall v a, In (v, a) cs -> exists n, action_of tgt (target_name emap tmap n) = Some a).
Proof. exact enum_switch_total. Qed.
(* a source member whose target name is neither an action nor a member of the target enum: generation fails *)
Theorem C08_member_without_target_fails : forall ctx tgt name st,
  is_action name = false -> member_value tgt name = None -> case_action ctx tgt name st = GDiag D_ENUM.
Proof. exact case_action_missing. Qed.
Theorem C08_invalid_action_fails : forall ctx tgt name st,
  is_action name = true -> action_of tgt name = None -> case_action ctx tgt name st = GDiag D_ENUM.
Proof. exact case_action_invalid_action. Qed.
(* members with equal values must agree (same target value, or the same action) *)
Theorem C08_equal_values_must_agree : forall ctx tgt emap tmap name v r seen acc st act st1 prev,
  case_action ctx tgt (target_name emap tmap name) st = GOk (act, st1) ->
  find (fun sv => Z.eqb (fst sv) v) seen = Some prev ->
  target_mismatch tgt (snd prev) (target_name emap tmap name) = true ->
  enum_cases ctx tgt emap tmap ((name, v) :: r) seen acc st = GDiag D_ENUM.
Proof. exact equal_values_must_agree. Qed.
Theorem C08_disagree_means_different_values : forall tgt a b va vb,
  is_action a = false -> is_action b = false -> member_value tgt a = Some va -> member_value tgt b = Some vb ->
  target_mismatch tgt a b = negb (Z.eqb va vb).
Proof. exact mismatch_means_different_values. Qed.
(* enum:unknown must be configured; a configured key must exist; a transformer must map something *)
Theorem C08_unknown_required : forall e FT ctx s t st tv st1 tmap cs st2,
  target_var e FT ctx s t st = GOk (tv, st1) ->
  run_transformers (m_enum_transforms (bc_conf ctx)) (enum_consts e t) [] = Some tmap ->
  enum_cases ctx (enum_consts e t) (m_enum_map (bc_conf ctx)) tmap (sorted_members (enum_consts e s)) [] [] st1 = GOk (cs, st2) ->
  c_Enum_Unknown (m_common (bc_conf ctx)) = [] ->
  build_enum e FT ctx s t st = GDiag D_ENUM.
Proof. exact build_enum_needs_unknown. Qed.
Theorem C08_configured_key_must_exist : forall e FT ctx s t st tv st1 tmap cs st2 d st3,
  target_var e FT ctx s t st = GOk (tv, st1) ->
  run_transformers (m_enum_transforms (bc_conf ctx)) (enum_consts e t) [] = Some tmap ->
  enum_cases ctx (enum_consts e t) (m_enum_map (bc_conf ctx)) tmap (sorted_members (enum_consts e s)) [] [] st1 = GOk (cs, st2) ->
  c_Enum_Unknown (m_common (bc_conf ctx)) <> [] ->
  case_action ctx (enum_consts e t) (c_Enum_Unknown (m_common (bc_conf ctx))) st2 = GOk (d, st3) ->
  ty_eqb (bc_ftarget ctx) t = true ->
  forallb (fun kv => match member_value (enum_consts e s) (fst kv) with Some _ => true | None => false end) (m_enum_map (bc_conf ctx)) = false ->
  build_enum e FT ctx s t st = GDiag D_ENUM.
Proof. exact build_enum_unknown_key. Qed.

(* run time: a declared member value takes its case; every other value follows enum:unknown exactly *)
Theorem C08_member_value_takes_its_case : forall cases d z a,
  find (fun c => Z.eqb (fst c) z) cases = Some (z, a) -> enum_action cases d z = a.
Proof. exact enum_action_member. Qed.
Theorem C08_switch_semantics : forall e M F f cx t cases d z st,
  eval_v e M F (S f) cx (PEnum None t cases d) (VBasic z) st =
  match enum_action cases d z with
  | EASet v => Done (VBasic v, st)
  | EAIgnore => Done (zero e ZFUEL t, st)
  | EAPanic => Panicked
  | EAError => Errored {| er_fn := ENUM_ERR; er_wraps := []; er_pending := [] |}
  end.
Proof. exact eval_enum. Qed.
Theorem C08_unknown_value_follows_policy : forall e M F f cx t cases d z st,
  (forall c, In c cases -> fst c <> z) ->
  eval_v e M F (S f) cx (PEnum None t cases d) (VBasic z) st =
  match d with
  | EASet v => Done (VBasic v, st)
  | EAIgnore => Done (zero e ZFUEL t, st)
  | EAPanic => Panicked
  | EAError => Errored {| er_fn := ENUM_ERR; er_wraps := []; er_pending := [] |}
  end.
Proof. exact unknown_value_follows_policy. Qed.

Print Assumptions C08_switch_total_and_name_driven.
Print Assumptions C08_member_without_target_fails.
Print Assumptions C08_invalid_action_fails.
Print Assumptions C08_equal_values_must_agree.
Print Assumptions C08_disagree_means_different_values.
Print Assumptions C08_unknown_required.
Print Assumptions C08_configured_key_must_exist.
Print Assumptions C08_member_value_takes_its_case.
Print Assumptions C08_switch_semantics.
Print Assumptions C08_unknown_value_follows_policy.
