(* C15 — each converter lands in the configured file and package; nothing else is written. *)
From Coq Require Import List NArith Bool String.
From GV Require Import Base Ty Conf Extracted Paths PathsProofs Cli ToolProofs.
Import ListNotations.
Open Scope N_scope.

(* output:file: absolute paths are kept, relative ones are relative to the declaring file, @cwd/ is under the working directory *)
Theorem C15_output_abs_kept : forall f o, is_abs o = true -> output_path f o = o.
Proof. exact output_abs_kept. Qed.
Theorem C15_output_relative_to_declaring_file : forall f o, is_abs o = false -> output_path f o = join [dir f; o].
Proof. exact output_relative_to_declaring_file. Qed.
Theorem C15_cwd_prefix : forall cwd r, parse_file cwd (CWD_PREFIX ++ r) = join [cwd; r].
Proof. exact cwd_prefix. Qed.
Theorem C15_default_interface_output :
  output_path (s2r "/m/p/conv.go"%string) DEFAULT_INTERFACE_OUTPUT = s2r "/m/p/generated/generated.go"%string.
Proof. exact default_interface_output. Qed.
Theorem C15_default_variables_output : default_output_file (s2r "/m/p/vars.go"%string) = s2r "vars.gen.go"%string.
Proof. exact default_variables_output. Qed.

(* the package path computed from the import path agrees with the directory computed from the file path *)
Theorem C15_pkg_path_arith : forall (root modp relp o : list rstr),
  forallb normal root = true -> forallb normal modp = true -> forallb normal relp = true ->
  stays o (List.length relp) = true ->
  let X := clean_segs false o (rev relp) in
  clean_segs true (root ++ relp ++ o) [] = root ++ X /\ clean_segs false (modp ++ relp ++ o) [] = modp ++ X.
Proof. exact pkg_path_arith. Qed.

(* package clause: output:package name, else the existing package, else the normalised directory name *)
Theorem C15_package_clause_configured : forall n ex p, n <> [] -> package_clause n ex p = n.
Proof. exact package_clause_configured. Qed.
Theorem C15_package_clause_existing : forall ex p, package_clause [] (Some ex) p = ex.
Proof. exact package_clause_existing. Qed.
Theorem C15_package_clause_inferred : forall p, package_clause [] None p = guess_alias p.
Proof. exact package_clause_inferred. Qed.
Theorem C15_inferred_name_is_identifier : forall path,
  let a := guess_alias path in
  a <> [] /\ Forall (fun c => is_alnum c = true) a /\ match a with c :: _ => ((48 <=? c) && (c <=? 57)) = false | [] => True end.
Proof. exact guess_alias_identifier. Qed.

(* nothing but the selected output paths is touched; new files get mode 0644 *)
Theorem C15_untouched_elsewhere : forall g fs p,
  (forall q c, In (Some (q, c)) g -> rstr_eqb q p = false) -> fs_get (fst (run_generate g fs)) p = fs_get fs p.
Proof. exact untouched_elsewhere. Qed.
Theorem C15_new_file_mode : forall fs p c, fs_get fs p = None -> fs_get (fs_write fs p c) p = Some (c, 420).
Proof. exact new_file_mode. Qed.
Theorem C15_modes_from_source : x_file_mode = 420 /\ x_dir_mode = 493.
Proof. split; reflexivity. Qed.

(* converters that select the same file must agree on the package: the generator keys a file by the identity
   "path" / "path:name" (read from the source: the selector compared in fileManager.Get), and two identities
   agree exactly when path and name agree *)
Theorem C15_shared_file_identity_is_package_id : x_filemanager_identity = s2r "PackageID"%string.
Proof. reflexivity. Qed.
Theorem C15_same_file_needs_same_package : forall a b, no_colon (fst a) -> no_colon (fst b) ->
  same_file_accepts a b = true <-> (fst a = fst b /\ snd a = snd b).
Proof. exact same_file_needs_same_package. Qed.

Print Assumptions C15_output_abs_kept.
Print Assumptions C15_output_relative_to_declaring_file.
Print Assumptions C15_cwd_prefix.
Print Assumptions C15_default_interface_output.
Print Assumptions C15_default_variables_output.
Print Assumptions C15_pkg_path_arith.
Print Assumptions C15_package_clause_configured.
Print Assumptions C15_package_clause_existing.
Print Assumptions C15_package_clause_inferred.
Print Assumptions C15_inferred_name_is_identifier.
Print Assumptions C15_untouched_elsewhere.
Print Assumptions C15_new_file_mode.
Print Assumptions C15_modes_from_source.
Print Assumptions C15_shared_file_identity_is_package_id.
Print Assumptions C15_same_file_needs_same_package.
