(* C12 — settings resolve method > converter > CLI and are validated where written.
   The key tables of parseCommon / parseConverterLine / parseMethodLine are regenerated from
   the Go source (Extracted.v); only statements, each closed by [exact]. *)
From Coq Require Import List NArith Bool String.
From GV Require Import Base Ty Conf Extracted Comment Settings SettingsProofs.
Import ListNotations.
Open Scope N_scope.

(* the value in effect for a declared method, for EVERY field of the settings record: the last line
   carrying it on the method, else on the converter, else among the -g lines, else the default *)
Theorem C12_precedence : forall global conv meth r f,
  method_smap global conv meth = Ok r ->
  sget r f = effective meth_line_value meth f
               (effective conv_line_value conv f
                  (effective conv_line_value global f (sget default_smap f))).
Proof. exact precedence. Qed.

(* generated sub-methods receive the converter-level record *)
Theorem C12_converter_record : forall global conv r f,
  converter_smap global conv = Ok r ->
  sget r f = effective conv_line_value conv f (effective conv_line_value global f (sget default_smap f)).
Proof. exact converter_record. Qed.

(* a bare setting or yes enables, no disables, anything else is an error *)
Theorem C12_bool_values : forall rest b, parse_bool rest = Ok b ->
  (fields rest = [] /\ b = true) \/ (fields rest = [YES] /\ b = true) \/ (fields rest = [NO] /\ b = false).
Proof. exact parse_bool_spec. Qed.

(* which key writes which field: the implemented table is the documented one *)
Theorem C12_table_as_documented :
  map (fun kv => (fst kv, fst (fst (fst (fst (snd kv)))))) x_common_table
  = map (fun kv => (s2r (fst kv), map s2r (snd kv))) documented_common.
Proof. exact table_as_documented. Qed.

(* unknown keys, empty keys, keys of the other level are errors at the level they are written on *)
Theorem C12_unknown_at_converter : forall c line cmd rest,
  command line = (cmd, rest) -> cmd <> [] -> in_keys x_converter_keys cmd = false -> lookup_key x_common_table cmd = None ->
  converter_line c line = Diag D_UNKNOWN_SETTING.
Proof. exact unknown_at_converter. Qed.
Theorem C12_unknown_at_method : forall m line cmd rest,
  command line = (cmd, rest) -> cmd <> [] ->
  (is cmd "map" || is cmd "ignore" || is cmd "update" || is cmd "context" || is cmd "autoMap" || in_keys x_method_keys cmd) = false ->
  lookup_key x_common_table cmd = None ->
  method_line m line = Diag D_UNKNOWN_SETTING.
Proof. exact unknown_at_method. Qed.
Theorem C12_converter_only_key_on_method : forall m k rest,
  In k (map s2r ["name"; "output:raw"; "output:file"; "output:format"; "output:package"; "struct:comment"; "enum:exclude"; "extend"; "converter"; "variables"]%string) ->
  method_line m (k ++ 32 :: rest) = Diag D_UNKNOWN_SETTING.
Proof. exact converter_only_key_on_method. Qed.
Theorem C12_method_only_key_on_converter : forall c k rest,
  In k (map s2r ["map"; "ignore"; "update"; "context"; "enum:map"; "enum:transform"; "autoMap"; "default"]%string) ->
  converter_line c (k ++ 32 :: rest) = Diag D_UNKNOWN_SETTING.
Proof. exact method_only_key_on_converter. Qed.
Theorem C12_empty_key_converter : forall c rest, converter_line c (32 :: rest) = Diag D_MISSING_KEY.
Proof. exact empty_key_converter. Qed.
Theorem C12_empty_key_method : forall m rest, method_line m (32 :: rest) = Diag D_MISSING_KEY.
Proof. exact empty_key_method. Qed.

(* wrapErrors and wrapErrorsUsing conflict, in either order *)
Theorem C12_wrap_conflict_1 : forall c x rest, sget c F_WrapErrorsUsing = Some (SStr (x :: rest)) ->
  forall r, parse_common x_common_table c K_wrapErrors r = Diag D_CONFLICT.
Proof. exact wrap_conflict_1. Qed.
Theorem C12_wrap_conflict_2 : forall c, sget c F_WrapErrors = Some (SBool true) ->
  forall r, parse_common x_common_table c K_wrapErrorsUsing r = Diag D_CONFLICT.
Proof. exact wrap_conflict_2. Qed.

(* the signature of a declared method is classified with the METHOD-level arg:context:regex (read from the call site) *)
Theorem C12_method_signature_uses_method_record : x_opts_converter_method_ctx = s2r "m.ArgContextRegex"%string.
Proof. reflexivity. Qed.

(* outside package config no inheritable setting is read from a record other than the method's: the converter's
   Common is only copied as a whole (into generated sub-methods, C12_converter_record), so the value the generator
   acts on for a declared method is the one C12_precedence describes *)
Theorem C12_generation_reads_method_record : x_converter_level_reads = [].
Proof. reflexivity. Qed.

Print Assumptions C12_precedence.
Print Assumptions C12_generation_reads_method_record.
Print Assumptions C12_method_signature_uses_method_record.
Print Assumptions C12_converter_record.
Print Assumptions C12_bool_values.
Print Assumptions C12_table_as_documented.
Print Assumptions C12_unknown_at_converter.
Print Assumptions C12_unknown_at_method.
Print Assumptions C12_converter_only_key_on_method.
Print Assumptions C12_method_only_key_on_converter.
Print Assumptions C12_empty_key_converter.
Print Assumptions C12_empty_key_method.
Print Assumptions C12_wrap_conflict_1.
Print Assumptions C12_wrap_conflict_2.
