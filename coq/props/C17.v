(* C17 — a failing run changes no files and the exit status reflects the outcome. *)
From Coq Require Import List NArith Bool String.
From GV Require Import Base Ty Conf Extracted Cli ToolProofs.
Import ListNotations.
Open Scope N_scope.

(* the shape facts the transition model rests on are read from runner.go / generate.go / run.go *)
Theorem C17_shape_from_source :
  x_write_only_after_success = true /\ x_generate_returns_no_files_on_error = true /\
  x_exit_usage = 1 /\ x_exit_help = 0 /\ x_exit_generate_error = 1.
Proof. repeat split; reflexivity. Qed.

Theorem C17_fail_no_write : forall g fs, all_ok g = false -> run_generate g fs = (fs, 1).
Proof. exact fail_no_write. Qed.
Theorem C17_success_exit_zero : forall g fs, all_ok g = true -> snd (run_generate g fs) = 0.
Proof. exact success_exit_zero. Qed.
Theorem C17_success_writes : forall fs p c, exists m, fs_get (fs_write fs p c) p = Some (c, m).
Proof. exact fs_get_write. Qed.

Theorem C17_help_exits_zero : forall ok, exit_status CHelp ok = 0.
Proof. exact help_exits_zero. Qed.
Theorem C17_usage_exits_one : forall ok, exit_status CUsage ok = 1.
Proof. exact usage_exits_one. Qed.
Theorem C17_generate_exit : forall g pats t c w ok, exit_status (CGenerate g t c w pats) ok = if ok then 0 else 1.
Proof. exact generate_exit. Qed.
Theorem C17_no_args_is_usage : parse [] = CUsage.
Proof. exact no_args_is_usage. Qed.
Theorem C17_missing_command_is_usage : forall prog, parse [prog] = CUsage.
Proof. exact missing_command_is_usage. Qed.
Theorem C17_help_command : forall prog, parse [prog; s2r "help"%string] = CHelp.
Proof. exact help_command. Qed.
Theorem C17_help_flag : forall prog r, parse (prog :: s2r "-h"%string :: r) = CHelp.
Proof. exact help_flag. Qed.
Theorem C17_gen_help_flag : forall prog r, parse (prog :: s2r "gen"%string :: s2r "--help"%string :: r) = CHelp.
Proof. exact gen_help_flag. Qed.
Theorem C17_gen_without_pattern : forall prog, parse [prog; s2r "gen"%string] = CUsage.
Proof. exact gen_without_pattern. Qed.

Print Assumptions C17_shape_from_source.
Print Assumptions C17_fail_no_write.
Print Assumptions C17_success_exit_zero.
Print Assumptions C17_success_writes.
Print Assumptions C17_help_exits_zero.
Print Assumptions C17_usage_exits_one.
Print Assumptions C17_generate_exit.
Print Assumptions C17_no_args_is_usage.
Print Assumptions C17_missing_command_is_usage.
Print Assumptions C17_help_command.
Print Assumptions C17_help_flag.
Print Assumptions C17_gen_help_flag.
Print Assumptions C17_gen_without_pattern.
