(* C09 — output is deterministic and independent of environment and previous runs.
   Partial by nature (DESIGN 4-C09): the theorems cover iteration-order independence of every
   map-range site of the sources (the list is regenerated with type information on every run) and
   history independence on the file-selection model; process-level independence is explored. *)
From Coq Require Import List Permutation NArith Bool String.
From GV Require Import Base Ty Conf Extracted Perm Constraint ToolProofs.
Import ListNotations.

(* loop patterns that do not depend on the visiting permutation *)
Theorem C09_collect_then_sort : forall l l', Permutation l l' -> S.sort l = S.sort l'.
Proof. exact collect_sort_perm_indep. Qed.
Theorem C09_insert_only : forall (V : Type) (l l' : list (nat * V)) m, NoDup (map fst l) -> Permutation l l' ->
  forall k, fold_left insert l m k = fold_left insert l' m k.
Proof. exact @insert_only_perm_indep. Qed.
Theorem C09_forall_predicate : forall (A : Type) (p : A -> bool) l l', Permutation l l' -> forallb p l = forallb p l'.
Proof. exact @forallb_perm_indep. Qed.
Theorem C09_exists_predicate : forall (A : Type) (p : A -> bool) l l', Permutation l l' -> existsb p l = existsb p l'.
Proof. exact @existsb_perm_indep. Qed.
(* the pattern that does: return on the first element visited *)
Theorem C09_first_hit_dependent : exists l l', Permutation l l' /\ first_hit l <> first_hit l'.
Proof. exact first_hit_dependent. Qed.
Theorem C09_first_hit_indep_le1 : forall l l' : list nat, (List.length l <= 1)%nat -> Permutation l l' -> first_hit l = first_hit l'.
Proof. exact first_hit_indep_le1. Qed.
Theorem C09_least_hit_indep : forall l l', Permutation l l' -> hd_error (S.sort l) = hd_error (S.sort l').
Proof. exact least_hit_indep. Qed.

(* every range over a map in the sources, with the class the extractor assigned (0 insert-only, 1 collect-then-sort,
   2 predicate, 3 first-hit-returns, 4 collected for a caller). Sites of class 3 / 4 are listed with their justification:
   renderFiles / writeFiles return early only on an I/O error (outside the property's quantifier); GetAll is sorted or
   quantified by every caller; getPackages' second loop feeds packages.Load (pattern order is irrelevant to the result). *)
Definition accepted_sites : list (string * N) := [
  ("builder/builder.go:DefinedEnumFields", 0); ("builder/builder.go:DefinedFields", 0);
  ("builder/enum.go:Build", 1); ("builder/enum.go:executeTransformers", 0);
  ("builder/struct.go:Assign", 1);
  ("cli/run.go:Run", 0);
  ("config/method.go:parseMethods", 1);
  ("config/package.go:getPackages", 0); ("config/package.go:getPackages", 4);
  ("enum/transformer_builtin.go:transformRegex", 0);
  ("generator/filemanager.go:renderFiles", 3);
  ("generator/validate.go:validateMethods", 1);
  ("method/index.go:AvailableContextDebug", 1); ("method/index.go:GetAll", 4); ("method/index.go:satisfiesContext", 2);
  ("runner.go:writeFiles", 3);
  ("xtype/enum.go:SortedMembers", 1); ("xtype/usage.go:Unused", 1); ("xtype/usage.go:UsageFromMap", 0) ]%N%string.

Theorem C09_sites_inventory : x_map_range_sites = map (fun s => (s2r (fst s), snd s)) accepted_sites.
Proof. reflexivity. Qed.

(* the collectors of class 4 that are methods (method.Index.GetAll): every call sorts the result before use *)
Theorem C09_collectors_sorted_by_callers :
  x_collector_callers = [(s2r "GetAll", s2r "generator/generator.go:getGenMethods", true)]%string.
Proof. reflexivity. Qed.

(* no first-hit-returns site is left except the two that return early only on an I/O error *)
Theorem C09_no_order_dependent_site :
  map fst (filter (fun s => N.eqb (snd s) 3) x_map_range_sites) = map s2r ["generator/filemanager.go:renderFiles"; "runner.go:writeFiles"]%string.
Proof. reflexivity. Qed.

(* history independence on the model: outputs excluded by their build constraint do not influence loading *)
Theorem C09_history_independent : forall tags stale files,
  Forall (fun f => selected tags f = false) stale -> load_ok tags (stale ++ files) = load_ok tags files.
Proof. exact stale_output_harmless. Qed.

Print Assumptions C09_collect_then_sort.
Print Assumptions C09_insert_only.
Print Assumptions C09_forall_predicate.
Print Assumptions C09_exists_predicate.
Print Assumptions C09_first_hit_dependent.
Print Assumptions C09_first_hit_indep_le1.
Print Assumptions C09_least_hit_indep.
Print Assumptions C09_sites_inventory.
Print Assumptions C09_collectors_sorted_by_callers.
Print Assumptions C09_no_order_dependent_site.
Print Assumptions C09_history_independent.
