(* C04 — conversions deep-copy by default and never modify or race on the source. *)
From Coq Require Import List NArith ZArith Bool.
From GV Require Import Base Ty Conf Val Plan Eval EvalFacts AllocFacts FreshFacts.
From GV Require Extracted Gen GenFacts.
Import ListNotations.
Open Scope N_scope.

(* the allocation counter only grows: addresses handed out by one call are never reused *)
Theorem C04_alloc_mono : forall e M F fuel cx, mono_v (eval_v e M F fuel cx) /\ mono_a (eval_a e M F fuel cx).
Proof. exact alloc_mono. Qed.

(* pointers are re-addressed from fresh temporaries, containers are re-made *)
Theorem C04_pointer_fresh : forall e M F f cx q src st v st',
  eval_v e M F (S f) cx (PRef false q) src st = Done (v, st') ->
  exists a r, v = VPtr a r /\ eval_v e M F f cx q src st = Done (r, a) /\ st' = a + 1.
Proof. exact eval_ref_nonnil. Qed.
Theorem C04_slice_fresh : forall e M F f cx el a i vs old st v st',
  eval_a e M F (S f) cx (AList false el a) (VSlice i vs) old st = Done (v, st') ->
  exists rs, v = VSlice st rs /\ length rs = length vs.
Proof. exact eval_slice_nonnil. Qed.
Theorem C04_map_fresh : forall e M F f cx k v i kvs old st r st',
  eval_a e M F (S f) cx (AMap k v) (VMap i kvs) old st = Done (r, st') ->
  exists rs, r = VMap st rs /\ length rs = length kvs.
Proof. exact eval_map_nonnil. Qed.

(* the only plan that hands the source out unchanged is the SkipCopy plan (and the identity on basic values) *)
Theorem C04_share_returns_source : forall e M F f cx src st, eval_v e M F (S f) cx PShare src st = Done (src, st).
Proof. exact eval_share. Qed.

(* the whole evaluator, every plan, method table, custom function table, value and fuel: each address in the result
   of a conversion occurs in the source value (for an update: or in the previous content of the target), is the
   interior-pointer marker of a source element, or was allocated by this very evaluation. So nothing but parts of
   its own source can be shared, and no node of the source is ever written (values are immutable: a result is built
   from fresh nodes and unchanged source parts only). *)
Theorem C04_fresh_or_source : forall e M F fuel cx,
  fresh_v (eval_v e M F fuel cx) /\ fresh_a (eval_a e M F fuel cx).
Proof. exact fresh_or_source. Qed.
(* ... custom functions only hand out fresh nodes (the oracle the harness implements) *)
Theorem C04_function_results_fresh : forall e fuel t tok st v st' ok, mark e fuel t tok st = (v, st', ok) ->
  st <= st' /\ forall a, In a (addrs v) -> st <= a < st'.
Proof. exact mark_fresh. Qed.

(* which plans the generator may choose: the SkipCopy plan (the one C04_share_returns_source is about) is selected only
   when skipCopySameType is in effect for the method AND source and target type are identical — for every
   environment, settings record, method index and pair of types (the rule list and the Matches predicates are
   regenerated from the Go source) *)
Theorem C04_skipcopy_only_with_setting_and_identical_types : forall e hm conf s t,
  Gen.first_rule e hm conf s t = Some 1 -> cc_SkipCopySameType conf = true /\ s = t.
Proof. exact GenFacts.skipcopy_rule_sound. Qed.
Theorem C04_no_skipcopy_without_setting : forall e hm conf s t,
  cc_SkipCopySameType conf = false -> Gen.first_rule e hm conf s t <> Some 1.
Proof. exact GenFacts.skipcopy_rule_off. Qed.
(* ... and the address-of a converted value (T -> *T) is never an address of the source: the aliasing form of PRef is
   not generated (finding F-C04-2, fixed by f2ba6e9: before, skipCopySameType + T -> *T emitted &source.F / &source[i]) *)
Theorem C04_address_of_never_aliases : forall lv p, Gen.aliasing lv p = false.
Proof. exact GenFacts.never_aliasing. Qed.

Print Assumptions C04_alloc_mono.
Print Assumptions C04_skipcopy_only_with_setting_and_identical_types.
Print Assumptions C04_no_skipcopy_without_setting.
Print Assumptions C04_address_of_never_aliases.
Print Assumptions C04_pointer_fresh.
Print Assumptions C04_slice_fresh.
Print Assumptions C04_map_fresh.
Print Assumptions C04_share_returns_source.
Print Assumptions C04_fresh_or_source.
Print Assumptions C04_function_results_fresh.
