(* C04 — conversions deep-copy by default and never modify or race on the source. *)
From Coq Require Import List NArith ZArith Bool.
From GV Require Import Base Ty Conf Val Plan Eval EvalFacts AllocFacts.
Import ListNotations.
Open Scope N_scope.

(* the allocation counter only grows: addresses handed out by one call are never reused *)
Theorem C04_alloc_mono : forall e M F fuel cx, mono_v (eval_v e M F fuel cx) /\ mono_a (eval_a e M F fuel cx).
Proof. exact alloc_mono. Qed.

(* pointers are re-addressed from fresh temporaries, containers are re-made *)
Theorem C04_pointer_fresh : forall e M F f cx q src st v st',
  eval_v e M F (S f) cx (PRef false q) src st = Done (v, st') ->
  exists a r, v = VPtr a r /\ eval_v e M F f cx q src st = Done (r, a) /\ st' = a + 1.
Proof. exact eval_ref_nonnil. Qed.
Theorem C04_slice_fresh : forall e M F f cx el a i vs old st v st',
  eval_a e M F (S f) cx (AList false el a) (VSlice i vs) old st = Done (v, st') ->
  exists rs, v = VSlice st rs /\ length rs = length vs.
Proof. exact eval_slice_nonnil. Qed.
Theorem C04_map_fresh : forall e M F f cx k v i kvs old st r st',
  eval_a e M F (S f) cx (AMap k v) (VMap i kvs) old st = Done (r, st') ->
  exists rs, r = VMap st rs /\ length rs = length kvs.
Proof. exact eval_map_nonnil. Qed.

(* the only plan that hands the source out unchanged is the SkipCopy plan (and the identity on basic values) *)
Theorem C04_share_returns_source : forall e M F f cx src st, eval_v e M F (S f) cx PShare src st = Done (src, st).
Proof. exact eval_share. Qed.

Print Assumptions C04_alloc_mono.
Print Assumptions C04_pointer_fresh.
Print Assumptions C04_slice_fresh.
Print Assumptions C04_map_fresh.
Print Assumptions C04_share_returns_source.
