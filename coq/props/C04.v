(* C04 — conversions deep-copy by default and never modify or race on the source. *)
From Coq Require Import List NArith ZArith Bool.
From GV Require Import Base Ty Conf Val Plan Eval EvalFacts AllocFacts FreshFacts DeepCopyFacts.
From GV Require Extracted Gen GenFacts.
Import ListNotations.
Open Scope N_scope.

(* the allocation counter only grows: addresses handed out by one call are never reused *)
Theorem C04_alloc_mono : forall e M F fuel cx, mono_v (eval_v e M F fuel cx) /\ mono_a (eval_a e M F fuel cx).
Proof. exact alloc_mono. Qed.

(* pointers are re-addressed from fresh temporaries, containers are re-made *)
Theorem C04_pointer_fresh : forall e M F f cx q src st v st',
  eval_v e M F (S f) cx (PRef false q) src st = Done (v, st') ->
  exists a r, v = VPtr a r /\ eval_v e M F f cx q src st = Done (r, a) /\ st' = a + 1.
Proof. exact eval_ref_nonnil. Qed.
Theorem C04_slice_fresh : forall e M F f cx el a i vs old st v st',
  eval_a e M F (S f) cx (AList false el a) (VSlice i vs) old st = Done (v, st') ->
  exists rs, v = VSlice st rs /\ length rs = length vs.
Proof. exact eval_slice_nonnil. Qed.
Theorem C04_map_fresh : forall e M F f cx k v i kvs old st r st',
  eval_a e M F (S f) cx (AMap k v) (VMap i kvs) old st = Done (r, st') ->
  exists rs, r = VMap st rs /\ length rs = length kvs.
Proof. exact eval_map_nonnil. Qed.

(* the only plan that hands the source out unchanged is the SkipCopy plan (and the identity on basic values) *)
Theorem C04_share_returns_source : forall e M F f cx src st, eval_v e M F (S f) cx PShare src st = Done (src, st).
Proof. exact eval_share. Qed.

(* the whole evaluator, every plan, method table, custom function table, value and fuel: each address in the result
   of a conversion occurs in the source value (for an update: or in the previous content of the target), is the
   interior-pointer marker of a source element, or was allocated by this very evaluation. So nothing but parts of
   its own source can be shared, and no node of the source is ever written (values are immutable: a result is built
   from fresh nodes and unchanged source parts only). *)
Theorem C04_fresh_or_source : forall e M F fuel cx,
  fresh_v (eval_v e M F fuel cx) /\ fresh_a (eval_a e M F fuel cx).
Proof. exact fresh_or_source. Qed.
(* ... custom functions only hand out fresh nodes (the oracle the harness implements) *)
Theorem C04_function_results_fresh : forall e fuel t tok st v st' ok, mark e fuel t tok st = (v, st', ok) ->
  st <= st' /\ forall a, In a (addrs v) -> st <= a < st'.
Proof. exact mark_fresh. Qed.

(* THE DEEP COPY (first sentence of C04, full strength on the evaluator): a plan without SkipCopy plan and without
   aliasing address-of, against a method table whose bodies are such plans, yields only addresses allocated by this
   very evaluation (an Assign: or already present in the previous content of the target) — for EVERY plan, table,
   custom-function table, source value (arbitrary internal sharing), context and fuel. So result and source of a
   declared method have no address in common, and an update method adds none of the source's to its target. *)
Theorem C04_deep_copy : forall e M F, sf_table M -> forall fuel cx,
  deep_v (eval_v e M F fuel cx) /\ deep_a (eval_a e M F fuel cx).
Proof. exact deep_copy. Qed.
Theorem C04_no_shared_address : forall e M F, sf_table M -> forall fuel m cx src n0 v st',
  run e M F fuel m cx src n0 = Done (v, st') ->
  (forall a, In a (addrs src) -> a < n0) ->
  forall a, In a (addrs v) -> ~ In a (addrs src).
Proof. exact run_no_shared_address. Qed.
Theorem C04_update_no_shared_address : forall e M F, sf_table M -> forall fuel m cx src old n0 v st' mt,
  nth_error M (N.to_nat m) = Some mt -> sf_body (g_body mt) = true ->
  run_update e M F fuel m cx src old n0 = Done (v, st') ->
  forall a, In a (addrs v) -> In a (addrs old) \/ n0 <= a < st'.
Proof. exact run_update_no_shared_address. Qed.
(* the boolean check the correspondence cases evaluate on every generated table is sound for the hypothesis *)
Theorem C04_share_free_check_sound : forall M, sf_tableb M = true -> sf_table M.
Proof. exact sf_tableb_sound. Qed.
Example C04_deep_copy_applies :
  sf_tableb f_c10_1_table = true /\
  run [] f_c10_1_table [] 6 0 [] (VPtr 7 (VBasic 5)) 10 = Done (VPtr 10 (VBasic 5), 11).
Proof. exact deep_copy_applies. Qed.

(* which plans the generator may choose: the SkipCopy plan (the one C04_share_returns_source is about) is selected only
   when skipCopySameType is in effect for the method AND source and target type are identical — for every
   environment, settings record, method index and pair of types (the rule list and the Matches predicates are
   regenerated from the Go source) *)
Theorem C04_skipcopy_only_with_setting_and_identical_types : forall e hm conf s t,
  Gen.first_rule e hm conf s t = Some 1 -> cc_SkipCopySameType conf = true /\ s = t.
Proof. exact GenFacts.skipcopy_rule_sound. Qed.
Theorem C04_no_skipcopy_without_setting : forall e hm conf s t,
  cc_SkipCopySameType conf = false -> Gen.first_rule e hm conf s t <> Some 1.
Proof. exact GenFacts.skipcopy_rule_off. Qed.
(* ... and the address-of a converted value (T -> *T) is never an address of the source: the aliasing form of PRef is
   not generated (finding F-C04-2, fixed by f2ba6e9: before, skipCopySameType + T -> *T emitted &source.F / &source[i]) *)
Theorem C04_identity_only_for_basic_types : forall e hm conf s t,
  Gen.first_rule e hm conf s t = Some 7 ->
  f_Basic e s = true /\ f_Basic e t = true /\ m_Kind e (f_BasicType e s) = m_Kind e (f_BasicType e t).
Proof. exact GenFacts.basic_rule_sound. Qed.
Theorem C04_address_of_never_aliases : forall lv p, Gen.aliasing lv p = false.
Proof. exact GenFacts.never_aliasing. Qed.

Print Assumptions C04_alloc_mono.
Print Assumptions C04_deep_copy.
Print Assumptions C04_no_shared_address.
Print Assumptions C04_update_no_shared_address.
Print Assumptions C04_share_free_check_sound.
Print Assumptions C04_skipcopy_only_with_setting_and_identical_types.
Print Assumptions C04_no_skipcopy_without_setting.
Print Assumptions C04_address_of_never_aliases.
Print Assumptions C04_identity_only_for_basic_types.
Print Assumptions C04_pointer_fresh.
Print Assumptions C04_slice_fresh.
Print Assumptions C04_map_fresh.
Print Assumptions C04_share_returns_source.
Print Assumptions C04_fresh_or_source.
Print Assumptions C04_function_results_fresh.
