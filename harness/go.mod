module verif/harness

go 1.22.0

require (
	github.com/jmattheis/goverter v0.0.0
	golang.org/x/tools v0.25.0
)

require (
	github.com/dave/jennifer v1.6.0 // indirect
	golang.org/x/mod v0.21.0 // indirect
	golang.org/x/sync v0.8.0 // indirect
)

replace github.com/jmattheis/goverter => /repo
