// vh — correspondence harness: runs the real goverter code (from /repo, via the
// replace directive) on generated inputs and writes cases_*.v files that the
// Coq model evaluates, plus a report.json with the Go-side oracle verdicts.
package main

import (
	"encoding/json"
	"flag"
	"fmt"
	"os"
	"path/filepath"
	"sort"
	"strconv"
	"strings"
)

// Violation is a Go-side (direct property oracle) failure on the implementation.
type Violation struct {
	CaseID string      `json:"case_id"`
	What   string      `json:"what"`
	Sig    string      `json:"sig"` // short failure signature used to match KNOWN_FINDINGS
	Replay interface{} `json:"replay"`
}

type Report struct {
	Property           string         `json:"property"`
	Seed               int64          `json:"seed"`
	Tier               string         `json:"tier"`
	Evaluations        int            `json:"evaluations"`
	DistinctNontrivial int            `json:"distinct_nontrivial"`
	Rule               string         `json:"rule"`
	Samples            []interface{}  `json:"samples"`
	Distribution       map[string]int `json:"distribution"`
	Violations         []Violation    `json:"oracle_violations"`
	Shards             []string       `json:"shards"`
	Exhaustive         bool           `json:"exhaustive"`
	Notes              []string       `json:"notes,omitempty"`
	distinct           map[string]bool
}

func newReport(prop string, seed int64, tier string) *Report {
	return &Report{Property: prop, Seed: seed, Tier: tier, Distribution: map[string]int{}, distinct: map[string]bool{}, Violations: []Violation{}, Samples: []interface{}{}, Shards: []string{}}
}

func (r *Report) count(key string) { r.Distribution[key]++ }

// note one evaluated case; key is its canonical form (for distinctness), nontrivial by the stream's rule.
func (r *Report) eval(key string, nontrivial bool) {
	r.Evaluations++
	if nontrivial && !r.distinct[key] {
		r.distinct[key] = true
		r.DistinctNontrivial++
	}
}

func (r *Report) sample(s interface{}) {
	if len(r.Samples) < 5 {
		r.Samples = append(r.Samples, s)
	}
}

func (r *Report) violate(v Violation) {
	if len(r.Violations) < 50 {
		r.Violations = append(r.Violations, v)
	}
}

func (r *Report) write(dir string) {
	sort.Strings(r.Shards)
	b, _ := json.MarshalIndent(r, "", " ")
	must(os.WriteFile(filepath.Join(dir, "report.json"), b, 0o644))
}

func must(err error) {
	if err != nil {
		fmt.Fprintln(os.Stderr, "vh: fatal:", err)
		os.Exit(3)
	}
}

// ---- Coq term helpers ----

func runes(s string) string {
	parts := make([]string, 0, len(s))
	for _, c := range s {
		parts = append(parts, strconv.Itoa(int(c)))
	}
	return "[" + strings.Join(parts, ";") + "]"
}

func coqList(items []string) string { return "[" + strings.Join(items, "; ") + "]" }

func coqBool(b bool) string {
	if b {
		return "true"
	}
	return "false"
}

// shardWriter writes cases_<k>.v files with at most max cases each.
type shardWriter struct {
	dir, stem, header, ctype, trailer string
	max, k                            int
	cur                               []string
	off                               bool
	rep                               *Report
}

func (w *shardWriter) add(term string) {
	w.cur = append(w.cur, term)
	if len(w.cur) >= w.max {
		w.flush()
	}
}

func (w *shardWriter) flush() {
	if len(w.cur) == 0 {
		return
	}
	if w.off {
		w.cur = nil
		return
	}
	name := fmt.Sprintf("cases_%s_%03d.v", w.stem, w.k)
	var sb strings.Builder
	sb.WriteString(w.header)
	sb.WriteString("\nDefinition cases : list (" + w.ctype + ") := [\n")
	for i, c := range w.cur {
		sb.WriteString(" " + c)
		if i < len(w.cur)-1 {
			sb.WriteString(";")
		}
		sb.WriteString("\n")
	}
	sb.WriteString("].\n")
	sb.WriteString(w.trailer)
	must(os.WriteFile(filepath.Join(w.dir, name), []byte(sb.String()), 0o644))
	w.rep.Shards = append(w.rep.Shards, name)
	w.cur = nil
	w.k++
}

type runCfg struct {
	seed   int64
	tier   string
	out    string
	n      int
	replay string
	repo   string
	oracleOnly bool
}

var streams = map[string]func(runCfg){}

func main() {
	if len(os.Args) < 2 {
		fmt.Fprintln(os.Stderr, "usage: vh <stream> -seed N -tier quick|thorough -out DIR")
		os.Exit(2)
	}
	fs := flag.NewFlagSet("vh", flag.ExitOnError)
	var c runCfg
	fs.Int64Var(&c.seed, "seed", 1, "PRNG seed")
	fs.StringVar(&c.tier, "tier", "quick", "tier")
	fs.StringVar(&c.out, "out", ".", "output directory")
	fs.IntVar(&c.n, "n", 0, "override case count")
	fs.StringVar(&c.replay, "replay", "", "replay file")
	fs.StringVar(&c.repo, "repo", "/repo", "goverter source tree (extract)")
	fs.BoolVar(&c.oracleOnly, "oracle-only", false, "run only the Go-side oracle (search mode), write no case shards")
	fs.Parse(os.Args[2:])
	f, ok := streams[os.Args[1]]
	if !ok {
		fmt.Fprintln(os.Stderr, "unknown stream", os.Args[1])
		os.Exit(2)
	}
	if os.Args[1] != "extract" {
		must(os.MkdirAll(c.out, 0o755))
	}
	f(c)
}
