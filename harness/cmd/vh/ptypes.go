package main

// Program IR shared by the Go source renderer, the value generator, the driver
// generator and the Coq term printer (DESIGN appendix D).

import (
	"fmt"
	"sort"
	"strings"
)

// basic kinds (go/types BasicKind codes, as in Ty.v)
const (
	bkBool    = 1
	bkInt     = 2
	bkInt32   = 5
	bkInt64   = 6
	bkUint8   = 8
	bkFloat64 = 14
	bkString  = 17
)

var basicNames = map[int]string{1: "bool", 2: "int", 3: "int8", 4: "int16", 5: "int32", 6: "int64", 7: "uint", 8: "uint8", 9: "uint16", 10: "uint32",
	11: "uint64", 12: "uintptr", 13: "float32", 14: "float64", 15: "complex64", 16: "complex128", 17: "string"}

type Field struct {
	Name string
	T    *Ty
}

// Ty mirrors Ty.v: basic | named | ptr | slice | arr | map | struct | other
type Ty struct {
	K      string // "basic","named","ptr","slice","arr","map","struct","other"
	Kind   int    // basic kind, or other-kind (0 iface, 1 func, 2 chan)
	ID     int    // named id / other id
	N      int    // array length
	Elem   *Ty
	Key    *Ty
	Fields []Field
	Pkg    int // declaring package of an unnamed struct
}

type ConstDecl struct {
	Name string
	Val  int64 // token of the value (strings: "s<token>", "" for 0)
}

type NamedDecl struct {
	ID     int
	Pkg    int // 1 = p (converter package), 2 = q
	Name   string
	Under  *Ty
	Consts []ConstDecl // constants of this type in its package (an enum when the kind is integer, float or string)
	EnumOf int         // target enum derived from this source enum (id), -1 otherwise
}

// IsEnum: enum.Detect succeeds (named integer / float / string type with at least one constant in its package)
func (d *NamedDecl) IsEnum() bool {
	n := 0
	for _, c := range d.Consts {
		if d.Pkg == 1 || exportedName(c.Name) {
			n++
		}
	}
	return d.Under != nil && d.Under.K == "basic" && d.Under.Kind != bkBool && n > 0
}

type Program struct {
	Named []*NamedDecl // index = id
	Funcs []*FuncDecl  // custom functions and struct methods, index = function id
}

func tBasic(k int) *Ty            { return &Ty{K: "basic", Kind: k} }
func tNamed(id int) *Ty           { return &Ty{K: "named", ID: id} }
func tPtr(t *Ty) *Ty              { return &Ty{K: "ptr", Elem: t} }
func tSlice(t *Ty) *Ty            { return &Ty{K: "slice", Elem: t} }
func tArr(n int, t *Ty) *Ty       { return &Ty{K: "arr", N: n, Elem: t} }
func tMap(k, v *Ty) *Ty           { return &Ty{K: "map", Key: k, Elem: v} }
func tStruct(fs ...Field) *Ty     { return &Ty{K: "struct", Fields: fs, Pkg: 1} }
func tOther(kind, id int) *Ty     { return &Ty{K: "other", Kind: kind, ID: id} }
func (p *Program) under(t *Ty) *Ty {
	if t.K == "named" {
		return p.Named[t.ID].Under
	}
	return t
}

var pkgNames = map[int]string{1: "p", 2: "q", 3: "generated"}
var pkgPaths = map[int]string{1: "example.org/m/p", 2: "example.org/m/q", 3: "example.org/m/p/generated"}

// goType renders a type as Go source as seen from package `from`.
func (p *Program) goType(t *Ty, from int) string {
	switch t.K {
	case "basic":
		return basicNames[t.Kind]
	case "named":
		d := p.Named[t.ID]
		if d.Pkg == 0 {
			return d.Name
		}
		if d.Pkg == from {
			return d.Name
		}
		return pkgNames[d.Pkg] + "." + d.Name
	case "ptr":
		return "*" + p.goType(t.Elem, from)
	case "slice":
		return "[]" + p.goType(t.Elem, from)
	case "arr":
		return fmt.Sprintf("[%d]%s", t.N, p.goType(t.Elem, from))
	case "map":
		return "map[" + p.goType(t.Key, from) + "]" + p.goType(t.Elem, from)
	case "struct":
		var fs []string
		for _, f := range t.Fields {
			fs = append(fs, f.Name+" "+p.goType(f.T, from))
		}
		return "struct{ " + strings.Join(fs, "; ") + " }"
	case "other":
		switch t.Kind {
		case 0:
			return "interface{}"
		case 1:
			if t.ID == 9 { // a second signature (identity 9): func with a result
				return "func() string"
			}
			return "func()"
		default:
			return "chan int"
		}
	}
	return "?"
}

// coqTy renders a type as a Ty.v term.
func (p *Program) coqTy(t *Ty) string {
	switch t.K {
	case "basic":
		return fmt.Sprintf("TBasic %d", t.Kind)
	case "named":
		return fmt.Sprintf("TNamed %d", t.ID)
	case "ptr":
		return "TPtr (" + p.coqTy(t.Elem) + ")"
	case "slice":
		return "TSlice (" + p.coqTy(t.Elem) + ")"
	case "arr":
		return fmt.Sprintf("TArr %d (%s)", t.N, p.coqTy(t.Elem))
	case "map":
		return "TMap (" + p.coqTy(t.Key) + ") (" + p.coqTy(t.Elem) + ")"
	case "struct":
		var fs []string
		for _, f := range t.Fields {
			fs = append(fs, "("+runes(f.Name)+", "+p.coqTy(f.T)+")")
		}
		return fmt.Sprintf("TStruct %d %s", t.Pkg, coqList(fs))
	case "other":
		return fmt.Sprintf("TOther %d %d", t.Kind, t.ID)
	}
	return "TOther 99 0"
}

func (p *Program) coqEnv() string {
	var ds []string
	for _, d := range p.Named {
		var ms []string
		for _, f := range p.Funcs {
			if f.Recv != nil && f.Recv.ID == d.ID {
				ms = append(ms, "("+runes(f.Name)+", "+p.coqTy(f.Tgt)+")")
			}
		}
		var cs []string
		for _, c := range d.Consts {
			if d.Pkg != 1 && !exportedName(c.Name) {
				continue // packages that are only dependencies are loaded from export data: their unexported constants are invisible to enum.Detect
			}
			cs = append(cs, fmt.Sprintf("(%s, (%d)%%Z)", runes(c.Name), c.Val))
		}
		ds = append(ds, fmt.Sprintf("{| n_pkg := %d; n_pkgname := %s; n_name := %s; n_under := %s; n_enum := %s; n_methods := %s; n_consts := %s |}",
			d.Pkg, runes(pkgNames[d.Pkg]), runes(d.Name), p.coqTy(d.Under), coqBool(d.IsEnum()), coqList(ms), coqList(cs)))
	}
	return coqList(ds)
}

func tyEq(a, b *Ty) bool {
	if a.K != b.K {
		return false
	}
	switch a.K {
	case "basic":
		return a.Kind == b.Kind
	case "named":
		return a.ID == b.ID
	case "ptr", "slice":
		return tyEq(a.Elem, b.Elem)
	case "arr":
		return a.N == b.N && tyEq(a.Elem, b.Elem)
	case "map":
		return tyEq(a.Key, b.Key) && tyEq(a.Elem, b.Elem)
	case "struct":
		if len(a.Fields) != len(b.Fields) || a.Pkg != b.Pkg {
			return false
		}
		for i := range a.Fields {
			if a.Fields[i].Name != b.Fields[i].Name || !tyEq(a.Fields[i].T, b.Fields[i].T) {
				return false
			}
		}
		return true
	case "other":
		return a.Kind == b.Kind && a.ID == b.ID
	}
	return false
}

// namedUsed collects the ids of named types reachable from t (through declarations too).
func (p *Program) namedUsed(t *Ty, seen map[int]bool) {
	switch t.K {
	case "named":
		if !seen[t.ID] {
			seen[t.ID] = true
			p.namedUsed(p.Named[t.ID].Under, seen)
		}
	case "ptr", "slice", "arr":
		p.namedUsed(t.Elem, seen)
	case "map":
		p.namedUsed(t.Key, seen)
		p.namedUsed(t.Elem, seen)
	case "struct":
		for _, f := range t.Fields {
			p.namedUsed(f.T, seen)
		}
	}
}

// declsSource renders the named type declarations of package pkg, plus Mk_ constructors for structs.
func (p *Program) declsSource(pkg int) string {
	var sb strings.Builder
	fmt.Fprintf(&sb, "package %s\n\n", pkgNames[pkg])
	needQ := false
	var body strings.Builder
	ids := []int{}
	for _, d := range p.Named {
		if d.Pkg == pkg {
			ids = append(ids, d.ID)
		}
	}
	sort.Ints(ids)
	for _, id := range ids {
		d := p.Named[id]
		src := p.goType(d.Under, pkg)
		if strings.Contains(src, "q.") {
			needQ = true
		}
		fmt.Fprintf(&body, "type %s %s\n", d.Name, src)
		for _, c := range d.Consts {
			lit := fmt.Sprint(c.Val)
			if d.Under.Kind == bkString {
				lit = `""`
				if c.Val != 0 {
					lit = fmt.Sprintf(`"s%d"`, c.Val)
				}
			}
			if d.Under.Kind == bkBool {
				lit = []string{"false", "true"}[c.Val&1]
			}
			fmt.Fprintf(&body, "const %s %s = %s\n", c.Name, d.Name, lit)
		}
		if d.Under.K == "struct" {
			var params, inits []string
			for i, f := range d.Under.Fields {
				params = append(params, fmt.Sprintf("a%d %s", i, p.goType(f.T, pkg)))
				inits = append(inits, fmt.Sprintf("%s: a%d", f.Name, i))
			}
			fmt.Fprintf(&body, "func Mk_%s(%s) %s { return %s{%s} }\n", d.Name, strings.Join(params, ", "), d.Name, d.Name, strings.Join(inits, ", "))
		}
		body.WriteString("\n")
	}
	ms := p.methodsSource(pkg)
	if strings.Contains(ms, "q.") && pkg != 2 {
		needQ = true
	}
	if needQ && pkg != 2 {
		fmt.Fprintf(&sb, "import q %q\n\n", pkgPaths[2])
	}
	if ms != "" {
		fmt.Fprintf(&sb, "import sup %q\n\n", "example.org/m/sup")
	}
	sb.WriteString(body.String())
	sb.WriteString(ms)
	return sb.String()
}
