package main

// C19 stream B: declaration layouts through the public comments.ParseDocs API
// (packages on disk, loaded by go/packages) versus Markers.v parse_decls.
// Model input = what go/parser attaches as Doc (trusted, DESIGN 4-C19 R); detached,
// trailing and body comments are generated too and must not influence the result.

import (
	"fmt"
	"go/ast"
	"go/parser"
	"go/token"
	"math/rand"
	"os"
	"path/filepath"
	"sort"
	"strings"

	"github.com/jmattheis/goverter/comments"
)

func init() { streams["c19b"] = runC19B }

var c19DocLines = []string{
	"// goverter:converter", "//goverter:converter", "// goverter:variables", "//goverter:variables",
	"/* goverter:converter */", "/*\n goverter:variables\n*/", "//\tgoverter:converter", "// text",
	"// goverter:name Foo", "//goverter:extend  A B", "// goverter:output:file ./x.go", "// see goverter:converter docs",
	"/* goverter:ignore A\n   goverter:map B C\n text */", "//", "// goverter:", "// goverter:wrapErrors  ",
	"// Goverter:converter", "// goverter :converter", "//  goverter:converterX", "// goverter:ignoreMissing no",
}

func c19RandDoc(r *rand.Rand, wantMarker string) []string {
	var doc []string
	n := r.Intn(4)
	for i := 0; i < n; i++ {
		l := c19DocLines[r.Intn(len(c19DocLines))]
		if strings.Contains(l, "goverter:converter") || strings.Contains(l, "goverter:variables") {
			continue
		}
		doc = append(doc, l)
	}
	if wantMarker != "" {
		forms := []string{"// goverter:" + wantMarker, "//goverter:" + wantMarker, "/* goverter:" + wantMarker + " */", "//\tgoverter:" + wantMarker + "  ",
			"/*\n * x\n goverter:" + wantMarker + "\n*/", "// see goverter:" + wantMarker + " docs"}
		pos := r.Intn(len(doc) + 1)
		doc = append(doc[:pos], append([]string{forms[r.Intn(len(forms))]}, doc[pos:]...)...)
	}
	return doc
}

func writeDoc(sb *strings.Builder, indent string, doc []string, detached bool) {
	for _, l := range doc {
		sb.WriteString(indent + l + "\n")
	}
	if detached && len(doc) > 0 {
		sb.WriteString("\n")
	}
}

// one generated declaration as source text
func c19GenDecl(r *rand.Rand, idx int, errKind string) string {
	var sb strings.Builder
	name := fmt.Sprintf("D%d", idx)
	method := func(i int) string { return fmt.Sprintf("M%d(a int) string", i) }
	iface := func(markerOnMethods bool) string {
		var b strings.Builder
		b.WriteString("interface {\n")
		k := r.Intn(3)
		for i := 0; i < k; i++ {
			writeDoc(&b, "\t", c19RandDoc(r, ""), r.Intn(6) == 0)
			b.WriteString("\t" + method(i))
			if r.Intn(4) == 0 {
				b.WriteString(" // goverter:ignore Trailing")
			}
			b.WriteString("\n")
		}
		if r.Intn(5) == 0 {
			b.WriteString("\t// goverter:map Dangling X\n")
		}
		b.WriteString("}")
		return b.String()
	}
	switch errKind {
	case "vars-on-type":
		writeDoc(&sb, "", c19RandDoc(r, "variables"), false)
		sb.WriteString("type " + name + " " + iface(false) + "\n")
		return sb.String()
	case "vars-on-const":
		writeDoc(&sb, "", c19RandDoc(r, "variables"), false)
		sb.WriteString("const " + name + " = 1\n")
		return sb.String()
	case "conv-on-var":
		writeDoc(&sb, "", c19RandDoc(r, "converter"), false)
		sb.WriteString("var " + name + " func(int) string\n")
		return sb.String()
	case "conv-on-const":
		writeDoc(&sb, "", c19RandDoc(r, "converter"), false)
		sb.WriteString("const (\n\t" + name + " = 1\n)\n")
		return sb.String()
	case "conv-multiple":
		writeDoc(&sb, "", c19RandDoc(r, "converter"), false)
		sb.WriteString("type (\n\t" + name + "a " + iface(false) + "\n\t" + name + "b " + iface(false) + "\n)\n")
		return sb.String()
	case "conv-non-iface":
		writeDoc(&sb, "", c19RandDoc(r, "converter"), false)
		sb.WriteString("type " + name + " struct{ A int }\n")
		return sb.String()
	case "spec-non-iface":
		sb.WriteString("type (\n")
		writeDoc(&sb, "\t", c19RandDoc(r, "converter"), false)
		sb.WriteString("\t" + name + " struct{ A int }\n)\n")
		return sb.String()
	case "embedded":
		writeDoc(&sb, "", c19RandDoc(r, "converter"), false)
		sb.WriteString("type " + name + " interface {\n\tM0(a int) string\n\tEmb\n}\n")
		return sb.String()
	case "two-names":
		writeDoc(&sb, "", c19RandDoc(r, "variables"), false)
		sb.WriteString("var (\n\t" + name + "a, " + name + "b func(int) string\n)\n")
		return sb.String()
	case "conv-on-func":
		writeDoc(&sb, "", c19RandDoc(r, "converter"), false)
		sb.WriteString("func " + name + "(a int) string { return \"\" }\n")
		return sb.String()
	case "vars-on-func":
		writeDoc(&sb, "", c19RandDoc(r, "variables"), false)
		sb.WriteString("func " + name + "(a int) string { return \"\" }\n")
		return sb.String()
	case "vars-empty-on-import":
		writeDoc(&sb, "", c19RandDoc(r, "variables"), false)
		sb.WriteString("import _ \"strings\"\n")
		return sb.String()
	}
	// valid layouts (never an error by the property)
	switch r.Intn(9) {
	case 0: // single interface, marker on decl doc
		writeDoc(&sb, "", c19RandDoc(r, "converter"), false)
		sb.WriteString("type " + name + " " + iface(false) + "\n")
	case 1: // grouped type decl with marker on one spec
		writeDoc(&sb, "", c19RandDoc(r, ""), r.Intn(3) == 0)
		sb.WriteString("type (\n")
		k := 1 + r.Intn(3)
		for i := 0; i < k; i++ {
			m := ""
			if r.Intn(2) == 0 {
				m = "converter"
			}
			writeDoc(&sb, "\t", c19RandDoc(r, m), false)
			sb.WriteString(fmt.Sprintf("\t%s_%d %s\n", name, i, iface(false)))
		}
		// an unmarked struct in the same group
		writeDoc(&sb, "\t", c19RandDoc(r, ""), false)
		sb.WriteString(fmt.Sprintf("\t%s_s struct{ A int }\n", name))
		sb.WriteString(")\n")
	case 2: // variables block
		writeDoc(&sb, "", c19RandDoc(r, "variables"), false)
		sb.WriteString("var (\n")
		k := r.Intn(3)
		for i := 0; i < k; i++ {
			writeDoc(&sb, "\t", c19RandDoc(r, ""), r.Intn(6) == 0)
			sb.WriteString(fmt.Sprintf("\t%s_%d func(int) string\n", name, i))
		}
		sb.WriteString(")\n")
	case 3: // single var with variables marker
		writeDoc(&sb, "", c19RandDoc(r, "variables"), false)
		sb.WriteString("var " + name + " func(int) string\n")
	case 4: // detached marker: not attached, no converter
		m := []string{"converter", "variables"}[r.Intn(2)]
		writeDoc(&sb, "", c19RandDoc(r, m), true)
		if r.Intn(2) == 0 {
			sb.WriteString("type " + name + " " + iface(false) + "\n")
		} else {
			sb.WriteString("const " + name + " = 2\n")
		}
	case 5: // trailing marker comment: no converter
		writeDoc(&sb, "", c19RandDoc(r, ""), false)
		sb.WriteString("type " + name + " interface { M0(a int) string } // goverter:converter\n")
	case 6: // unmarked declarations
		writeDoc(&sb, "", c19RandDoc(r, ""), false)
		sb.WriteString([]string{"type " + name + " struct{ A int }\n", "const " + name + " = 3\n", "var " + name + " = 4\n", "func " + name + "() {\n\t// goverter:converter\n}\n"}[r.Intn(4)])
	case 7: // marker on the var spec inside a group (spec doc, not decl doc): ParseDocs does not look there
		writeDoc(&sb, "", c19RandDoc(r, ""), false)
		sb.WriteString("var (\n\t// text\n\t" + name + " func(int) string\n)\n")
	case 8: // marker in both decl doc and method docs of the one interface
		writeDoc(&sb, "", c19RandDoc(r, "converter"), false)
		sb.WriteString("type " + name + " interface {\n\t// goverter:converter\n\t// goverter:map A B\n\tM0(a int) string\n}\n")
	}
	return sb.String()
}

// ---- model term from go/parser's view ----

func c19Group(g *ast.CommentGroup) ([]c19Comment, string) {
	if g == nil {
		return nil, "[]"
	}
	var cs []c19Comment
	for _, c := range g.List {
		if strings.HasPrefix(c.Text, "//") {
			cs = append(cs, c19Comment{false, c.Text[2:]})
		} else {
			cs = append(cs, c19Comment{true, c.Text[2 : len(c.Text)-2]})
		}
	}
	return cs, c19Term(cs)
}

type c19Exp struct { // Go-side oracle expectation per declaration
	markedDocs [][]c19Comment // attached docs that carry a marker
	wrongKind  bool
	funcDecl   bool
}

func c19DeclTerm(d ast.Decl) (string, c19Exp) {
	var exp c19Exp
	hasMarker := func(cs []c19Comment) bool {
		for _, c := range cs {
			if strings.Contains(c.Body, "goverter:converter") || strings.Contains(c.Body, "goverter:variables") {
				return true
			}
		}
		return false
	}
	switch v := d.(type) {
	case *ast.FuncDecl:
		cs, t := c19Group(v.Doc)
		if hasMarker(cs) {
			exp.funcDecl = true
		}
		return "DFunc " + t, exp
	case *ast.GenDecl:
		tok := map[token.Token]string{token.IMPORT: "TImport", token.CONST: "TConst", token.TYPE: "TType", token.VAR: "TVar"}[v.Tok]
		dcs, doc := c19Group(v.Doc)
		if hasMarker(dcs) {
			exp.markedDocs = append(exp.markedDocs, dcs)
		}
		var specs []string
		for _, sp := range v.Specs {
			switch s := sp.(type) {
			case *ast.TypeSpec:
				_, sdoc := c19Group(s.Doc)
				shape := "STypeOther"
				if it, ok := s.Type.(*ast.InterfaceType); ok {
					var ms []string
					for _, m := range it.Methods.List {
						var names []string
						for _, n := range m.Names {
							names = append(names, runes(n.Name))
						}
						_, mdoc := c19Group(m.Doc)
						ms = append(ms, fmt.Sprintf("{| m_names := %s; m_doc := %s |}", coqList(names), mdoc))
					}
					shape = "SIface " + coqList(ms)
				}
				specs = append(specs, fmt.Sprintf("{| s_name := %s; s_doc := %s; s_shape := %s |}", runes(s.Name.Name), sdoc, shape))
			case *ast.ValueSpec:
				_, sdoc := c19Group(s.Doc)
				var names []string
				for _, n := range s.Names {
					names = append(names, runes(n.Name))
				}
				specs = append(specs, fmt.Sprintf("{| s_name := []; s_doc := %s; s_shape := SValue %s |}", sdoc, coqList(names)))
			case *ast.ImportSpec:
				specs = append(specs, "{| s_name := []; s_doc := []; s_shape := SImport |}")
			}
		}
		return fmt.Sprintf("DGen {| d_tok := %s; d_doc := %s; d_specs := %s |}", tok, doc, coqList(specs)), exp
	}
	return "DFunc []", exp
}

var c19ErrClasses = []struct {
	frag  string
	class int
}{
	{`must be defined on "var"-block`, 1},
	{`must be defined on "type"-block`, 2},
	{`has multiple interfaces inside`, 3},
	{`may only be applied to type declarations`, 4},
	{`may only be applied to type interface declarations`, 5},
	{`method must have one name`, 6},
	{`must have one name`, 7},
	{`expected value spec`, 8},
	{`may not be defined on a func declaration`, 9},
}

func c19Class(err error) int {
	for _, c := range c19ErrClasses {
		if strings.Contains(err.Error(), c.frag) {
			return c.class
		}
	}
	return 99
}

type c19Pkg struct {
	id   int
	src  string
	kind string
}

func runC19B(cfg runCfg) {
	rep := newReport("C19", cfg.seed, cfg.tier)
	rep.Rule = "generated packages of declaration layouts (single/grouped type, var, const, func; markers in decl doc, spec doc, method doc, detached, trailing, in bodies; 10 wrong-kind forms) written to disk and read by the real comments.ParseDocs; non-trivial = package yields a converter or a marker diagnostic; distinct by source text"
	nValid, nErr := 4, 20
	declsPer := 40
	if cfg.tier == "thorough" {
		nValid, nErr = 40, 200
	}
	if cfg.n > 0 {
		nValid, nErr = cfg.n, cfg.n*5
	}
	r := rand.New(rand.NewSource(cfg.seed*7919 + 3))
	root := filepath.Join(cfg.out, "mod")
	must(os.MkdirAll(root, 0o755))
	must(os.WriteFile(filepath.Join(root, "go.mod"), []byte("module example.org/c19\n\ngo 1.22\n"), 0o644))
	errKinds := []string{"vars-on-type", "vars-on-const", "conv-on-var", "conv-on-const", "conv-multiple", "conv-non-iface", "spec-non-iface", "embedded", "two-names", "vars-empty-on-import", "conv-on-func", "vars-on-func"}
	var pkgs []c19Pkg
	for i := 0; i < nValid+nErr; i++ {
		var sb strings.Builder
		sb.WriteString(fmt.Sprintf("package p%d\n\n", i))
		kind := "valid"
		var decls []string
		n := declsPer
		if i >= nValid {
			kind = errKinds[(i-nValid)%len(errKinds)]
			n = r.Intn(4)
		}
		for j := 0; j < n; j++ {
			decls = append(decls, c19GenDecl(r, j, ""))
		}
		if kind != "valid" {
			pos := r.Intn(len(decls) + 1)
			e := c19GenDecl(r, 1000, kind)
			decls = append(decls[:pos], append([]string{e}, decls[pos:]...)...)
		}
		imp := ""
		for _, d := range decls {
			if strings.HasPrefix(strings.TrimLeft(d[strings.LastIndex("\n"+strings.TrimRight(d, "\n"), "\n"):], "\n"), "import") || strings.Contains(d, "\nimport _") || strings.HasPrefix(d, "import _") {
				imp = d
			}
		}
		for _, d := range decls {
			if d == imp {
				continue
			}
			sb.WriteString(d + "\n")
		}
		src := sb.String()
		if imp != "" { // imports must come first
			src = fmt.Sprintf("package p%d\n\n", i) + imp + "\n" + src[len(fmt.Sprintf("package p%d\n\n", i)):]
		}
		if strings.Contains(src, "Emb\n") {
			src += "\ntype Emb interface{ E() }\n"
		}
		pkgs = append(pkgs, c19Pkg{id: i, src: src, kind: kind})
	}
	w := &shardWriter{dir: cfg.out, stem: "C19B", max: 40, rep: rep, off: cfg.oracleOnly,
		header:  "From Coq Require Import List NArith.\nFrom GV Require Import Base Comment Markers.\nImport ListNotations. Open Scope N_scope.",
		ctype:   "N * list decl * res (list rawconv)",
		trailer: "Definition bad (c : N * list decl * res (list rawconv)) : bool :=\n  let '(_, ds, obs) := c in negb (res_eqb (list_eqb rawconv_eqb) (parse_decls ds) obs).\nDefinition M := Eval vm_compute in map (fun c => fst (fst c)) (filter bad cases). Print M.\n"}
	casesF, _ := os.Create(filepath.Join(cfg.out, "cases.jsonl"))
	defer casesF.Close()
	for _, p := range pkgs {
		dir := filepath.Join(root, fmt.Sprintf("p%d", p.id))
		must(os.MkdirAll(dir, 0o755))
		must(os.WriteFile(filepath.Join(dir, "in.go"), []byte(p.src), 0o644))
		fset := token.NewFileSet()
		f, err := parser.ParseFile(fset, "in.go", p.src, parser.ParseComments)
		if err != nil {
			rep.count("generator-produced-unparsable")
			continue
		}
		var terms []string
		var exps []c19Exp
		order := map[string]int{}
		for _, d := range f.Decls {
			t, e := c19DeclTerm(d)
			terms = append(terms, t)
			exps = append(exps, e)
			ast.Inspect(d, func(n ast.Node) bool {
				if id, ok := n.(*ast.Ident); ok {
					if _, seen := order[id.Name]; !seen {
						order[id.Name] = len(order)
					}
				}
				return true
			})
		}
		raw, err := comments.ParseDocs(comments.ParseDocsConfig{PackagePattern: []string{"."}, WorkingDir: dir, BuildTags: "goverter"})
		var obs string
		outcome := "ok-none"
		if err != nil {
			cl := c19Class(err)
			if strings.Contains(err.Error(), "could not load package") {
				rep.count("generator-produced-uncompilable")
				rep.Notes = append(rep.Notes, err.Error())
				continue
			}
			obs = fmt.Sprintf("Diag %d", cl)
			outcome = fmt.Sprintf("diag-%d", cl)
		} else {
			var cs []string
			for _, rc := range raw {
				var names []string
				for n := range rc.Methods {
					names = append(names, n)
				}
				sort.Slice(names, func(a, b int) bool { return order[names[a]] < order[names[b]] })
				var ms []string
				for _, n := range names {
					ms = append(ms, fmt.Sprintf("(%s, %s)", runes(n), strsTerm(rc.Methods[n].Lines)))
				}
				cs = append(cs, fmt.Sprintf("{| rc_iface := %s; rc_lines := %s; rc_methods := %s |}", runes(rc.InterfaceName), strsTerm(rc.Converter.Lines), coqList(ms)))
			}
			obs = "Ok " + coqList(cs)
			if len(raw) > 0 {
				outcome = "ok-converters"
			}
		}
		rep.count("kind=" + p.kind)
		rep.count("outcome=" + outcome)
		rep.eval(p.src, outcome != "ok-none")
		if outcome != "ok-none" {
			rep.sample(map[string]interface{}{"source": p.src, "outcome": outcome, "converters": len(raw)})
		}
		// Go-side oracle: the property text directly
		for _, e := range exps {
			if e.funcDecl && err == nil {
				rep.violate(Violation{CaseID: fmt.Sprint(p.id), What: "marker in the doc comment of a func declaration is neither a converter nor an error",
					Sig: "marker-on-funcdecl-ignored", Replay: map[string]interface{}{"source": p.src}})
			}
		}
		if p.kind != "valid" && err == nil {
			rep.violate(Violation{CaseID: fmt.Sprint(p.id), What: "marker on the wrong kind of declaration (" + p.kind + ") is not reported as an error",
				Sig: "wrong-kind-accepted:" + p.kind, Replay: map[string]interface{}{"source": p.src}})
		}
		if p.kind == "valid" && err != nil {
			rep.violate(Violation{CaseID: fmt.Sprint(p.id), What: "a well-placed layout is rejected: " + err.Error(),
				Sig: "valid-layout-rejected", Replay: map[string]interface{}{"source": p.src}})
		}
		fmt.Fprintf(casesF, "{\"id\":%d,\"replay\":{\"source\":%q}}\n", p.id, p.src)
		w.add(fmt.Sprintf("(%d, %s, %s)", p.id, coqList(terms), obs))
	}
	w.flush()
	os.RemoveAll(root)
	rep.write(cfg.out)
}
