package main

// extractor part: the method.ParseOpts literal of every call site that parses a
// signature (which source mode, generics, update parameter, converter role).

import (
	"fmt"
	"go/ast"
)

func init() { extractParts = append(extractParts, extractParseOpts) }

type parseOptsSite struct{ file, fn, coq string; nth int }

func extractParseOpts(e *extractor) {
	sites := []parseOptsSite{
		{"config/method.go", "parseMethod", "x_opts_converter_method", 0},
		{"config/method.go", "parseMethodLine", "x_opts_map_func", 0},
		{"config/method.go", "parseMethodLine", "x_opts_default", 1},
		{"config/converter.go", "parseConverterLine", "x_opts_extend", 0},
		{"builder/struct.go", "mapField", "x_opts_struct_method", 0},
	}
	e.out.WriteString("\n(* method.ParseOpts literals per use: (Params mode 0=Required 1=Optional 2=None, ParamsMultiSource, AllowTypeParams, UpdateParam given, Converter given) *)\n")
	for _, s := range sites {
		f := e.file(s.file)
		found := false
		if f != nil {
			for _, d := range f.Decls {
				fd, ok := d.(*ast.FuncDecl)
				if !ok || fd.Name.Name != s.fn || fd.Body == nil {
					continue
				}
				n := 0
				ast.Inspect(fd.Body, func(nd ast.Node) bool {
					cl, ok := nd.(*ast.CompositeLit)
					if !ok {
						return true
					}
					sel, ok := cl.Type.(*ast.SelectorExpr)
					if !ok || sel.Sel.Name != "ParseOpts" {
						return true
					}
					if n == s.nth {
						mode, multi, tp, upd, conv := 0, false, false, false, false
						ctxExpr := ""
						okAll := true
						for _, el := range cl.Elts {
							kv, ok := el.(*ast.KeyValueExpr)
							if !ok {
								okAll = false
								continue
							}
							key := kv.Key.(*ast.Ident).Name
							switch key {
							case "Params":
								if se, ok := kv.Value.(*ast.SelectorExpr); ok {
									switch se.Sel.Name {
									case "ParamsRequired":
										mode = 0
									case "ParamsOptional":
										mode = 1
									case "ParamsNone":
										mode = 2
									default:
										okAll = false
									}
								} else {
									okAll = false
								}
							case "ParamsMultiSource":
								id, ok := kv.Value.(*ast.Ident)
								if !ok {
									okAll = false
								} else {
									multi = id.Name == "true"
								}
							case "AllowTypeParams":
								id, ok := kv.Value.(*ast.Ident)
								if !ok {
									okAll = false
								} else {
									tp = id.Name == "true"
								}
							case "UpdateParam":
								upd = true
							case "ContextMatch":
								if se, ok := kv.Value.(*ast.SelectorExpr); ok {
									if id, ok := se.X.(*ast.Ident); ok {
										ctxExpr = id.Name + "." + se.Sel.Name
									}
								}
							case "Converter":
								if id, ok := kv.Value.(*ast.Ident); !ok || id.Name != "nil" {
									conv = true
								}
							}
						}
						if okAll {
							fmt.Fprintf(&e.out, "Definition %s : N * bool * bool * bool * bool := (%d, %s, %s, %s, %s).\n", s.coq, mode, coqBool(multi), coqBool(tp), coqBool(upd), coqBool(conv))
							fmt.Fprintf(&e.out, "Definition %s_ctx : rstr := %s. (* ContextMatch: %s *)\n", s.coq, runes(ctxExpr), ctxExpr)
							found = true
						}
					}
					n++
					return true
				})
			}
		}
		if !found {
			e.errs = append(e.errs, fmt.Sprintf("ParseOpts literal #%d in %s %s not found or outside the subset", s.nth, s.file, s.fn))
			fmt.Fprintf(&e.out, "(* MISSING: %s *)\n", s.coq)
		}
	}
}
