package main

// Tool-level streams (the goverter CLI as a process): argument vectors (C17), output layout (C15),
// header / build constraint / stale outputs (C16), failing runs (C17), determinism (C09).
// The binary is built from /repo's current working tree (cmd/goverter).

import (
	"bytes"
	"crypto/sha256"
	"fmt"
	"io/fs"
	"math/rand"
	"os"
	"os/exec"
	"path/filepath"
	"sort"
	"strings"
	"syscall"

	"github.com/jmattheis/goverter/cli"
)

func init() {
	streams["cli"] = runCliArgs
	streams["tool-c15"] = runToolC15
	streams["tool-c16"] = runToolC16
	streams["tool-c17"] = runToolC17
	streams["tool-c09"] = runToolC09
}

// ---------------------------------------------------------------- helpers

func buildCLI(cfg runCfg) string {
	bin := filepath.Join(cfg.out, "goverter.bin")
	cmd := exec.Command("go", "build", "-o", bin, "./cmd/goverter")
	cmd.Dir = cfg.repo
	cmd.Env = append(os.Environ(), "GOFLAGS=-mod=mod", "GOPROXY=off", "GOSUMDB=off", "GOTOOLCHAIN=local")
	if out, err := cmd.CombinedOutput(); err != nil {
		fmt.Fprintln(os.Stderr, "cannot build the goverter CLI:", string(out))
		os.Exit(3)
	}
	return bin
}

type procResult struct {
	exit   int
	stdout string
	stderr string
}

func runCLI(bin, dir string, args ...string) procResult {
	cmd := exec.Command(bin, args...)
	cmd.Dir = dir
	cmd.Env = append(os.Environ(), "GOFLAGS=-mod=mod", "GOPROXY=off", "GOSUMDB=off", "GOTOOLCHAIN=local")
	var so, se bytes.Buffer
	cmd.Stdout, cmd.Stderr = &so, &se
	err := cmd.Run()
	code := 0
	if err != nil {
		if ee, ok := err.(*exec.ExitError); ok {
			code = ee.ExitCode()
		} else {
			code = -1
		}
	}
	return procResult{code, so.String(), se.String()}
}

// snapshot: relative path -> sha256 of content + mode (directories included)
func snapshot(root string) map[string]string {
	m := map[string]string{}
	filepath.WalkDir(root, func(p string, d fs.DirEntry, err error) error {
		if err != nil {
			return nil
		}
		rel, _ := filepath.Rel(root, p)
		info, err := d.Info()
		if err != nil {
			return nil
		}
		if d.IsDir() {
			m[rel+"/"] = fmt.Sprintf("dir %o", info.Mode().Perm())
			return nil
		}
		b, _ := os.ReadFile(p)
		m[rel] = fmt.Sprintf("%x %o", sha256.Sum256(b), info.Mode().Perm())
		return nil
	})
	return m
}

func diffSnap(a, b map[string]string) (created, changed, removed []string) {
	for k, v := range b {
		if av, ok := a[k]; !ok {
			created = append(created, k)
		} else if av != v {
			changed = append(changed, k)
		}
	}
	for k := range a {
		if _, ok := b[k]; !ok {
			removed = append(removed, k)
		}
	}
	sort.Strings(created)
	sort.Strings(changed)
	sort.Strings(removed)
	return
}

func writeTree(root string, files map[string]string) {
	for rel, content := range files {
		p := filepath.Join(root, rel)
		must(os.MkdirAll(filepath.Dir(p), 0o755))
		must(os.WriteFile(p, []byte(content), 0o644))
	}
}

const toolTypes = "type In struct{ A int; B string }\ntype Out struct{ A int; B string }\n"

// ---------------------------------------------------------------- cli: argument vectors (in-process cli.Parse)

var cliTokens = []string{"gen", "help", "version", "-h", "--help", "-help", "-g", "ignoreMissing no", "-global", "-global=skipCopySameType", "-g=", "-build-tags", "t1,t2", "-build-tags=",
	"--output-constraint", "!t1", "-output-constraint=", "-cwd", "/w/x", "--cwd=rel", "--", "-", "-x", "--bogus=1", "./p", "./...", "=", "-=", "--=x", "---x", "", "genx", "-g"}

func coqStrs(ss []string) string {
	var parts []string
	for _, s := range ss {
		parts = append(parts, runes(s))
	}
	return coqList(parts)
}

func runCliArgs(cfg runCfg) {
	rep := newReport("C17", cfg.seed, cfg.tier)
	rep.Rule = "argument vectors: all sequences of length 0..2 over a 33-token alphabet (sub-commands, every flag in -x / --x / -x=v / -x v form, terminators, malformed flags, patterns) plus random longer ones, through the real cli.Parse; non-trivial = anything but a usage error; distinct by vector"
	w := &shardWriter{dir: cfg.out, stem: "CLI", max: 1000, rep: rep, off: cfg.oracleOnly,
		header:  "From Coq Require Import List NArith.\nFrom GV Require Import Base Cli.\nImport ListNotations. Open Scope N_scope.",
		ctype:   "N * list rstr * command",
		trailer: "Definition cmd_eqb (a b : command) : bool := match a, b with CHelp, CHelp | CVersion, CVersion | CUsage, CUsage => true | CGenerate g t c w p, CGenerate g' t' c' w' p' => list_eqb rstr_eqb g g' && rstr_eqb t t' && rstr_eqb c c' && rstr_eqb w w' && list_eqb rstr_eqb p p' | _, _ => false end.\nDefinition bad (c : N * list rstr * command) : bool := let '(_, args, obs) := c in negb (cmd_eqb (parse (s2r \"goverter\"%string :: args)) obs).\nDefinition M := Eval vm_compute in map (fun c => fst (fst c)) (filter bad cases). Print M.\n"}
	w.header = "From Coq Require Import List NArith String.\nFrom GV Require Import Base Cli.\nImport ListNotations. Open Scope N_scope."
	casesF, _ := os.Create(filepath.Join(cfg.out, "cases.jsonl"))
	defer casesF.Close()
	id := 0
	try := func(args []string) {
		c, err := cli.Parse(append([]string{"goverter"}, args...))
		var obs string
		kind := ""
		switch {
		case err != nil:
			obs, kind = "CUsage", "usage"
		default:
			switch v := c.(type) {
			case *cli.Help:
				obs, kind = "CHelp", "help"
			case *cli.Version:
				obs, kind = "CVersion", "version"
			case *cli.Generate:
				obs = fmt.Sprintf("CGenerate %s %s %s %s %s", coqStrs(v.Config.Global.Lines), runes(v.Config.BuildTags), runes(v.Config.OutputBuildConstraint), runes(v.Config.WorkingDir), coqStrs(v.Config.PackagePatterns))
				kind = "generate"
			}
		}
		rep.eval(strings.Join(args, "\x00"), kind != "usage")
		rep.count(kind)
		if kind == "generate" {
			rep.sample(map[string]interface{}{"argv": args, "result": kind})
		}
		// direct oracle: help forms / missing parts (property text)
		if len(args) == 0 && kind != "usage" {
			rep.violate(Violation{CaseID: fmt.Sprint(id), What: "empty argument vector is not a usage error", Sig: "cli-usage", Replay: args})
		}
		if len(args) == 1 && args[0] == "help" && kind != "help" {
			rep.violate(Violation{CaseID: fmt.Sprint(id), What: "`goverter help` is not help", Sig: "cli-help", Replay: args})
		}
		if len(args) == 1 && args[0] == "gen" && kind != "usage" {
			rep.violate(Violation{CaseID: fmt.Sprint(id), What: "`goverter gen` without pattern is not a usage error", Sig: "cli-usage", Replay: args})
		}
		fmt.Fprintf(casesF, "{\"id\":%d,\"replay\":{\"argv\":%q}}\n", id, args)
		w.add(fmt.Sprintf("(%d, %s, %s)", id, coqStrs(args), obs))
		id++
	}
	try(nil)
	for _, a := range cliTokens {
		try([]string{a})
		for _, b := range cliTokens {
			try([]string{a, b})
		}
	}
	r := rand.New(rand.NewSource(cfg.seed))
	n := 2500
	if cfg.tier == "thorough" {
		n = 40000
	}
	for i := 0; i < n; i++ {
		k := 3 + r.Intn(4)
		var args []string
		if r.Intn(2) == 0 {
			args = append(args, "gen")
			k--
		}
		for j := 0; j < k; j++ {
			args = append(args, cliTokens[r.Intn(len(cliTokens))])
		}
		try(args)
	}
	w.flush()
	rep.write(cfg.out)
}

// ---------------------------------------------------------------- C15: layouts

type layoutConv struct {
	name, dirRel, fileLine, pkgLine string
	existing                        string // name of an existing package at the target directory ("" = none)
}

func runToolC15(cfg runCfg) {
	rep := newReport("C15", cfg.seed, cfg.tier)
	rep.Rule = "module trees with converters in 1-2 packages; output:file in {default, ./x.go, ./sub/x.go, ../up/x.go, absolute, @cwd/out/x.go} x output:package in {absent, path, path:name, :name} x existing / non-existing target package x invocation from the module root, from a sub directory and with -cwd; umask 0; observed: set of created files and directories with modes, package clause of every file; non-trivial = successful run; distinct by layout"
	bin := buildCLI(cfg)
	old := syscall.Umask(0)
	defer syscall.Umask(old)
	r := rand.New(rand.NewSource(cfg.seed))
	w := &shardWriter{dir: cfg.out, stem: "C15", max: 200, rep: rep, off: cfg.oracleOnly,
		header:  "From Coq Require Import List NArith String.\nFrom GV Require Import Base Paths.\nImport ListNotations. Open Scope N_scope.",
		ctype:   "N * (rstr * rstr * rstr) * (rstr * option rstr * rstr) * (rstr * rstr * rstr)",
		trailer: "(* (id, (source file, abs cwd, output:file value), (configured pkg name, existing pkg name, source pkg path), (observed file, observed clause, observed import path of the directory)) *)\nDefinition bad (c : N * (rstr * rstr * rstr) * (rstr * option rstr * rstr) * (rstr * rstr * rstr)) : bool :=\n  let '(_, (src, cwd, ov), (cfgname, ex, spkg), (ofile, oclause, opkg)) := c in\n  let f := parse_file cwd ov in\n  negb (rstr_eqb (output_path src f) ofile && rstr_eqb (resolve_package src spkg f) opkg && rstr_eqb (package_clause cfgname ex (resolve_package src spkg f)) oclause).\nDefinition M := Eval vm_compute in map (fun c => fst (fst (fst c))) (filter bad cases). Print M.\n"}
	casesF, _ := os.Create(filepath.Join(cfg.out, "cases.jsonl"))
	defer casesF.Close()
	nLayouts := 24
	if cfg.tier == "thorough" {
		nLayouts = 300
	}
	id := 0
	fileForms := []string{"", "./x.go", "./sub/x.go", "../up/x.go", "ABS", "@cwd/out/x.go", "./existing/x.go", "../p2/z.go"}
	for l := 0; l < nLayouts; l++ {
		root, _ := filepath.Abs(filepath.Join(cfg.out, fmt.Sprintf("lay%d", l)))
		files := map[string]string{"go.mod": "module example.org/m\n\ngo 1.22\n", "a/existing/e.go": "package realname\n", "a/p2/t.go": "package p2\n"}
		form := fileForms[(l+r.Intn(2))%len(fileForms)]
		pkgForm := []string{"", "", "PATH", "PATH:custom", ":custom"}[r.Intn(5)]
		invoke := r.Intn(3) // 0 root, 1 sub dir with relative pattern, 2 -cwd
		cwdAbs := root
		if invoke == 1 {
			cwdAbs = filepath.Join(root, "a")
		}
		ov := form
		if form == "ABS" {
			ov = filepath.Join(root, "a", "absout", "x.go")
		}
		var sb strings.Builder
		sb.WriteString("package p\n\n" + toolTypes + "\n// goverter:converter\n")
		if ov != "" {
			sb.WriteString("// goverter:output:file " + ov + "\n")
		}
		srcFile := filepath.Join(root, "a", "p", "conv.go")
		srcPkg := "example.org/m/a/p"
		// expected target directory (harness' own arithmetic, used only to fill in output:package PATH and the existing name)
		var target string
		switch {
		case ov == "":
			target = filepath.Join(root, "a", "p", "generated", "generated.go")
		case strings.HasPrefix(ov, "@cwd/"):
			target = filepath.Join(cwdAbs, strings.TrimPrefix(ov, "@cwd/"))
		case filepath.IsAbs(ov):
			target = ov
		default:
			target = filepath.Join(root, "a", "p", ov)
		}
		relDir, _ := filepath.Rel(root, filepath.Dir(target))
		importPath := "example.org/m/" + filepath.ToSlash(relDir)
		if relDir == "." {
			importPath = "example.org/m"
		}
		cfgName, pkgLine := "", ""
		switch pkgForm {
		case "PATH":
			pkgLine = importPath
		case "PATH:custom":
			pkgLine, cfgName = importPath+":custom", "custom"
		case ":custom":
			pkgLine, cfgName = ":custom", "custom"
		}
		if pkgLine != "" {
			sb.WriteString("// goverter:output:package " + pkgLine + "\n")
		}
		sb.WriteString("type C interface {\n\tConv(source In) Out\n}\n")
		files["a/p/conv.go"] = sb.String()
		writeTree(root, files)
		existing := ""
		if strings.HasSuffix(filepath.Dir(target), "a/existing") {
			existing = "realname"
		}
		if strings.HasSuffix(filepath.Dir(target), "a/p2") {
			existing = "p2"
		}
		if filepath.Dir(target) == filepath.Join(root, "a", "p") {
			existing = "p"
		}
		before := snapshot(root)
		var res procResult
		switch invoke {
		case 0:
			res = runCLI(bin, root, "gen", "./a/p")
		case 1:
			res = runCLI(bin, filepath.Join(root, "a"), "gen", "./p")
		default:
			res = runCLI(bin, cfg.out, "gen", "-cwd", root, "./a/p")
		}
		after := snapshot(root)
		created, changed, removed := diffSnap(before, after)
		key := fmt.Sprintf("%s|%s|%d", form, pkgForm, invoke)
		replay := map[string]interface{}{"output:file": ov, "output:package": pkgLine, "invocation": []string{"root", "subdir", "-cwd"}[invoke], "exit": res.exit, "stderr": firstLines(res.stderr, 6), "created": created}
		rep.eval(key, res.exit == 0)
		rep.count(fmt.Sprintf("exit=%d", res.exit))
		if res.exit != 0 {
			// @cwd with -cwd unset resolves against the process directory; package mismatch etc. are legitimate diagnostics
			if len(created)+len(changed)+len(removed) > 0 {
				rep.violate(Violation{CaseID: fmt.Sprint(id), What: "failing run changed the tree", Sig: "fail-wrote", Replay: replay})
			}
			os.RemoveAll(root)
			continue
		}
		rep.sample(replay)
		// direct oracle: exactly the expected file (+ its new parent directories), modes 0644 / 0755
		relTarget, _ := filepath.Rel(root, target)
		var newFiles []string
		for _, c := range created {
			if !strings.HasSuffix(c, "/") {
				newFiles = append(newFiles, c)
			} else if after[c] != "dir 755" {
				rep.violate(Violation{CaseID: fmt.Sprint(id), What: "new directory " + c + " has mode " + after[c], Sig: "dir-mode", Replay: replay})
			}
		}
		if len(changed)+len(removed) > 0 || len(newFiles) != 1 || newFiles[0] != relTarget {
			rep.violate(Violation{CaseID: fmt.Sprint(id), What: fmt.Sprintf("expected exactly %s to be created, got created=%v changed=%v removed=%v", relTarget, created, changed, removed), Sig: "written-set", Replay: replay})
			os.RemoveAll(root)
			continue
		}
		if !strings.HasSuffix(after[relTarget], " 644") {
			rep.violate(Violation{CaseID: fmt.Sprint(id), What: "new file has mode " + after[relTarget], Sig: "file-mode", Replay: replay})
		}
		content, _ := os.ReadFile(target)
		clause := ""
		for _, line := range strings.Split(string(content), "\n") {
			if strings.HasPrefix(line, "package ") {
				clause = strings.TrimPrefix(line, "package ")
				break
			}
		}
		ex := "None"
		if existing != "" {
			ex = "Some " + runes(existing)
		}
		modelCwd := cwdAbs
		if invoke == 2 {
			modelCwd = root
		}
		fmt.Fprintf(casesF, "{\"id\":%d,\"replay\":{\"output_file\":%q,\"output_package\":%q,\"invocation\":%d}}\n", id, ov, pkgLine, invoke)
		w.add(fmt.Sprintf("(%d, (%s, %s, %s), (%s, %s, %s), (%s, %s, %s))", id, runes(srcFile), runes(modelCwd), runes(firstNonEmpty(ov, "./generated/generated.go")),
			runes(cfgName), ex, runes(srcPkg), runes(target), runes(clause), runes(importPath)))
		id++
		os.RemoveAll(root)
	}
	w.flush()
	// ---- goverter:variables blocks without output:file: the code lands in <file>.gen.go next to the declaring file,
	// whatever the file is called (several dots, generated-looking names) ----
	for vi, name := range []string{"conv.go", "user.v1.go", "event.pb.go", "a.b.c.go", "x_gen.go"} {
		root, _ := filepath.Abs(filepath.Join(cfg.out, fmt.Sprintf("var%d", vi)))
		files := map[string]string{"go.mod": "module example.org/m\n\ngo 1.22\n",
			"v/" + name: "package v\n\n" + toolTypes + "\n// goverter:variables\nvar (\n\tToOut func(source In) Out\n)\n"}
		writeTree(root, files)
		before := snapshot(root)
		res := runCLI(bin, root, "gen", "./v")
		created, changed, removed := diffSnap(before, snapshot(root))
		want := "v/" + strings.TrimSuffix(name, ".go") + ".gen.go"
		replay := map[string]interface{}{"declaring_file": "v/" + name, "exit": res.exit, "stderr": firstLines(res.stderr, 4), "created": created}
		rep.eval("variables-default-file|"+name, res.exit == 0)
		rep.count(fmt.Sprintf("exit=%d", res.exit))
		if res.exit != 0 || len(changed)+len(removed) > 0 || len(created) != 1 || created[0] != want {
			rep.violate(Violation{CaseID: fmt.Sprintf("var%d", vi), What: fmt.Sprintf("variables block in v/%s: expected exactly %s to be created, got exit=%d created=%v changed=%v removed=%v", name, want, res.exit, created, changed, removed), Sig: "written-set", Replay: replay})
		}
		os.RemoveAll(root)
	}
	// ---- converters of two packages selecting the SAME output file: they must agree on the package (path and name) ----
	w2 := &shardWriter{dir: cfg.out, stem: "C15S", max: 200, rep: rep, off: cfg.oracleOnly,
		header:  "From Coq Require Import List NArith String.\nFrom GV Require Import Base Paths.\nImport ListNotations. Open Scope N_scope.",
		ctype:   "N * (rstr * rstr * option rstr) * (rstr * rstr * option rstr) * bool",
		trailer: "(* (id, (package path, configured name, existing package name) of both converters, accepted) *)\nDefinition bad (c : N * (rstr * rstr * option rstr) * (rstr * rstr * option rstr) * bool) : bool :=\n  let '(_, (pa, na, ea), (pb, nb, eb), ok) := c in\n  negb (Bool.eqb (same_file_accepts (pa, effective_name na ea) (pb, effective_name nb eb)) ok).\nDefinition M := Eval vm_compute in map (fun c => fst (fst (fst c))) (filter bad cases). Print M.\n"}
	type side struct{ pkgLine, path, name string }
	shared := []struct {
		label    string
		file     string // output:file of both (relative to the module root via @cwd)
		existing string
		a, b     side
	}{
		{"agree on path:name", "@cwd/out/x.go", "", side{"example.org/m/out:alpha", "example.org/m/out", "alpha"}, side{"example.org/m/out:alpha", "example.org/m/out", "alpha"}},
		{"agree, no name", "@cwd/out/x.go", "", side{"example.org/m/out", "example.org/m/out", ""}, side{"", "example.org/m/out", ""}},
		{"names differ", "@cwd/out/x.go", "", side{"example.org/m/out:alpha", "example.org/m/out", "alpha"}, side{"example.org/m/out:beta", "example.org/m/out", "beta"}},
		{"absent vs path:name", "@cwd/out/x.go", "", side{"", "example.org/m/out", ""}, side{"example.org/m/out:custom", "example.org/m/out", "custom"}},
		{"paths differ", "@cwd/out/x.go", "", side{"example.org/m/out", "example.org/m/out", ""}, side{"example.org/m/other", "example.org/m/other", ""}},
		{"existing package vs other name", "@cwd/a/existing/x.go", "realname", side{"", "example.org/m/a/existing", ""}, side{":other", "example.org/m/a/existing", "other"}},
		{"existing package vs its own name", "@cwd/a/existing/x.go", "realname", side{"", "example.org/m/a/existing", ""}, side{":realname", "example.org/m/a/existing", "realname"}},
		{"name only, both", "@cwd/out/x.go", "", side{":gamma", "example.org/m/out", "gamma"}, side{":gamma", "example.org/m/out", "gamma"}},
	}
	for i, sc := range shared {
		root, _ := filepath.Abs(filepath.Join(cfg.out, fmt.Sprintf("sh%d", i)))
		files := map[string]string{"go.mod": "module example.org/m\n\ngo 1.22\n", "a/existing/e.go": "package realname\n"}
		for k, sd := range []side{sc.a, sc.b} {
			var sb strings.Builder
			fmt.Fprintf(&sb, "package p%d\n\n%s\n// goverter:converter\n// goverter:output:file %s\n", k+1, toolTypes, sc.file)
			if sd.pkgLine != "" {
				sb.WriteString("// goverter:output:package " + sd.pkgLine + "\n")
			}
			fmt.Fprintf(&sb, "type C%d interface {\n\tConv%d(source In) Out\n}\n", k+1, k+1)
			files[fmt.Sprintf("a/p%d/conv.go", k+1)] = sb.String()
		}
		writeTree(root, files)
		before := snapshot(root)
		res := runCLI(bin, root, "gen", "./a/p1", "./a/p2")
		created, changed, removed := diffSnap(before, snapshot(root))
		ok := res.exit == 0
		effName := func(sd side) string {
			if sd.name != "" {
				return sd.name
			}
			return sc.existing
		}
		expect := sc.a.path == sc.b.path && effName(sc.a) == effName(sc.b)
		replay := map[string]interface{}{"case": sc.label, "output:file": sc.file, "output:package": []string{sc.a.pkgLine, sc.b.pkgLine}, "exit": res.exit, "stderr": firstLines(res.stderr, 8), "created": created}
		rep.eval("shared:"+sc.label, true)
		rep.count(fmt.Sprintf("shared-exit=%d", res.exit))
		if ok != expect {
			rep.violate(Violation{CaseID: fmt.Sprintf("S%d", i), What: fmt.Sprintf("two converters selecting the same output file (%s): expected accepted=%v, goverter exit status %d", sc.label, expect, res.exit), Sig: "shared-file-package-agreement", Replay: replay})
		}
		if !ok && len(created)+len(changed)+len(removed) > 0 {
			rep.violate(Violation{CaseID: fmt.Sprintf("S%d", i), What: "failing run changed the tree", Sig: "fail-wrote", Replay: replay})
		}
		ex := "None"
		if sc.existing != "" {
			ex = "Some " + runes(sc.existing)
		}
		w2.add(fmt.Sprintf("(%d, (%s, %s, %s), (%s, %s, %s), %s)", 1000+i, runes(sc.a.path), runes(sc.a.name), ex, runes(sc.b.path), runes(sc.b.name), ex, coqBool(ok)))
		os.RemoveAll(root)
	}
	w2.flush()
	rep.write(cfg.out)
}

func firstNonEmpty(a, b string) string {
	if a != "" {
		return a
	}
	return b
}
