package main

// Run-time values: generation by type, rendering as Go construction code and as Val.v terms.

import (
	"fmt"
	"math/rand"
	"strings"
)

type Val struct {
	K   string // "b","nil","ptr","slice","arr","map","struct","opq"
	B   int64
	ID  int
	V   *Val
	Vs  []*Val
	KVs [][2]*Val
	T   *Ty // static type of this node
}

type valGen struct {
	p      *Program
	r      *rand.Rand
	nextID int
	pool   map[string][]*Val // shareable nodes (ptr/slice/map) by Go type string
	mode   int               // 0 random, 1 all nil, 2 all empty-non-nil, 3 fully populated
	share  bool
}

func newValGen(p *Program, r *rand.Rand) *valGen {
	return &valGen{p: p, r: r, nextID: 2, pool: map[string][]*Val{}}
}

var basicTokens = []int64{0, 1, 2, 3, 7, 42, 100}

func (g *valGen) basic(kind int) int64 {
	switch kind {
	case bkBool:
		return int64(g.r.Intn(2))
	case bkString:
		return int64(g.r.Intn(6))
	case bkUint8:
		return []int64{0, 1, 200, 255}[g.r.Intn(4)]
	case bkFloat64:
		return []int64{0, 1, -2, 1024}[g.r.Intn(4)]
	case bkInt32:
		return []int64{0, 1, -1, 2147483647, -2147483648}[g.r.Intn(5)]
	default:
		return []int64{0, 1, -1, 42, 9223372036854775807, -9223372036854775808, 7}[g.r.Intn(7)]
	}
}

func (g *valGen) fresh() int { g.nextID++; return g.nextID - 1 }

func (g *valGen) gen(t *Ty, depth int) *Val {
	u := g.p.under(t)
	nilP := 25
	switch g.mode {
	case 1:
		nilP = 100
	case 2, 3:
		nilP = 0
	}
	if depth > 6 {
		nilP = 100
	}
	isNil := g.r.Intn(100) < nilP
	key := g.p.goType(t, 0)
	reuse := func() *Val {
		if g.share && len(g.pool[key]) > 0 && g.r.Intn(3) == 0 {
			return g.pool[key][g.r.Intn(len(g.pool[key]))]
		}
		return nil
	}
	n := g.r.Intn(3)
	if g.mode == 2 {
		n = 0
	}
	if g.mode == 3 {
		n = 1 + g.r.Intn(2)
	}
	switch u.K {
	case "basic":
		if t.K == "named" && len(g.p.Named[t.ID].Consts) > 0 && g.r.Intn(4) != 0 { // mostly declared members of an enum
			cs := g.p.Named[t.ID].Consts
			return &Val{K: "b", B: cs[g.r.Intn(len(cs))].Val, T: t}
		}
		return &Val{K: "b", B: g.basic(u.Kind), T: t}
	case "ptr":
		if isNil {
			return &Val{K: "nil", T: t}
		}
		if v := reuse(); v != nil {
			return v
		}
		v := &Val{K: "ptr", ID: g.fresh(), T: t}
		v.V = g.gen(u.Elem, depth+1)
		g.pool[key] = append(g.pool[key], v)
		return v
	case "slice":
		if isNil {
			return &Val{K: "nil", T: t}
		}
		if v := reuse(); v != nil {
			return v
		}
		v := &Val{K: "slice", T: t}
		for i := 0; i < n; i++ {
			v.Vs = append(v.Vs, g.gen(u.Elem, depth+1))
		}
		if n > 0 {
			v.ID = g.fresh()
			g.pool[key] = append(g.pool[key], v)
		}
		return v
	case "arr":
		v := &Val{K: "arr", T: t}
		for i := 0; i < u.N; i++ {
			v.Vs = append(v.Vs, g.gen(u.Elem, depth+1))
		}
		return v
	case "map":
		if isNil {
			return &Val{K: "nil", T: t}
		}
		if v := reuse(); v != nil {
			return v
		}
		v := &Val{K: "map", ID: g.fresh(), T: t}
		seen := map[string]bool{}
		for i := 0; i < n; i++ {
			save := g.share
			g.share = false // keys without sharing (canonical ordering by token)
			k := g.gen(u.Key, depth+1)
			g.share = save
			ks := k.coq()
			if seen[ks] {
				continue
			}
			seen[ks] = true
			v.KVs = append(v.KVs, [2]*Val{k, g.gen(u.Elem, depth+1)})
		}
		g.pool[key] = append(g.pool[key], v)
		return v
	case "struct":
		v := &Val{K: "struct", T: t}
		for _, f := range u.Fields {
			v.Vs = append(v.Vs, g.gen(f.T, depth+1))
		}
		return v
	case "other":
		if isNil || u.Kind != 0 {
			return &Val{K: "nil", T: t}
		}
		return &Val{K: "opq", ID: 0, T: t}
	}
	return &Val{K: "nil", T: t}
}

// coq renders a value as a Val.v term.
func (v *Val) coq() string {
	switch v.K {
	case "b":
		return fmt.Sprintf("VBasic (%d)", v.B)
	case "nil":
		return "VNil"
	case "ptr":
		return fmt.Sprintf("VPtr %d (%s)", v.ID, v.V.coq())
	case "slice":
		return fmt.Sprintf("VSlice %d %s", v.ID, coqVals(v.Vs))
	case "arr":
		return "VArr " + coqVals(v.Vs)
	case "map":
		var kvs []string
		for _, kv := range v.KVs {
			kvs = append(kvs, "("+kv[0].coq()+", "+kv[1].coq()+")")
		}
		return fmt.Sprintf("VMap %d %s", v.ID, coqList(kvs))
	case "struct":
		return "VStruct " + coqVals(v.Vs)
	case "opq":
		return fmt.Sprintf("VOpaque %d", v.ID)
	}
	return "VNil"
}

func coqVals(vs []*Val) string {
	var parts []string
	for _, x := range vs {
		parts = append(parts, x.coq())
	}
	return coqList(parts)
}

// goBuilder renders construction code for a value inside the driver package.
type goBuilder struct {
	p     *Program
	decls []string
	done  map[int]string // node id -> variable name
	n     int
}

func (b *goBuilder) lit(kind int, tok int64, typ string) string {
	var s string
	switch kind {
	case bkBool:
		s = "false"
		if tok != 0 {
			s = "true"
		}
	case bkString:
		s = `""`
		if tok != 0 {
			s = fmt.Sprintf(`"s%d"`, tok)
		}
	default:
		s = fmt.Sprint(tok)
	}
	return typ + "(" + s + ")"
}

// expr returns a Go expression (of static type v.T) for the value.
func (b *goBuilder) expr(v *Val) string {
	t := v.T
	u := b.p.under(t)
	typ := b.p.goType(t, 0)
	switch v.K {
	case "b":
		return b.lit(u.Kind, v.B, typ)
	case "nil":
		return "(" + typ + ")(nil)"
	case "opq":
		return typ + "(int(7))"
	case "ptr":
		if name, ok := b.done[v.ID]; ok {
			return name
		}
		inner := b.expr(v.V)
		b.n++
		name := fmt.Sprintf("x%d", b.n)
		b.decls = append(b.decls, fmt.Sprintf("var %s %s = new(%s)\n\t*%s = %s", name, typ, b.p.goType(u.Elem, 0), name, inner))
		b.done[v.ID] = name
		return name
	case "slice":
		if v.ID != 0 {
			if name, ok := b.done[v.ID]; ok {
				return name
			}
		}
		var parts []string
		for _, x := range v.Vs {
			parts = append(parts, b.expr(x))
		}
		e := typ + "{" + strings.Join(parts, ", ") + "}"
		if v.ID == 0 {
			return e
		}
		b.n++
		name := fmt.Sprintf("x%d", b.n)
		b.decls = append(b.decls, fmt.Sprintf("var %s %s = %s", name, typ, e))
		b.done[v.ID] = name
		return name
	case "arr":
		var parts []string
		for _, x := range v.Vs {
			parts = append(parts, b.expr(x))
		}
		return typ + "{" + strings.Join(parts, ", ") + "}"
	case "map":
		if name, ok := b.done[v.ID]; ok {
			return name
		}
		var parts []string
		for _, kv := range v.KVs {
			parts = append(parts, b.expr(kv[0])+": "+b.expr(kv[1]))
		}
		b.n++
		name := fmt.Sprintf("x%d", b.n)
		b.decls = append(b.decls, fmt.Sprintf("var %s %s = %s{%s}", name, typ, typ, strings.Join(parts, ", ")))
		b.done[v.ID] = name
		return name
	case "struct":
		var parts []string
		if t.K == "named" {
			for _, x := range v.Vs {
				parts = append(parts, b.expr(x))
			}
			d := b.p.Named[t.ID]
			return pkgNames[d.Pkg] + ".Mk_" + d.Name + "(" + strings.Join(parts, ", ") + ")"
		}
		for i, x := range v.Vs {
			parts = append(parts, u.Fields[i].Name+": "+b.expr(x))
		}
		return typ + "{" + strings.Join(parts, ", ") + "}"
	}
	return "nil"
}

// hasMultiMap: does the value contain a map with more than one entry (iteration order is not determined)?
func (v *Val) hasMultiMap() bool {
	if v == nil {
		return false
	}
	if v.K == "map" && len(v.KVs) > 1 {
		return true
	}
	if v.V.hasMultiMap() {
		return true
	}
	for _, x := range v.Vs {
		if x.hasMultiMap() {
			return true
		}
	}
	for _, kv := range v.KVs {
		if kv[0].hasMultiMap() || kv[1].hasMultiMap() {
			return true
		}
	}
	return false
}
