package main

// Custom functions, context parameters and error results (properties C06, C07, C14 routing):
// program IR, Coq terms (Funcs.fraw), Go source of the functions (their results are a deterministic
// function of the function index, the first basic leaf of the source and the context values — the same
// oracle as Val.mark / Val.mark_token / Val.fn_fails), and the generator decoration that adds them to
// drawn converters.

import (
	"fmt"
	"sort"
	"strings"
)

type FnParam struct {
	Name string
	T    *Ty
	Role int  // 0 source, 1 context, 2 converter interface
	ByComment bool // context declared by a function-level "goverter:context NAME" comment (else by arg:context:regex)
}

type FuncDecl struct {
	Idx    int
	Name   string
	Pkg    int
	Params []FnParam
	Tgt    *Ty
	Err    bool
	Recv   *Ty    // struct method: named receiver type
	Conv   string // name of the converter interface the role-2 parameter has
	NoAccess bool // unexported and declared outside the output package of its converter: not usable
}

type CtxParam struct {
	Name string
	T    *Ty
}

type ExtSpec struct {
	Text  string // as written after goverter:extend
	Exact int    // function index, or -1 for a pattern
	Cands []int  // pattern: candidates in scope order
}

func (m *MethodSpec) CtxTypes() []*Ty {
	var out []*Ty
	for _, c := range m.Ctx {
		out = append(out, c.T)
	}
	return out
}

func coqTys(p *Program, ts []*Ty) string {
	var out []string
	for _, t := range ts {
		out = append(out, p.coqTy(t))
	}
	return coqList(out)
}

func (p *Program) coqFraws() string {
	var out []string
	for _, f := range p.Funcs {
		var ps []string
		for _, a := range f.Params {
			ps = append(ps, fmt.Sprintf("{| fp_sig := {| is_conv := %s; is_upd := false; is_ctx := %s |}; fp_ty := %s |}",
				coqBool(a.Role == 2), coqBool(a.Role == 1), p.coqTy(a.T)))
		}
		res := []string{"Some (" + p.coqTy(f.Tgt) + ")"}
		if f.Err {
			res = append(res, "None")
		}
		recv := "None"
		if f.Recv != nil {
			recv = "Some (" + p.coqTy(f.Recv) + ")"
		}
		out = append(out, fmt.Sprintf("{| fr_name := %s; fr_pkg := %d; fr_accessible := %s; fr_generic := false; fr_params := %s; fr_results := %s; fr_recv := %s |}",
			runes(f.Name), f.Pkg, coqBool(!f.NoAccess), coqList(ps), coqList(res), recv))
	}
	return coqList(out)
}

func (p *Program) coqSmeths() string {
	var out []string
	for _, f := range p.Funcs {
		if f.Recv != nil {
			out = append(out, fmt.Sprintf("(%d, %s, %d)", f.Recv.ID, runes(f.Name), f.Idx))
		}
	}
	return coqList(out)
}

func (c *ConvSpec) coqExtend() string {
	var out []string
	for _, e := range c.Extend {
		if e.Exact >= 0 {
			out = append(out, fmt.Sprintf("ExtExact %d", e.Exact))
		} else {
			var cs []string
			for _, x := range e.Cands {
				cs = append(cs, fmt.Sprint(x))
			}
			out = append(out, "ExtPattern "+coqList(cs))
		}
	}
	return coqList(out)
}

func (c *ConvSpec) coqFnames() string {
	var keys []string
	for k := range c.FuncNames {
		keys = append(keys, k)
	}
	sort.Strings(keys)
	var out []string
	for _, k := range keys {
		out = append(out, fmt.Sprintf("(%s, %d)", runes(k), c.FuncNames[k]))
	}
	return coqList(out)
}

func (rc *runCase) coqCtx(p *Program) string {
	var out []string
	for i, t := range rc.CtxT {
		out = append(out, fmt.Sprintf("(%s, VBasic (%d))", p.coqTy(t), rc.CtxV[i]))
	}
	return coqList(out)
}

func (rc *runCase) coqErr() string {
	if rc.Err == "" {
		return "None"
	}
	return "Some (" + rc.Err + ")"
}

// ---- Go source ----

// funcSource renders one custom function (or struct method) as seen from its own package.
func (p *Program) funcSource(f *FuncDecl) string {
	var sb strings.Builder
	var ctxLines []string
	var params, ctxArgs []string
	src := "nil"
	hasSrc := "false"
	for _, a := range f.Params {
		params = append(params, a.Name+" "+p.goTypeConv(f, a, f.Pkg))
		switch a.Role {
		case 0:
			src, hasSrc = a.Name, "true"
		case 1:
			ctxArgs = append(ctxArgs, a.Name)
			if a.ByComment {
				ctxLines = append(ctxLines, "// goverter:context "+a.Name)
			}
		}
	}
	res := p.goType(f.Tgt, f.Pkg)
	if f.Err {
		res = "(" + res + ", error)"
	}
	for _, l := range ctxLines {
		sb.WriteString(l + "\n")
	}
	recv := ""
	if f.Recv != nil {
		recv = "(recv " + p.goType(f.Recv, f.Pkg) + ") "
		src, hasSrc = "recv", "true"
	}
	fmt.Fprintf(&sb, "func %s%s(%s) %s {\n\tvar out %s\n", recv, f.Name, strings.Join(params, ", "), res, p.goType(f.Tgt, f.Pkg))
	args := ""
	if len(ctxArgs) > 0 {
		args = ", " + strings.Join(ctxArgs, ", ")
	}
	if f.Err {
		fmt.Fprintf(&sb, "\terr := sup.Call(%d, true, &out, %s, %s%s)\n\treturn out, err\n}\n\n", f.Idx, hasSrc, src, args)
	} else {
		fmt.Fprintf(&sb, "\t_ = sup.Call(%d, false, &out, %s, %s%s)\n\treturn out\n}\n\n", f.Idx, hasSrc, src, args)
	}
	return sb.String()
}

func (p *Program) goTypeConv(f *FuncDecl, a FnParam, from int) string {
	if a.Role == 2 {
		return f.Conv
	}
	return p.goType(a.T, from)
}

// funcsSource renders the free functions of a package.
func (p *Program) funcsSource(pkg int) string {
	var body strings.Builder
	for _, f := range p.Funcs {
		if f.Pkg == pkg && f.Recv == nil {
			body.WriteString(p.funcSource(f))
		}
	}
	if body.Len() == 0 {
		return ""
	}
	var sb strings.Builder
	fmt.Fprintf(&sb, "package %s\n\nimport (\n\tsup %q\n", pkgNames[pkg], "example.org/m/sup")
	if pkg == 1 && strings.Contains(body.String(), "q.") {
		fmt.Fprintf(&sb, "\tq %q\n", pkgPaths[2])
	}
	sb.WriteString(")\n\n")
	sb.WriteString(body.String())
	return sb.String()
}

// methodsSource renders the struct methods of a package (appended to its types file).
func (p *Program) methodsSource(pkg int) string {
	var body strings.Builder
	for _, f := range p.Funcs {
		if f.Pkg == pkg && f.Recv != nil {
			body.WriteString(p.funcSource(f))
		}
	}
	return body.String()
}

const supSource = `package sup

// Deterministic oracle for custom functions (mirrors Val.leaf / Val.mark / Val.mark_token / Val.fn_fails).

import (
	"fmt"
	"reflect"
	"unsafe"
)

type Err struct{ Fn int }

// Failed records the functions that returned an error since the driver last cleared it.
var Failed []int

func (e *Err) Error() string { return fmt.Sprintf("fn%d failed", e.Fn) }

func fmod(a, m int64) int64 {
	r := a % m
	if r < 0 {
		r += m
	}
	return r
}

func Tok(v reflect.Value) int64 {
	switch v.Kind() {
	case reflect.Bool:
		if v.Bool() {
			return 1
		}
		return 0
	case reflect.Int, reflect.Int8, reflect.Int16, reflect.Int32, reflect.Int64:
		return v.Int()
	case reflect.Uint, reflect.Uint8, reflect.Uint16, reflect.Uint32, reflect.Uint64, reflect.Uintptr:
		return int64(v.Uint())
	case reflect.Float32, reflect.Float64:
		return int64(v.Float())
	case reflect.String:
		s := v.String()
		if s == "" {
			return 0
		}
		var n int64
		if _, err := fmt.Sscanf(s, "s%d", &n); err == nil {
			return n
		}
		return -999
	}
	return 0
}

func leaf(v reflect.Value, fuel int) (int64, bool) {
	if fuel == 0 {
		return 0, false
	}
	switch v.Kind() {
	case reflect.Ptr:
		if v.IsNil() {
			return 0, false
		}
		return leaf(v.Elem(), fuel-1)
	case reflect.Slice:
		if v.IsNil() || v.Len() == 0 {
			return 0, false
		}
		return leaf(v.Index(0), fuel-1)
	case reflect.Array:
		if v.Len() == 0 {
			return 0, false
		}
		return leaf(v.Index(0), fuel-1)
	case reflect.Struct:
		for i := 0; i < v.NumField(); i++ {
			if z, ok := leaf(v.Field(i), fuel-1); ok {
				return z, true
			}
		}
		return 0, false
	case reflect.Map, reflect.Interface, reflect.Func, reflect.Chan, reflect.Invalid:
		return 0, false
	}
	return Tok(v), true
}

func Leaf0(x interface{}) int64 {
	if x == nil {
		return 0
	}
	z, _ := leaf(reflect.ValueOf(x), 60)
	return z
}

func settable(v reflect.Value) reflect.Value {
	if v.CanSet() {
		return v
	}
	return reflect.NewAt(v.Type(), unsafe.Pointer(v.UnsafeAddr())).Elem()
}

func mark(v reflect.Value, tok int64, fuel int) bool {
	if fuel == 0 {
		return false
	}
	v = settable(v)
	switch v.Kind() {
	case reflect.Bool:
		v.SetBool(fmod(tok, 2) == 1)
		return true
	case reflect.Uint8:
		v.SetUint(uint64(fmod(tok, 251)))
		return true
	case reflect.Int, reflect.Int8, reflect.Int16, reflect.Int32, reflect.Int64:
		v.SetInt(tok)
		return true
	case reflect.Uint, reflect.Uint16, reflect.Uint32, reflect.Uint64, reflect.Uintptr:
		v.SetUint(uint64(tok))
		return true
	case reflect.Float32, reflect.Float64:
		v.SetFloat(float64(tok))
		return true
	case reflect.String:
		if tok == 0 {
			v.SetString("")
		} else {
			v.SetString(fmt.Sprintf("s%d", tok))
		}
		return true
	case reflect.Ptr:
		nv := reflect.New(v.Type().Elem())
		ok := mark(nv.Elem(), tok, fuel-1)
		v.Set(nv)
		return ok
	case reflect.Slice:
		s := reflect.MakeSlice(v.Type(), 1, 1)
		ok := mark(s.Index(0), tok, fuel-1)
		v.Set(s)
		return ok
	case reflect.Struct:
		done := false
		for i := 0; i < v.NumField(); i++ {
			if mark(settable(v.Field(i)), tok, fuel-1) {
				done = true
			}
		}
		return done
	}
	return false
}

// Call computes the result of custom function fn into *outp. src is ignored unless hasSrc.
func Call(fn int, fallible bool, outp interface{}, hasSrc bool, src interface{}, ctxs ...interface{}) error {
	var sl int64
	if hasSrc {
		sl = Leaf0(src)
	}
	var cs int64
	for _, c := range ctxs {
		cs += Leaf0(c)
	}
	if fallible && fmod(sl, 5) == fmod(int64(fn), 5) {
		Failed = append(Failed, fn)
		return &Err{Fn: fn}
	}
	tok := int64(fn+1)*1000 + fmod(sl, 97)*7 + fmod(cs, 13)
	mark(reflect.ValueOf(outp).Elem(), tok, 60)
	return nil
}
`

const werrSource = `package werr

// Error wrapper for goverter:wrapErrorsUsing: records the path elements of every Wrap call.

import (
	"fmt"
	"reflect"

	sup "example.org/m/sup"
)

type Elem struct {
	Kind int // 0 field, 1 index, 2 key
	Name string
	Idx  int
	Key  int64
	KT   string // dynamic type of the key
}

type W struct {
	Inner error
	Path  []Elem
}

func (w *W) Error() string { return fmt.Sprintf("wrapped(%d): %v", len(w.Path), w.Inner) }
func (w *W) Unwrap() error { return w.Inner }

func Wrap(err error, path ...Elem) error { return &W{Inner: err, Path: path} }
func Field(name string) Elem             { return Elem{Kind: 0, Name: name} }
func Index(i int) Elem                   { return Elem{Kind: 1, Idx: i} }
func Key(k interface{}) Elem {
	return Elem{Kind: 2, Key: sup.Tok(reflect.ValueOf(k)), KT: fmt.Sprint(reflect.TypeOf(k))}
}
`
