package main

// C14: exhaustive grid of signature shapes through the real method.Parse versus
// Sig.classify, plus a Go-side oracle that states the property directly.

import (
	"fmt"
	"go/token"
	"go/types"
	"os"
	"path/filepath"
	"regexp"
	"strings"

	"github.com/jmattheis/goverter/method"
)

func init() { streams["c14"] = runC14 }

var c14Pkg = types.NewPackage("example.org/p", "p")

func c14Named(name string, under types.Type) *types.Named {
	tn := types.NewTypeName(token.NoPos, c14Pkg, name, nil)
	return types.NewNamed(tn, under, nil)
}

func c14Class(err error) string {
	s := err.Error()
	switch {
	case strings.Contains(s, "must be exported"):
		return "EExported"
	case strings.Contains(s, "must be a function"):
		return "ENotFunc"
	case strings.Contains(s, "must not be variadic"):
		return "EVariadic"
	case strings.Contains(s, "is not supported for goverter:update signatures"):
		return "EUpdateSig"
	case strings.Contains(s, "must exist when using"):
		return "EUpdateArgMissing"
	case strings.Contains(s, "must have one or two returns"):
		return "EReturns"
	case strings.Contains(s, "must have type error as second return"):
		return "ESecondNotError"
	case strings.Contains(s, "must not be generic"):
		return "EGeneric"
	case strings.Contains(s, "must have no source params"):
		return "ENoSourceAllowed"
	case strings.Contains(s, "must have at least one source param"):
		return "ENeedSource"
	case strings.Contains(s, "must have only one source param"):
		return "EOneSource"
	}
	return "EOTHER"
}

type c14Case struct {
	Kinds    []int  `json:"param_kinds"` // 0 converter-typed, 1 named like update ARG, 2 context-named, 3 plain
	Results  []bool `json:"results_is_error"`
	Mode     int    `json:"mode"`
	Multi    bool   `json:"multi_source"`
	UpdReq   bool   `json:"update_requested"`
	TP       bool   `json:"generic"`
	AllowTP  bool   `json:"allow_generic"`
	Exported bool   `json:"exported"`
	IsFunc   bool   `json:"is_func"`
	Variadic bool   `json:"variadic"`
	Named    bool   `json:"named_params"`
	ErrLike  []int  `json:"error_like_results,omitempty"` // per result: 0 as Results says, 2 = *MyErr (implements error), 3 = named interface embedding error
}

// c14Oracle: the property, stated directly. Returns (accept, roles, returnsError).
func c14Oracle(c c14Case) (bool, []string, bool) {
	if !c.Exported || !c.IsFunc || c.Variadic {
		return false, nil, false // variadic functions cannot be called with one source value: rejected
	}
	var roles []string
	nsrc, upd := 0, false
	for _, k := range c.Kinds {
		switch {
		case k == 0:
			roles = append(roles, "interface")
		case k == 1 && c.UpdReq:
			roles = append(roles, "target")
			upd = true
		case k == 2:
			roles = append(roles, "context")
		default:
			nsrc++
			if nsrc == 1 {
				roles = append(roles, "source")
			} else {
				roles = append(roles, "additional-source")
			}
		}
	}
	retErr := false
	if upd {
		switch {
		case len(c.Results) == 0:
		case len(c.Results) == 1 && c.Results[0]:
			retErr = true
		default:
			return false, nil, false
		}
	} else {
		if c.UpdReq {
			return false, nil, false
		}
		switch {
		case len(c.Results) == 1:
		case len(c.Results) == 2 && c.Results[1]:
			retErr = true
		default:
			return false, nil, false
		}
	}
	if c.TP && !c.AllowTP {
		return false, nil, false
	}
	switch c.Mode {
	case 0:
		if nsrc < 1 {
			return false, nil, false
		}
	case 2:
		if nsrc != 0 {
			return false, nil, false
		}
	}
	if !c.Multi && nsrc > 1 {
		return false, nil, false
	}
	return true, roles, retErr
}

func runC14(cfg runCfg) {
	rep := newReport("C14", cfg.seed, cfg.tier)
	maxP := 3
	if cfg.tier == "thorough" {
		maxP = 4
	}
	rep.Rule = fmt.Sprintf("EXHAUSTIVE grid: 0..%d parameters x {converter-typed, update-named, context-named, plain} x 0..3 results x {error, other} x 3 source modes x multi-source x update requested x generic(+allowed) x named/unnamed params, plus unexported / non-function objects; objects built with the go/types API and fed to the real method.Parse; non-trivial = accepted by Parse; distinct by case tuple", maxP)
	rep.Exhaustive = true
	conv := c14Named("Conv", types.NewInterfaceType(nil, nil))
	plain := []types.Type{c14Named("T0", types.Typ[types.Int]), c14Named("T1", types.Typ[types.Int]), c14Named("T2", types.Typ[types.Int]), c14Named("T3", types.Typ[types.Int])}
	other := c14Named("Res", types.Typ[types.String])
	errType := types.Universe.Lookup("error").Type()
	// types that implement error without being the built-in error
	myErr := c14Named("MyErr", types.NewStruct(nil, nil))
	myErr.AddMethod(types.NewFunc(token.NoPos, c14Pkg, "Error", types.NewSignatureType(types.NewVar(token.NoPos, c14Pkg, "e", types.NewPointer(myErr)), nil, nil, nil,
		types.NewTuple(types.NewVar(token.NoPos, c14Pkg, "", types.Typ[types.String])), false)))
	codeSig := types.NewSignatureType(nil, nil, nil, nil, types.NewTuple(types.NewVar(token.NoPos, c14Pkg, "", types.Typ[types.Int])), false)
	codedIface := types.NewInterfaceType([]*types.Func{types.NewFunc(token.NoPos, c14Pkg, "Code", codeSig)}, []types.Type{errType})
	codedIface.Complete()
	errLike := map[int]types.Type{2: types.NewPointer(myErr), 3: c14Named("CodedError", codedIface)}
	modes := []method.ParamType{method.ParamsRequired, method.ParamsOptional, method.ParamsNone}
	modeNames := []string{"Required", "Optional", "NoneAllowed"}
	w := &shardWriter{dir: cfg.out, stem: "C14", max: 1000, rep: rep, off: cfg.oracleOnly,
		header:  "From Coq Require Import List Bool NArith.\nFrom GV Require Import Sig.\nImport ListNotations.\nDefinition P (c u x : bool) := {| is_conv := c; is_upd := u; is_ctx := x |}.\nDefinition OK (us : list use) (re up : bool) : err + def := inr {| uses := us; ret_err := re; update := up |}.",
		ctype:   "N * opts * fn * (err + def)",
		trailer: "Definition bad (c : N * opts * fn * (err + def)) : bool := let '(_, o, f, obs) := c in negb (out_eqb (classify o f) obs).\nDefinition M := Eval vm_compute in map (fun c => fst (fst (fst c))) (filter bad cases). Print M.\n"}
	casesF, _ := os.Create(filepath.Join(cfg.out, "cases.jsonl"))
	defer casesF.Close()
	id := 0
	run := func(c c14Case) {
		var vars []*types.Var
		var coqParams []string
		for i, k := range c.Kinds {
			var t types.Type = plain[i]
			name := fmt.Sprintf("p%d", i)
			switch k {
			case 0:
				t = conv
			case 1:
				name = "target"
			case 2:
				name = fmt.Sprintf("ctx%d", i)
			}
			if !c.Named && k == 3 {
				name = "" // unnamed plain parameter
			}
			if c.Variadic && i == len(c.Kinds)-1 {
				t = types.NewSlice(t)
			}
			vars = append(vars, types.NewVar(token.NoPos, c14Pkg, name, t))
			coqParams = append(coqParams, fmt.Sprintf("P %s %s %s", coqBool(k == 0), coqBool(k == 1 && c.UpdReq), coqBool(k == 2)))
		}
		var res []*types.Var
		var coqRes []string
		for ri, isErr := range c.Results {
			if ri < len(c.ErrLike) && c.ErrLike[ri] != 0 { // not the built-in error, although assignable to it
				res = append(res, types.NewVar(token.NoPos, c14Pkg, "", errLike[c.ErrLike[ri]]))
				coqRes = append(coqRes, "ROther")
				continue
			}
			if isErr {
				res = append(res, types.NewVar(token.NoPos, c14Pkg, "", errType))
				coqRes = append(coqRes, "RErr")
			} else {
				res = append(res, types.NewVar(token.NoPos, c14Pkg, "", other))
				coqRes = append(coqRes, "ROther")
			}
		}
		var tparams []*types.TypeParam
		if c.TP {
			tparams = []*types.TypeParam{types.NewTypeParam(types.NewTypeName(token.NoPos, c14Pkg, "X", nil), types.NewInterfaceType(nil, nil))}
		}
		sig := types.NewSignatureType(nil, nil, tparams, types.NewTuple(vars...), types.NewTuple(res...), c.Variadic)
		name := "Fn"
		if !c.Exported {
			name = "fn"
		}
		var obj types.Object = types.NewFunc(token.NoPos, c14Pkg, name, sig)
		if !c.IsFunc {
			obj = types.NewVar(token.NoPos, c14Pkg, name, plain[0])
		}
		opts := &method.ParseOpts{ErrorPrefix: "x", Converter: conv, OutputPackagePath: "example.org/out", Params: modes[c.Mode],
			ParamsMultiSource: c.Multi, AllowTypeParams: c.AllowTP, ContextMatch: regexp.MustCompile("^ctx")}
		if c.UpdReq {
			opts.UpdateParam = "target"
		}
		def, err := method.Parse(obj, opts, method.EmptyLocalOpts)
		var obs string
		var gotRoles []string
		if err != nil {
			obs = "inl " + c14Class(err)
			rep.count("reject:" + c14Class(err))
		} else {
			var us []string
			for _, a := range def.RawArgs {
				gotRoles = append(gotRoles, string(a.Use))
				switch a.Use {
				case method.ArgUseInterface:
					us = append(us, "UInterface")
				case method.ArgUseTarget:
					us = append(us, "UTarget")
				case method.ArgUseContext:
					us = append(us, "UContext")
				case method.ArgUseSource:
					us = append(us, "USource")
				case method.ArgUseMultiSource:
					us = append(us, "UMulti")
				}
			}
			obs = fmt.Sprintf("OK [%s] %s %s", strings.Join(us, ";"), coqBool(def.ReturnError), coqBool(def.UpdateTarget))
			rep.count("accept")
		}
		key := fmt.Sprintf("%+v", c)
		rep.eval(key, err == nil)
		if err == nil && len(c.Kinds) >= 2 {
			rep.sample(map[string]interface{}{"case": c, "roles": gotRoles, "returns_error": def.ReturnError})
		}
		// direct oracle
		acc, roles, re := c14Oracle(c)
		switch {
		case acc != (err == nil):
			what := "an invalid signature is accepted"
			if acc {
				what = "a valid signature is rejected: " + err.Error()
			}
			rep.violate(Violation{CaseID: fmt.Sprint(id), What: what, Sig: "accept-reject", Replay: c})
		case acc && (!eqStrs(roles, gotRoles) || re != def.ReturnError):
			rep.violate(Violation{CaseID: fmt.Sprint(id), What: fmt.Sprintf("roles %v (returns error %v) differ from the specified %v (%v)", gotRoles, def.ReturnError, roles, re),
				Sig: "roles", Replay: c})
		}
		if !cfg.oracleOnly {
			fmt.Fprintf(casesF, "{\"id\":%d,\"replay\":{\"case\":%q}}\n", id, key)
		}
		w.add(fmt.Sprintf("(%d%%N, {| o_mode := %s; o_multi := %s; o_allow_tp := %s; o_update := %s |}, {| accessible := %s; is_func := %s; variadic := %s; type_params := %s; params := [%s]; results := [%s] |}, %s)",
			id, modeNames[c.Mode], coqBool(c.Multi), coqBool(c.AllowTP), coqBool(c.UpdReq), coqBool(c.Exported), coqBool(c.IsFunc), coqBool(c.Variadic && c.IsFunc), coqBool(c.TP && c.IsFunc),
			strings.Join(coqParams, ";"), strings.Join(coqRes, ";"), obs))
		id++
	}
	for np := 0; np <= maxP; np++ {
		total := 1
		for i := 0; i < np; i++ {
			total *= 4
		}
		for code := 0; code < total; code++ {
			kinds := make([]int, np)
			x := code
			for i := 0; i < np; i++ {
				kinds[i] = x % 4
				x /= 4
			}
			for nr := 0; nr <= 3; nr++ {
				for rcode := 0; rcode < 1<<nr; rcode++ {
					results := make([]bool, nr)
					for i := 0; i < nr; i++ {
						results[i] = rcode>>i&1 == 1
					}
					for mi := range modes {
						for _, multi := range []bool{false, true} {
							for _, updReq := range []bool{false, true} {
								for _, tp := range []int{0, 1, 2} { // not generic, generic, generic+allowed
									run(c14Case{Kinds: kinds, Results: results, Mode: mi, Multi: multi, UpdReq: updReq, TP: tp > 0, AllowTP: tp == 2,
										Exported: true, IsFunc: true, Named: (code+rcode+mi)%2 == 0})
								}
							}
						}
					}
				}
			}
		}
	}
	// variadic functions (the last parameter is a slice; kinds 1..3 for it)
	for np := 1; np <= 2; np++ {
		for code := 0; code < 1<<(2*np); code++ {
			kinds := make([]int, np)
			x := code
			for i := 0; i < np; i++ {
				kinds[i] = x % 4
				x /= 4
			}
			if kinds[np-1] == 0 {
				continue
			}
			for _, results := range [][]bool{{false}, {false, true}, {}, {true}} {
				for mi := range modes {
					for _, updReq := range []bool{false, true} {
						run(c14Case{Kinds: kinds, Results: results, Mode: mi, UpdReq: updReq, Exported: true, IsFunc: true, Variadic: true, Named: true})
					}
				}
			}
		}
	}
	// results that implement error without being the built-in error (second result, or the only result of an update method)
	for _, k := range []int{2, 3} {
		for _, kinds := range [][]int{{3}, {1, 3}, {3, 2}, {}} {
			for _, rs := range [][]int{{k}, {0, k}, {k, 0}} {
				for mi := range modes {
					for _, updReq := range []bool{false, true} {
						run(c14Case{Kinds: kinds, Results: make([]bool, len(rs)), ErrLike: rs, Mode: mi, UpdReq: updReq, Exported: true, IsFunc: true, Named: true})
					}
				}
			}
		}
	}
	// unexported and non-function objects
	for _, ex := range []bool{true, false} {
		for _, isf := range []bool{true, false} {
			if ex && isf {
				continue
			}
			for mi := range modes {
				run(c14Case{Kinds: []int{3}, Results: []bool{false}, Mode: mi, Exported: ex, IsFunc: isf, Named: true})
			}
		}
	}
	w.flush()
	rep.write(cfg.out)
}
