package main

// Random program generator: source types, derived target types (edit scripts), settings.

import (
	"fmt"
	"math/rand"
	"strings"
)

type MethodSpec struct {
	Name   string
	Lines  []string // text after "goverter:"
	Src    *Ty
	Tgt    *Ty
	Update bool
	Fields map[string]*fieldSet // parsed view of map/ignore lines (for the Coq term)
	Auto   []string
	Ctx      []CtxParam // context parameters
	CtxFirst bool       // context parameters precede the source parameter
	Err      bool       // second result: error
	CtxRegex bool       // arg:context:regex ^ctx written on this method
}

type fieldSet struct {
	Source string
	Ignore bool
}

type ConvSpec struct {
	Name    string
	Lines   []string // converter-level lines (without converter/output:file)
	Methods []*MethodSpec
	SamePkg bool // output in package p itself (unexported members accessible)
	Edits   []string
	Extend    []ExtSpec
	FuncNames map[string]int // FUNC texts of map ... | FUNC and default FUNC lines
	Custom    bool           // uses custom functions / contexts / errors (structural oracles do not apply)
	CtxRegex  bool           // converter-level arg:context:regex ^ctx
	EnumExclude []string     // enum:exclude patterns
	ctxPool   []*Ty
	patGroups int
}

type pgen struct {
	r       *rand.Rand
	p       *Program
	twins   map[int]int
	edits   []string
	weights pgenWeights
	inRec   bool // inside the declaration of a named struct twin (no edits that would make it contain itself by value)
}

type pgenWeights struct {
	mismatch int // percent chance of deliberately breaking edits per position
	arrays   int
	other    int
	rename   int
	unexp    int
	recur    int
	folddup  int // percent of structs that get a field differing from another one only in capitalisation
	flatten  int // percent of methods whose target flattens a nested source struct (autoMap)
	update   int // percent of methods declared as update methods
	funcs    int // percent of converters decorated with custom functions, contexts and error results
	defaults int // percent of decorated struct methods that get a default FUNC
	smeth    int // percent of decorated struct methods that use a method of the source as a field source
	enums    int // percent of named basic source types that are enums (have constants)
	maps     int // percent of positions (depth < 2) forced to be a map with a named key type
	wrapUsing int // percent of decorated converters with wrapErrorsUsing (default 30)
	noExtend int // percent of decorated methods that get no extend function at all
	underlying int // percent of decorated converters using useUnderlyingTypeMethods with functions on underlying types
}

func (g *pgen) edit(s string) { g.edits = append(g.edits, s) }

// refsP: does the type mention a named type of package p (1)? Types of q may not (import cycle).
func (g *pgen) refsP(t *Ty) bool {
	if t == nil {
		return false
	}
	switch t.K {
	case "named":
		return g.p.Named[t.ID].Pkg == 1
	case "ptr", "slice", "arr":
		return g.refsP(t.Elem)
	case "map":
		return g.refsP(t.Key) || g.refsP(t.Elem)
	case "struct":
		for _, f := range t.Fields {
			if g.refsP(f.T) {
				return true
			}
		}
	}
	return false
}

func (g *pgen) newNamed(pkg int, under *Ty, prefix string) int {
	for under != nil && under.K == "named" { // the underlying type of a named type is never a named type
		under = g.p.Named[under.ID].Under
	}
	if under == nil || g.refsP(under) {
		pkg = 1
	}
	id := len(g.p.Named)
	g.p.Named = append(g.p.Named, &NamedDecl{ID: id, Pkg: pkg, Name: fmt.Sprintf("%s%d", prefix, id), Under: under, EnumOf: -1})
	return id
}

var genBasics = []int{bkInt, bkInt, bkString, bkString, bkBool, bkInt64, bkFloat64, bkUint8, bkInt32}

func (g *pgen) pkg() int {
	if g.r.Intn(4) == 0 {
		return 2
	}
	return 1
}

var fieldNames = []string{"A", "B", "C", "Name", "ID", "Val", "Items", "Next", "Meta", "X"}

// srcType draws a source type.
func (g *pgen) srcType(depth int) *Ty {
	max := 9
	if depth >= 3 {
		max = 2
	}
	if depth < 2 && g.r.Intn(100) < g.weights.maps {
		k := tNamed(g.newNamed(g.pkg(), tBasic([]int{bkInt, bkString}[g.r.Intn(2)]), "NK"))
		return tMap(k, g.srcType(depth+1))
	}
	switch g.r.Intn(max) {
	case 0:
		return tBasic(genBasics[g.r.Intn(len(genBasics))])
	case 1: // named basic
		id := g.newNamed(g.pkg(), tBasic(genBasics[g.r.Intn(len(genBasics))]), "NB")
		if g.r.Intn(100) < g.weights.enums {
			g.makeEnum(id)
		}
		return tNamed(id)
	case 2:
		return tPtr(g.srcType(depth + 1))
	case 3:
		if g.r.Intn(4) == 0 { // named slice / map type
			if g.r.Intn(2) == 0 {
				return tNamed(g.newNamed(g.pkg(), tSlice(g.srcType(depth+2)), "NL"))
			}
			return tNamed(g.newNamed(g.pkg(), tMap(tBasic(bkString), g.srcType(depth+2)), "NM"))
		}
		return tSlice(g.srcType(depth + 1))
	case 4:
		if g.r.Intn(100) < g.weights.arrays {
			return tArr(1+g.r.Intn(2), g.srcType(depth+1))
		}
		return tSlice(g.srcType(depth + 1))
	case 5:
		var k *Ty
		if g.r.Intn(3) == 0 {
			k = tNamed(g.newNamed(g.pkg(), tBasic([]int{bkInt, bkString}[g.r.Intn(2)]), "NK"))
		} else {
			k = tBasic([]int{bkInt, bkString, bkInt64}[g.r.Intn(3)])
		}
		return tMap(k, g.srcType(depth+1))
	case 6, 7: // struct, named or unnamed
		n := 1 + g.r.Intn(3)
		var fs []Field
		used := map[string]bool{}
		named := g.r.Intn(3) != 0
		for i := 0; i < n; i++ {
			name := fieldNames[g.r.Intn(len(fieldNames))]
			if named && g.r.Intn(100) < g.weights.unexp {
				name = strings.ToLower(name[:1]) + name[1:]
			}
			if used[strings.ToLower(name)] {
				continue
			}
			used[strings.ToLower(name)] = true
			fs = append(fs, Field{name, g.srcType(depth + 1)})
		}
		if len(fs) > 0 && g.r.Intn(100) < g.weights.folddup { // a second field differing only in capitalisation
			f0 := fs[g.r.Intn(len(fs))]
			if len(f0.Name) > 1 && exportedName(f0.Name) {
				v := f0.Name[:1] + strings.ToUpper(f0.Name[1:])
				if v == f0.Name {
					v = f0.Name[:1] + strings.ToLower(f0.Name[1:])
				}
				if v != f0.Name {
					fs = append(fs, Field{v, g.srcType(depth + 2)})
				}
			}
		}
		st := &Ty{K: "struct", Fields: fs, Pkg: 1}
		if named {
			id := g.newNamed(g.pkg(), st, "S")
			if g.p.Named[id].Pkg == 1 && g.r.Intn(100) < g.weights.recur { // recursive: add a self pointer / self slice field
				self := tPtr(tNamed(id))
				if g.r.Intn(2) == 0 {
					self = tSlice(tNamed(id))
				}
				st.Fields = append(st.Fields, Field{"Self", self})
			}
			return tNamed(id)
		}
		return st
	default:
		if g.r.Intn(100) < g.weights.other {
			return tOther(g.r.Intn(3), 0)
		}
		return tBasic(genBasics[g.r.Intn(len(genBasics))])
	}
}

func exportedName(n string) bool { return n != "" && n[0] >= 'A' && n[0] <= 'Z' }

func (g *pgen) bad() bool { return g.r.Intn(100) < g.weights.mismatch }

// derive builds the target type from the source type by a script of edits.
func (g *pgen) derive(s *Ty, depth int, path string) *Ty {
	// pointer wrap / unwrap around any position
	if s.K != "ptr" && g.r.Intn(12) == 0 {
		g.edit(path + ":wrap-pointer")
		return tPtr(g.derive(s, depth+1, path))
	}
	switch s.K {
	case "basic":
		if g.bad() {
			k := genBasics[g.r.Intn(len(genBasics))]
			g.edit(fmt.Sprintf("%s:basic-kind %d->%d", path, s.Kind, k))
			return tBasic(k)
		}
		if g.r.Intn(6) == 0 {
			g.edit(path + ":to-named-basic")
			return tNamed(g.newNamed(g.pkg(), tBasic(s.Kind), "NB"))
		}
		return tBasic(s.Kind)
	case "named":
		d := g.p.Named[s.ID]
		if tw, ok := g.twins[s.ID]; ok {
			return tNamed(tw)
		}
		switch d.Under.K {
		case "basic":
			switch g.r.Intn(4) {
			case 0:
				return tNamed(s.ID) // identical type
			case 1:
				g.edit(path + ":named-basic-to-unnamed")
				return tBasic(d.Under.Kind)
			default:
				k := d.Under.Kind
				if g.bad() {
					k = genBasics[g.r.Intn(len(genBasics))]
					g.edit(path + ":named-basic-kind")
				}
				id := g.newNamed(g.pkg(), tBasic(k), "NB")
				g.twins[s.ID] = id
				if len(d.Consts) > 0 {
					g.deriveEnum(d, g.p.Named[id])
				}
				return tNamed(id)
			}
		case "struct":
			if g.r.Intn(8) == 0 {
				g.twins[s.ID] = s.ID
				return tNamed(s.ID) // identical named struct
			}
			id := g.newNamed(g.pkg(), nil, "T")
			g.twins[s.ID] = id
			save := g.inRec
			g.inRec = true
			u := g.derive(d.Under, depth+1, path+"{"+d.Name+"}")
			for u.K == "named" {
				u = g.p.Named[u.ID].Under
			}
			g.p.Named[id].Under = u
			g.inRec = save
			if g.r.Intn(10) == 0 { // to unnamed struct
				g.edit(path + ":named-struct-to-unnamed")
			}
			return tNamed(id)
		default:
			if g.r.Intn(3) == 0 {
				g.edit(path + ":named-container-to-underlying")
				return g.derive(d.Under, depth+1, path)
			}
			id := g.newNamed(g.pkg(), g.derive(d.Under, depth+1, path), "N")
			g.twins[s.ID] = id
			return tNamed(id)
		}
	case "ptr":
		if g.r.Intn(10) == 0 && !g.inRec {
			g.edit(path + ":unwrap-pointer")
			return g.derive(s.Elem, depth+1, path)
		}
		return tPtr(g.derive(s.Elem, depth+1, path+"*"))
	case "slice":
		if g.r.Intn(8) == 0 && !g.inRec {
			g.edit(path + ":slice-to-named-slice")
			return tNamed(g.newNamed(g.pkg(), tSlice(g.derive(s.Elem, depth+1, path+"[]")), "NL"))
		}
		if g.bad() && !g.inRec {
			g.edit(path + ":slice-to-array")
			return tArr(2, g.derive(s.Elem, depth+1, path+"[]"))
		}
		return tSlice(g.derive(s.Elem, depth+1, path+"[]"))
	case "arr":
		if g.r.Intn(4) == 0 {
			g.edit(path + ":array-to-array")
			return tArr(s.N, g.derive(s.Elem, depth+1, path+"[]"))
		}
		g.edit(path + ":array-to-slice")
		return tSlice(g.derive(s.Elem, depth+1, path+"[]"))
	case "map":
		if g.bad() {
			g.edit(path + ":map-to-slice")
			return tSlice(g.derive(s.Elem, depth+1, path+"[v]"))
		}
		return tMap(g.derive(s.Key, depth+3, path+"[k]"), g.derive(s.Elem, depth+1, path+"[v]"))
	case "struct":
		var fs []Field
		merged := map[string]bool{}
		for i, f := range s.Fields {
			for j := i + 1; j < len(s.Fields); j++ {
				if strings.EqualFold(f.Name, s.Fields[j].Name) && g.r.Intn(2) == 0 {
					merged[f.Name], merged[s.Fields[j].Name] = true, true
					third := f.Name[:1] + strings.ToLower(f.Name[1:2]) + strings.ToUpper(f.Name[2:])
					g.edit(path + "." + f.Name + ":merge-case-variants->" + third)
					fs = append(fs, Field{third, g.derive(f.T, depth+1, path+"."+third)})
				}
			}
		}
		for _, f := range s.Fields {
			if merged[f.Name] {
				continue
			}
			x := g.r.Intn(100)
			switch {
			case x < g.weights.rename/2:
				g.edit(path + "." + f.Name + ":drop")
				continue
			case x < g.weights.rename:
				nn := f.Name + "R"
				g.edit(path + "." + f.Name + ":rename->" + nn)
				fs = append(fs, Field{nn, g.derive(f.T, depth+1, path+"."+nn)})
			case x < g.weights.rename+g.weights.rename/2:
				nn := strings.ToUpper(f.Name)
				if nn == f.Name {
					nn = strings.ToUpper(f.Name[:1]) + strings.ToLower(f.Name[1:])
				}
				if nn != f.Name {
					g.edit(path + "." + f.Name + ":recase->" + nn)
				}
				fs = append(fs, Field{nn, g.derive(f.T, depth+1, path+"."+nn)})
			default:
				fs = append(fs, Field{f.Name, g.derive(f.T, depth+1, path+"."+f.Name)})
			}
		}
		if g.r.Intn(100) < g.weights.rename/2 {
			g.edit(path + ".Extra:add")
			fs = append(fs, Field{"Extra", tBasic(bkInt)})
		}
		// field names must stay unique
		seen := map[string]bool{}
		var out []Field
		for _, f := range fs {
			if !seen[f.Name] {
				seen[f.Name] = true
				out = append(out, f)
			}
		}
		return &Ty{K: "struct", Fields: out, Pkg: 1}
	case "other":
		return s
	}
	return s
}

var boolSettings = []string{"skipCopySameType", "useZeroValueOnPointerInconsistency", "ignoreUnexported", "ignoreMissing", "matchIgnoreCase"}

func (g *pgen) settingLines(prob int) []string {
	var out []string
	for _, s := range boolSettings {
		if g.r.Intn(100) < prob {
			switch g.r.Intn(4) {
			case 0:
				out = append(out, s+" no")
			case 1:
				out = append(out, s+" yes")
			default:
				out = append(out, s)
			}
		}
	}
	return out
}

// converter draws one converter with 1-3 methods.
func (g *pgen) converter(idx int) *ConvSpec {
	c := &ConvSpec{Name: fmt.Sprintf("C%d", idx)}
	c.SamePkg = g.r.Intn(4) == 0
	c.Lines = g.settingLines(12)
	if g.weights.update > 0 {
		for _, zl := range []string{"update:ignoreZeroValueField", "update:ignoreZeroValueField:nillable", "update:ignoreZeroValueField:struct"} {
			if g.r.Intn(5) == 0 {
				c.Lines = append(c.Lines, zl)
			}
		}
	}
	nm := 1 + g.r.Intn(2)
	for i := 0; i < nm; i++ {
		g.twins = map[int]int{}
		g.edits = nil
		src := g.srcType(0)
		if g.weights.enums > 50 && g.r.Intn(100) < 40 { // the method's own signature is an enum pair
			id := g.newNamed(g.pkg(), tBasic(genBasics[g.r.Intn(len(genBasics))]), "NB")
			g.makeEnum(id)
			src = tNamed(id)
		}
		if (g.weights.smeth > 50 || g.weights.defaults > 50) && g.r.Intn(100) < 40 { // a named struct at the root (struct-method sources, default FUNC, map ... | FUNC apply there)
			var fs []Field
			for i, n := range []string{"A", "B", "Items"}[:1+g.r.Intn(3)] {
				_ = i
				fs = append(fs, Field{n, g.srcType(2)})
			}
			src = tNamed(g.newNamed(1, &Ty{K: "struct", Fields: fs, Pkg: 1}, "S"))
			if g.r.Intn(4) == 0 {
				src = tPtr(src)
			}
		}
		tgt := g.derive(src, 0, "")
		m := &MethodSpec{Name: fmt.Sprintf("M%d", i), Src: src, Tgt: tgt, Fields: map[string]*fieldSet{}}
		// field settings repairing (or not) the edits on the method's own target struct
		tu := g.p.under(tgt)
		if tu.K == "ptr" {
			tu = g.p.under(tu.Elem)
		}
		su := g.p.under(src)
		if su.K == "ptr" {
			su = g.p.under(su.Elem)
		}
		if tu.K == "struct" {
			m.Lines = g.settingLines(8)
		} else if g.r.Intn(3) == 0 {
			m.Lines = g.settingLines(6)
		}
		// flatten a nested struct (or pointer to struct) field of the source into the target: goverter:autoMap F
		if tu.K == "struct" && su.K == "struct" && tgt.K != "ptr" && g.r.Intn(100) < g.weights.flatten {
			for _, sf := range su.Fields {
				inner := g.p.under(sf.T)
				if inner.K == "ptr" {
					inner = g.p.under(inner.Elem)
				}
				if inner.K != "struct" || len(inner.Fields) == 0 || !exportedName(sf.Name) {
					continue
				}
				var nf []Field
				for _, tf := range tu.Fields {
					if tf.Name != sf.Name {
						nf = append(nf, tf)
					}
				}
				have := map[string]bool{}
				for _, tf := range nf {
					have[tf.Name] = true
				}
				for _, inf := range inner.Fields {
					if exportedName(inf.Name) && (!have[inf.Name] || g.r.Intn(3) == 0) && !have["!"+inf.Name] {
						if !have[inf.Name] {
							nf = append(nf, Field{inf.Name, g.derive(inf.T, 2, "."+sf.Name+"."+inf.Name)})
						}
						have["!"+inf.Name] = true
					}
				}
				nt := &Ty{K: "struct", Fields: nf, Pkg: 1}
				if tgt.K == "named" {
					tgt = tNamed(g.newNamed(1, nt, "TF"))
				} else {
					tgt = nt
				}
				tu = nt
				m.Tgt = tgt
				m.Auto = append(m.Auto, sf.Name)
				m.Lines = append(m.Lines, "autoMap "+sf.Name)
				g.edit("." + sf.Name + ":flatten (autoMap)")
				break
			}
		}
		if tu.K == "struct" && su.K == "struct" {
			srcNames := map[string]bool{}
			for _, f := range su.Fields {
				srcNames[f.Name] = true
			}
			for _, f := range tu.Fields {
				if srcNames[f.Name] {
					if g.r.Intn(25) == 0 {
						m.Lines = append(m.Lines, "ignore "+f.Name)
						m.Fields[f.Name] = &fieldSet{Ignore: true}
					}
					continue
				}
				switch g.r.Intn(4) {
				case 0:
					m.Lines = append(m.Lines, "ignore "+f.Name)
					m.Fields[f.Name] = &fieldSet{Ignore: true}
				case 1:
					// map from the source field it was renamed from (if any) or a random one
					cand := strings.TrimSuffix(f.Name, "R")
					if !srcNames[cand] && len(su.Fields) > 0 {
						cand = su.Fields[g.r.Intn(len(su.Fields))].Name
					}
					if cand != "" {
						m.Lines = append(m.Lines, "map "+cand+" "+f.Name)
						m.Fields[f.Name] = &fieldSet{Source: cand}
					}
				}
			}
			if g.r.Intn(30) == 0 {
				m.Lines = append(m.Lines, "ignore Bogus")
				m.Fields["Bogus"] = &fieldSet{Ignore: true}
			}
		}
		// update method: M(source S, target *T) with S a struct or pointer to struct and T a struct
		if g.r.Intn(100) < g.weights.update && su.K == "struct" && g.p.under(tgt).K == "struct" {
			m.Update = true
			m.Tgt = tPtr(tgt)
			m.Lines = append([]string{"update target"}, m.Lines...)
			for _, zl := range []string{"update:ignoreZeroValueField", "update:ignoreZeroValueField:basic", "update:ignoreZeroValueField:struct", "update:ignoreZeroValueField:nillable"} {
				if g.r.Intn(4) == 0 {
					m.Lines = append(m.Lines, zl+[]string{"", " yes", " no"}[g.r.Intn(3)])
				}
			}
		}
		c.Edits = append(c.Edits, g.edits...)
		c.Methods = append(c.Methods, m)
		// sometimes declare a second method for a sub-pair so that callExisting is exercised
		if su.K == "struct" && tu.K == "struct" && len(su.Fields) > 0 && g.r.Intn(5) == 0 && i+1 < 3 {
			for _, sf := range su.Fields {
				for _, tf := range tu.Fields {
					if sf.Name == tf.Name && g.p.under(sf.T).K == "struct" && g.p.under(tf.T).K == "struct" && len(c.Methods) < 3 {
						c.Methods = append(c.Methods, &MethodSpec{Name: fmt.Sprintf("Sub%d", len(c.Methods)), Src: sf.T, Tgt: tf.T, Fields: map[string]*fieldSet{}})
					}
				}
			}
		}
	}
	g.enumSettings(c)
	if g.weights.enums > 0 {
		c.Custom = true // enum conversions are no structural images
	}
	g.decorate(c)
	return c
}

// ---- effective settings (the harness' own reading of the directive lines, for the Coq term) ----

type commonSet map[string]bool

func applyBoolLines(c commonSet, lines []string) commonSet {
	out := commonSet{}
	for k, v := range c {
		out[k] = v
	}
	for _, l := range lines {
		parts := strings.Fields(l)
		if len(parts) == 0 {
			continue
		}
		for _, s := range boolSettings {
			if parts[0] == s {
				out[s] = len(parts) == 1 || parts[1] == "yes"
			}
		}
	}
	return out
}

func coqCommon(c commonSet) string {
	return fmt.Sprintf("{| c_WrapErrors := false; c_WrapErrorsUsing := []; c_IgnoreUnexported := %s; c_IgnoreBasicZeroValueField := false; c_IgnoreStructZeroValueField := false; c_IgnoreNillableZeroValueField := false; c_MatchIgnoreCase := %s; c_IgnoreMissing := %s; c_SkipCopySameType := %s; c_UseZeroValueOnPointerInconsistency := %s; c_UseUnderlyingTypeMethods := false; c_DefaultUpdate := false; c_Enum_Enabled := true; c_Enum_Unknown := []; c_ArgContextRegex := [] |}",
		coqBool(c["ignoreUnexported"]), coqBool(c["matchIgnoreCase"]), coqBool(c["ignoreMissing"]), coqBool(c["skipCopySameType"]), coqBool(c["useZeroValueOnPointerInconsistency"]))
}
