package main

// tool-c01: hand-picked whole-module inputs (shapes the random program generator does not produce: package names
// that clash with emitted identifiers, several converters sharing a package, variadic signatures, unusual basic
// types) run through the goverter CLI; when goverter reports success the module must compile, including an
// assertion that the emitted implementation is assignable to the declared interface.

import (
	"fmt"
	"go/ast"
	"go/parser"
	"go/token"
	"os"
	"os/exec"
	"path/filepath"
	"sort"
	"strconv"
	"strings"
)

func init() { streams["tool-c01"] = runToolC01 }

type moduleInput struct {
	name  string
	files map[string]string
	args  []string
	// C18: per emitted file (path relative to the module root) the exact set of import paths it must have
	wantImports map[string][]string
}

var c01Inputs = []moduleInput{
	{"user package named source", map[string]string{
		"source/t.go": "package source\n\ntype Out struct{ A int }\n",
		"p/conv.go":   "package p\n\nimport \"example.org/m/source\"\n\ntype In struct{ A int }\n\n// goverter:converter\ntype C interface {\n\tConv(s In) source.Out\n}\n"}, []string{"./p"}, nil},
	{"user package named context, context parameter", map[string]string{
		"context/t.go": "package context\n\ntype Out struct{ A int }\ntype Cfg struct{ N int }\n",
		"p/conv.go":    "package p\n\nimport \"example.org/m/context\"\n\ntype In struct{ A int }\n\n// goverter:converter\ntype C interface {\n\t// goverter:context cfg\n\tConv(s In, cfg context.Cfg) context.Out\n}\n"}, []string{"./p"}, nil},
	{"two function-format converters, two files of one package, same helper", map[string]string{
		"p/conv.go": "package p\n\ntype In struct{ A int }\ntype Out struct{ A int }\n\n// goverter:converter\n// goverter:output:format function\n// goverter:output:file ./gen/a.go\n// goverter:output:package example.org/m/p/gen\ntype A interface {\n\tConvA(s []*In) []*Out\n}\n\n// goverter:converter\n// goverter:output:format function\n// goverter:output:file ./gen/b.go\n// goverter:output:package example.org/m/p/gen\ntype B interface {\n\tConvB(s []*In) []*Out\n}\n"}, []string{"./p"}, nil},
	{"variadic extend function", map[string]string{
		"p/conv.go": "package p\n\ntype In struct{ A []int }\ntype Out struct{ A string }\n\nfunc Sum(xs ...int) string { return \"\" }\n\n// goverter:converter\n// goverter:extend Sum\ntype C interface {\n\tConv(s In) Out\n}\n"}, []string{"./p"}, nil},
	{"variadic context parameter of a converter method", map[string]string{
		"chk/chk.go": "package chk\n\nimport (\n\t\"example.org/m/p\"\n\t\"example.org/m/p/generated\"\n)\n\nvar _ p.C = &generated.CImpl{}\n",
		"p/conv.go": "package p\n\ntype In struct{ A int }\ntype Out struct{ A int }\n\n// goverter:converter\ntype C interface {\n\t// goverter:context opts\n\tConv(source In, opts ...int) Out\n}\n"}, []string{"./p"}, nil},
	{"unsafe.Pointer field wrapped into a pointer", map[string]string{
		"p/conv.go": "package p\n\nimport \"unsafe\"\n\ntype In struct{ F unsafe.Pointer }\ntype Out struct{ F *unsafe.Pointer }\n\n// goverter:converter\ntype C interface {\n\tConv(s In) Out\n}\n"}, []string{"./p"}, nil},
	{"struct types named like Go keywords' neighbours and temporaries", map[string]string{
		"p/conv.go": "package p\n\ntype Source struct{ Target *Target2 }\ntype Target2 struct{ C int }\ntype Target struct{ Target *Target3 }\ntype Target3 struct{ C int }\n\n// goverter:converter\ntype C interface {\n\tConv(source Source) Target\n\tConv2(source []Source) []Target\n}\n"}, []string{"./p"}, nil},
	{"types of a package called generated, output in the default generated package", map[string]string{
		"q/generated/t.go": "package generated\n\ntype Out struct{ A int }\n",
		"p/conv.go":        "package p\n\nimport \"example.org/m/q/generated\"\n\ntype In struct{ A int }\n\n// goverter:converter\ntype C interface {\n\tConv(s In) generated.Out\n\tConvs(s []In) []generated.Out\n}\n"}, []string{"./p"}, nil},
	{"goverter:variables generated into another package (the init() must qualify and import the variables' package)", map[string]string{
		"model/t.go": "package model\n\ntype Row struct{ A int; L []int }\ntype Out struct{ A int; L []int }\n",
		"chk/chk.go": "package chk\n\nimport (\n\t\"example.org/m/app\"\n\t\"example.org/m/model\"\n\t_ \"example.org/m/wiring\"\n)\n\nvar _ = app.ToOut(model.Row{})\n",
		"app/conv.go": "package app\n\nimport \"example.org/m/model\"\n\n// goverter:variables\n// goverter:output:file ../wiring/conv.gen.go\n// goverter:output:package example.org/m/wiring\nvar (\n\tToOut  func(source model.Row) model.Out\n\tToOuts func(source []model.Row) []*model.Out\n)\n"}, []string{"./app"}, nil},
	{"goverter:variables in their own package, two blocks in two files", map[string]string{
		"app/a.go": "package app\n\ntype Row struct{ A int }\ntype Out struct{ A int }\n\n// goverter:variables\nvar (\n\tToOut func(source Row) Out\n)\n",
		"app/b.go": "package app\n\n// goverter:variables\n// goverter:extend Twice\nvar (\n\tToOuts func(source []Row) []Out\n\tToInts func(source []int) []string\n)\n\nfunc Twice(i int) string { return \"\" }\n"}, []string{"./app"}, nil},
	{"variadic func type in a signature (skipCopySameType)", map[string]string{
		"chk/chk.go": "package chk\n\nimport (\n\t\"example.org/m/p\"\n\t\"example.org/m/p/generated\"\n)\n\nvar _ p.C = &generated.CImpl{}\n",
		"p/conv.go":   "package p\n\ntype In struct{ F func(string, ...int) int }\ntype Out struct{ F func(string, ...int) int }\n\n// goverter:converter\n// goverter:skipCopySameType\ntype C interface {\n\tV(source map[string]func(...int)) map[string]func(...int)\n\tConv(source []In) []Out\n}\n"}, []string{"./p"}, nil},
	{"unnamed structs with tagged / embedded fields in signatures, variables and containers", map[string]string{
		"chk/chk.go": "package chk\n\nimport (\n\t\"example.org/m/p\"\n\t\"example.org/m/p/generated\"\n)\n\nvar _ p.C = &generated.CImpl{}\n",
		"p/conv.go":   "package p\n\ntype Meta struct{ ID int }\ntype In struct {\n\tItems []struct {\n\t\tMeta `json:\",inline\"`\n\t\tName string `json:\"name\"`\n\t}\n\tByKey map[string]struct {\n\t\t*Meta `bson:\",inline\"`\n\t\tN int\n\t}\n}\ntype Out struct {\n\tItems []struct {\n\t\tMeta `json:\",inline\"`\n\t\tName string `json:\"name\"`\n\t}\n\tByKey map[string]struct {\n\t\t*Meta `bson:\",inline\"`\n\t\tN int\n\t}\n}\n\n// goverter:converter\ntype C interface {\n\tConv(source In) Out\n\tOne(source struct {\n\t\tMeta `json:\",inline\"`\n\t\tA int `json:\"a\"`\n\t}) struct {\n\t\tMeta `json:\",inline\"`\n\t\tA int `json:\"a\"`\n\t}\n}\n"}, []string{"./p"}, nil},
	{"early error returns of methods with a non-nillable result (pointer source with useZeroValueOnPointerInconsistency, struct / basic / named results, nested helpers)", map[string]string{
		"chk/chk.go": "package chk\n\nimport (\n\t\"example.org/m/p\"\n\t\"example.org/m/p/generated\"\n)\n\nvar _ p.C = &generated.CImpl{}\n",
		"p/conv.go":   "package p\n\nimport \"strconv\"\n\ntype In struct{ A string }\ntype Out struct{ A int }\ntype Wrap struct{ I *In; L []*In }\ntype WrapOut struct{ I Out; L []Out }\ntype Num int\n\nfunc Atoi(s string) (int, error) { return strconv.Atoi(s) }\nfunc ToNum(s string) (Num, error) { i, err := strconv.Atoi(s); return Num(i), err }\n\n// goverter:converter\n// goverter:extend Atoi ToNum\n// goverter:useZeroValueOnPointerInconsistency\ntype C interface {\n\tConv(s *In) (Out, error)\n\tNested(s Wrap) (WrapOut, error)\n\tBasic(s *string) (int, error)\n\tNamed(s *string) (Num, error)\n\tPlain(s In) (Out, error)\n\tPtr(s *In) (*Out, error)\n}\n"}, []string{"./p"}, nil},
	{"declared parameter order: context before the source, update target first (struct, function and variables format)", map[string]string{
		"chk/chk.go": "package chk\n\nimport (\n\t\"example.org/m/p\"\n\t\"example.org/m/p/generated\"\n\t\"example.org/m/v\"\n)\n\nvar _ p.C = &generated.CImpl{}\nvar _ = v.ToOut(3, v.In{})\n",
		"p/conv.go":   "package p\n\ntype In struct{ A int; B Raw }\ntype Out struct{ A int; B Cooked }\ntype Raw struct{ V int }\ntype Cooked struct{ V int }\ntype Lang string\n\n// goverter:converter\ntype C interface {\n\t// goverter:context lang\n\tConv(lang Lang, source In) Out\n\t// goverter:context lang\n\tParse(lang Lang, source Raw) Cooked\n\t// goverter:update target\n\t// goverter:context lang\n\tUpdate(target *Out, lang Lang, source In)\n\t// goverter:context lang\n\tBehind(source []In, lang Lang) []Out\n}\n",
		"f/conv.go":   "package f\n\ntype In struct{ A int }\ntype Out struct{ A int }\n\n// goverter:converter\n// goverter:output:format function\n// goverter:output:file ./f.gen.go\n// goverter:output:package example.org/m/f\ntype C interface {\n\t// goverter:context n\n\tConvF(n int, source In) Out\n\t// goverter:context n\n\tConvFs(n int, source []In) []Out\n}\n",
		"v/conv.go":   "package v\n\ntype In struct{ A int }\ntype Out struct{ A int }\n\n// goverter:variables\nvar (\n\t// goverter:context n\n\tToOut func(n int, source In) Out\n)\n"}, []string{"./p", "./f", "./v"}, nil},
	{"converter method named like a generated helper", map[string]string{
		"p/conv.go": "package p\n\ntype In struct{ A int }\ntype Out struct{ A int }\n\n// goverter:converter\ntype C interface {\n\tPInToPOut(s []In) []Out\n\tConv(s []*In) []*Out\n}\n"}, []string{"./p"}, nil},
}

func runToolC01(cfg runCfg) { runModuleCorpus(cfg, "C01", c01Inputs) }

func runModuleCorpus(cfg runCfg, prop string, inputs []moduleInput) {
	rep := newReport(prop, cfg.seed, cfg.tier)
	rep.Rule = "hand-picked module inputs (package names clashing with emitted identifiers, converters sharing a package, variadic signatures, unusual basic types, type names equal to temporaries) through the goverter CLI; on exit 0 the whole module incl. the emitted files must compile and the implementation must be assignable to the interface; non-trivial = goverter reported success; distinct by input"
	bin := buildCLI(cfg)
	for i, in := range inputs {
		root, _ := filepath.Abs(filepath.Join(cfg.out, fmt.Sprintf("m%d", i)))
		files := map[string]string{"go.mod": "module example.org/m\n\ngo 1.22\n"}
		for k, v := range in.files {
			files[k] = v
		}
		writeTree(root, files)
		chk := files["chk/chk.go"]
		delete(files, "chk/chk.go")
		writeTree(root, files)
		res := runCLI(bin, root, append([]string{"gen"}, in.args...)...)
		if chk != "" && res.exit == 0 {
			writeTree(root, map[string]string{"chk/chk.go": chk}) // the emitted implementation must be assignable to the interface
		}
		rep.eval("c01:"+in.name, res.exit == 0)
		rep.count(fmt.Sprintf("exit=%d", res.exit))
		replay := map[string]interface{}{"input": in.name, "files": in.files, "exit": res.exit, "stderr": firstLines(res.stderr, 6)}
		if res.exit != 0 && (strings.Contains(res.stderr, "panic:") || strings.Contains(res.stderr, "goroutine ")) {
			rep.violate(Violation{CaseID: fmt.Sprint(i), What: "goverter panicked on input class: " + in.name + ": " + firstLine(res.stderr), Sig: "cli-panic", Replay: replay})
		}
		if res.exit == 0 {
			for rel, want := range in.wantImports {
				if what := checkEmittedFile(filepath.Join(root, rel), want); what != "" {
					rep.violate(Violation{CaseID: fmt.Sprint(i), What: rel + ": " + what + " (input class: " + in.name + ")", Sig: "emitted-file-shape", Replay: replay})
				}
			}
			rep.sample(map[string]interface{}{"input": in.name})
			cmd := exec.Command("go", "vet", "./...")
			cmd.Dir = root
			cmd.Env = append(os.Environ(), "GOFLAGS=-mod=mod", "GOPROXY=off", "GOSUMDB=off", "GOTOOLCHAIN=local")
			if out, err := cmd.CombinedOutput(); err != nil {
				var msg string
				for _, l := range strings.Split(string(out), "\n") {
					if strings.Contains(l, ".go:") {
						msg = strings.TrimPrefix(strings.TrimSpace(l), "vet: ")
						break
					}
				}
				replay["compile_output"] = firstLines(string(out), 8)
				rep.violate(Violation{CaseID: fmt.Sprint(i), What: "goverter reported success but the module does not compile (input class: " + in.name + "): " + msg, Sig: "output-does-not-compile", Replay: replay})
			}
		}
		os.RemoveAll(root)
	}
	os.Remove(bin)
	rep.write(cfg.out)
}

// checkEmittedFile: the C18 clauses on one emitted file, stated directly: imports exactly want (never reflect / unsafe),
// no package-level variables or constants, only the converter struct(s), functions / methods and init().
func checkEmittedFile(path string, want []string) string {
	fset := token.NewFileSet()
	f, err := parser.ParseFile(fset, path, nil, 0)
	if err != nil {
		return "emitted file missing or not parseable: " + err.Error()
	}
	var got []string
	for _, im := range f.Imports {
		p, _ := strconv.Unquote(im.Path.Value)
		got = append(got, p)
		if p == "reflect" || p == "unsafe" {
			return "imports " + p
		}
	}
	sort.Strings(got)
	w := append([]string{}, want...)
	sort.Strings(w)
	if strings.Join(got, " ") != strings.Join(w, " ") {
		return fmt.Sprintf("imports %v, expected exactly %v", got, w)
	}
	for _, d := range f.Decls {
		if gd, ok := d.(*ast.GenDecl); ok && (gd.Tok == token.VAR || gd.Tok == token.CONST) {
			return "declares package-level state: " + gd.Tok.String()
		}
	}
	return ""
}

// tool-c18: module inputs whose emitted files are checked against the C18 clauses directly (goverter:variables blocks
// generated into their own / another package, fmt only with wrapErrors or enum @error/@panic, the wrapErrorsUsing package).
func init() { streams["tool-c18"] = func(cfg runCfg) { runModuleCorpus(cfg, "C18", c18Inputs) } }

var c18Inputs = []moduleInput{
	{name: "goverter:variables generated into another package", files: map[string]string{
		"model/t.go":  "package model\n\ntype Row struct{ A int; L []int }\ntype Out struct{ A int; L []int }\n",
		"chk/chk.go":  "package chk\n\nimport (\n\t\"example.org/m/app\"\n\t\"example.org/m/model\"\n\t_ \"example.org/m/wiring\"\n)\n\nvar _ = app.ToOut(model.Row{})\n",
		"app/conv.go": "package app\n\nimport \"example.org/m/model\"\n\n// goverter:variables\n// goverter:output:file ../wiring/conv.gen.go\n// goverter:output:package example.org/m/wiring\nvar (\n\tToOut  func(source model.Row) model.Out\n\tToOuts func(source []model.Row) []*model.Out\n)\n"},
		args: []string{"./app"}, wantImports: map[string][]string{"wiring/conv.gen.go": {"example.org/m/app", "example.org/m/model"}}},
	{name: "goverter:variables in their own package", files: map[string]string{
		"app/a.go": "package app\n\ntype Row struct{ A int }\ntype Out struct{ A int }\n\n// goverter:variables\nvar (\n\tToOut func(source Row) Out\n\tToOuts func(source []Row) []Out\n)\n"},
		args: []string{"./app"}, wantImports: map[string][]string{"app/a.gen.go": {}}},
	{name: "goverter:variables with types of another package, own package", files: map[string]string{
		"model/t.go": "package model\n\ntype Row struct{ A int }\ntype Out struct{ A int }\n",
		"app/a.go":   "package app\n\nimport \"example.org/m/model\"\n\n// goverter:variables\nvar (\n\tToOut func(source model.Row) model.Out\n)\n"},
		args: []string{"./app"}, wantImports: map[string][]string{"app/a.gen.go": {"example.org/m/model"}}},
	{name: "wrapErrorsUsing: the package is imported wherever an error is returned, also for a fallible step at the root of a method", files: map[string]string{
		"werr/werr.go": "package werr\n\ntype Elem struct{ S string }\n\ntype E struct {\n\tInner error\n\tPath  []Elem\n}\n\nfunc (e *E) Error() string { return \"wrapped: \" + e.Inner.Error() }\nfunc (e *E) Unwrap() error { return e.Inner }\n\nfunc Wrap(err error, path ...Elem) error { return &E{err, path} }\nfunc Field(n string) Elem               { return Elem{n} }\nfunc Index(i int) Elem                  { return Elem{\"i\"} }\nfunc Key(k interface{}) Elem            { return Elem{\"k\"} }\n",
		"p/conv.go":    "package p\n\nimport \"strconv\"\n\ntype In struct{ A string }\ntype Out struct{ A int }\n\nfunc Atoi(s string) (int, error) { return strconv.Atoi(s) }\n\n// goverter:converter\n// goverter:extend Atoi\n// goverter:wrapErrorsUsing example.org/m/werr\n// goverter:output:file ./groot/root.go\n// goverter:output:package example.org/m/p/groot\ntype Root interface {\n\tConv(s *string) (*int, error)\n}\n\n// goverter:converter\n// goverter:extend Atoi\n// goverter:wrapErrorsUsing example.org/m/werr\n// goverter:output:file ./gnest/nested.go\n// goverter:output:package example.org/m/p/gnest\ntype Nested interface {\n\tConv(s In) (Out, error)\n}\n\n// goverter:converter\n// goverter:wrapErrorsUsing example.org/m/werr\n// goverter:output:file ./gnone/none.go\n// goverter:output:package example.org/m/p/gnone\ntype NoErrors interface {\n\tConv(s In) In\n}\n"},
		args: []string{"./p"}, wantImports: map[string][]string{"p/groot/root.go": {"example.org/m/p", "example.org/m/werr"}, "p/gnest/nested.go": {"example.org/m/p", "example.org/m/werr"}, "p/gnone/none.go": {"example.org/m/p"}}},
	{name: "output addressed from the working directory into the package that owns the converted types (no self import)", files: map[string]string{
		"model/model.go": "package model\n\ntype Kind int\n\nconst (\n\tKindUser Kind = iota\n\tKindAdmin\n)\n\ntype DTOKind string\n\nconst (\n\tDTOKindUser  DTOKind = \"user\"\n\tDTOKindAdmin DTOKind = \"admin\"\n)\n\ntype Person struct {\n\tName string\n\tKind Kind\n}\ntype PersonDTO struct {\n\tName string\n\tKind DTOKind\n}\n",
		"conv/input.go":  "package conv\n\nimport \"example.org/m/model\"\n\n// goverter:converter\n// goverter:output:file @cwd/model/conv.gen.go\n// goverter:enum:unknown @error\ntype ModelConverter interface {\n\tToDTO(source model.Person) (model.PersonDTO, error)\n\t// goverter:enum:transform regex Kind(\\w+) DTOKind$1\n\tToDTOKind(source model.Kind) (model.DTOKind, error)\n}\n\n// goverter:converter\n// goverter:output:file @cwd/conv/sub/ctl.gen.go\n// goverter:enum no\ntype SubConverter interface {\n\tCopy(source model.Person) model.Person\n}\n"},
		args: []string{"./conv"}, wantImports: map[string][]string{"model/conv.gen.go": {"fmt"}, "conv/sub/ctl.gen.go": {"example.org/m/model"}}},
	{name: "interface converter: fmt only where wrapErrors is in effect", files: map[string]string{
		"p/conv.go": "package p\n\nimport \"strconv\"\n\ntype In struct{ A string }\ntype Out struct{ A int }\n\nfunc Atoi(s string) (int, error) { return strconv.Atoi(s) }\n\n// goverter:converter\n// goverter:extend Atoi\n// goverter:output:file ./gen/plain.go\n// goverter:output:package example.org/m/p/gen\ntype Plain interface {\n\tConv(s In) (Out, error)\n}\n\n// goverter:converter\n// goverter:extend Atoi\n// goverter:wrapErrors\n// goverter:output:file ./genw/wrapped.go\n// goverter:output:package example.org/m/p/genw\ntype Wrapped interface {\n\tConv(s In) (Out, error)\n}\n"},
		args: []string{"./p"}, wantImports: map[string][]string{"p/gen/plain.go": {"example.org/m/p"}, "p/genw/wrapped.go": {"example.org/m/p", "fmt"}}},
}
