package main

// tool-c01: hand-picked whole-module inputs (shapes the random program generator does not produce: package names
// that clash with emitted identifiers, several converters sharing a package, variadic signatures, unusual basic
// types) run through the goverter CLI; when goverter reports success the module must compile, including an
// assertion that the emitted implementation is assignable to the declared interface.

import (
	"fmt"
	"os"
	"os/exec"
	"path/filepath"
	"strings"
)

func init() { streams["tool-c01"] = runToolC01 }

var c01Inputs = []struct {
	name  string
	files map[string]string
	args  []string
}{
	{"user package named source", map[string]string{
		"source/t.go": "package source\n\ntype Out struct{ A int }\n",
		"p/conv.go":   "package p\n\nimport \"example.org/m/source\"\n\ntype In struct{ A int }\n\n// goverter:converter\ntype C interface {\n\tConv(s In) source.Out\n}\n"}, []string{"./p"}},
	{"user package named context, context parameter", map[string]string{
		"context/t.go": "package context\n\ntype Out struct{ A int }\ntype Cfg struct{ N int }\n",
		"p/conv.go":    "package p\n\nimport \"example.org/m/context\"\n\ntype In struct{ A int }\n\n// goverter:converter\ntype C interface {\n\t// goverter:context cfg\n\tConv(s In, cfg context.Cfg) context.Out\n}\n"}, []string{"./p"}},
	{"two function-format converters, two files of one package, same helper", map[string]string{
		"p/conv.go": "package p\n\ntype In struct{ A int }\ntype Out struct{ A int }\n\n// goverter:converter\n// goverter:output:format function\n// goverter:output:file ./gen/a.go\n// goverter:output:package example.org/m/p/gen\ntype A interface {\n\tConvA(s []*In) []*Out\n}\n\n// goverter:converter\n// goverter:output:format function\n// goverter:output:file ./gen/b.go\n// goverter:output:package example.org/m/p/gen\ntype B interface {\n\tConvB(s []*In) []*Out\n}\n"}, []string{"./p"}},
	{"variadic extend function", map[string]string{
		"p/conv.go": "package p\n\ntype In struct{ A []int }\ntype Out struct{ A string }\n\nfunc Sum(xs ...int) string { return \"\" }\n\n// goverter:converter\n// goverter:extend Sum\ntype C interface {\n\tConv(s In) Out\n}\n"}, []string{"./p"}},
	{"variadic context parameter of a converter method", map[string]string{
		"chk/chk.go": "package chk\n\nimport (\n\t\"example.org/m/p\"\n\t\"example.org/m/p/generated\"\n)\n\nvar _ p.C = &generated.CImpl{}\n",
		"p/conv.go": "package p\n\ntype In struct{ A int }\ntype Out struct{ A int }\n\n// goverter:converter\ntype C interface {\n\t// goverter:context opts\n\tConv(source In, opts ...int) Out\n}\n"}, []string{"./p"}},
	{"unsafe.Pointer field wrapped into a pointer", map[string]string{
		"p/conv.go": "package p\n\nimport \"unsafe\"\n\ntype In struct{ F unsafe.Pointer }\ntype Out struct{ F *unsafe.Pointer }\n\n// goverter:converter\ntype C interface {\n\tConv(s In) Out\n}\n"}, []string{"./p"}},
	{"struct types named like Go keywords' neighbours and temporaries", map[string]string{
		"p/conv.go": "package p\n\ntype Source struct{ Target *Target2 }\ntype Target2 struct{ C int }\ntype Target struct{ Target *Target3 }\ntype Target3 struct{ C int }\n\n// goverter:converter\ntype C interface {\n\tConv(source Source) Target\n\tConv2(source []Source) []Target\n}\n"}, []string{"./p"}},
	{"types of a package called generated, output in the default generated package", map[string]string{
		"q/generated/t.go": "package generated\n\ntype Out struct{ A int }\n",
		"p/conv.go":        "package p\n\nimport \"example.org/m/q/generated\"\n\ntype In struct{ A int }\n\n// goverter:converter\ntype C interface {\n\tConv(s In) generated.Out\n\tConvs(s []In) []generated.Out\n}\n"}, []string{"./p"}},
	{"converter method named like a generated helper", map[string]string{
		"p/conv.go": "package p\n\ntype In struct{ A int }\ntype Out struct{ A int }\n\n// goverter:converter\ntype C interface {\n\tPInToPOut(s []In) []Out\n\tConv(s []*In) []*Out\n}\n"}, []string{"./p"}},
}

func runToolC01(cfg runCfg) {
	rep := newReport("C01", cfg.seed, cfg.tier)
	rep.Rule = "hand-picked module inputs (package names clashing with emitted identifiers, converters sharing a package, variadic signatures, unusual basic types, type names equal to temporaries) through the goverter CLI; on exit 0 the whole module incl. the emitted files must compile and the implementation must be assignable to the interface; non-trivial = goverter reported success; distinct by input"
	bin := buildCLI(cfg)
	for i, in := range c01Inputs {
		root, _ := filepath.Abs(filepath.Join(cfg.out, fmt.Sprintf("m%d", i)))
		files := map[string]string{"go.mod": "module example.org/m\n\ngo 1.22\n"}
		for k, v := range in.files {
			files[k] = v
		}
		writeTree(root, files)
		chk := files["chk/chk.go"]
		delete(files, "chk/chk.go")
		writeTree(root, files)
		res := runCLI(bin, root, append([]string{"gen"}, in.args...)...)
		if chk != "" && res.exit == 0 {
			writeTree(root, map[string]string{"chk/chk.go": chk}) // the emitted implementation must be assignable to the interface
		}
		rep.eval("c01:"+in.name, res.exit == 0)
		rep.count(fmt.Sprintf("exit=%d", res.exit))
		replay := map[string]interface{}{"input": in.name, "files": in.files, "exit": res.exit, "stderr": firstLines(res.stderr, 6)}
		if res.exit != 0 && (strings.Contains(res.stderr, "panic:") || strings.Contains(res.stderr, "goroutine ")) {
			rep.violate(Violation{CaseID: fmt.Sprint(i), What: "goverter panicked on input class: " + in.name + ": " + firstLine(res.stderr), Sig: "cli-panic", Replay: replay})
		}
		if res.exit == 0 {
			rep.sample(map[string]interface{}{"input": in.name})
			cmd := exec.Command("go", "vet", "./...")
			cmd.Dir = root
			cmd.Env = append(os.Environ(), "GOFLAGS=-mod=mod", "GOPROXY=off", "GOSUMDB=off", "GOTOOLCHAIN=local")
			if out, err := cmd.CombinedOutput(); err != nil {
				var msg string
				for _, l := range strings.Split(string(out), "\n") {
					if strings.Contains(l, ".go:") {
						msg = strings.TrimPrefix(strings.TrimSpace(l), "vet: ")
						break
					}
				}
				replay["compile_output"] = firstLines(string(out), 8)
				rep.violate(Violation{CaseID: fmt.Sprint(i), What: "goverter reported success but the module does not compile (input class: " + in.name + "): " + msg, Sig: "output-does-not-compile", Replay: replay})
			}
		}
		os.RemoveAll(root)
	}
	os.Remove(bin)
	rep.write(cfg.out)
}
