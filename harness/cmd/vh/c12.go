package main

// C12: the settings record goverter computes for every method (real config parse through the
// verif hook, exported fields of config.Method.Common) versus Settings.method_common, over the
// exhaustive grid {absent, bare, yes, no}^3 levels for every inheritable boolean setting (with a
// sibling method carrying the opposite value), value grids for the string settings, and the
// error placements (wrong level, unknown, empty, malformed, conflicting).

import (
	"fmt"
	"os"
	"path/filepath"
	"strings"

	"github.com/jmattheis/goverter/comments"
	"github.com/jmattheis/goverter/config"
)

func init() { streams["c12"] = runC12 }

var c12Bools = []string{"wrapErrors", "ignoreUnexported", "update:ignoreZeroValueField", "update:ignoreZeroValueField:basic", "update:ignoreZeroValueField:struct",
	"update:ignoreZeroValueField:nillable", "default:update", "matchIgnoreCase", "ignoreMissing", "skipCopySameType", "useZeroValueOnPointerInconsistency",
	"useUnderlyingTypeMethods", "enum"}
var c12Strs = map[string][]string{"wrapErrorsUsing": {"example.org/m/w", "example.org/m/w2"}, "enum:unknown": {"@error", "@ignore", "Zed"}, "arg:context:regex": {"^ctx", "^context$"}}

func c12BoolForm(key string, v int) []string { // 0 absent, 1 bare, 2 yes, 3 no
	switch v {
	case 1:
		return []string{key}
	case 2:
		return []string{key + " yes"}
	case 3:
		return []string{key + "  no "}
	}
	return nil
}

type c12Conv struct {
	name       string
	conv       []string
	meth       [2][]string
	wantErr    int    // expected diagnostic class for error placements (0 none)
	errLevel   string // "converter" | "method"
	errLineNo  int
}

func coqCommonReal(c config.Common) string {
	re := ""
	if c.ArgContextRegex != nil {
		re = c.ArgContextRegex.String()
	}
	return fmt.Sprintf("{| c_WrapErrors := %s; c_WrapErrorsUsing := %s; c_IgnoreUnexported := %s; c_IgnoreBasicZeroValueField := %s; c_IgnoreStructZeroValueField := %s; c_IgnoreNillableZeroValueField := %s; c_MatchIgnoreCase := %s; c_IgnoreMissing := %s; c_SkipCopySameType := %s; c_UseZeroValueOnPointerInconsistency := %s; c_UseUnderlyingTypeMethods := %s; c_DefaultUpdate := %s; c_Enum_Enabled := %s; c_Enum_Unknown := %s; c_ArgContextRegex := %s |}",
		coqBool(c.WrapErrors), runes(c.WrapErrorsUsing), coqBool(c.IgnoreUnexported), coqBool(c.IgnoreBasicZeroValueField), coqBool(c.IgnoreStructZeroValueField), coqBool(c.IgnoreNillableZeroValueField),
		coqBool(c.MatchIgnoreCase), coqBool(c.IgnoreMissing), coqBool(c.SkipCopySameType), coqBool(c.UseZeroValueOnPointerInconsistency), coqBool(c.UseUnderlyingTypeMethods),
		coqBool(c.DefaultUpdate), coqBool(c.Enum.Enabled), runes(c.Enum.Unknown), runes(re))
}

func c12Class(msg string) int {
	switch {
	case strings.Contains(msg, "unknown setting:"):
		return 40
	case strings.Contains(msg, "missing setting key"):
		return 41
	case strings.Contains(msg, "cannot be used in combination with"):
		return 43
	case strings.Contains(msg, "invalid value:"), strings.Contains(msg, "must have one value but got"), strings.Contains(msg, "invalid fields"),
		strings.Contains(msg, "missing target field"), strings.Contains(msg, "too many fields"), strings.Contains(msg, "must be a field name but was a path"),
		strings.Contains(msg, "invalid enum action"), strings.Contains(msg, "error parsing regexp"), strings.Contains(msg, "missing field name"), strings.Contains(msg, "missing function name"):
		return 42
	}
	return 49
}

func runC12(cfg runCfg) {
	rep := newReport("C12", cfg.seed, cfg.tier)
	rep.Exhaustive = true
	rep.Rule = "EXHAUSTIVE: every inheritable boolean setting x {absent, bare, yes, no} at each of the three levels (-g, converter, method) with a sibling method carrying another value; string settings over {absent, v1, v2}^3; every non-inheritable key at the wrong level, unknown / empty keys, malformed values and the wrapErrors/wrapErrorsUsing conflict at each level; records read from the REAL config parse (config.VerifParseEach) ; non-trivial = the record differs from the default or an error is expected; distinct by (global, converter lines, method lines)"
	w := &shardWriter{dir: cfg.out, stem: "C12", max: 400, rep: rep, off: cfg.oracleOnly,
		header:  "From Coq Require Import List NArith.\nFrom GV Require Import Base Ty Conf Comment Settings.\nImport ListNotations. Open Scope N_scope.",
		ctype:   "N * list rstr * list rstr * list rstr * res common",
		trailer: "Definition bad (c : N * list rstr * list rstr * list rstr * res common) : bool :=\n  let '(_, g, cv, m, obs) := c in negb (res_eqb common_eqb (method_common g cv m) obs).\nDefinition M := Eval vm_compute in map (fun c => fst (fst (fst (fst c)))) (filter bad cases). Print M.\n"}
	casesF, _ := os.Create(filepath.Join(cfg.out, "cases.jsonl"))
	defer casesF.Close()
	caseID := 0
	for gv := 0; gv < 4; gv++ {
		// global lines: variant gv for every boolean setting, value gv%3 for strings (wrapErrors* handled apart)
		var globals []string
		for _, k := range c12Bools {
			if k == "wrapErrors" {
				continue
			}
			globals = append(globals, c12BoolForm(k, gv)...)
		}
		for k, vs := range c12Strs {
			if k == "wrapErrorsUsing" {
				continue
			}
			if gv%3 > 0 {
				globals = append(globals, k+" "+vs[gv%3-1])
			}
		}
		var convs []*c12Conv
		n := 0
		add := func(c *c12Conv) { c.name = fmt.Sprintf("K%d", n); n++; convs = append(convs, c) }
		for _, k := range c12Bools {
			for cv := 0; cv < 4; cv++ {
				for mv := 0; mv < 4; mv++ {
					add(&c12Conv{conv: c12BoolForm(k, cv), meth: [2][]string{c12BoolForm(k, mv), c12BoolForm(k, (mv+2)%4)}})
				}
			}
		}
		for k, vs := range c12Strs {
			for cv := 0; cv <= len(vs); cv++ {
				for mv := 0; mv <= len(vs); mv++ {
					var cl, ml, sl []string
					if cv > 0 {
						cl = []string{k + " " + vs[cv-1]}
					}
					if mv > 0 {
						ml = []string{k + "   " + vs[mv-1] + " "}
					}
					if mv < len(vs) {
						sl = []string{k + " " + vs[mv]}
					}
					add(&c12Conv{conv: cl, meth: [2][]string{ml, sl}})
				}
			}
		}
		// interplay of the zero-value family: order matters (last line wins per field)
		add(&c12Conv{conv: []string{"update:ignoreZeroValueField", "update:ignoreZeroValueField:struct no"}, meth: [2][]string{{"update:ignoreZeroValueField:basic no"}, {"update:ignoreZeroValueField no", "update:ignoreZeroValueField:nillable"}}})
		add(&c12Conv{conv: []string{"update:ignoreZeroValueField:basic"}, meth: [2][]string{{"update:ignoreZeroValueField no"}, {"update:ignoreZeroValueField:basic no", "update:ignoreZeroValueField:basic yes"}}})
		// error placements (only in the first global variant with compatible globals)
		if gv == 0 {
			bad := []struct {
				line  string
				class int
			}{{"bogusSetting yes", 40}, {" yes", 41}, {"ignoreMissing maybe", 42}, {"ignoreMissing yes no", 42}, {"wrapErrorsUsing", 42}, {"wrapErrorsUsing a b", 42},
				{"enum:unknown @bogus", 42}, {"enum:unknown", 42}, {"skipCopySameType YES", 42}}
			for _, b := range bad {
				add(&c12Conv{conv: []string{"ignoreMissing", b.line}, wantErr: b.class, errLevel: "converter"})
				add(&c12Conv{conv: []string{"ignoreMissing"}, meth: [2][]string{{"matchIgnoreCase", b.line}, nil}, wantErr: b.class, errLevel: "method"})
			}
			for _, k := range []string{"name X", "output:raw x", "output:format struct", "output:package a/b", "struct:comment x", "enum:exclude a:B", "extend F", "converter", "variables"} {
				add(&c12Conv{meth: [2][]string{{k}, nil}, wantErr: 40, errLevel: "method"})
			}
			for _, k := range []string{"map A B", "ignore A", "update target", "context c", "enum:map A B", "enum:transform regex a b", "autoMap A", "default F"} {
				add(&c12Conv{conv: []string{k}, wantErr: 40, errLevel: "converter"})
			}
			// F-C12-2: value-taking settings without a value
			add(&c12Conv{meth: [2][]string{{"ignore"}, nil}, wantErr: 42, errLevel: "method"})
			add(&c12Conv{meth: [2][]string{{"ignore   "}, nil}, wantErr: 42, errLevel: "method"})
			add(&c12Conv{conv: []string{"extend"}, wantErr: 42, errLevel: "converter"})
			add(&c12Conv{conv: []string{"wrapErrors", "wrapErrorsUsing example.org/m/w"}, wantErr: 43, errLevel: "converter"})
			add(&c12Conv{conv: []string{"wrapErrorsUsing example.org/m/w", "wrapErrors no"}, wantErr: 43, errLevel: "converter"})
			add(&c12Conv{conv: []string{"wrapErrors"}, meth: [2][]string{{"wrapErrorsUsing example.org/m/w"}, nil}, wantErr: 43, errLevel: "method"})
			add(&c12Conv{conv: []string{"wrapErrorsUsing example.org/m/w"}, meth: [2][]string{{"wrapErrors"}, nil}, wantErr: 43, errLevel: "method"})
			add(&c12Conv{conv: []string{"wrapErrors no"}, meth: [2][]string{{"wrapErrorsUsing example.org/m/w"}, {"wrapErrors"}}})
			for cv := 0; cv < 3; cv++ {
				for mv := 0; mv < 3; mv++ {
					var cl, ml []string
					if cv > 0 {
						cl = []string{"wrapErrorsUsing " + c12Strs["wrapErrorsUsing"][cv-1]}
					}
					if mv > 0 {
						ml = []string{"wrapErrorsUsing " + c12Strs["wrapErrorsUsing"][mv-1]}
					}
					add(&c12Conv{conv: cl, meth: [2][]string{ml, nil}})
				}
			}
		}
		// render the package
		root := filepath.Join(cfg.out, fmt.Sprintf("mod%d", gv))
		must(os.MkdirAll(filepath.Join(root, "p"), 0o755))
		must(os.WriteFile(filepath.Join(root, "go.mod"), []byte("module example.org/m\n\ngo 1.22\n"), 0o644))
		var sb strings.Builder
		sb.WriteString("package p\n\ntype In struct{ A int }\ntype Out struct{ A int }\n\n")
		lineNo := 6
		convLine, methLine := map[string]int{}, map[string]int{}
		for _, c := range convs {
			sb.WriteString("// goverter:converter\n")
			lineNo++
			for _, l := range c.conv {
				sb.WriteString("// goverter:" + l + "\n")
				lineNo++
			}
			convLine[c.name] = lineNo
			fmt.Fprintf(&sb, "type %s interface {\n", c.name)
			lineNo++
			for i, ml := range c.meth {
				for _, l := range ml {
					sb.WriteString("\t// goverter:" + l + "\n")
					lineNo++
				}
				if i == 0 {
					methLine[c.name] = lineNo
				}
				fmt.Fprintf(&sb, "\tM%d(source In) Out\n", i)
				lineNo++
			}
			sb.WriteString("}\n\n")
			lineNo += 2
		}
		must(os.WriteFile(filepath.Join(root, "p", "conv.go"), []byte(sb.String()), 0o644))
		raw, err := comments.ParseDocs(comments.ParseDocsConfig{PackagePattern: []string{"./p"}, WorkingDir: root, BuildTags: "goverter"})
		if err != nil {
			rep.Notes = append(rep.Notes, "ParseDocs: "+err.Error())
			continue
		}
		cs, errs, err := config.VerifParseEach(&config.Raw{Converters: raw, WorkDir: root, BuildTags: "goverter",
			Global: config.RawLines{Location: "command line (-g, -global)", Lines: globals}})
		if err != nil {
			rep.Notes = append(rep.Notes, "VerifParseEach: "+err.Error())
			continue
		}
		byName := map[string]int{}
		for i, rc := range raw {
			byName[rc.InterfaceName] = i
		}
		for _, c := range convs {
			i, ok := byName[c.name]
			if !ok {
				rep.count("converter-not-found")
				continue
			}
			convLines := append([]string{"converter"}, c.conv...)
			for mi := 0; mi < 2; mi++ {
				var obs string
				key := fmt.Sprintf("%v|%v|%v", globals, convLines, c.meth[mi])
				replay := map[string]interface{}{"global": globals, "converter_lines": convLines, "method_lines": c.meth[mi]}
				if errs[i] != nil {
					cl := c12Class(errs[i].Error())
					if c.errLevel == "method" && mi == 1 {
						continue // the sibling of a failing method is not judged
					}
					obs = fmt.Sprintf("Diag %d", cl)
					rep.count(fmt.Sprintf("error-class-%d", cl))
					// oracle: expected class, and the message names the place it was written
					if c.wantErr == 0 {
						rep.violate(Violation{CaseID: fmt.Sprint(caseID), What: "a well-formed settings placement is rejected: " + firstLines(errs[i].Error(), 12), Sig: "valid-rejected", Replay: replay})
					} else {
						want := fmt.Sprintf("conv.go:%d", convLine[c.name])
						if c.errLevel == "method" {
							want = fmt.Sprintf("conv.go:%d", methLine[c.name])
						}
						if !strings.Contains(errs[i].Error(), want) {
							rep.violate(Violation{CaseID: fmt.Sprint(caseID), What: "diagnostic does not name the place the setting was written (" + want + "): " + firstLines(errs[i].Error(), 3), Sig: "location-missing", Replay: replay})
						}
					}
					rep.eval(key, true)
				} else {
					if c.wantErr != 0 && (c.errLevel == "converter" || mi == 0) {
						rep.violate(Violation{CaseID: fmt.Sprint(caseID), What: fmt.Sprintf("an invalid settings placement (expected class %d) is accepted", c.wantErr), Sig: "invalid-accepted", Replay: replay})
					}
					var m *config.Method
					for _, mm := range cs[i].Methods {
						if mm.Definition != nil && mm.Name == fmt.Sprintf("M%d", mi) {
							m = mm
						}
					}
					if m == nil {
						rep.count("method-not-found")
						continue
					}
					obs = "Ok " + coqCommonReal(m.Common)
					rep.count("record")
					rep.eval(key, len(c.conv)+len(c.meth[mi]) > 0 || gv > 0)
					if mi == 0 && (len(c.conv) > 0 || len(c.meth[0]) > 0) {
						rep.sample(replay)
					}
				}
				fmt.Fprintf(casesF, "{\"id\":%d,\"replay\":{\"global\":%q,\"converter_lines\":%q,\"method_lines\":%q}}\n", caseID, globals, convLines, c.meth[mi])
				w.add(fmt.Sprintf("(%d, %s, %s, %s, %s)", caseID, coqLines(globals), coqLines(convLines), coqLines(c.meth[mi]), obs))
				caseID++
			}
		}
		os.RemoveAll(root)
	}
	w.flush()
	c12Probes(cfg, rep, casesF, caseID)
	rep.write(cfg.out)
}

// effect probe for arg:context:regex: the regex in effect for a method (method > converter > -g) decides whether an
// extra parameter is a context (accepted) or a second source (rejected). All 27 combinations x 2 probe names.
func c12Probes(cfg runCfg, rep *Report, casesF *os.File, caseID int) {
	w := &shardWriter{dir: cfg.out, stem: "C12P", max: 400, rep: rep, off: cfg.oracleOnly,
		header:  "From Coq Require Import List NArith String.\nFrom GV Require Import Base Ty Conf Comment Settings.\nImport ListNotations. Open Scope N_scope.",
		ctype:   "N * list rstr * list rstr * list rstr * rstr * bool",
		trailer: "(* (id, -g lines, converter lines, method lines, name of the extra parameter, accepted?) : accepted iff the regex in effect is ^name$ *)\nDefinition bad (c : N * list rstr * list rstr * list rstr * rstr * bool) : bool :=\n  let '(_, g, cv, m, probe, acc) := c in\n  match method_common g cv m with\n  | Ok r => negb (Bool.eqb (rstr_eqb (c_ArgContextRegex r) (94 :: probe ++ [36])) acc)\n  | _ => true\n  end.\nDefinition M := Eval vm_compute in map (fun c => fst (fst (fst (fst (fst c))))) (filter bad cases). Print M.\n"}
	vals := []string{"", "^ctxA$", "^ctxB$"}
	for gi, gv := range vals {
		root := filepath.Join(cfg.out, fmt.Sprintf("probe%d", gi))
		must(os.MkdirAll(filepath.Join(root, "p"), 0o755))
		must(os.WriteFile(filepath.Join(root, "go.mod"), []byte("module example.org/m\n\ngo 1.22\n"), 0o644))
		var sb strings.Builder
		sb.WriteString("package p\n\ntype In struct{ A int }\ntype Out struct{ A int }\n\n")
		type pc struct {
			name, cv, mv, probe string
		}
		var pcs []pc
		n := 0
		for _, cv := range vals {
			for _, mv := range vals {
				for _, probe := range []string{"ctxA", "ctxB"} {
					name := fmt.Sprintf("P%d", n)
					n++
					sb.WriteString("// goverter:converter\n")
					if cv != "" {
						sb.WriteString("// goverter:arg:context:regex " + cv + "\n")
					}
					fmt.Fprintf(&sb, "type %s interface {\n", name)
					if mv != "" {
						sb.WriteString("\t// goverter:arg:context:regex " + mv + "\n")
					}
					fmt.Fprintf(&sb, "\tConv(source In, %s string) Out\n}\n\n", probe)
					pcs = append(pcs, pc{name, cv, mv, probe})
				}
			}
		}
		must(os.WriteFile(filepath.Join(root, "p", "conv.go"), []byte(sb.String()), 0o644))
		var globals []string
		if gv != "" {
			globals = []string{"arg:context:regex " + gv}
		}
		raw, err := comments.ParseDocs(comments.ParseDocsConfig{PackagePattern: []string{"./p"}, WorkingDir: root, BuildTags: "goverter"})
		if err != nil {
			rep.Notes = append(rep.Notes, "probe ParseDocs: "+err.Error())
			continue
		}
		_, errs, err := config.VerifParseEach(&config.Raw{Converters: raw, WorkDir: root, BuildTags: "goverter", Global: config.RawLines{Location: "command line (-g, -global)", Lines: globals}})
		if err != nil {
			rep.Notes = append(rep.Notes, "probe VerifParseEach: "+err.Error())
			continue
		}
		byName := map[string]int{}
		for i, rc := range raw {
			byName[rc.InterfaceName] = i
		}
		for _, c := range pcs {
			i := byName[c.name]
			accepted := errs[i] == nil
			eff := gv
			if c.cv != "" {
				eff = c.cv
			}
			if c.mv != "" {
				eff = c.mv
			}
			want := eff == "^"+c.probe+"$"
			var cl, ml []string
			cl = []string{"converter"}
			if c.cv != "" {
				cl = append(cl, "arg:context:regex "+c.cv)
			}
			if c.mv != "" {
				ml = []string{"arg:context:regex " + c.mv}
			}
			replay := map[string]interface{}{"global": globals, "converter_lines": cl, "method_lines": ml, "extra_parameter": c.probe, "accepted": accepted}
			rep.eval(fmt.Sprintf("probe|%s|%s|%s|%s", gv, c.cv, c.mv, c.probe), true)
			rep.count(fmt.Sprintf("probe-accepted=%v", accepted))
			if accepted != want {
				rep.violate(Violation{CaseID: fmt.Sprint(caseID), What: fmt.Sprintf("arg:context:regex in effect should be %q (method > converter > -g) but parameter %s is accepted=%v", eff, c.probe, accepted), Sig: "effect-probe-context-regex", Replay: replay})
			}
			fmt.Fprintf(casesF, "{\"id\":%d,\"replay\":{\"global\":%q,\"converter_lines\":%q,\"method_lines\":%q,\"probe\":%q}}\n", caseID, globals, cl, ml, c.probe)
			w.add(fmt.Sprintf("(%d, %s, %s, %s, %s, %s)", caseID, coqLines(globals), coqLines(cl), coqLines(ml), runes(c.probe), coqBool(accepted)))
			caseID++
		}
		os.RemoveAll(root)
	}
	w.flush()
}
