package main

// A systematic grid of conversion shapes (C03 quantifies "exhaustively up to constructor depth 2"): leaf types x up to
// two constructors (pointer, slice, array-to-slice, map value, map key) x edits of the root (identical, value to
// pointer, pointer to value with and without useZeroValueOnPointerInconsistency) x settings. Every batch of the
// structural core streams runs a window of the grid chosen from the PRNG seed and the batch number; the thorough tier
// (about 90 batches) sweeps all of it.

import "fmt"

type gridPair struct{ s, t *Ty }

// gridLeaves: each leaf yields a (source, target) pair of types that convert structurally.
func gridLeaves() []func(g *pgen) gridPair {
	basic := func(k int) func(g *pgen) gridPair {
		return func(g *pgen) gridPair { return gridPair{tBasic(k), tBasic(k)} }
	}
	return []func(g *pgen) gridPair{
		basic(bkInt), basic(bkString), basic(bkUint8),
		func(g *pgen) gridPair { // named basic on both sides (cast)
			a := g.newNamed(1, tBasic(bkInt), "NB")
			b := g.newNamed(1, tBasic(bkInt), "NB")
			return gridPair{tNamed(a), tNamed(b)}
		},
		func(g *pgen) gridPair { // named structs (sub-method) with a pointer and a slice inside
			fs := []Field{{"A", tBasic(bkInt)}, {"P", tPtr(tBasic(bkInt))}, {"L", tSlice(tBasic(bkString))}}
			a := g.newNamed(1, &Ty{K: "struct", Pkg: 1, Fields: fs}, "S")
			b := g.newNamed(1, &Ty{K: "struct", Pkg: 1, Fields: fs}, "T")
			return gridPair{tNamed(a), tNamed(b)}
		},
		func(g *pgen) gridPair { // unnamed struct (inline)
			u := &Ty{K: "struct", Pkg: 1, Fields: []Field{{"N", tBasic(bkInt)}, {"Q", tPtr(tBasic(bkString))}}}
			return gridPair{u, u}
		},
	}
}

const gridCtors = 5 // 0 ptr, 1 slice, 2 array -> slice, 3 map value, 4 map key

func gridApply(c int, p gridPair) (gridPair, bool) {
	switch c {
	case 0:
		return gridPair{tPtr(p.s), tPtr(p.t)}, true
	case 1:
		return gridPair{tSlice(p.s), tSlice(p.t)}, true
	case 2:
		return gridPair{tArr(2, p.s), tSlice(p.t)}, true
	case 3:
		return gridPair{tMap(tBasic(bkString), p.s), tMap(tBasic(bkString), p.t)}, true
	default:
		if p.s.K != "basic" && p.s.K != "named" { // keys: comparable leaves only
			return p, false
		}
		return gridPair{tMap(p.s, tBasic(bkString)), tMap(p.t, tBasic(bkString))}, true
	}
}

type gridEntry struct {
	leaf    int
	ctors   []int // innermost first
	edit    int   // 0 identical, 1 value -> pointer at the root, 2 pointer -> value at the root (source must be a pointer)
	setting int   // 0 none, 1 skipCopySameType, 2 useZeroValueOnPointerInconsistency
}

func gridEntries() []gridEntry {
	var out []gridEntry
	nl := len(gridLeaves())
	var shapes [][]int
	shapes = append(shapes, nil)
	for a := 0; a < gridCtors; a++ {
		shapes = append(shapes, []int{a})
		for b := 0; b < gridCtors; b++ {
			shapes = append(shapes, []int{a, b})
		}
	}
	for l := 0; l < nl; l++ {
		for _, sh := range shapes {
			for e := 0; e < 3; e++ {
				if e == 2 && (len(sh) == 0 || sh[len(sh)-1] != 0) {
					continue // pointer -> value needs a pointer source
				}
				for st := 0; st < 3; st++ {
					out = append(out, gridEntry{l, sh, e, st})
				}
			}
		}
	}
	return out
}

// grid: the window of the grid that batch b of a run with this seed executes.
func (g *pgen) grid(focus string, seed int64, b int, start int) []*ConvSpec {
	switch focus {
	case "c02", "c03", "c04", "c11":
	default:
		return nil
	}
	all := gridEntries()
	const window = 14
	first := (int(seed%1000)*131 + b*window) % len(all)
	var out []*ConvSpec
	for k := 0; k < window; k++ {
		en := all[(first+k)%len(all)]
		p := gridLeaves()[en.leaf](g)
		ok := true
		for _, c := range en.ctors {
			if p, ok = gridApply(c, p); !ok {
				break
			}
		}
		if !ok {
			continue
		}
		switch en.edit {
		case 1:
			p.t = tPtr(p.t)
		case 2:
			p.t = p.t.Elem
		}
		c := &ConvSpec{Name: fmt.Sprintf("C%d", start+len(out))}
		c.Lines = [][]string{nil, {"skipCopySameType"}, {"useZeroValueOnPointerInconsistency"}}[en.setting]
		c.Methods = []*MethodSpec{{Name: "M0", Src: p.s, Tgt: p.t, Fields: map[string]*fieldSet{}}}
		out = append(out, c)
	}
	return out
}
