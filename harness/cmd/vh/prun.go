package main

// Running the real goverter on a generated module (in-process, per-converter outcomes via the
// verif hook config.VerifParseEach), compiling what it emitted together with a generated
// driver, executing the converters on generated values and reading back canonical results.

import (
	"time"
	"bufio"
	"bytes"
	"fmt"
	"go/ast"
	"go/parser"
	"go/token"
	"os"
	"os/exec"
	"path/filepath"
	"regexp"
	"sort"
	"strings"

	"github.com/jmattheis/goverter/comments"
	"github.com/jmattheis/goverter/config"
	"github.com/jmattheis/goverter/generator"
)

// fileFacts: what a parsed emitted file contains
type fileFacts struct {
	Imports  []string
	Funcs    []string // method / function names
	BadDecls []string // top-level declarations other than import, the empty converter struct, funcs and init
	ParseErr string
	Receivers map[string]bool
}

func inspectGo(src []byte, implName string) fileFacts {
	var ff fileFacts
	ff.Receivers = map[string]bool{}
	fset := token.NewFileSet()
	f, err := parser.ParseFile(fset, "gen.go", src, parser.ParseComments)
	if err != nil {
		ff.ParseErr = err.Error()
		return ff
	}
	for _, im := range f.Imports {
		ff.Imports = append(ff.Imports, strings.Trim(im.Path.Value, "\""))
	}
	for _, d := range f.Decls {
		switch v := d.(type) {
		case *ast.FuncDecl:
			ff.Funcs = append(ff.Funcs, v.Name.Name)
			if v.Recv != nil && len(v.Recv.List) == 1 {
				if st, ok := v.Recv.List[0].Type.(*ast.StarExpr); ok {
					if id, ok := st.X.(*ast.Ident); ok {
						ff.Receivers[id.Name] = true
					}
				}
			}
		case *ast.GenDecl:
			switch v.Tok {
			case token.IMPORT:
			case token.TYPE:
				for _, sp := range v.Specs {
					ts := sp.(*ast.TypeSpec)
					st, ok := ts.Type.(*ast.StructType)
					if !ok || st.Fields == nil || len(st.Fields.List) != 0 || ts.Name.Name != implName {
						ff.BadDecls = append(ff.BadDecls, "type "+ts.Name.Name)
					}
				}
			default:
				ff.BadDecls = append(ff.BadDecls, v.Tok.String()+" declaration")
			}
		}
	}
	sort.Strings(ff.Imports)
	sort.Strings(ff.Funcs)
	return ff
}

type convOutcome struct {
	OK     bool
	Class  int    // diagnostic class (Gen.v D_*), 1 = panic, 0 = ok
	Msg    string // diagnostic text
	Files  map[string][]byte
	Panic  string
}

var diagFrags = []struct {
	frag  string
	class int
}{
	{"It is unclear how nil should be handled", 21},
	{"TypeMismatch: Cannot convert", 20},
	{"multiple matches found", 23},
	{"Cannot match the target field with the source entry", 22},
	{"Cannot set value for unexported field", 24},
	{"Cannot access '", 25},
	{"Cannot find the mapped field on the source entry", 25},
	{"is not a struct or struct pointer", 25},
	{"does not exist.\nRemove or adjust field settings", 26},
	{"Overlapping struct settings found", 27},
	{"Overlapping signatures found", 28},
	{"Invalid struct field mapping on method", 29},
	{"Could not satisfy all required context parameters", 34},
	{"Used method returns error but conversion method does not", 35},
	{"Method source type mismatches with conversion source", 37},
	{"Method return type mismatches with target", 38},
	{"but not all required context params are available", 33},
	{"because no error is returned as second return parameter", 36},
	{"Error parsing struct method", 39},
	{"Error using method", 30},
	{"target type must be a pointer struct", 32},
	{"source type must be a struct or pointer struct", 32},
	{"enum:unknown is not configured", 31},
	{"Cannot return @error because", 31},
	{"Detected multiple enum source members", 31},
	{"Configured enum value", 31},
	{"did not return any mapped values", 31},
	{"error executing transformer", 31},
	{"invalid target \"", 31},
	{"Enum ", 31},
	{"does not exist", 25}, // autoMap path element
}

func diagClass(msg string) int {
	for _, d := range diagFrags {
		if strings.Contains(msg, d.frag) {
			return d.class
		}
	}
	return 98
}

// writeModule renders the module: go.mod, p/types.go, q/types.go, p/conv.go
func writeModule(root string, p *Program, convs []*ConvSpec) {
	must(os.MkdirAll(filepath.Join(root, "p"), 0o755))
	must(os.MkdirAll(filepath.Join(root, "q"), 0o755))
	must(os.WriteFile(filepath.Join(root, "go.mod"), []byte("module example.org/m\n\ngo 1.21\n"), 0o644))
	must(os.WriteFile(filepath.Join(root, "p", "types.go"), []byte(p.declsSource(1)), 0o644))
	must(os.WriteFile(filepath.Join(root, "q", "types.go"), []byte(p.declsSource(2)+"\nvar Q_ = 0\n"), 0o644))
	var sb strings.Builder
	sb.WriteString("package p\n\n")
	var body strings.Builder
	for _, c := range convs {
		body.WriteString("// goverter:converter\n")
		if c.SamePkg {
			fmt.Fprintf(&body, "// goverter:output:file ./%s_gen.go\n", strings.ToLower(c.Name))
		} else {
			fmt.Fprintf(&body, "// goverter:output:file ./generated/%s.go\n", strings.ToLower(c.Name))
		}
		for _, l := range c.Lines {
			body.WriteString("// goverter:" + l + "\n")
		}
		fmt.Fprintf(&body, "type %s interface {\n", c.Name)
		for _, m := range c.Methods {
			for _, l := range m.Lines {
				body.WriteString("\t// goverter:" + l + "\n")
			}
			fmt.Fprintf(&body, "\t%s\n", methodSig(p, m))
		}
		body.WriteString("}\n\n")
	}
	if strings.Contains(body.String(), "q.") {
		fmt.Fprintf(&sb, "import q %q\n\n", pkgPaths[2])
	}
	sb.WriteString(body.String())
	must(os.WriteFile(filepath.Join(root, "p", "conv.go"), []byte(sb.String()), 0o644))
	{
		must(os.MkdirAll(filepath.Join(root, "sup"), 0o755))
		must(os.MkdirAll(filepath.Join(root, "werr"), 0o755))
		must(os.WriteFile(filepath.Join(root, "sup", "sup.go"), []byte(supSource), 0o644))
		must(os.WriteFile(filepath.Join(root, "werr", "werr.go"), []byte(werrSource), 0o644))
		for pkg := 1; pkg <= 2; pkg++ {
			if src := p.funcsSource(pkg); src != "" {
				must(os.WriteFile(filepath.Join(root, pkgNames[pkg], "funcs.go"), []byte(src), 0o644))
			}
		}
	}
}

// keyTypesLit: Go literal of the set of key types of all maps reachable from t (as reflect prints them); nil when a key
// is an unnamed struct (formatting differs).
func keyTypesLit(p *Program, t *Ty) string {
	set := map[string]bool{}
	ok := true
	seen := map[int]bool{}
	var walk func(t *Ty)
	walk = func(t *Ty) {
		switch t.K {
		case "named":
			if !seen[t.ID] {
				seen[t.ID] = true
				walk(p.Named[t.ID].Under)
			}
		case "ptr", "slice", "arr":
			walk(t.Elem)
		case "map":
			if t.Key.K == "struct" || t.Key.K == "other" {
				ok = false
			}
			set[p.goType(t.Key, 0)] = true
			walk(t.Key)
			walk(t.Elem)
		case "struct":
			for _, f := range t.Fields {
				walk(f.T)
			}
		}
	}
	walk(t)
	if !ok {
		return "nil"
	}
	var ks []string
	for k := range set {
		ks = append(ks, fmt.Sprintf("%q: true", k))
	}
	sort.Strings(ks)
	return "map[string]bool{" + strings.Join(ks, ", ") + "}"
}

// methodSig renders a declared converter method: contexts before or after the source, optional error result.
func methodSig(p *Program, m *MethodSpec) string {
	var ps []string
	var cs []string
	for _, c := range m.Ctx {
		cs = append(cs, c.Name+" "+p.goType(c.T, 1))
	}
	src := "source " + p.goType(m.Src, 1)
	if m.CtxFirst {
		ps = append(append(ps, cs...), src)
	} else {
		ps = append(append(ps, src), cs...)
	}
	if m.Update {
		ps = append(ps, "target "+p.goType(m.Tgt, 1))
		if m.Err {
			return fmt.Sprintf("%s(%s) error", m.Name, strings.Join(ps, ", "))
		}
		return fmt.Sprintf("%s(%s)", m.Name, strings.Join(ps, ", "))
	}
	if m.Err {
		return fmt.Sprintf("%s(%s) (%s, error)", m.Name, strings.Join(ps, ", "), p.goType(m.Tgt, 1))
	}
	return fmt.Sprintf("%s(%s) %s", m.Name, strings.Join(ps, ", "), p.goType(m.Tgt, 1))
}

// runGoverter: per-converter outcome of the real generator on the module.
func runGoverter(root string, convs []*ConvSpec, globals []string) (map[string]*convOutcome, error) {
	raw, err := comments.ParseDocs(comments.ParseDocsConfig{PackagePattern: []string{"./p"}, WorkingDir: root, BuildTags: "goverter"})
	if err != nil {
		return nil, fmt.Errorf("ParseDocs: %w", err)
	}
	cs, errs, err := config.VerifParseEach(&config.Raw{Converters: raw, WorkDir: root, BuildTags: "goverter",
		Global: config.RawLines{Location: "command line (-g, -global)", Lines: globals}, OuputBuildConstraint: "!goverter"})
	if err != nil {
		return nil, fmt.Errorf("VerifParseEach: %w", err)
	}
	out := map[string]*convOutcome{}
	for i, rc := range raw {
		o := &convOutcome{}
		out[rc.InterfaceName] = o
		if errs[i] != nil {
			o.Msg = errs[i].Error()
			o.Class = 97 // configuration-stage diagnostic
			if strings.Contains(o.Msg, "error parsing type") || strings.Contains(o.Msg, "does not have methods with names that match") {
				o.Class = 40 // a custom function is not usable for the setting that names it (Sig model)
			}
			continue
		}
		// generation runs under recover and with a deadline: a generator that loops cannot be stopped from inside the
		// process, so the goroutine is abandoned (it keeps one core busy until the stream ends) and the converter is
		// reported as class 2 "did not terminate"
		done := make(chan *convOutcome, 1)
		conv := cs[i]
		go func() {
			oo := &convOutcome{}
			defer func() {
				if r := recover(); r != nil {
					oo.Class, oo.Panic = 1, fmt.Sprint(r)
				}
				done <- oo
			}()
			files, err := generator.Generate([]*config.Converter{conv}, generator.Config{BuildConstraint: "!goverter"})
			if err != nil {
				oo.Msg = err.Error()
				oo.Class = diagClass(oo.Msg)
				return
			}
			oo.OK, oo.Files = true, files
		}()
		select {
		case oo := <-done:
			*o = *oo
		case <-time.After(generateDeadline):
			o.Class, o.Msg = 2, fmt.Sprintf("generation did not terminate within %s", generateDeadline)
		}
	}
	return out, nil
}

const generateDeadline = 45 * time.Second

type runCase struct {
	ID     int
	Conv   string
	Method string
	MIdx   int
	Src    *Val
	N0     int
	SamePk bool
	Skip   []string // target field names the structural oracle must not judge (map/ignore settings)
	Pre    *Val     // update methods: pre-state of the target struct
	ZeroFlags [3]bool // update:ignoreZeroValueField basic / struct / nillable in effect (harness' reading)
	Update string   // verdict of the update oracle ("" = holds)
	NonIdent string // memory shared between positions of non-identical types
	KeyShared string // positions inside map keys of the result that are source memory
	// observed
	Panic   string
	Out     string // Coq term of the result
	Shared  string // Coq list of paths
	Changed bool
	Struct  string // structural oracle verdict ("" = holds)
	Compile string
	CtxT    []*Ty   // context parameter types and the values passed
	CtxV    []int64
	CtxFirst bool
	RetErr  bool    // the method has an error result
	Err     string  // the call returned an error: Coq term (fn, wraps)
	ErrOracle string // verdict of the direct C07 oracle ("" = holds)
	Race    string  // race detector report when the conversion ran concurrently on one source (thorough tier, C04)
	Custom  bool
}

const driverPrelude = `
type pr struct{ src map[uintptr]bool; next int; snap bool; styp map[uintptr]reflect.Type; nonident []string; keyShared []string }

func tok(v reflect.Value) int64 {
	switch v.Kind() {
	case reflect.Bool:
		if v.Bool() { return 1 }
		return 0
	case reflect.Int, reflect.Int8, reflect.Int16, reflect.Int32, reflect.Int64:
		return v.Int()
	case reflect.Uint, reflect.Uint8, reflect.Uint16, reflect.Uint32, reflect.Uint64, reflect.Uintptr:
		return int64(v.Uint())
	case reflect.Float32, reflect.Float64:
		return int64(v.Float())
	case reflect.String:
		s := v.String()
		if s == "" { return 0 }
		var n int64
		if _, err := fmt.Sscanf(s, "s%d", &n); err == nil { return n }
		return -999
	}
	return 0 // non-basic map keys: paths use 0
}

var srcTypes = map[string]reflect.Type{} // kind:address -> static type of the source node

func collect(v reflect.Value, set map[uintptr]bool) {
	switch v.Kind() {
	case reflect.Ptr:
		if !v.IsNil() { if v.Type().Elem().Size() > 0 { set[v.Pointer()] = true; srcTypes[fmt.Sprintf("p:%d", v.Pointer())] = v.Type() }; collect(v.Elem(), set) }
	case reflect.Slice:
		if !v.IsNil() && v.Len() > 0 && v.Type().Elem().Size() > 0 {
			set[v.Pointer()] = true
			srcTypes[fmt.Sprintf("s:%d", v.Pointer())] = v.Type()
			for i := 0; i < v.Len(); i++ { set[v.Index(i).Addr().Pointer()] = true } // interior pointers (&s[i])
		}
		for i := 0; i < v.Len(); i++ { collect(v.Index(i), set) }
	case reflect.Array:
		for i := 0; i < v.Len(); i++ { collect(v.Index(i), set) }
	case reflect.Map:
		if !v.IsNil() { set[v.Pointer()] = true; srcTypes[fmt.Sprintf("m:%d", v.Pointer())] = v.Type()
			it := v.MapRange()
			for it.Next() { collect(it.Key(), set); collect(it.Value(), set) } }
	case reflect.Struct:
		for i := 0; i < v.NumField(); i++ {
			if f := v.Field(i); f.CanAddr() && f.Type().Size() > 0 { set[f.Addr().Pointer()] = true } // interior pointers (&p.F)
			collect(v.Field(i), set)
		}
	case reflect.Interface:
		if !v.IsNil() { collect(v.Elem(), set) }
	}
}

// show prints v as a Val.v term; addresses of the source set get id 2, others 0-based fresh ids >= n0.
func (p *pr) show(v reflect.Value, n0 int, path []string, shared *[]string, under bool) string {
	id := func(a uintptr) int {
		if p.src[a] {
			if !under && shared != nil { *shared = append(*shared, "[" + strings.Join(path, "; ") + "]") }
			kk := map[reflect.Kind]string{reflect.Ptr: "p", reflect.Slice: "s", reflect.Map: "m"}[v.Kind()]
			if st, ok := srcTypes[fmt.Sprintf("%s:%d", kk, a)]; ok && shared != nil && st != v.Type() {
				p.nonident = append(p.nonident, fmt.Sprintf("%s shared as %s", st, v.Type()))
			} else if !ok && shared != nil && (kk == "p" || kk == "s") {
				// the address of a source field / element: no source position holds this pointer at all
				p.nonident = append(p.nonident, fmt.Sprintf("%s at [%s] points into the source value (address of a source field or element)", v.Type(), strings.Join(path, "; ")))
			}
			return 2
		}
		if p.snap { return 0 }
		p.next++
		return n0 + p.next
	}
	switch v.Kind() {
	case reflect.Ptr:
		if v.IsNil() { return "VNil" }
		a := v.Pointer(); i := id(a)
		return fmt.Sprintf("VPtr %d (%s)", i, p.show(v.Elem(), n0, append(path, "PDeref"), shared, under || p.src[a]))
	case reflect.Slice:
		if v.IsNil() { return "VNil" }
		i := 0; sh := false
		if v.Len() > 0 { a := v.Pointer(); i = id(a); sh = p.src[a] }
		var parts []string
		for k := 0; k < v.Len(); k++ { parts = append(parts, p.show(v.Index(k), n0, append(path, fmt.Sprintf("PIdx %d", k)), shared, under || sh)) }
		return fmt.Sprintf("VSlice %d [%s]", i, strings.Join(parts, "; "))
	case reflect.Array:
		var parts []string
		for k := 0; k < v.Len(); k++ { parts = append(parts, p.show(v.Index(k), n0, append(path, fmt.Sprintf("PIdx %d", k)), shared, under)) }
		return fmt.Sprintf("VArr [%s]", strings.Join(parts, "; "))
	case reflect.Map:
		if v.IsNil() { return "VNil" }
		a := v.Pointer(); i := id(a)
		type ent struct{ k, s string }
		var ents []ent
		it := v.MapRange()
		for it.Next() {
			ks := p.show(it.Key(), n0, append(append([]string{}, path...), "KEY"), &p.keyShared, under || p.src[a])
			ents = append(ents, ent{ks, "(" + ks + ", " + p.show(it.Value(), n0, append(path, fmt.Sprintf("PKey (%d)", tok(it.Key()))), shared, under || p.src[a]) + ")"})
		}
		sort.Slice(ents, func(x, y int) bool { return ents[x].k < ents[y].k })
		var parts []string
		for _, e := range ents { parts = append(parts, e.s) }
		return fmt.Sprintf("VMap %d [%s]", i, strings.Join(parts, "; "))
	case reflect.Struct:
		var parts []string
		for k := 0; k < v.NumField(); k++ { parts = append(parts, p.show(v.Field(k), n0, append(path, fmt.Sprintf("PField %d", k)), shared, under)) }
		return fmt.Sprintf("VStruct [%s]", strings.Join(parts, "; "))
	case reflect.Interface, reflect.Func, reflect.Chan:
		if v.IsNil() { return "VNil" }
		return "VOpaque 0"
	}
	return fmt.Sprintf("VBasic (%d)", tok(v))
}

// sc: direct statement of C02 on the implementation: the result is the structural image of the source
// (fields by name; skip = field names touched by map/ignore settings). Returns "" when it holds.
func sc(s, d reflect.Value, path string, skip map[string]bool) string {
	if skip["<custom>"] { return "" }
	if d.Kind() == reflect.Ptr && s.Kind() != reflect.Ptr {
		if d.IsNil() { return path + ": nil pointer for a non-pointer source" }
		return sc(s, d.Elem(), path, skip)
	}
	if s.Kind() == reflect.Ptr && d.Kind() != reflect.Ptr {
		if s.IsNil() {
			if !d.IsZero() { return path + ": non-zero value for a nil source pointer" }
			return ""
		}
		return sc(s.Elem(), d, path, skip)
	}
	switch s.Kind() {
	case reflect.Ptr:
		if s.IsNil() != d.IsNil() { return path + ": nil-ness of pointer not preserved" }
		if !s.IsNil() { return sc(s.Elem(), d.Elem(), path+"*", skip) }
	case reflect.Slice, reflect.Array:
		if d.Kind() != reflect.Slice && d.Kind() != reflect.Array { return "" }
		if s.Kind() == reflect.Slice && d.Kind() == reflect.Slice && s.IsNil() != d.IsNil() { return path + ": nil-ness of slice not preserved" }
		if s.Kind() == reflect.Array && d.Kind() == reflect.Slice && d.IsNil() && s.Len() > 0 { return path + ": length not preserved (array to slice gives nil)" }
		if s.Len() != d.Len() { return fmt.Sprintf("%s: length %d became %d", path, s.Len(), d.Len()) }
		for i := 0; i < s.Len(); i++ {
			if m := sc(s.Index(i), d.Index(i), fmt.Sprintf("%s[%d]", path, i), skip); m != "" { return m }
		}
	case reflect.Map:
		if d.Kind() != reflect.Map { return "" }
		if s.IsNil() != d.IsNil() { return path + ": nil-ness of map not preserved" }
		if s.Len() != d.Len() { return fmt.Sprintf("%s: %d entries became %d", path, s.Len(), d.Len()) }
		it := s.MapRange()
		for it.Next() {
			found := false
			jt := d.MapRange()
			for jt.Next() {
				if sc(it.Key(), jt.Key(), "", skip) == "" {
					found = true
					if m := sc(it.Value(), jt.Value(), fmt.Sprintf("%s[%d]", path, tok(it.Key())), skip); m != "" { return m }
					break
				}
			}
			if !found { return fmt.Sprintf("%s: key %d lost", path, tok(it.Key())) }
		}
	case reflect.Struct:
		if d.Kind() != reflect.Struct { return "" }
		for i := 0; i < d.NumField(); i++ {
			name := d.Type().Field(i).Name
			if skip[name] || (skip["<unexported>"] && d.Type().Field(i).PkgPath != "") { continue }
			if f, ok := s.Type().FieldByName(name); ok && len(f.Index) == 1 {
				if m := sc(s.Field(f.Index[0]), d.Field(i), path+"."+name, skip); m != "" { return m }
			}
		}
	case reflect.Interface, reflect.Func, reflect.Chan:
		if d.Kind() == s.Kind() && s.IsNil() != d.IsNil() { return path + ": nil-ness not preserved" }
	default:
		switch d.Kind() {
		case reflect.Struct, reflect.Slice, reflect.Map, reflect.Array, reflect.Interface, reflect.Func, reflect.Chan:
			return ""
		}
		if tok(s) != tok(d) { return fmt.Sprintf("%s: basic value %d became %d", path, tok(s), tok(d)) }
	}
	return ""
}

// src and res are pointers to the variables (so that interface-typed values keep their static type)
func report(w *bufio.Writer, id int, n0 int, srcp, resp interface{}, before string, skip map[string]bool) {
	src, res := reflect.ValueOf(srcp).Elem(), reflect.ValueOf(resp).Elem()
	set := map[uintptr]bool{}
	srcTypes = map[string]reflect.Type{}
	collect(src, set)
	p := &pr{src: set}
	var shared []string
	out := p.show(res, n0, nil, &shared, false)
	after := (&pr{src: map[uintptr]bool{}, snap: true}).show(src, 0, nil, nil, true)
	changed := 0
	if after != before { changed = 1 }
	fmt.Fprintf(w, "R\t%d\tOK\t%s\t[%s]\t%d\t%s\t\t%s\t%s\n", id, out, strings.Join(shared, "; "), changed, sc(src, res, "", skip), strings.Join(p.nonident, "; "), strings.Join(p.keyShared, "; "))
}

// per-field snapshots of a struct (update methods)
func snapshotFields(p interface{}) []string {
	v := reflect.ValueOf(p).Elem()
	var out []string
	for i := 0; i < v.NumField(); i++ {
		out = append(out, (&pr{src: map[uintptr]bool{}, snap: true}).show(v.Field(i), 0, nil, nil, true))
	}
	return out
}

// reportUpdate: result line plus the direct C10 oracle: fields without a same-named source field keep their
// previous value; a zero source field of a selected category leaves the target field unchanged; a nil source
// pointer leaves everything unchanged; a non-zero source field is replaced by its conversion.
func reportUpdate(w *bufio.Writer, id int, n0 int, srcp, resp interface{}, before string, pre []string, zf [3]bool, skip map[string]bool) {
	src, res := reflect.ValueOf(srcp).Elem(), reflect.ValueOf(resp).Elem()
	out := (&pr{src: map[uintptr]bool{}}).show(res, n0, nil, nil, true)
	after := (&pr{src: map[uintptr]bool{}, snap: true}).show(src, 0, nil, nil, true)
	changed := 0
	if after != before { changed = 1 }
	post := snapshotFields(resp)
	verdict := ""
	s := src
	nilSrc := false
	if s.Kind() == reflect.Ptr {
		if s.IsNil() { nilSrc = true } else { s = s.Elem() }
	}
	for i := 0; i < res.NumField() && verdict == "" && !skip["<custom>"]; i++ {
		name := res.Type().Field(i).Name
		if skip[name] || (skip["<unexported>"] && res.Type().Field(i).PkgPath != "") { continue }
		if nilSrc {
			if post[i] != pre[i] { verdict = "nil source pointer but field " + name + " changed" }
			continue
		}
		f, ok := s.Type().FieldByName(name)
		if !ok || len(f.Index) != 1 {
			if post[i] != pre[i] && !skip["<othersources>"] { verdict = "field " + name + " has no source but changed" }
			continue
		}
		sf := s.Field(f.Index[0])
		cat := -1
		switch sf.Kind() {
		case reflect.Struct: cat = 1
		case reflect.Ptr, reflect.Slice, reflect.Map, reflect.Chan, reflect.Func, reflect.Interface: cat = 2
		case reflect.Array: cat = -1
		default: cat = 0
		}
		if cat >= 0 && zf[cat] && sf.IsZero() {
			if post[i] != pre[i] { verdict = fmt.Sprintf("zero-valued source field %s (category %d selected, kind %s) but the target field changed from %s to %s", name, cat, sf.Kind(), pre[i], post[i]) }
			continue
		}
		if !sf.IsZero() && sf.Kind() != reflect.Struct && sf.Kind() != reflect.Array { // nested structs are updated field-wise (their own nil guards / zero guards apply)
			if m := sc(sf, res.Field(i), "."+name, skip); m != "" { verdict = "non-zero source field not converted: " + m }
		}
	}
	fmt.Fprintf(w, "R\t%d\tOK\t%s\t[]\t%d\t\t%s\n", id, out, changed, verdict)
}

func snapshot(srcp interface{}) string {
	return (&pr{src: map[uintptr]bool{}, snap: true}).show(reflect.ValueOf(srcp).Elem(), 0, nil, nil, true)
}
`

const errPrelude = `
// key types of the maps inside the source value of the running case (nil: not checked)
var srcKeyTypes map[string]bool

func clearFailed() { sup.Failed = nil }

// direct statement of C07: no custom function failed when the method returns without an error ...
func checkNoFailure(w *bufio.Writer, id int) {
	if len(sup.Failed) > 0 {
		fmt.Fprintf(w, "O\t%d\tcustom function fn%d returned an error but the generated method returned none\n", id, sup.Failed[0])
	}
}

// reportErr prints the failing function and the path elements of every wrapper, outermost first.
func reportErr(w *bufio.Writer, id int, err error) {
	// ... and a returned error is, or wraps, the error of the function that failed
	var se *sup.Err
	switch {
	case strings.Contains(err.Error(), "unexpected enum element"):
		// the error of an enum switch (enum:unknown @error / enum:map X @error), not of a custom function
	case len(sup.Failed) == 0:
		fmt.Fprintf(w, "O\t%d\tthe generated method returned an error although no custom function failed: %v\n", id, err)
	case !errors.As(err, &se) || se.Fn != sup.Failed[0]:
		fmt.Fprintf(w, "O\t%d\tthe returned error does not wrap the error of the failing function fn%d: %v\n", id, sup.Failed[0], err)
	}
	fn := -1
	var wraps []string
	for err != nil && fn < 0 {
		switch e := err.(type) {
		case *werr.W:
			var es []string
			for _, x := range e.Path {
				switch x.Kind {
				case 0:
					es = append(es, "DField " + runes(x.Name))
				case 1:
					es = append(es, fmt.Sprintf("DIndex %d", x.Idx))
				default:
					es = append(es, fmt.Sprintf("DKey (%d)", x.Key))
					if srcKeyTypes != nil && !srcKeyTypes[x.KT] {
						fmt.Fprintf(w, "O\t%d\tthe Key element of the error path has type %s, which is no key type of the source (the location must name the SOURCE map key)\n", id, x.KT)
					}
				}
			}
			wraps = append(wraps, "[" + strings.Join(es, "; ") + "]")
			err = e.Inner
		case *sup.Err:
			fn = e.Fn
		default:
			msg := err.Error()
			var n int
			switch {
			case strings.HasPrefix(msg, "unexpected enum element: "):
				fn = 1000000
			case strings.HasPrefix(msg, "error setting field "):
				rest := strings.TrimPrefix(msg, "error setting field ")
				wraps = append(wraps, "[DField " + runes(rest[:strings.Index(rest, ": ")]) + "]")
			case strings.HasPrefix(msg, "error setting index "):
				fmt.Sscanf(msg, "error setting index %d:", &n)
				wraps = append(wraps, fmt.Sprintf("[DIndex %d]", n))
			default:
				wraps = append(wraps, "[DField " + runes("?unknown wrapper: " + msg) + "]")
			}
			err = errors.Unwrap(err)
		}
	}
	fmt.Fprintf(w, "R\t%d\tERR\t(%d, [%s])\n", id, fn, strings.Join(wraps, "; "))
}

func runes(s string) string {
	var ps []string
	for _, r := range s {
		ps = append(ps, fmt.Sprint(int(r)))
	}
	return "[" + strings.Join(ps, "; ") + "]"
}
`

// writeDriver renders cmd/drv/main.go for the runnable cases.
func writeDriver(root string, p *Program, cases []*runCase, race bool) {
	var body strings.Builder
	var calls []string
	for _, rc := range cases {
		b := &goBuilder{p: p, done: map[int]string{}}
		expr := b.expr(rc.Src)
		if rc.Pre != nil {
			b.expr(rc.Pre) // declare the helper variables of the pre-state up front (memoised by id)
		}
		fmt.Fprintf(&body, "func case_%d(w *bufio.Writer) {\n\tdefer func() {\n\t\tif r := recover(); r != nil {\n\t\t\tfmt.Fprintf(w, \"R\\t%d\\tPANIC\\t%%q\\n\", fmt.Sprint(r))\n\t\t}\n\t}()\n", rc.ID, rc.ID)
		for _, d := range b.decls {
			body.WriteString("\t" + d + "\n")
		}
		fmt.Fprintf(&body, "\tvar src %s = %s\n\tbefore := snapshot(&src)\n\tsrcKeyTypes = %s\n", p.goType(rc.Src.T, 0), expr, keyTypesLit(p, rc.Src.T))
		pkg := "generated"
		if rc.SamePk {
			pkg = "p"
		}
		var ctxArgs []string
		for i, t := range rc.CtxT {
			u := p.under(t)
			ctxArgs = append(ctxArgs, b.lit(u.Kind, rc.CtxV[i], p.goType(t, 0)))
		}
		args := append([]string{"src"}, ctxArgs...)
		if rc.CtxFirst {
			args = append(append([]string{}, ctxArgs...), "src")
		}
		var sk []string
		for _, n := range rc.Skip {
			sk = append(sk, fmt.Sprintf("%q: true", n))
		}
		if rc.Custom {
			sk = append(sk, `"<custom>": true`)
		}
		if rc.Pre != nil {
			pexpr := b.expr(rc.Pre)
			fmt.Fprintf(&body, "\tvar res %s = %s\n\tpre := snapshotFields(&res)\n", p.goType(rc.Pre.T, 0), pexpr)
			args = append(args, "&res")
			if rc.RetErr {
				fmt.Fprintf(&body, "\tclearFailed()\n\tif err := (&%s.%sImpl{}).%s(%s); err != nil {\n\t\treportErr(w, %d, err)\n\t\treturn\n\t}\n\tcheckNoFailure(w, %d)\n", pkg, rc.Conv, rc.Method, strings.Join(args, ", "), rc.ID, rc.ID)
			} else {
				fmt.Fprintf(&body, "\tclearFailed()\n\t(&%s.%sImpl{}).%s(%s)\n\tcheckNoFailure(w, %d)\n", pkg, rc.Conv, rc.Method, strings.Join(args, ", "), rc.ID)
			}
			fmt.Fprintf(&body, "\treportUpdate(w, %d, %d, &src, &res, before, pre, [3]bool{%v, %v, %v}, map[string]bool{%s})\n}\n\n", rc.ID, rc.N0, rc.ZeroFlags[0], rc.ZeroFlags[1], rc.ZeroFlags[2], strings.Join(sk, ", "))
			calls = append(calls, fmt.Sprintf("\tcase_%d(w)", rc.ID))
			continue
		}
		if rc.RetErr {
			fmt.Fprintf(&body, "\tclearFailed()\n\tres, err := (&%s.%sImpl{}).%s(%s)\n\tif err != nil {\n\t\treportErr(w, %d, err)\n\t\treturn\n\t}\n\tcheckNoFailure(w, %d)\n", pkg, rc.Conv, rc.Method, strings.Join(args, ", "), rc.ID, rc.ID)
		} else {
			fmt.Fprintf(&body, "\tclearFailed()\n\tres := (&%s.%sImpl{}).%s(%s)\n\tcheckNoFailure(w, %d)\n", pkg, rc.Conv, rc.Method, strings.Join(args, ", "), rc.ID)
		}
		fmt.Fprintf(&body, "\treport(w, %d, %d, &src, &res, before, map[string]bool{%s})\n}\n\n", rc.ID, rc.N0, strings.Join(sk, ", "))
		calls = append(calls, fmt.Sprintf("\tcase_%d(w)", rc.ID))
	}
	var sb strings.Builder
	sb.WriteString("package main\n\nimport (\n\t\"bufio\"\n\t\"fmt\"\n\t\"os\"\n\t\"reflect\"\n\t\"sort\"\n\t\"strings\"\n")
	text := body.String()
	if regexp.MustCompile(`\bp\.`).MatchString(text) || len(cases) > 0 {
		fmt.Fprintf(&sb, "\tp %q\n", pkgPaths[1])
	}
	if regexp.MustCompile(`\bq\.`).MatchString(text) {
		fmt.Fprintf(&sb, "\tq %q\n", pkgPaths[2])
	}
	if strings.Contains(text, "generated.") {
		fmt.Fprintf(&sb, "\tgenerated %q\n", pkgPaths[3])
	}
	if true {
		sb.WriteString("\t\"errors\"\n\tsup \"example.org/m/sup\"\n\twerr \"example.org/m/werr\"\n")
	}
	sb.WriteString(")\n\nvar _ = sort.Ints\nvar _ = strings.Join\n")
	if true {
		sb.WriteString(errPrelude)
	} else {
		sb.WriteString("func reportErr(w *bufio.Writer, id int, err error) { fmt.Fprintf(w, \"R\\t%d\\tERR\\t(0, [])\\n\", id) }\nfunc clearFailed() {}\nfunc checkNoFailure(w *bufio.Writer, id int) {}\n")
	}
	seenConv := map[string]bool{}
	for _, rc := range cases { // the emitted struct implements the declared interface
		if seenConv[rc.Conv] {
			continue
		}
		seenConv[rc.Conv] = true
		pkg := "generated"
		if rc.SamePk {
			pkg = "p"
		}
		fmt.Fprintf(&sb, "var _ p.%s = &%s.%sImpl{}\n", rc.Conv, pkg, rc.Conv)
	}
	sb.WriteString(driverPrelude)
	sb.WriteString(text)
	sb.WriteString("func main() {\n\tw := bufio.NewWriter(os.Stdout)\n\tdefer w.Flush()\n" + strings.Join(calls, "\n") + "\n}\n")
	must(os.MkdirAll(filepath.Join(root, "cmd", "drv"), 0o755))
	must(os.WriteFile(filepath.Join(root, "cmd", "drv", "main.go"), []byte(sb.String()), 0o644))
}

// buildAndRun compiles the module's driver and parses its report lines into the cases.
func buildAndRun(root string, cases []*runCase, race bool) (string, error) {
	args := []string{"build", "-o", filepath.Join(root, "drv.bin")}
	if race {
		args = append(args, "-race")
	}
	args = append(args, "./cmd/drv")
	cmd := exec.Command("go", args...)
	cmd.Dir = root
	cmd.Env = append(os.Environ(), "GOFLAGS=-mod=mod", "GOPROXY=off", "GOSUMDB=off", "GOTOOLCHAIN=local")
	if race {
		cmd.Env = append(cmd.Env, "CGO_ENABLED=1")
	}
	out, err := cmd.CombinedOutput()
	if err != nil {
		return string(out), fmt.Errorf("go build failed")
	}
	run := exec.Command(filepath.Join(root, "drv.bin"))
	run.Dir = root
	var stdout bytes.Buffer
	run.Stdout = &stdout
	var stderr bytes.Buffer
	run.Stderr = &stderr
	if err := run.Run(); err != nil {
		return stderr.String(), fmt.Errorf("driver failed: %v", err)
	}
	byID := map[int]*runCase{}
	for _, c := range cases {
		byID[c.ID] = c
	}
	sc := bufio.NewScanner(&stdout)
	sc.Buffer(make([]byte, 1<<20), 1<<26)
	for sc.Scan() {
		parts := strings.Split(sc.Text(), "\t")
		if len(parts) >= 3 && parts[0] == "O" {
			var oid int
			fmt.Sscan(parts[1], &oid)
			if oc := byID[oid]; oc != nil {
				oc.ErrOracle = parts[2]
			}
			continue
		}
		if len(parts) < 3 || parts[0] != "R" {
			continue
		}
		var id int
		fmt.Sscan(parts[1], &id)
		c := byID[id]
		if c == nil {
			continue
		}
		if parts[2] == "PANIC" {
			c.Panic = parts[3]
			continue
		}
		if parts[2] == "ERR" {
			c.Err = parts[3]
			continue
		}
		c.Out, c.Shared = parts[3], parts[4]
		c.Changed = parts[5] == "1"
		if len(parts) > 6 {
			c.Struct = parts[6]
		}
		if len(parts) > 7 {
			c.Update = parts[7]
		}
		if len(parts) > 8 {
			c.NonIdent = parts[8]
		}
		if len(parts) > 9 {
			c.KeyShared = parts[9]
		}
	}
	return "", nil
}

func sortedKeys(m map[string][]byte) []string {
	var ks []string
	for k := range m {
		ks = append(ks, k)
	}
	sort.Strings(ks)
	return ks
}

// ---- race run (thorough tier, C04): every converter is called from several goroutines on the SAME source value ----

func writeRaceDriver(root string, p *Program, cases []*runCase) {
	var body strings.Builder
	var calls []string
	for _, rc := range cases {
		if rc.Pre != nil {
			continue
		}
		b := &goBuilder{p: p, done: map[int]string{}}
		expr := b.expr(rc.Src)
		fmt.Fprintf(&body, "func case_%d() {\n\tdefer func() { recover() }()\n", rc.ID)
		for _, d := range b.decls {
			body.WriteString("\t" + d + "\n")
		}
		pkg := "generated"
		if rc.SamePk {
			pkg = "p"
		}
		var ctxArgs []string
		for i, t := range rc.CtxT {
			ctxArgs = append(ctxArgs, b.lit(p.under(t).Kind, rc.CtxV[i], p.goType(t, 0)))
		}
		args := append([]string{"src"}, ctxArgs...)
		if rc.CtxFirst {
			args = append(append([]string{}, ctxArgs...), "src")
		}
		fmt.Fprintf(&body, "\tvar src %s = %s\n\tvar wg sync.WaitGroup\n\tfor g := 0; g < 4; g++ {\n\t\twg.Add(1)\n\t\tgo func() {\n\t\t\tdefer wg.Done()\n\t\t\tdefer func() { recover() }()\n\t\t\t(&%s.%sImpl{}).%s(%s)\n\t\t}()\n\t}\n\twg.Wait()\n}\n\n",
			p.goType(rc.Src.T, 0), expr, pkg, rc.Conv, rc.Method, strings.Join(args, ", "))
		calls = append(calls, fmt.Sprintf("\tfmt.Fprintln(os.Stderr, \"CASE %d\")\n\tcase_%d()", rc.ID, rc.ID))
	}
	var sb strings.Builder
	sb.WriteString("package main\n\nimport (\n\t\"fmt\"\n\t\"os\"\n\t\"sync\"\n")
	text := body.String()
	fmt.Fprintf(&sb, "\tp %q\n", pkgPaths[1])
	if regexp.MustCompile(`\bq\.`).MatchString(text) {
		fmt.Fprintf(&sb, "\tq %q\n", pkgPaths[2])
	}
	if strings.Contains(text, "generated.") {
		fmt.Fprintf(&sb, "\tgenerated %q\n", pkgPaths[3])
	}
	sb.WriteString(")\n\nvar _ sync.Mutex\nvar _ = p.Q_ref\n")
	sb.WriteString(text)
	sb.WriteString("func main() {\n" + strings.Join(calls, "\n") + "\n\tfmt.Fprintln(os.Stderr, \"CASE -1\")\n}\n")
	must(os.MkdirAll(filepath.Join(root, "cmd", "drvrace"), 0o755))
	must(os.WriteFile(filepath.Join(root, "cmd", "drvrace", "main.go"), []byte(strings.Replace(sb.String(), "var _ = p.Q_ref\n", "", 1)), 0o644))
}

// runRace builds the race driver with -race and returns the ids of the cases during which the detector reported a race.
func runRace(root string) (map[int]string, string) {
	cmd := exec.Command("go", "build", "-race", "-o", filepath.Join(root, "drvrace.bin"), "./cmd/drvrace")
	cmd.Dir = root
	cmd.Env = append(os.Environ(), "GOFLAGS=-mod=mod", "GOPROXY=off", "GOSUMDB=off", "GOTOOLCHAIN=local", "CGO_ENABLED=1")
	if out, err := cmd.CombinedOutput(); err != nil {
		return nil, "race build failed: " + firstLines(string(out), 5)
	}
	run := exec.Command(filepath.Join(root, "drvrace.bin"))
	run.Dir = root
	run.Env = append(os.Environ(), "GORACE=halt_on_error=0")
	var stderr bytes.Buffer
	run.Stderr = &stderr
	run.Run()
	races := map[int]string{}
	cur := -1
	lines := strings.Split(stderr.String(), "\n")
	for i, l := range lines {
		if strings.HasPrefix(l, "CASE ") {
			fmt.Sscanf(l, "CASE %d", &cur)
		}
		if strings.Contains(l, "WARNING: DATA RACE") {
			end := i + 14
			if end > len(lines) {
				end = len(lines)
			}
			if _, ok := races[cur]; !ok {
				races[cur] = strings.Join(lines[i:end], "\n")
			}
		}
	}
	return races, ""
}
