package main

// extractor part: every `range` over a map-typed operand in the non-test sources, classified by what
// the loop body does with the visiting order (C09). Needs type information: go/packages on /repo.

import (
	"fmt"
	"go/ast"
	"go/token"
	"go/types"
	"sort"
	"strings"

	"golang.org/x/tools/go/packages"
)

func init() { extractParts = append(extractParts, extractSites) }

// classes: 0 insert-only / commuting effects, 1 collect-then-sort, 2 predicate (all / exists),
// 3 first-hit-returns (order dependent when several elements qualify), 4 unclassified
func classifyRange(fn *ast.FuncDecl, rs *ast.RangeStmt, info *types.Info) int {
	hasReturnDep := false
	onlyConstReturn := true
	appendsTo := ""
	ast.Inspect(rs.Body, func(n ast.Node) bool {
		switch s := n.(type) {
		case *ast.ReturnStmt:
			for _, r := range s.Results {
				switch v := r.(type) {
				case *ast.Ident:
					if v.Name != "true" && v.Name != "false" && v.Name != "nil" {
						onlyConstReturn = false
					}
				default:
					onlyConstReturn = false
				}
			}
			hasReturnDep = true
		case *ast.AssignStmt:
			if len(s.Rhs) == 1 {
				if call, ok := s.Rhs[0].(*ast.CallExpr); ok {
					if id, ok := call.Fun.(*ast.Ident); ok && id.Name == "append" && len(s.Lhs) == 1 {
						if l, ok := s.Lhs[0].(*ast.Ident); ok {
							appendsTo = l.Name
						} else if se, ok := s.Lhs[0].(*ast.SelectorExpr); ok {
							appendsTo = se.Sel.Name
						}
					}
				}
			}
		}
		return true
	})
	if hasReturnDep {
		if onlyConstReturn {
			return 2
		}
		return 3
	}
	if appendsTo != "" {
		// sorted afterwards in the same function (sort.X(...) mentioning the slice) ?
		sorted := false
		ast.Inspect(fn.Body, func(n ast.Node) bool {
			if call, ok := n.(*ast.CallExpr); ok && call.Pos() > rs.End() {
				if se, ok := call.Fun.(*ast.SelectorExpr); ok {
					if id, ok := se.X.(*ast.Ident); ok && id.Name == "sort" {
						for _, a := range call.Args {
							if ai, ok := a.(*ast.Ident); ok && ai.Name == appendsTo {
								sorted = true
							}
						}
					}
				}
			}
			return true
		})
		if sorted {
			return 1
		}
		return 4
	}
	return 0
}

func extractSites(e *extractor) {
	cfg := &packages.Config{Mode: packages.NeedName | packages.NeedTypes | packages.NeedTypesInfo | packages.NeedSyntax | packages.NeedFiles, Dir: e.repo, Fset: token.NewFileSet()}
	pkgs, err := packages.Load(cfg, ".", "./builder", "./cli", "./comments", "./config", "./config/parse", "./enum", "./generator", "./method", "./namer", "./pkgload", "./xtype")
	e.out.WriteString("\n(* every range over a map in the sources: (file:function, class) — 0 insert-only/commuting, 1 collect-then-sort,\n   2 predicate with constant results, 3 first-hit-returns, 4 collected without a following sort *)\n")
	if err != nil {
		e.errs = append(e.errs, "packages.Load for map-range sites: "+err.Error())
		e.out.WriteString("(* MISSING: x_map_range_sites *)\n")
		return
	}
	type siteRow struct {
		key string
		row string
	}
	var srows []siteRow
	for _, p := range pkgs {
		if len(p.Errors) > 0 {
			e.errs = append(e.errs, fmt.Sprintf("package %s does not type-check: %v", p.PkgPath, p.Errors[0]))
			e.out.WriteString("(* MISSING: x_map_range_sites *)\n")
			return
		}
		for _, f := range p.Syntax {
			fname := p.Fset.Position(f.Pos()).Filename
			if strings.HasSuffix(fname, "_test.go") {
				continue
			}
			rel := strings.TrimPrefix(strings.TrimPrefix(fname, e.repo), "/")
			for _, d := range f.Decls {
				fd, ok := d.(*ast.FuncDecl)
				if !ok || fd.Body == nil {
					continue
				}
				ast.Inspect(fd.Body, func(n ast.Node) bool {
					rs, ok := n.(*ast.RangeStmt)
					if !ok {
						return true
					}
					tv, ok := p.TypesInfo.Types[rs.X]
					if !ok {
						return true
					}
					if _, isMap := tv.Type.Underlying().(*types.Map); !isMap {
						return true
					}
					cl := classifyRange(fd, rs, p.TypesInfo)
					srows = append(srows, siteRow{fmt.Sprintf("%s:%s %d", rel, fd.Name.Name, cl), fmt.Sprintf(" (%s, %d) (* %s:%s class %d *)", runes(rel+":"+fd.Name.Name), cl, rel, fd.Name.Name, cl)})
					return true
				})
			}
		}
	}
	// callers of the functions that hand out a collection in map order (class 4): every caller must sort the
	// result (or only quantify over it) before anything order dependent happens
	collectors := map[string]bool{}
	for _, r := range srows {
		if strings.HasSuffix(r.key, " 4") {
			name := r.key[:len(r.key)-2]
			collectors[name[strings.Index(name, ":")+1:]] = true
		}
	}
	var crows []string
	for _, p := range pkgs {
		for _, f := range p.Syntax {
			fname := p.Fset.Position(f.Pos()).Filename
			if strings.HasSuffix(fname, "_test.go") {
				continue
			}
			rel := strings.TrimPrefix(strings.TrimPrefix(fname, e.repo), "/")
			for _, d := range f.Decls {
				fd, ok := d.(*ast.FuncDecl)
				if !ok || fd.Body == nil {
					continue
				}
				ast.Inspect(fd.Body, func(n ast.Node) bool {
					as, ok := n.(*ast.AssignStmt)
					var call *ast.CallExpr
					target := ""
					if ok && len(as.Rhs) == 1 {
						call, _ = as.Rhs[0].(*ast.CallExpr)
						if id, ok2 := as.Lhs[0].(*ast.Ident); ok2 {
							target = id.Name
						}
					} else if es, ok2 := n.(*ast.ExprStmt); ok2 {
						call, _ = es.X.(*ast.CallExpr)
					} else if rs, ok2 := n.(*ast.RangeStmt); ok2 {
						call, _ = rs.X.(*ast.CallExpr)
					}
					if call == nil {
						return true
					}
					se, ok := call.Fun.(*ast.SelectorExpr)
					if !ok || !collectors[se.Sel.Name] {
						return true
					}
					if fo, ok := p.TypesInfo.Uses[se.Sel].(*types.Func); !ok || fo.Pkg() == nil || !strings.Contains(fo.Pkg().Path(), "goverter") {
						return true
					}
					sorted := false
					if target != "" {
						ast.Inspect(fd.Body, func(m ast.Node) bool {
							if c2, ok := m.(*ast.CallExpr); ok && c2.Pos() > call.End() {
								if s2, ok := c2.Fun.(*ast.SelectorExpr); ok {
									if id, ok := s2.X.(*ast.Ident); ok && id.Name == "sort" {
										for _, a := range c2.Args {
											if ai, ok := a.(*ast.Ident); ok && ai.Name == target {
												sorted = true
											}
										}
									}
								}
							}
							return true
						})
					}
					crows = append(crows, fmt.Sprintf(" (%s, %s, %s) (* %s calls %s, result sorted: %v *)", runes(se.Sel.Name), runes(rel+":"+fd.Name.Name), coqBool(sorted), rel+":"+fd.Name.Name, se.Sel.Name, sorted))
					return true
				})
			}
		}
	}
	// reads of an inheritable setting (a field of config.Common) that do not go through the method's record: outside
	// package config the value in effect for a method is Method.Common; Converter.Common is only copied as a whole
	// (the settings of generated sub-methods)
	isCommon := func(t types.Type) bool {
		if p, ok := t.(*types.Pointer); ok {
			t = p.Elem()
		}
		n, ok := t.(*types.Named)
		return ok && n.Obj().Name() == "Common" && n.Obj().Pkg() != nil && strings.HasSuffix(n.Obj().Pkg().Path(), "/config")
	}
	isMethodRec := func(t types.Type) bool {
		if p, ok := t.(*types.Pointer); ok {
			t = p.Elem()
		}
		n, ok := t.(*types.Named)
		return ok && n.Obj().Name() == "Method" && n.Obj().Pkg() != nil && strings.HasSuffix(n.Obj().Pkg().Path(), "/config")
	}
	// throughCommon: the selection passes through an embedded config.Common before its last hop (or, with last, ends there)
	throughCommon := func(sel *types.Selection, last bool) bool {
		t := sel.Recv()
		idx := sel.Index()
		for k, i := range idx {
			if p, ok := t.Underlying().(*types.Pointer); ok {
				t = p.Elem()
			}
			st, ok := t.Underlying().(*types.Struct)
			if !ok || i >= st.NumFields() {
				return false
			}
			f := st.Field(i)
			if isCommon(f.Type()) && f.Embedded() {
				if k < len(idx)-1 && !last {
					return true
				}
				if k == len(idx)-1 && last {
					return true
				}
			}
			t = f.Type()
		}
		return false
	}
	var rrows []string
	for _, p := range pkgs {
		if strings.HasSuffix(p.PkgPath, "/config") {
			continue
		}
		for _, f := range p.Syntax {
			fname := p.Fset.Position(f.Pos()).Filename
			if strings.HasSuffix(fname, "_test.go") {
				continue
			}
			rel := strings.TrimPrefix(strings.TrimPrefix(fname, e.repo), "/")
			for _, d := range f.Decls {
				fd, ok := d.(*ast.FuncDecl)
				if !ok || fd.Body == nil {
					continue
				}
				ast.Inspect(fd.Body, func(n ast.Node) bool {
					se, ok := n.(*ast.SelectorExpr)
					if !ok {
						return true
					}
					sel := p.TypesInfo.Selections[se]
					if sel == nil || sel.Kind() != types.FieldVal {
						return true
					}
					bad := false
					if !isMethodRec(sel.Recv()) && !isCommon(sel.Recv()) && throughCommon(sel, false) {
						bad = true // conv.F with F promoted from Common
					}
					if isCommon(sel.Recv()) {
						if inner, ok := se.X.(*ast.SelectorExpr); ok {
							if is := p.TypesInfo.Selections[inner]; is != nil && !isMethodRec(is.Recv()) && throughCommon(is, true) {
								bad = true // conv.Common.F
							}
						}
					}
					if bad {
						rrows = append(rrows, fmt.Sprintf(" (%s, %s) (* %s reads %s from a record that is not the method's *)", runes(rel+":"+fd.Name.Name), runes(se.Sel.Name), rel+":"+fd.Name.Name, se.Sel.Name))
					}
					return true
				})
			}
		}
	}
	sort.Strings(rrows)
	fmt.Fprintf(&e.out, "(* reads of config.Common fields outside package config that bypass the method's record: (function, field) *)\nDefinition x_converter_level_reads : list (rstr * rstr) := [\n%s\n].\n", strings.Join(rrows, ";\n"))
	sort.Strings(crows)
	fmt.Fprintf(&e.out, "(* calls of the class-4 collectors declared as methods: (collector, caller, result sorted by the caller) *)\nDefinition x_collector_callers : list (rstr * rstr * bool) := [\n%s\n].\n", strings.Join(crows, ";\n"))
	sort.Slice(srows, func(i, j int) bool { return srows[i].key < srows[j].key })
	var rows []string
	for _, r := range srows {
		rows = append(rows, r.row)
	}
	fmt.Fprintf(&e.out, "Definition x_map_range_sites : list (rstr * N) := [\n%s\n].\n", strings.Join(rows, ";\n"))
}
