package main

// Enum types (property C08): named integer / float / string types with constants, target enums derived from
// them (same member names in the other package, or renamed members that need enum:map / enum:transform),
// and the enum settings of converters and methods.

import (
	"fmt"
	"regexp"
	"strings"
)

var enumSuffixes = []string{"A", "B", "C", "D", "E"}

// makeEnum gives a named basic type 1-4 constants; sometimes two members share a value, sometimes one is unexported.
func (g *pgen) makeEnum(id int) {
	d := g.p.Named[id]
	n := 1 + g.r.Intn(4)
	for i := 0; i < n; i++ {
		name := d.Name + enumSuffixes[i]
		v := int64(i + 1)
		if d.Under.Kind == bkBool {
			v = int64(i & 1)
		}
		if i > 0 && g.r.Intn(6) == 0 { // duplicate value (an alias member)
			v = d.Consts[g.r.Intn(len(d.Consts))].Val
		}
		if d.Under.Kind == bkUint8 && g.r.Intn(4) == 0 {
			v = 200 + int64(i)
		}
		if i == n-1 && g.r.Intn(12) == 0 && d.Pkg == 1 { // unexported member (only usable when the output is in package p)
			name = strings.ToLower(name[:1]) + name[1:]
		}
		d.Consts = append(d.Consts, ConstDecl{Name: name, Val: v})
	}
}

// deriveEnum gives the target twin t members derived from the source enum s.
func (g *pgen) deriveEnum(s, t *NamedDecl) {
	t.EnumOf = s.ID
	if g.r.Intn(10) == 0 { // the target is no enum at all: plain named basic
		return
	}
	for _, c := range s.Consts {
		if g.r.Intn(10) == 0 { // member missing on the target
			continue
		}
		name := c.Name
		if t.Pkg == s.Pkg || g.r.Intn(4) == 0 { // same package: constant names must differ; or deliberately renamed
			name = t.Name + strings.TrimPrefix(strings.TrimPrefix(c.Name, s.Name), strings.ToLower(s.Name[:1])+s.Name[1:])
		}
		v := c.Val
		if g.r.Intn(5) == 0 {
			v = c.Val + 10
		}
		if t.Under.Kind == bkBool {
			v &= 1
		}
		t.Consts = append(t.Consts, ConstDecl{Name: name, Val: v})
	}
	if g.r.Intn(4) == 0 {
		t.Consts = append(t.Consts, ConstDecl{Name: t.Name + "Z", Val: 99})
	}
	// constant names of one package must be unique
	seen := map[string]bool{}
	var out []ConstDecl
	for _, c := range t.Consts {
		if !seen[c.Name] {
			seen[c.Name] = true
			out = append(out, c)
		}
	}
	t.Consts = out
}

var enumUnknowns = []string{"@panic", "@error", "@ignore", "@panic", "@error", "KEY", "", "@bogus"}

// enumSettings adds enum lines to a drawn converter: enum:unknown at converter / method level, enum:map and
// enum:transform on methods whose own signature is an enum pair, enum no, enum:exclude.
func (g *pgen) enumSettings(c *ConvSpec) {
	if g.weights.enums == 0 {
		return
	}
	anyEnum := false
	for _, d := range g.p.Named {
		if d.IsEnum() {
			anyEnum = true
		}
	}
	if !anyEnum {
		return
	}
	unknown := func(tgt *NamedDecl) string {
		u := enumUnknowns[g.r.Intn(len(enumUnknowns))]
		if u == "KEY" {
			if tgt != nil && len(tgt.Consts) > 0 {
				return tgt.Consts[g.r.Intn(len(tgt.Consts))].Name
			}
			return "@panic"
		}
		if u == "@bogus" && g.r.Intn(3) != 0 {
			return "@ignore"
		}
		return u
	}
	if u := unknown(nil); u != "" {
		c.Lines = append(c.Lines, "enum:unknown "+u)
		if u == "@error" { // methods that can hand the error on
			for _, m := range c.Methods {
				if !m.Update && g.r.Intn(100) < 70 {
					m.Err = true
				}
			}
		}
	}
	if g.r.Intn(15) == 0 {
		c.Lines = append(c.Lines, "enum no")
	}
	if g.r.Intn(12) == 0 {
		pat := []string{"example.org/m/q:NB.*", "NB.*", ".*:.*[0-9]*[02468]", "example.org/m/p:.*"}[g.r.Intn(4)]
		c.Lines = append(c.Lines, "enum:exclude "+pat)
		c.EnumExclude = append(c.EnumExclude, pat)
	}
	for _, m := range c.Methods {
		if m.Src.K != "named" || m.Tgt.K != "named" {
			continue
		}
		s, t := g.p.Named[m.Src.ID], g.p.Named[m.Tgt.ID]
		if !s.IsEnum() {
			continue
		}
		if g.r.Intn(5) == 0 {
			if u := unknown(t); u != "" {
				m.Lines = append(m.Lines, "enum:unknown "+u)
			}
		}
		if g.r.Intn(100) < 35 {
			m.Err = true
		}
		// the pattern matches the whole member name, only its prefix (the rest of the name is kept), or a substring
		pattern := []string{fmt.Sprintf("%s(\\w+) %s$1", s.Name, t.Name), fmt.Sprintf("^%s %s", s.Name, t.Name), fmt.Sprintf("%s %s", s.Name, t.Name),
			fmt.Sprintf("%s(\\w+) %s$1", s.Name, t.Name)}[g.r.Intn(4)]
		switch g.r.Intn(4) {
		case 0: // rename by pattern
			m.Lines = append(m.Lines, "enum:transform regex "+pattern)
		case 1: // explicit map of every member (some to actions, one possibly to a key that does not exist)
			for _, sc := range s.Consts {
				target := t.Name + strings.TrimPrefix(sc.Name, s.Name)
				switch x := g.r.Intn(12); {
				case x == 0:
					target = "@ignore"
				case x == 1:
					target = "@panic"
				case x == 2:
					target = "@error"
				case x == 3 && len(t.Consts) > 0:
					target = t.Consts[g.r.Intn(len(t.Consts))].Name
				}
				m.Lines = append(m.Lines, fmt.Sprintf("enum:map %s %s", sc.Name, target))
			}
			if g.r.Intn(8) == 0 {
				m.Lines = append(m.Lines, "enum:map Bogus "+t.Name+"A")
			}
		case 2: // pattern plus one override
			m.Lines = append(m.Lines, "enum:transform regex "+pattern)
			if len(s.Consts) > 0 && len(t.Consts) > 0 {
				m.Lines = append(m.Lines, fmt.Sprintf("enum:map %s %s", s.Consts[0].Name, t.Consts[len(t.Consts)-1].Name))
			}
		}
	}
}

// transformResults: for every enum:transform regex line of the method, the rewritten name of each source member.
func (p *Program) transformResults(m *MethodSpec) string {
	var out []string
	for _, l := range m.Lines {
		f := strings.SplitN(l, " ", 2)
		if f[0] != "enum:transform" || len(f) < 2 {
			continue
		}
		parts := strings.Split(strings.TrimPrefix(f[1], "regex "), " ")
		var kvs []string
		if m.Src.K == "named" && len(parts) == 2 {
			if re, err := regexp.Compile(parts[0]); err == nil {
				for _, c := range p.Named[m.Src.ID].Consts {
					kvs = append(kvs, fmt.Sprintf("(%s, %s)", runes(c.Name), runes(re.ReplaceAllString(c.Name, parts[1]))))
				}
			}
		}
		out = append(out, coqList(kvs))
	}
	return coqList(out)
}

// enumExcluded: ids of the named types matched by the converter's enum:exclude patterns (path:name regexps).
func (p *Program) enumExcluded(c *ConvSpec) string {
	var ids []string
	for _, d := range p.Named {
		for _, pat := range c.EnumExclude {
			path, name := pkgPaths[1], pat
			if i := strings.LastIndex(pat, ":"); i >= 0 {
				path, name = pat[:i], pat[i+1:]
			}
			pr, e1 := regexp.Compile(path)
			nr, e2 := regexp.Compile(name)
			if e1 == nil && e2 == nil && pr.MatchString(pkgPaths[d.Pkg]) && nr.MatchString(d.Name) {
				ids = append(ids, fmt.Sprint(d.ID))
				break
			}
		}
	}
	return coqList(ids)
}
