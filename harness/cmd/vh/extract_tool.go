package main

// extractor part: tool-level facts — CLI defaults, exit codes, file modes, the shape of
// GenerateConverters (write only after everything was generated), the output header.

import (
	"fmt"
	"go/ast"
	"go/token"
	"strconv"
	"strings"
)

func init() { extractParts = append(extractParts, extractTool) }

func intLit(x ast.Expr) (int64, bool) {
	if bl, ok := x.(*ast.BasicLit); ok && bl.Kind == token.INT {
		v, err := strconv.ParseInt(bl.Value, 0, 64)
		return v, err == nil
	}
	return 0, false
}

func extractTool(e *extractor) {
	e.out.WriteString("\n(* cli/parse.go parseGen defaults *)\n")
	defaults := map[string]string{}
	if fd := findFunc(e.file("cli/parse.go"), "parseGen"); fd != nil {
		ast.Inspect(fd.Body, func(n ast.Node) bool {
			call, ok := n.(*ast.CallExpr)
			if !ok || len(call.Args) != 3 {
				return true
			}
			if se, ok := call.Fun.(*ast.SelectorExpr); ok && se.Sel.Name == "String" {
				name, ok1 := e.evalStr("cli", call.Args[0])
				def, ok2 := e.evalStr("cli", call.Args[1])
				if ok1 && ok2 {
					defaults[name] = def
				}
			}
			return true
		})
	}
	for _, kv := range [][2]string{{"build-tags", "x_default_build_tags"}, {"output-constraint", "x_default_output_constraint"}} {
		v, ok := defaults[kv[0]]
		if !ok {
			e.errs = append(e.errs, "default of -"+kv[0]+" not found")
			fmt.Fprintf(&e.out, "(* MISSING: %s *)\n", kv[1])
			continue
		}
		fmt.Fprintf(&e.out, "Definition %s : rstr := %s. (* %q *)\n", kv[1], runes(v), v)
	}
	// exit codes in cli.Run: after Parse error, in case *Help, after GenerateConverters error
	e.out.WriteString("(* cli/run.go Run: os.Exit arguments *)\n")
	var exits []int64
	if fd := findFunc(e.file("cli/run.go"), "Run"); fd != nil {
		ast.Inspect(fd.Body, func(n ast.Node) bool {
			call, ok := n.(*ast.CallExpr)
			if !ok {
				return true
			}
			if se, ok := call.Fun.(*ast.SelectorExpr); ok && se.Sel.Name == "Exit" && len(call.Args) == 1 {
				if v, ok := intLit(call.Args[0]); ok {
					exits = append(exits, v)
				}
			}
			return true
		})
	}
	if len(exits) == 3 {
		fmt.Fprintf(&e.out, "Definition x_exit_usage : N := %d.\nDefinition x_exit_help : N := %d.\nDefinition x_exit_generate_error : N := %d.\n", exits[0], exits[1], exits[2])
	} else {
		e.errs = append(e.errs, fmt.Sprintf("cli.Run: expected 3 os.Exit calls, found %d", len(exits)))
		e.out.WriteString("(* MISSING: x_exit_usage x_exit_help x_exit_generate_error *)\n")
	}
	// runner.go: modes and shape
	e.out.WriteString("(* runner.go writeFiles modes; GenerateConverters writes only after generateConvertersRaw returned without error *)\n")
	f := e.file("runner.go")
	var fileMode, dirMode int64 = -1, -1
	if fd := findFunc(f, "writeFiles"); fd != nil {
		ast.Inspect(fd.Body, func(n ast.Node) bool {
			call, ok := n.(*ast.CallExpr)
			if !ok {
				return true
			}
			if se, ok := call.Fun.(*ast.SelectorExpr); ok {
				switch se.Sel.Name {
				case "MkdirAll":
					if v, ok := intLit(call.Args[len(call.Args)-1]); ok {
						dirMode = v
					}
				case "WriteFile":
					if v, ok := intLit(call.Args[len(call.Args)-1]); ok {
						fileMode = v
					}
				}
			}
			return true
		})
	}
	if fileMode < 0 || dirMode < 0 {
		e.errs = append(e.errs, "writeFiles modes not found")
		e.out.WriteString("(* MISSING: x_file_mode x_dir_mode *)\n")
	} else {
		fmt.Fprintf(&e.out, "Definition x_file_mode : N := %d. (* 0%o *)\nDefinition x_dir_mode : N := %d. (* 0%o *)\n", fileMode, fileMode, dirMode, dirMode)
	}
	shape := false
	if fd := findFunc(f, "GenerateConverters"); fd != nil && len(fd.Body.List) == 3 {
		// files, err := generateConvertersRaw(c); if err != nil { return err }; return writeFiles(files)
		as, ok1 := fd.Body.List[0].(*ast.AssignStmt)
		is, ok2 := fd.Body.List[1].(*ast.IfStmt)
		rs, ok3 := fd.Body.List[2].(*ast.ReturnStmt)
		if ok1 && ok2 && ok3 && len(as.Rhs) == 1 && len(rs.Results) == 1 {
			c1, okc1 := as.Rhs[0].(*ast.CallExpr)
			c2, okc2 := rs.Results[0].(*ast.CallExpr)
			be, okb := is.Cond.(*ast.BinaryExpr)
			if okc1 && okc2 && okb && be.Op == token.NEQ && len(is.Body.List) == 1 {
				_, isRet := is.Body.List[0].(*ast.ReturnStmt)
				id1, _ := c1.Fun.(*ast.Ident)
				id2, _ := c2.Fun.(*ast.Ident)
				if isRet && id1 != nil && id2 != nil && id1.Name == "generateConvertersRaw" && id2.Name == "writeFiles" {
					shape = true
				}
			}
		}
	}
	// no other file-writing call anywhere in the non-test sources
	writers := 0
	for rel, file := range e.files {
		if file == nil || strings.HasSuffix(rel, "_test.go") {
			continue
		}
		ast.Inspect(file, func(n ast.Node) bool {
			if call, ok := n.(*ast.CallExpr); ok {
				if se, ok := call.Fun.(*ast.SelectorExpr); ok {
					if id, ok := se.X.(*ast.Ident); ok && (id.Name == "os" || id.Name == "ioutil") {
						switch se.Sel.Name {
						case "WriteFile", "Create", "OpenFile", "MkdirAll", "Mkdir", "Remove", "RemoveAll", "Rename", "Truncate":
							writers++
						}
					}
				}
			}
			return true
		})
	}
	fmt.Fprintf(&e.out, "Definition x_write_only_after_success : bool := %s. (* shape of GenerateConverters; file-system mutating calls in the sources: %d (writeFiles has 2) *)\n", coqBool(shape && writers == 2), writers)
	// generator.Generate: returns nil files on the first failing converter
	stops := false
	if fd := findFunc(e.file("generator/generate.go"), "Generate"); fd != nil {
		n := 0
		ast.Inspect(fd.Body, func(nd ast.Node) bool {
			if rs, ok := nd.(*ast.ReturnStmt); ok && len(rs.Results) == 2 {
				if id, ok := rs.Results[0].(*ast.Ident); ok && id.Name == "nil" {
					n++
				}
			}
			return true
		})
		stops = n == 2
	}
	fmt.Fprintf(&e.out, "Definition x_generate_returns_no_files_on_error : bool := %s.\n", coqBool(stops))
	// header
	e.out.WriteString("(* generator/filemanager.go Get: header comments of every new file *)\n")
	var headers []string
	if f := e.file("generator/filemanager.go"); f != nil {
		ast.Inspect(f, func(n ast.Node) bool {
			call, ok := n.(*ast.CallExpr)
			if !ok || len(call.Args) != 1 {
				return true
			}
			if se, ok := call.Fun.(*ast.SelectorExpr); ok && se.Sel.Name == "HeaderComment" {
				if s, ok := e.evalStr("generator", call.Args[0]); ok {
					headers = append(headers, s)
				} else if be, ok := call.Args[0].(*ast.BinaryExpr); ok { // "//go:build " + cfg.BuildConstraint
					if s, ok := e.evalStr("generator", be.X); ok {
						headers = append(headers, s)
					}
				}
			}
			return true
		})
	}
	// fileManager.Get: what identifies the package of a shared output file — the selectors on both sides of the
	// "!=" comparison and the value stored for the first converter of the file
	ident := ""
	var getFn *ast.FuncDecl
	if f := e.file("generator/filemanager.go"); f != nil {
		for _, d := range f.Decls {
			if fd, ok := d.(*ast.FuncDecl); ok && fd.Name.Name == "Get" && fd.Recv != nil {
				getFn = fd
			}
		}
	}
	if fd := getFn; fd != nil {
		var names []string
		sel := func(x ast.Expr) string {
			if c, ok := x.(*ast.CallExpr); ok {
				x = c.Fun
			}
			if se, ok := x.(*ast.SelectorExpr); ok {
				return se.Sel.Name
			}
			return "?"
		}
		ast.Inspect(fd.Body, func(n ast.Node) bool {
			switch v := n.(type) {
			case *ast.BinaryExpr:
				if v.Op.String() == "!=" {
					_, isNil := v.Y.(*ast.Ident)
					_, isLit := v.Y.(*ast.BasicLit)
					if !isNil && !isLit {
						names = append(names, sel(v.X), sel(v.Y))
					}
				}
			case *ast.KeyValueExpr:
				if k, ok := v.Key.(*ast.Ident); ok && k.Name == "PackageID" {
					names = append(names, sel(v.Value))
				}
			}
			return true
		})
		if len(names) == 3 && names[0] == names[1] && names[1] == names[2] {
			ident = names[0]
		} else {
			ident = strings.Join(names, "/")
		}
	}
	fmt.Fprintf(&e.out, "(* generator/filemanager.go Get: the converter attribute stored for and compared with every later converter of the same file *)\nDefinition x_filemanager_identity : rstr := %s. (* %q *)\n", runes(ident), ident)
	if len(headers) == 2 {
		fmt.Fprintf(&e.out, "Definition x_header_comment : rstr := %s. (* %q *)\nDefinition x_build_prefix : rstr := %s. (* %q *)\n", runes(headers[0]), headers[0], runes(headers[1]), headers[1])
	} else {
		e.errs = append(e.errs, "header comments not found")
		e.out.WriteString("(* MISSING: x_header_comment x_build_prefix *)\n")
	}
}
