package main

// Fixed converters that run first in their stream (a corpus of shapes the random generator reaches only now and
// then): the combinations the default FUNC clauses of C11 quantify over.

import "fmt"

func (g *pgen) corpus(focus string, start int) []*ConvSpec {
	if focus == "c07" {
		return g.corpusC07(start)
	}
	if focus == "c05" || focus == "c04" {
		return g.corpusSettings(start)
	}
	if focus == "c03" {
		return g.corpusC03(start)
	}
	if focus != "c11" {
		return nil
	}
	var out []*ConvSpec
	idx := start
	for srcPtr := 0; srcPtr < 2; srcPtr++ {
		for tgtPtr := 0; tgtPtr < 2; tgtPtr++ {
			for fnPtr := 0; fnPtr < 2; fnPtr++ {
				for fnSrc := 0; fnSrc < 2; fnSrc++ {
					for upd := 0; upd < 2; upd++ {
						for zero := 0; zero < 2; zero++ {
							if fnPtr == 1 && tgtPtr == 0 {
								continue // a pointer result is not assignable to a value target
							}
							if zero == 1 && upd == 0 {
								continue
							}
							sid := g.newNamed(1, &Ty{K: "struct", Pkg: 1, Fields: []Field{{"Name", tBasic(bkString)}, {"Age", tBasic(bkInt)}, {"Tags", tSlice(tBasic(bkString))}}}, "S")
							tid := g.newNamed(1, &Ty{K: "struct", Pkg: 1, Fields: []Field{{"Name", tBasic(bkString)}, {"Age", tBasic(bkInt)}, {"Tags", tSlice(tBasic(bkString))}, {"Extra", tBasic(bkString)}}}, "T")
							src, tgt := tNamed(sid), tNamed(tid)
							if srcPtr == 1 {
								src = tPtr(src)
							}
							if tgtPtr == 1 {
								tgt = tPtr(tgt)
							}
							c := &ConvSpec{Name: fmt.Sprintf("C%d", idx), Custom: true, FuncNames: map[string]int{}}
							idx++
							if srcPtr == 1 && tgtPtr == 0 {
								c.Lines = append(c.Lines, "useZeroValueOnPointerInconsistency")
							}
							m := &MethodSpec{Name: "M0", Src: src, Tgt: tgt, Fields: map[string]*fieldSet{"Extra": {Ignore: true}}, Lines: []string{"ignore Extra"}}
							rt := tNamed(tid)
							if fnPtr == 1 {
								rt = tPtr(rt)
							}
							f := &FuncDecl{Idx: len(g.p.Funcs), Pkg: 1, Tgt: rt}
							f.Name = fmt.Sprintf("Mk%d", f.Idx)
							if fnSrc == 1 {
								f.Params = []FnParam{{Name: "src", T: src, Role: 0}}
							}
							g.p.Funcs = append(g.p.Funcs, f)
							c.FuncNames[f.Name] = f.Idx
							m.Lines = append(m.Lines, "default "+f.Name)
							if upd == 1 {
								m.Lines = append(m.Lines, "default:update")
							}
							if zero == 1 {
								m.Lines = append(m.Lines, "update:ignoreZeroValueField")
							}
							c.Methods = []*MethodSpec{m}
							out = append(out, c)
						}
					}
				}
			}
		}
	}
	return out
}

// corpusC07: mutually recursive structs with a fallible function below the recursion (finding F-C07-1: the error
// result retrofitted onto a generated method must reach callers that found it by its signature), in the three wrap modes.
func (g *pgen) corpusC07(start int) []*ConvSpec {
	var out []*ConvSpec
	for i, wrap := range []string{"", "wrapErrors", "wrapErrorsUsing example.org/m/werr"} {
		str := g.newNamed(1, tBasic(bkString), "Str")
		stro := g.newNamed(1, tBasic(bkString), "StrO")
		a, b, w := g.newNamed(1, nil, "RA"), g.newNamed(1, nil, "RB"), g.newNamed(1, nil, "RW")
		ao, bo, wo := g.newNamed(1, nil, "RAO"), g.newNamed(1, nil, "RBO"), g.newNamed(1, nil, "RWO")
		g.p.Named[a].Under = &Ty{K: "struct", Pkg: 1, Fields: []Field{{"B", tPtr(tNamed(b))}, {"X", tNamed(str)}}}
		g.p.Named[b].Under = &Ty{K: "struct", Pkg: 1, Fields: []Field{{"A", tPtr(tNamed(a))}}}
		g.p.Named[w].Under = &Ty{K: "struct", Pkg: 1, Fields: []Field{{"A", tNamed(a)}}}
		g.p.Named[ao].Under = &Ty{K: "struct", Pkg: 1, Fields: []Field{{"B", tPtr(tNamed(bo))}, {"X", tNamed(stro)}}}
		g.p.Named[bo].Under = &Ty{K: "struct", Pkg: 1, Fields: []Field{{"A", tPtr(tNamed(ao))}}}
		g.p.Named[wo].Under = &Ty{K: "struct", Pkg: 1, Fields: []Field{{"A", tNamed(ao)}}}
		f := &FuncDecl{Idx: len(g.p.Funcs), Pkg: 1, Tgt: tNamed(stro), Err: true, Params: []FnParam{{Name: "src", T: tNamed(str), Role: 0}}}
		f.Name = fmt.Sprintf("Ext%d", f.Idx)
		g.p.Funcs = append(g.p.Funcs, f)
		c := &ConvSpec{Name: fmt.Sprintf("C%d", start+i), Custom: true, FuncNames: map[string]int{}}
		if wrap != "" {
			c.Lines = append(c.Lines, wrap)
		}
		c.Lines = append(c.Lines, "extend "+f.Name)
		c.Extend = []ExtSpec{{Text: f.Name, Exact: f.Idx}}
		c.Methods = []*MethodSpec{{Name: "M0", Src: tNamed(w), Tgt: tNamed(wo), Err: true, Fields: map[string]*fieldSet{}}}
		out = append(out, c)
	}
	return out
}

// corpusSettings: field settings that must affect exactly the target struct of their method and must not be dropped
// silently (findings F-C05-1, F-C05-2 of the design probes) and a method-level skipCopySameType on a named type that
// occurs several times (F-C12-1).
func (g *pgen) corpusSettings(start int) []*ConvSpec {
	var out []*ConvSpec
	in := g.newNamed(1, &Ty{K: "struct", Pkg: 1, Fields: []Field{{"A", tBasic(bkInt)}, {"B", tBasic(bkString)}}}, "S")
	mk := func(name string) *Ty { return &Ty{K: "struct", Pkg: 1, Fields: []Field{{name, tBasic(bkInt)}}} }
	// a. autoMap on a method whose target has another (unnamed) struct field
	s1 := g.newNamed(1, &Ty{K: "struct", Pkg: 1, Fields: []Field{{"Inner", tNamed(in)}, {"M", mk("X")}}}, "S")
	t1 := g.newNamed(1, &Ty{K: "struct", Pkg: 1, Fields: []Field{{"A", tBasic(bkInt)}, {"B", tBasic(bkString)}, {"M", mk("X")}}}, "T")
	c1 := &ConvSpec{Name: fmt.Sprintf("C%d", start)}
	c1.Methods = []*MethodSpec{{Name: "M0", Src: tNamed(s1), Tgt: tNamed(t1), Lines: []string{"autoMap Inner"}, Auto: []string{"Inner"}, Fields: map[string]*fieldSet{}}}
	// b. method-level skipCopySameType, the same named struct three times
	n := g.newNamed(1, &Ty{K: "struct", Pkg: 1, Fields: []Field{{"V", tSlice(tBasic(bkInt))}}}, "S")
	s2 := g.newNamed(1, &Ty{K: "struct", Pkg: 1, Fields: []Field{{"A", tNamed(n)}, {"B", tNamed(n)}, {"C", tNamed(n)}}}, "S")
	t2 := g.newNamed(1, &Ty{K: "struct", Pkg: 1, Fields: []Field{{"A", tNamed(n)}, {"B", tNamed(n)}, {"C", tNamed(n)}}}, "T")
	c2 := &ConvSpec{Name: fmt.Sprintf("C%d", start+1)}
	c2.Methods = []*MethodSpec{{Name: "M0", Src: tNamed(s2), Tgt: tNamed(t2), Lines: []string{"skipCopySameType"}, Fields: map[string]*fieldSet{}}}
	// c. ignoreUnexported together with an explicit map onto an unexported target field (output in package p)
	s3 := g.newNamed(1, &Ty{K: "struct", Pkg: 1, Fields: []Field{{"X", tBasic(bkInt)}, {"Z", tBasic(bkInt)}}}, "S")
	t3 := g.newNamed(1, &Ty{K: "struct", Pkg: 1, Fields: []Field{{"y", tBasic(bkInt)}, {"w", tBasic(bkInt)}, {"Z", tBasic(bkInt)}}}, "T")
	c3 := &ConvSpec{Name: fmt.Sprintf("C%d", start+2), SamePkg: true}
	c3.Methods = []*MethodSpec{{Name: "M0", Src: tNamed(s3), Tgt: tNamed(t3), Lines: []string{"ignoreUnexported", "map X y"}, Fields: map[string]*fieldSet{"y": {Source: "X"}}}}
	out = append(out, c1, c2, c3)
	return out
}

// corpusC03: conversions that must be refused although a lenient setting is on (ignoreMissing does not excuse an
// ambiguous match; no rule for a pointer source without the flag at a nested position; basic kinds must agree).
func (g *pgen) corpusC03(start int) []*ConvSpec {
	var out []*ConvSpec
	add := func(sf, tf []Field, lines []string, mlines []string) {
		s := g.newNamed(1, &Ty{K: "struct", Pkg: 1, Fields: sf}, "S")
		t := g.newNamed(1, &Ty{K: "struct", Pkg: 1, Fields: tf}, "T")
		c := &ConvSpec{Name: fmt.Sprintf("C%d", start+len(out)), Lines: lines}
		c.Methods = []*MethodSpec{{Name: "M0", Src: tNamed(s), Tgt: tNamed(t), Lines: mlines, Fields: map[string]*fieldSet{}}}
		out = append(out, c)
	}
	str, i, i64 := tBasic(bkString), tBasic(bkInt), tBasic(bkInt64)
	add([]Field{{"Name", str}, {"NAME", str}}, []Field{{"NaMe", str}}, []string{"matchIgnoreCase", "ignoreMissing"}, nil)
	add([]Field{{"Name", str}, {"NAME", str}}, []Field{{"NaMe", str}}, nil, []string{"matchIgnoreCase", "ignoreMissing"})
	add([]Field{{"Name", str}, {"NAME", str}}, []Field{{"NaMe", str}, {"Other", i}}, []string{"matchIgnoreCase"}, []string{"ignoreMissing"})
	add([]Field{{"A", tPtr(i)}}, []Field{{"A", i}}, []string{"ignoreMissing"}, nil)
	add([]Field{{"A", tSlice(i)}}, []Field{{"A", tSlice(i64)}}, []string{"ignoreMissing", "matchIgnoreCase"}, nil)
	add([]Field{{"A", tMap(str, i)}}, []Field{{"A", tSlice(i)}}, nil, []string{"ignoreMissing"})
	return out
}
