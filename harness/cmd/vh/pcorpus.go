package main

// Fixed converters that run first in their stream (a corpus of shapes the random generator reaches only now and
// then): the combinations the default FUNC clauses of C11 quantify over.

import (
	"fmt"
	"strings"
)

func (g *pgen) corpus(focus string, start int) []*ConvSpec {
	if focus == "c07" {
		out := g.corpusC07(start)
		out = append(out, g.corpusC12(start+len(out))...) // wrap modes written on the method against the converter's
		return append(out, g.corpusC07keys(start+len(out))...)
	}
	if focus == "c04" {
		return append(g.corpusSettings(start), g.corpusC04(start+3)...)
	}
	if focus == "c05" {
		out := g.corpusSettings(start)
		out = append(out, g.corpusC05(start+len(out))...)
		return append(out, g.corpusC03(start+len(out))...) // ignoreMissing does not excuse an ambiguous match (C05-b), ...
	}
	if focus == "c03" {
		return g.corpusC03(start)
	}
	if focus == "c10" {
		return g.corpusC10(start)
	}
	if focus == "c08" {
		return g.corpusC08(start)
	}
	if focus == "c12" {
		return g.corpusC12(start)
	}
	if focus == "c02" {
		return g.corpusC02(start)
	}
	if focus == "c18" {
		return g.corpusC18(start)
	}
	if focus == "c06" {
		return g.corpusC06(start)
	}
	if focus != "c11" {
		return nil
	}
	var out []*ConvSpec
	idx := start
	// default:update without any default FUNC (converter level / method level / below a method that has a FUNC for its own
	// root only): *T -> *U still yields nil for nil and a fresh pointer otherwise, at the root, below a field, a slice
	// element and a map value
	for _, lvl := range []int{0, 1} {
		in := g.newNamed(1, &Ty{K: "struct", Pkg: 1, Fields: []Field{{"ID", tBasic(bkInt)}}}, "S")
		inT := g.newNamed(1, &Ty{K: "struct", Pkg: 1, Fields: []Field{{"ID", tBasic(bkInt)}}}, "T")
		s := g.newNamed(1, &Ty{K: "struct", Pkg: 1, Fields: []Field{{"P", tPtr(tNamed(in))}, {"L", tSlice(tPtr(tNamed(in)))}, {"M", tMap(tBasic(bkString), tPtr(tNamed(in)))}, {"N", tBasic(bkInt)}}}, "S")
		t := g.newNamed(1, &Ty{K: "struct", Pkg: 1, Fields: []Field{{"P", tPtr(tNamed(inT))}, {"L", tSlice(tPtr(tNamed(inT)))}, {"M", tMap(tBasic(bkString), tPtr(tNamed(inT)))}, {"N", tBasic(bkInt)}}}, "T")
		c := &ConvSpec{Name: fmt.Sprintf("C%d", idx)}
		idx++
		m := &MethodSpec{Name: "M0", Src: tPtr(tNamed(s)), Tgt: tPtr(tNamed(t)), Fields: map[string]*fieldSet{}}
		if lvl == 0 {
			c.Lines = []string{"default:update"}
		} else {
			m.Lines = []string{"default:update yes"}
		}
		c.Methods = []*MethodSpec{m, {Name: "M1", Src: tNamed(s), Tgt: tNamed(t), Fields: map[string]*fieldSet{}}}
		out = append(out, c)
	}
	for srcPtr := 0; srcPtr < 2; srcPtr++ {
		for tgtPtr := 0; tgtPtr < 2; tgtPtr++ {
			for fnPtr := 0; fnPtr < 2; fnPtr++ {
				for fnSrc := 0; fnSrc < 2; fnSrc++ {
					for upd := 0; upd < 2; upd++ {
						for zero := 0; zero < 2; zero++ {
							if fnPtr == 1 && tgtPtr == 0 {
								continue // a pointer result is not assignable to a value target
							}
							if zero == 1 && upd == 0 {
								continue
							}
							// PT / PM / PU: T -> *U below the top level, generated inline (unnamed slice / map / struct): a fresh non-nil pointer
							// also in a method that starts from a default FUNC
							un := &Ty{K: "struct", Pkg: 1, Fields: []Field{{"N", tBasic(bkInt)}}}
							sid := g.newNamed(1, &Ty{K: "struct", Pkg: 1, Fields: []Field{{"Name", tBasic(bkString)}, {"Age", tBasic(bkInt)}, {"Tags", tSlice(tBasic(bkString))},
								{"PT", tSlice(tBasic(bkString))}, {"PM", tMap(tBasic(bkString), tBasic(bkInt))}, {"PU", un}, {"PS", tBasic(bkString)}}}, "S")
							tid := g.newNamed(1, &Ty{K: "struct", Pkg: 1, Fields: []Field{{"Name", tBasic(bkString)}, {"Age", tBasic(bkInt)}, {"Tags", tSlice(tBasic(bkString))},
								{"PT", tPtr(tSlice(tBasic(bkString)))}, {"PM", tPtr(tMap(tBasic(bkString), tBasic(bkInt)))}, {"PU", tPtr(un)}, {"PS", tPtr(tBasic(bkString))}, {"Extra", tBasic(bkString)}}}, "T")
							src, tgt := tNamed(sid), tNamed(tid)
							if srcPtr == 1 {
								src = tPtr(src)
							}
							if tgtPtr == 1 {
								tgt = tPtr(tgt)
							}
							c := &ConvSpec{Name: fmt.Sprintf("C%d", idx), Custom: true, FuncNames: map[string]int{}}
							idx++
							if srcPtr == 1 && tgtPtr == 0 {
								c.Lines = append(c.Lines, "useZeroValueOnPointerInconsistency")
							}
							m := &MethodSpec{Name: "M0", Src: src, Tgt: tgt, Fields: map[string]*fieldSet{"Extra": {Ignore: true}}, Lines: []string{"ignore Extra"}}
							rt := tNamed(tid)
							if fnPtr == 1 {
								rt = tPtr(rt)
							}
							f := &FuncDecl{Idx: len(g.p.Funcs), Pkg: 1, Tgt: rt}
							f.Name = fmt.Sprintf("Mk%d", f.Idx)
							if fnSrc == 1 {
								f.Params = []FnParam{{Name: "src", T: src, Role: 0}}
							}
							g.p.Funcs = append(g.p.Funcs, f)
							c.FuncNames[f.Name] = f.Idx
							m.Lines = append(m.Lines, "default "+f.Name)
							if upd == 1 {
								m.Lines = append(m.Lines, "default:update")
							}
							if zero == 1 {
								m.Lines = append(m.Lines, "update:ignoreZeroValueField")
							}
							c.Methods = []*MethodSpec{m}
							out = append(out, c)
						}
					}
				}
			}
		}
	}
	return out
}

// corpusC07: mutually recursive structs with a fallible function below the recursion (finding F-C07-1: the error
// result retrofitted onto a generated method must reach callers that found it by its signature), in the three wrap modes.
func (g *pgen) corpusC07(start int) []*ConvSpec {
	var out []*ConvSpec
	for i, wrap := range []string{"", "wrapErrors", "wrapErrorsUsing example.org/m/werr"} {
		str := g.newNamed(1, tBasic(bkString), "Str")
		stro := g.newNamed(1, tBasic(bkString), "StrO")
		a, b, w := g.newNamed(1, nil, "RA"), g.newNamed(1, nil, "RB"), g.newNamed(1, nil, "RW")
		ao, bo, wo := g.newNamed(1, nil, "RAO"), g.newNamed(1, nil, "RBO"), g.newNamed(1, nil, "RWO")
		g.p.Named[a].Under = &Ty{K: "struct", Pkg: 1, Fields: []Field{{"B", tPtr(tNamed(b))}, {"X", tNamed(str)}}}
		g.p.Named[b].Under = &Ty{K: "struct", Pkg: 1, Fields: []Field{{"A", tPtr(tNamed(a))}}}
		g.p.Named[w].Under = &Ty{K: "struct", Pkg: 1, Fields: []Field{{"A", tNamed(a)}}}
		g.p.Named[ao].Under = &Ty{K: "struct", Pkg: 1, Fields: []Field{{"B", tPtr(tNamed(bo))}, {"X", tNamed(stro)}}}
		g.p.Named[bo].Under = &Ty{K: "struct", Pkg: 1, Fields: []Field{{"A", tPtr(tNamed(ao))}}}
		g.p.Named[wo].Under = &Ty{K: "struct", Pkg: 1, Fields: []Field{{"A", tNamed(ao)}}}
		f := &FuncDecl{Idx: len(g.p.Funcs), Pkg: 1, Tgt: tNamed(stro), Err: true, Params: []FnParam{{Name: "src", T: tNamed(str), Role: 0}}}
		f.Name = fmt.Sprintf("Ext%d", f.Idx)
		g.p.Funcs = append(g.p.Funcs, f)
		c := &ConvSpec{Name: fmt.Sprintf("C%d", start+i), Custom: true, FuncNames: map[string]int{}}
		if wrap != "" {
			c.Lines = append(c.Lines, wrap)
		}
		c.Lines = append(c.Lines, "extend "+f.Name)
		c.Extend = []ExtSpec{{Text: f.Name, Exact: f.Idx}}
		c.Methods = []*MethodSpec{{Name: "M0", Src: tNamed(w), Tgt: tNamed(wo), Err: true, Fields: map[string]*fieldSet{}}}
		out = append(out, c)
	}
	return out
}

// corpusSettings: field settings that must affect exactly the target struct of their method and must not be dropped
// silently (findings F-C05-1, F-C05-2 of the design probes) and a method-level skipCopySameType on a named type that
// occurs several times (F-C12-1).
func (g *pgen) corpusSettings(start int) []*ConvSpec {
	var out []*ConvSpec
	in := g.newNamed(1, &Ty{K: "struct", Pkg: 1, Fields: []Field{{"A", tBasic(bkInt)}, {"B", tBasic(bkString)}}}, "S")
	mk := func(name string) *Ty { return &Ty{K: "struct", Pkg: 1, Fields: []Field{{name, tBasic(bkInt)}}} }
	// a. autoMap on a method whose target has another (unnamed) struct field
	s1 := g.newNamed(1, &Ty{K: "struct", Pkg: 1, Fields: []Field{{"Inner", tNamed(in)}, {"M", mk("X")}}}, "S")
	t1 := g.newNamed(1, &Ty{K: "struct", Pkg: 1, Fields: []Field{{"A", tBasic(bkInt)}, {"B", tBasic(bkString)}, {"M", mk("X")}}}, "T")
	c1 := &ConvSpec{Name: fmt.Sprintf("C%d", start)}
	c1.Methods = []*MethodSpec{{Name: "M0", Src: tNamed(s1), Tgt: tNamed(t1), Lines: []string{"autoMap Inner"}, Auto: []string{"Inner"}, Fields: map[string]*fieldSet{}}}
	// b. method-level skipCopySameType, the same named struct three times
	n := g.newNamed(1, &Ty{K: "struct", Pkg: 1, Fields: []Field{{"V", tSlice(tBasic(bkInt))}}}, "S")
	s2 := g.newNamed(1, &Ty{K: "struct", Pkg: 1, Fields: []Field{{"A", tNamed(n)}, {"B", tNamed(n)}, {"C", tNamed(n)}}}, "S")
	t2 := g.newNamed(1, &Ty{K: "struct", Pkg: 1, Fields: []Field{{"A", tNamed(n)}, {"B", tNamed(n)}, {"C", tNamed(n)}}}, "T")
	c2 := &ConvSpec{Name: fmt.Sprintf("C%d", start+1)}
	c2.Methods = []*MethodSpec{{Name: "M0", Src: tNamed(s2), Tgt: tNamed(t2), Lines: []string{"skipCopySameType"}, Fields: map[string]*fieldSet{}}}
	// c. ignoreUnexported together with an explicit map onto an unexported target field (output in package p)
	s3 := g.newNamed(1, &Ty{K: "struct", Pkg: 1, Fields: []Field{{"X", tBasic(bkInt)}, {"Z", tBasic(bkInt)}}}, "S")
	t3 := g.newNamed(1, &Ty{K: "struct", Pkg: 1, Fields: []Field{{"y", tBasic(bkInt)}, {"w", tBasic(bkInt)}, {"Z", tBasic(bkInt)}}}, "T")
	c3 := &ConvSpec{Name: fmt.Sprintf("C%d", start+2), SamePkg: true}
	c3.Methods = []*MethodSpec{{Name: "M0", Src: tNamed(s3), Tgt: tNamed(t3), Lines: []string{"ignoreUnexported", "map X y"}, Fields: map[string]*fieldSet{"y": {Source: "X"}}}}
	out = append(out, c1, c2, c3)
	return out
}

// corpusC03: conversions that must be refused although a lenient setting is on (ignoreMissing does not excuse an
// ambiguous match; no rule for a pointer source without the flag at a nested position; basic kinds must agree).
func (g *pgen) corpusC03(start int) []*ConvSpec {
	var out []*ConvSpec
	add := func(sf, tf []Field, lines []string, mlines []string) {
		s := g.newNamed(1, &Ty{K: "struct", Pkg: 1, Fields: sf}, "S")
		t := g.newNamed(1, &Ty{K: "struct", Pkg: 1, Fields: tf}, "T")
		c := &ConvSpec{Name: fmt.Sprintf("C%d", start+len(out)), Lines: lines}
		c.Methods = []*MethodSpec{{Name: "M0", Src: tNamed(s), Tgt: tNamed(t), Lines: mlines, Fields: map[string]*fieldSet{}}}
		out = append(out, c)
	}
	str, i, i64 := tBasic(bkString), tBasic(bkInt), tBasic(bkInt64)
	add([]Field{{"Name", str}, {"NAME", str}}, []Field{{"NaMe", str}}, []string{"matchIgnoreCase", "ignoreMissing"}, nil)
	add([]Field{{"Name", str}, {"NAME", str}}, []Field{{"NaMe", str}}, nil, []string{"matchIgnoreCase", "ignoreMissing"})
	add([]Field{{"Name", str}, {"NAME", str}}, []Field{{"NaMe", str}, {"Other", i}}, []string{"matchIgnoreCase"}, []string{"ignoreMissing"})
	add([]Field{{"A", tPtr(i)}}, []Field{{"A", i}}, []string{"ignoreMissing"}, nil)
	add([]Field{{"A", tSlice(i)}}, []Field{{"A", tSlice(i64)}}, []string{"ignoreMissing", "matchIgnoreCase"}, nil)
	add([]Field{{"A", tMap(str, i)}}, []Field{{"A", tSlice(i)}}, nil, []string{"ignoreMissing"})
	// an unexported target field that is not accessible from the output package stays inaccessible when it is mapped
	// explicitly (with or without ignoreUnexported)
	add([]Field{{"X", i}, {"Z", i}}, []Field{{"y", i}, {"Z", i}}, nil, []string{"map X y"})
	out[len(out)-1].Methods[0].Fields["y"] = &fieldSet{Source: "X"}
	add([]Field{{"X", i}, {"Z", i}}, []Field{{"y", i}, {"Z", i}}, []string{"ignoreUnexported"}, []string{"map X y"})
	out[len(out)-1].Methods[0].Fields["y"] = &fieldSet{Source: "X"}
	add([]Field{{"X", i}, {"Z", i}}, []Field{{"y", i}, {"Z", i}}, nil, nil) // unmapped: refused as well
	// a func-typed FIELD is a value, not a method to be called: func() string -> string has no rule; the identical func
	// type is handed through with skipCopySameType and refused without it
	fn := tOther(1, 9)
	add([]Field{{"G", fn}, {"Z", i}}, []Field{{"G", str}, {"Z", i}}, nil, nil)
	add([]Field{{"G", fn}, {"Z", i}}, []Field{{"G", fn}, {"Z", i}}, []string{"skipCopySameType"}, nil)
	add([]Field{{"G", fn}, {"Z", i}}, []Field{{"G", fn}, {"Z", i}}, nil, nil)
	return out
}

// corpusC10: update methods whose source and target field kinds fall into different zero-value categories
// (int -> *int, struct -> *struct, *int -> int, ...): the category that decides whether a zero-valued source field
// leaves the target alone is the one of the source field.
func (g *pgen) corpusC10(start int) []*ConvSpec {
	var out []*ConvSpec
	str, i := tBasic(bkString), tBasic(bkInt)
	// a target field fed by an argument-less METHOD of the source struct (bool result: the function oracle yields false for
	// about half of the receivers): the zero guard applies to it like to a plain field
	for _, line := range []string{"update:ignoreZeroValueField", "update:ignoreZeroValueField:basic"} {
		for _, srcPtr := range []bool{false, true} {
			sn := g.newNamed(1, &Ty{K: "struct", Pkg: 1, Fields: []Field{{"X", i}, {"Y", str}}}, "S")
			f := &FuncDecl{Idx: len(g.p.Funcs), Pkg: 1, Tgt: tBasic(bkBool), Recv: tNamed(sn)}
			f.Name = fmt.Sprintf("Flag%d", f.Idx)
			g.p.Funcs = append(g.p.Funcs, f)
			t := g.newNamed(1, &Ty{K: "struct", Pkg: 1, Fields: []Field{{f.Name, tBasic(bkBool)}, {"X", i}, {"Y", str}}}, "T")
			c := &ConvSpec{Name: fmt.Sprintf("C%d", start+len(out)), Custom: true, FuncNames: map[string]int{}}
			src := tNamed(sn)
			if srcPtr {
				src = tPtr(src)
			}
			c.Methods = []*MethodSpec{{Name: "M0", Src: src, Tgt: tPtr(tNamed(t)), Update: true, Lines: []string{"update target", line}, Fields: map[string]*fieldSet{}}}
			out = append(out, c)
		}
	}
	// source and target of the update method are the SAME struct type, with skipCopySameType: the fields are still written
	// through the target pointer one by one (the struct rule is applied directly, not the SkipCopy rule)
	for _, srcPtr := range []bool{true, false} {
		for _, extra := range [][]string{nil, {"update:ignoreZeroValueField"}} {
			t := g.newNamed(1, &Ty{K: "struct", Pkg: 1, Fields: []Field{{"Name", str}, {"Age", i}, {"Tags", tSlice(str)}, {"Keep", str}}}, "T")
			c := &ConvSpec{Name: fmt.Sprintf("C%d", start+len(out)), Lines: []string{"skipCopySameType"}}
			src := tNamed(t)
			if srcPtr {
				src = tPtr(src)
			}
			c.Methods = []*MethodSpec{{Name: "M0", Src: src, Tgt: tPtr(tNamed(t)), Update: true, Lines: append([]string{"update target", "ignore Keep"}, extra...), Fields: map[string]*fieldSet{"Keep": {Ignore: true}}}}
			out = append(out, c)
		}
	}
	flagSets := [][]string{
		{"update:ignoreZeroValueField"},
		{"update:ignoreZeroValueField:basic"},
		{"update:ignoreZeroValueField:struct"},
		{"update:ignoreZeroValueField:nillable"},
		{"update:ignoreZeroValueField:basic", "update:ignoreZeroValueField:nillable"},
		{},
	}
	for k, fl := range flagSets {
		for srcPtr := 0; srcPtr < 2; srcPtr++ {
			ad := g.newNamed(1, &Ty{K: "struct", Pkg: 1, Fields: []Field{{"Street", str}, {"No", i}}}, "S")
			adT := g.newNamed(1, &Ty{K: "struct", Pkg: 1, Fields: []Field{{"Street", str}, {"No", i}}}, "T")
			s := g.newNamed(1, &Ty{K: "struct", Pkg: 1, Fields: []Field{{"Age", i}, {"Nick", str}, {"Work", tNamed(ad)}, {"P", tPtr(i)}, {"Q", tPtr(tNamed(ad))}, {"Tags", tSlice(str)}}}, "S")
			t := g.newNamed(1, &Ty{K: "struct", Pkg: 1, Fields: []Field{{"Age", tPtr(i)}, {"Nick", tPtr(str)}, {"Work", tPtr(tNamed(adT))}, {"P", i}, {"Q", tNamed(adT)}, {"Tags", tSlice(str)}, {"Keep", str}}}, "T")
			c := &ConvSpec{Name: fmt.Sprintf("C%d", start+len(out)), Lines: []string{"useZeroValueOnPointerInconsistency"}}
			src := tNamed(s)
			if srcPtr == 1 {
				src = tPtr(src)
			}
			lines := append([]string{"update target", "ignore Keep"}, fl...)
			if k%2 == 1 {
				lines = append(lines, "skipCopySameType")
			}
			c.Methods = []*MethodSpec{{Name: "M0", Src: src, Tgt: tPtr(tNamed(t)), Update: true, Lines: lines, Fields: map[string]*fieldSet{"Keep": {Ignore: true}}}}
			out = append(out, c)
		}
	}
	return out
}

// corpusC08: one enum pair examined under disagreeing enum settings within one run: a method with "enum no" next to
// a method with enums on, and a converter that excludes the type followed by one that does not. Whether a pair is
// converted as an enum is decided per method from the settings in effect there.
func (g *pgen) corpusC08(start int) []*ConvSpec {
	var out []*ConvSpec
	mkPair := func(prefix string) (*Ty, *Ty, *NamedDecl, *NamedDecl) {
		s := g.newNamed(1, tBasic(bkInt), prefix)
		t := g.newNamed(2, tBasic(bkInt), prefix+"T")
		sd, td := g.p.Named[s], g.p.Named[t]
		for k, suf := range []string{"A", "B", "C"} {
			sd.Consts = append(sd.Consts, ConstDecl{Name: sd.Name + suf, Val: int64(k + 1)})
			td.Consts = append(td.Consts, ConstDecl{Name: sd.Name + suf, Val: int64(10 * (k + 1))})
		}
		td.EnumOf = s
		return tNamed(s), tNamed(t), sd, td
	}
	// c. enum:transform regex whose pattern matches only a part of the member name (prefix, substring, suffix): the rest
	// of the name is kept (regexp.ReplaceAllString), every member finds its target
	for k, form := range []string{"^%s %s", "%s %s", "(%s)(A|B|C)$ %s$2"} {
		s := g.newNamed(1, tBasic(bkInt), "NP")
		t := g.newNamed(1, tBasic(bkInt), "NQ")
		sd, td := g.p.Named[s], g.p.Named[t]
		for j, suf := range []string{"A", "B", "C"} {
			sd.Consts = append(sd.Consts, ConstDecl{Name: sd.Name + suf, Val: int64(j + 1)})
			td.Consts = append(td.Consts, ConstDecl{Name: td.Name + suf, Val: int64(10 * (j + 1))})
		}
		td.EnumOf = s
		c := &ConvSpec{Name: fmt.Sprintf("C%d", start+len(out)), Custom: true, Lines: []string{"enum:unknown @panic"}}
		c.Methods = []*MethodSpec{{Name: "M0", Src: tNamed(s), Tgt: tNamed(t), Lines: []string{"enum:transform regex " + fmt.Sprintf(form, sd.Name, td.Name)}, Fields: map[string]*fieldSet{}}}
		_ = k
		out = append(out, c)
	}
	// d. enum:unknown written on one method differs from the converter's: the sibling method and the enum below a struct
	// field (generated sub-method) still follow the converter-level policy
	for _, pol := range [][2]string{{"@error", "@ignore"}, {"@ignore", "@error"}, {"@panic", "@ignore"}} {
		s, t, _, _ := mkPair("NY")
		s2, t2, _, _ := mkPair("NZ")
		c := &ConvSpec{Name: fmt.Sprintf("C%d", start+len(out)), Custom: true, Lines: []string{"enum:unknown " + pol[0]}}
		c.Methods = []*MethodSpec{
			{Name: "M0", Src: s, Tgt: t, Err: true, Lines: []string{"enum:unknown " + pol[1]}, Fields: map[string]*fieldSet{}},
			{Name: "M1", Src: s2, Tgt: t2, Err: true, Fields: map[string]*fieldSet{}}, // another pair, no line of its own: converter-level policy
		}
		out = append(out, c)
	}
	for _, unknown := range []string{"@panic", "@error", "@ignore"} {
		// a. method-level "enum no" on the method that is processed first
		s, t, sd, _ := mkPair("NC")
		c := &ConvSpec{Name: fmt.Sprintf("C%d", start+len(out)), Custom: true, Lines: []string{"enum:unknown " + unknown}}
		c.Methods = []*MethodSpec{
			{Name: "M0", Src: s, Tgt: t, Lines: []string{"enum no"}, Fields: map[string]*fieldSet{}},
			{Name: "M1", Src: s, Tgt: t, Err: unknown == "@error", Lines: []string{fmt.Sprintf("enum:map %sC %sA", sd.Name, sd.Name)}, Fields: map[string]*fieldSet{}},
		}
		out = append(out, c)
		// b. a converter that excludes the source type, then one that does not
		s2, t2, sd2, _ := mkPair("NX")
		pat := "example.org/m/p:" + sd2.Name
		c1 := &ConvSpec{Name: fmt.Sprintf("C%d", start+len(out)), Custom: true, Lines: []string{"enum:unknown " + unknown, "enum:exclude " + pat}, EnumExclude: []string{pat}}
		c1.Methods = []*MethodSpec{{Name: "M0", Src: s2, Tgt: t2, Err: unknown == "@error", Fields: map[string]*fieldSet{}}}
		out = append(out, c1)
		c2 := &ConvSpec{Name: fmt.Sprintf("C%d", start+len(out)), Custom: true, Lines: []string{"enum:unknown " + unknown}}
		c2.Methods = []*MethodSpec{{Name: "M0", Src: s2, Tgt: t2, Err: unknown == "@error", Fields: map[string]*fieldSet{}}}
		out = append(out, c2)
	}
	return out
}

// corpusC04: map keys that carry references (pointer keys, struct keys with a pointer field, array keys of
// pointers): comparable is not the same as plain value, the key is converted (copied) like any other position.
func (g *pgen) corpusC04(start int) []*ConvSpec {
	var out []*ConvSpec
	str, i := tBasic(bkString), tBasic(bkInt)
	node := g.newNamed(1, &Ty{K: "struct", Pkg: 1, Fields: []Field{{"Name", str}, {"N", tPtr(i)}}}, "S")
	ref := g.newNamed(1, &Ty{K: "struct", Pkg: 1, Fields: []Field{{"Kind", str}, {"ID", tPtr(i)}}}, "S")
	val := g.newNamed(1, &Ty{K: "struct", Pkg: 1, Fields: []Field{{"V", tSlice(i)}}}, "S")
	shapes := []*Ty{
		tMap(tPtr(tNamed(node)), tNamed(val)),
		tMap(tNamed(ref), tNamed(val)),
		tMap(tPtr(i), str),
		tMap(tArr(2, tPtr(i)), i),
	}
	// skipCopySameType and T -> *T: the pointer must not be the address of the source field / element
	un := &Ty{K: "struct", Pkg: 1, Fields: []Field{{"N", i}}}
	s1 := g.newNamed(1, &Ty{K: "struct", Pkg: 1, Fields: []Field{{"L", tSlice(i)}, {"M", tMap(str, i)}, {"U", un}, {"E", tSlice(un)}}}, "S")
	t1 := g.newNamed(1, &Ty{K: "struct", Pkg: 1, Fields: []Field{{"L", tPtr(tSlice(i))}, {"M", tPtr(tMap(str, i))}, {"U", tPtr(un)}, {"E", tSlice(tPtr(un))}}}, "T")
	for _, pair := range [][2]*Ty{{tPtr(tNamed(s1)), tPtr(tNamed(t1))}, {tSlice(un), tSlice(tPtr(un))}, {tSlice(tNamed(s1)), tSlice(tNamed(t1))}, {tNamed(s1), tNamed(t1)},
		// map values / keys: the loop variables must not be referenced either (shared by all iterations before Go 1.22)
		{tMap(str, tSlice(i)), tMap(str, tPtr(tSlice(i)))}, {tMap(str, un), tMap(str, tPtr(un))}, {tMap(tArr(2, i), i), tMap(tPtr(tArr(2, i)), i)}} {
		c := &ConvSpec{Name: fmt.Sprintf("C%d", start+len(out)), Lines: []string{"skipCopySameType"}}
		c.Methods = []*MethodSpec{{Name: "M0", Src: pair[0], Tgt: pair[1], Fields: map[string]*fieldSet{}}}
		out = append(out, c)
	}
	// array targets (no rule: refused today; if ever accepted, the elements must be deep-copied like everything else)
	tagged := g.newNamed(1, &Ty{K: "struct", Pkg: 1, Fields: []Field{{"Name", str}, {"Tags", tSlice(str)}, {"Ref", tPtr(i)}}}, "S")
	for _, at := range []*Ty{tArr(2, tNamed(tagged)), tPtr(tArr(2, tNamed(tagged))), tMap(str, tArr(2, tNamed(tagged))), tArr(2, &Ty{K: "struct", Pkg: 1, Fields: []Field{{"L", tSlice(i)}}})} {
		c := &ConvSpec{Name: fmt.Sprintf("C%d", start+len(out))}
		c.Methods = []*MethodSpec{{Name: "M0", Src: at, Tgt: at, Fields: map[string]*fieldSet{}}}
		out = append(out, c)
	}
	// the identical struct type on both sides with a field that is not accessible from the output package (refused today;
	// if ever accepted, the slices / pointers inside must still be copied)
	hidden := g.newNamed(1, &Ty{K: "struct", Pkg: 1, Fields: []Field{{"Name", str}, {"tags", tSlice(str)}, {"Ref", tPtr(i)}}}, "S")
	for _, ht := range []*Ty{tNamed(hidden), tPtr(tNamed(hidden)), tSlice(tNamed(hidden))} {
		c := &ConvSpec{Name: fmt.Sprintf("C%d", start+len(out))}
		c.Methods = []*MethodSpec{{Name: "M0", Src: ht, Tgt: ht, Fields: map[string]*fieldSet{}}}
		out = append(out, c)
	}
	for k, sh := range shapes {
		c := &ConvSpec{Name: fmt.Sprintf("C%d", start+len(out))}
		c.Methods = []*MethodSpec{{Name: "M0", Src: sh, Tgt: sh, Fields: map[string]*fieldSet{}}}
		out = append(out, c)
		s := g.newNamed(1, &Ty{K: "struct", Pkg: 1, Fields: []Field{{"M", sh}, {"X", i}}}, "S")
		t := g.newNamed(1, &Ty{K: "struct", Pkg: 1, Fields: []Field{{"M", sh}, {"X", i}}}, "T")
		c2 := &ConvSpec{Name: fmt.Sprintf("C%d", start+len(out))}
		c2.Methods = []*MethodSpec{{Name: "M0", Src: tNamed(s), Tgt: tPtr(tNamed(t)), Fields: map[string]*fieldSet{}}}
		if k%2 == 0 {
			out = append(out, c2)
		}
	}
	return out
}

// corpusC12: a wrap mode written on the method against the one (or none) written on the converter; the generated
// code of a declared method follows the method's value, a sibling without the line follows the converter's.
func (g *pgen) corpusC12(start int) []*ConvSpec {
	var out []*ConvSpec
	combos := [][2]string{
		{"", "wrapErrorsUsing example.org/m/werr"},
		{"", "wrapErrors"},
		{"wrapErrors", "wrapErrors no"},
		{"wrapErrorsUsing example.org/m/werr", ""},
		{"wrapErrors", ""},
	}
	for _, cb := range combos {
		str := g.newNamed(1, tBasic(bkString), "Str")
		stro := g.newNamed(1, tBasic(bkString), "StrO")
		s := g.newNamed(1, &Ty{K: "struct", Pkg: 1, Fields: []Field{{"X", tNamed(str)}, {"L", tSlice(tNamed(str))}}}, "S")
		t := g.newNamed(1, &Ty{K: "struct", Pkg: 1, Fields: []Field{{"X", tNamed(stro)}, {"L", tSlice(tNamed(stro))}}}, "T")
		f := &FuncDecl{Idx: len(g.p.Funcs), Pkg: 1, Tgt: tNamed(stro), Err: true, Params: []FnParam{{Name: "src", T: tNamed(str), Role: 0}}}
		f.Name = fmt.Sprintf("Ext%d", f.Idx)
		g.p.Funcs = append(g.p.Funcs, f)
		c := &ConvSpec{Name: fmt.Sprintf("C%d", start+len(out)), Custom: true, FuncNames: map[string]int{}}
		if cb[0] != "" {
			c.Lines = append(c.Lines, cb[0])
		}
		c.Lines = append(c.Lines, "extend "+f.Name)
		c.Extend = []ExtSpec{{Text: f.Name, Exact: f.Idx}}
		m0 := &MethodSpec{Name: "M0", Src: tNamed(s), Tgt: tNamed(t), Err: true, Fields: map[string]*fieldSet{}}
		if cb[1] != "" {
			m0.Lines = append(m0.Lines, cb[1])
		}
		m1 := &MethodSpec{Name: "M1", Src: tPtr(tNamed(s)), Tgt: tPtr(tNamed(t)), Err: true, Fields: map[string]*fieldSet{}}
		c.Methods = []*MethodSpec{m0, m1}
		out = append(out, c)
	}
	return out
}

// corpusC02: fixed arrays of every basic element kind converted to slices at the positions goverter builds into a
// fresh variable (method argument, map value, pointee, named array through a sub-method) and byte slices at every
// position: length, order and values are preserved whatever the element type is.
func (g *pgen) corpusC02(start int) []*ConvSpec {
	var out []*ConvSpec
	add := func(src, tgt *Ty) {
		c := &ConvSpec{Name: fmt.Sprintf("C%d", start+len(out))}
		c.Methods = []*MethodSpec{{Name: "M0", Src: src, Tgt: tgt, Fields: map[string]*fieldSet{}}}
		out = append(out, c)
	}
	str := tBasic(bkString)
	for _, k := range []int{bkUint8, bkInt, bkString, bkBool, bkInt64, bkFloat64} {
		el := tBasic(k)
		add(tArr(3, el), tSlice(el))
		add(tMap(str, tArr(2, el)), tMap(str, tSlice(el)))
		add(tPtr(tArr(2, el)), tPtr(tSlice(el)))
		add(tSlice(el), tSlice(el))
		if k == bkUint8 || k == bkInt {
			na := g.newNamed(1, tArr(4, el), "NA")
			s := g.newNamed(1, &Ty{K: "struct", Pkg: 1, Fields: []Field{{"D", tPtr(tNamed(na))}, {"E", tSlice(tSlice(el))}, {"F", tMap(str, tPtr(tSlice(el)))}}}, "S")
			t := g.newNamed(1, &Ty{K: "struct", Pkg: 1, Fields: []Field{{"D", tPtr(tSlice(el))}, {"E", tSlice(tSlice(el))}, {"F", tMap(str, tPtr(tSlice(el)))}}}, "T")
			add(tNamed(na), tSlice(el))
			add(tNamed(s), tNamed(t))
		}
	}
	return out
}

// corpusC05: autoMap candidates include the argument-less methods of the auto-mapped struct (held by value or behind a
// pointer): the only same-named source of a target field, next to ignoreMissing (must not drop it) and next to a
// re-cased direct field with matchIgnoreCase (the exact-name method wins).
func (g *pgen) corpusC05(start int) []*ConvSpec {
	var out []*ConvSpec
	str, i := tBasic(bkString), tBasic(bkInt)
	// two autoMap structs offering the same field: ambiguous (must fail), in both orders of the lines; with one of the
	// fields renamed the two lines resolve
	for variant := 0; variant < 3; variant++ {
		addr := g.newNamed(1, &Ty{K: "struct", Pkg: 1, Fields: []Field{{"Street", str}, {"Zip", i}}}, "S")
		other := addr
		if variant == 2 {
			other = g.newNamed(1, &Ty{K: "struct", Pkg: 1, Fields: []Field{{"City", str}}}, "S")
		}
		s := g.newNamed(1, &Ty{K: "struct", Pkg: 1, Fields: []Field{{"Home", tNamed(addr)}, {"Work", tNamed(other)}, {"X", i}}}, "S")
		tf := []Field{{"Street", str}, {"Zip", i}, {"X", i}}
		if variant == 2 {
			tf = append(tf, Field{"City", str})
		}
		t := g.newNamed(1, &Ty{K: "struct", Pkg: 1, Fields: tf}, "T")
		lines, auto := []string{"autoMap Home", "autoMap Work"}, []string{"Home", "Work"}
		if variant == 1 {
			lines, auto = []string{"autoMap Work", "autoMap Home"}, []string{"Work", "Home"}
		}
		c := &ConvSpec{Name: fmt.Sprintf("C%d", start+len(out))}
		c.Methods = []*MethodSpec{{Name: "M0", Src: tNamed(s), Tgt: tNamed(t), Lines: lines, Auto: auto, Fields: map[string]*fieldSet{}}}
		out = append(out, c)
	}
	for _, byPtr := range []bool{false, true} {
		for variant := 0; variant < 3; variant++ {
			addr := g.newNamed(1, &Ty{K: "struct", Pkg: 1, Fields: []Field{{"Street", str}}}, "S")
			f := &FuncDecl{Idx: len(g.p.Funcs), Pkg: 1, Tgt: str, Recv: tNamed(addr)}
			f.Name = fmt.Sprintf("Line%d", f.Idx)
			g.p.Funcs = append(g.p.Funcs, f)
			inner := tNamed(addr)
			if byPtr {
				inner = tPtr(inner)
			}
			sf := []Field{{"Inner", inner}, {"X", i}}
			var lines []string
			switch variant {
			case 1:
				lines = []string{"ignoreMissing"}
			case 2:
				sf = append(sf, Field{strings.ToUpper(f.Name), str})
				lines = []string{"matchIgnoreCase"}
			}
			s := g.newNamed(1, &Ty{K: "struct", Pkg: 1, Fields: sf}, "S")
			t := g.newNamed(1, &Ty{K: "struct", Pkg: 1, Fields: []Field{{f.Name, str}, {"Street", str}, {"X", i}}}, "T")
			c := &ConvSpec{Name: fmt.Sprintf("C%d", start+len(out)), Custom: true, FuncNames: map[string]int{}}
			c.Methods = []*MethodSpec{{Name: "M0", Src: tNamed(s), Tgt: tNamed(t), Lines: append([]string{"autoMap Inner"}, lines...), Auto: []string{"Inner"}, Fields: map[string]*fieldSet{}}}
			out = append(out, c)
		}
	}
	return out
}

// corpusC18: zero checks on struct fields that cannot be compared with != (a slice / map / func inside): whatever the
// generator emits for them, it must not reach for reflect (today: known finding F-C01-4, the output does not compile).
func (g *pgen) corpusC18(start int) []*ConvSpec {
	var out []*ConvSpec
	str, i := tBasic(bkString), tBasic(bkInt)
	for _, inner := range [][]Field{{{"L", tSlice(i)}}, {{"M", tMap(str, i)}, {"N", i}}, {{"N", i}, {"S", str}}} {
		for _, line := range []string{"update:ignoreZeroValueField", "update:ignoreZeroValueField:struct"} {
			in := g.newNamed(1, &Ty{K: "struct", Pkg: 1, Fields: inner}, "S")
			s := g.newNamed(1, &Ty{K: "struct", Pkg: 1, Fields: []Field{{"A", tNamed(in)}, {"B", i}}}, "S")
			t := g.newNamed(1, &Ty{K: "struct", Pkg: 1, Fields: []Field{{"A", tNamed(in)}, {"B", i}}}, "T")
			c := &ConvSpec{Name: fmt.Sprintf("C%d", start+len(out))}
			c.Methods = []*MethodSpec{{Name: "M0", Src: tNamed(s), Tgt: tPtr(tNamed(t)), Update: true, Lines: []string{"update target", line}, Fields: map[string]*fieldSet{}}}
			out = append(out, c)
		}
	}
	return out
}

// corpusC07keys: the conversion of a map KEY is the only fallible step: its error is located at the source key (Key
// element) like an error of the value conversion, at the top level of a method, below a field and below a slice.
func (g *pgen) corpusC07keys(start int) []*ConvSpec {
	var out []*ConvSpec
	for i, wrap := range []string{"wrapErrorsUsing example.org/m/werr", "wrapErrors", ""} {
		nk := g.newNamed(1, tBasic(bkInt), "NK")
		nk2 := g.newNamed(1, tBasic(bkInt), "NK")
		// a function fails iff leaf(source) = index (mod 5): pad the function table so that the boundary key 42 fails and 0 succeeds
		for len(g.p.Funcs)%5 != 2 {
			d := &FuncDecl{Idx: len(g.p.Funcs), Pkg: 1, Tgt: tBasic(bkInt), Params: []FnParam{{Name: "src", T: tBasic(bkInt), Role: 0}}}
			d.Name = fmt.Sprintf("Pad%d", d.Idx)
			g.p.Funcs = append(g.p.Funcs, d)
		}
		f := &FuncDecl{Idx: len(g.p.Funcs), Pkg: 1, Tgt: tNamed(nk2), Err: true, Params: []FnParam{{Name: "src", T: tNamed(nk), Role: 0}}}
		f.Name = fmt.Sprintf("Ext%d", f.Idx)
		g.p.Funcs = append(g.p.Funcs, f)
		ms, mt := tMap(tNamed(nk), tBasic(bkString)), tMap(tNamed(nk2), tBasic(bkString))
		s := g.newNamed(1, &Ty{K: "struct", Pkg: 1, Fields: []Field{{"Codes", ms}, {"Rows", tSlice(ms)}, {"N", tBasic(bkInt)}}}, "S")
		t := g.newNamed(1, &Ty{K: "struct", Pkg: 1, Fields: []Field{{"Codes", mt}, {"Rows", tSlice(mt)}, {"N", tBasic(bkInt)}}}, "T")
		c := &ConvSpec{Name: fmt.Sprintf("C%d", start+i), Custom: true, FuncNames: map[string]int{}}
		if wrap != "" {
			c.Lines = append(c.Lines, wrap)
		}
		c.Lines = append(c.Lines, "extend "+f.Name)
		c.Extend = []ExtSpec{{Text: f.Name, Exact: f.Idx}}
		c.Methods = []*MethodSpec{
			{Name: "M0", Src: ms, Tgt: mt, Err: true, Fields: map[string]*fieldSet{}},
			{Name: "M1", Src: tNamed(s), Tgt: tNamed(t), Err: true, Fields: map[string]*fieldSet{}},
		}
		out = append(out, c)
	}
	// a fallible element conversion of an array that is filled into a struct field of slice type (known finding F-C02-1: the
	// slice is never made): the element conversion runs, and may fail, before the store panics
	for i, wrap := range []string{"wrapErrors", ""} {
		i64 := tBasic(bkInt64)
		f := &FuncDecl{Idx: len(g.p.Funcs), Pkg: 1, Tgt: tPtr(i64), Err: true, Params: []FnParam{{Name: "src", T: tPtr(i64), Role: 0}}}
		f.Name = fmt.Sprintf("Ext%d", f.Idx)
		g.p.Funcs = append(g.p.Funcs, f)
		s := g.newNamed(1, &Ty{K: "struct", Pkg: 1, Fields: []Field{{"Next", tArr(2, tPtr(i64))}}}, "S")
		t := g.newNamed(1, &Ty{K: "struct", Pkg: 1, Fields: []Field{{"Next", tSlice(tPtr(i64))}}}, "T")
		c := &ConvSpec{Name: fmt.Sprintf("C%d", start+len(out)+i*0), Custom: true, FuncNames: map[string]int{}}
		if wrap != "" {
			c.Lines = append(c.Lines, wrap)
		}
		c.Lines = append(c.Lines, "extend "+f.Name)
		c.Extend = []ExtSpec{{Text: f.Name, Exact: f.Idx}}
		c.Methods = []*MethodSpec{{Name: "M0", Src: tNamed(s), Tgt: tPtr(tNamed(t)), Err: true, Fields: map[string]*fieldSet{}}}
		out = append(out, c)
	}
	return out
}

// corpusC06: goverter:map F T | FUNC hands FUNC exactly the configured source field, also when that field has the type of
// a pointer to the enclosing struct (self-referential structs) inside a pointer-source method; only "map . T | FUNC" hands
// the enclosing pointer on (that form is outside the model).
func (g *pgen) corpusC06(start int) []*ConvSpec {
	var out []*ConvSpec
	str := tBasic(bkString)
	for _, srcPtr := range []bool{true, false} {
		node := g.newNamed(1, nil, "S")
		g.p.Named[node].Under = &Ty{K: "struct", Pkg: 1, Fields: []Field{{"Name", str}, {"Parent", tPtr(tNamed(node))}}}
		dto := g.newNamed(1, &Ty{K: "struct", Pkg: 1, Fields: []Field{{"Name", str}, {"ParentName", str}}}, "T")
		f := &FuncDecl{Idx: len(g.p.Funcs), Pkg: 1, Tgt: str, Params: []FnParam{{Name: "src", T: tPtr(tNamed(node)), Role: 0}}}
		f.Name = fmt.Sprintf("MapF%d", f.Idx)
		g.p.Funcs = append(g.p.Funcs, f)
		c := &ConvSpec{Name: fmt.Sprintf("C%d", start+len(out)), Custom: true, FuncNames: map[string]int{f.Name: f.Idx}}
		src, tgt := tNamed(node), tNamed(dto)
		if srcPtr {
			src, tgt = tPtr(src), tPtr(tgt)
		}
		c.Methods = []*MethodSpec{{Name: "M0", Src: src, Tgt: tgt, Lines: []string{"map Parent ParentName | " + f.Name}, Fields: map[string]*fieldSet{"ParentName": {Source: "Parent"}}}}
		out = append(out, c)
	}
	return out
}
