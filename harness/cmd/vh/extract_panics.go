package main

// extractor part: every explicit panic( call of the non-test sources (so that a new one breaks a
// lemma of props/C13.v), and whether builder.space guards against negative Repeat counts.

import (
	"fmt"
	"go/ast"
	"go/token"
	"os"
	"path/filepath"
	"sort"
	"strings"
)

func init() { extractParts = append(extractParts, extractPanics) }

func extractPanics(e *extractor) {
	var sites []string
	dirs := []string{".", "builder", "cli", "comments", "config", "config/parse", "enum", "generator", "method", "namer", "pkgload", "xtype"}
	for _, d := range dirs {
		ents, err := os.ReadDir(filepath.Join(e.repo, d))
		if err != nil {
			continue
		}
		for _, en := range ents {
			if en.IsDir() || !strings.HasSuffix(en.Name(), ".go") || strings.HasSuffix(en.Name(), "_test.go") {
				continue
			}
			rel := filepath.Join(d, en.Name())
			f := e.file(rel)
			if f == nil {
				continue
			}
			for _, decl := range f.Decls {
				fd, ok := decl.(*ast.FuncDecl)
				if !ok || fd.Body == nil {
					continue
				}
				ast.Inspect(fd.Body, func(n ast.Node) bool {
					call, ok := n.(*ast.CallExpr)
					if !ok {
						return true
					}
					if id, ok := call.Fun.(*ast.Ident); ok && id.Name == "panic" {
						sites = append(sites, rel+":"+fd.Name.Name)
					}
					return true
				})
			}
		}
	}
	sort.Strings(sites)
	var rows []string
	for _, s := range sites {
		rows = append(rows, " "+runes(s)+" (* "+s+" *)")
	}
	e.out.WriteString("\n(* every explicit panic( call site: file:function *)\n")
	fmt.Fprintf(&e.out, "Definition x_panic_sites : list rstr := [\n%s\n].\n", strings.Join(rows, ";\n"))
	// builder.space: does it clamp negative counts?
	clamps := false
	if f := e.file("builder/error.go"); f != nil {
		if fd := findFunc(f, "space"); fd != nil {
			ast.Inspect(fd.Body, func(n ast.Node) bool {
				if is, ok := n.(*ast.IfStmt); ok {
					if be, ok := is.Cond.(*ast.BinaryExpr); ok && be.Op == token.LSS {
						if lit, ok := be.Y.(*ast.BasicLit); ok && lit.Value == "0" && len(is.Body.List) == 1 {
							if as, ok := is.Body.List[0].(*ast.AssignStmt); ok && len(as.Rhs) == 1 {
								if l2, ok := as.Rhs[0].(*ast.BasicLit); ok && l2.Value == "0" {
									clamps = true
								}
							}
						}
					}
				}
				return true
			})
		}
	}
	fmt.Fprintf(&e.out, "(* builder/error.go space(): negative counts are clamped to 0 before strings.Repeat *)\nDefinition x_space_clamps : bool := %s.\n", coqBool(clamps))
}
