package main

// C19 stream A: comment groups, as delivered by go/parser for a doc comment,
// through the real parse.CommentToString / parse.SettingLines / parse.Command,
// versus the Gallina model (Comment.v). The Go-side oracle is the property text
// itself: "a line is a setting iff its trimmed text starts with goverter:, in
// source order, value = text after the first space".

import (
	"fmt"
	"go/ast"
	"go/parser"
	"go/token"
	"math/rand"
	"os"
	"path/filepath"
	"strings"

	"github.com/jmattheis/goverter/config/parse"
)

var c19Atoms = []string{
	"goverter:", "goverter:", "goverter:map A B", "goverter:converter", "goverter:variables",
	" ", "  ", "\t", " ", "x", "text", "goverter", ":", "*", " * ", "goverter:ignore  X ", "//", "/*",
	"\v", "\f", "G", "name Foo", " ", " ", "\u0085", "　", "goverter:extend a:B  c", "Goverter:x", "goverter :x",
	"é", "goverter:wrapErrors", "goverter:output:file ./a b.go",
}

func c19RandLine(r *rand.Rand, block bool) string {
	n := r.Intn(6)
	var sb strings.Builder
	for i := 0; i < n; i++ {
		sb.WriteString(c19Atoms[r.Intn(len(c19Atoms))])
		if block {
			switch r.Intn(8) {
			case 0:
				sb.WriteString("\n")
			case 1:
				sb.WriteString("\r\n")
			case 2:
				sb.WriteString("\n\n")
			}
		}
	}
	return sb.String()
}

type c19Comment struct {
	Block bool   `json:"block"`
	Body  string `json:"body"` // text after // or between /* */, as the parser delivers it
}

// c19Oracle: independent statement of the property on the parsed comments.
func c19Oracle(cs []c19Comment) []string {
	var out []string
	for _, c := range cs {
		var ls []string
		if c.Block {
			ls = strings.Split(c.Body, "\n")
		} else {
			ls = []string{c.Body}
		}
		for _, l := range ls {
			t := strings.TrimSpace(l)
			if strings.HasPrefix(t, "goverter:") {
				out = append(out, t[len("goverter:"):])
			}
		}
	}
	return out
}

func eqStrs(a, b []string) bool {
	if len(a) != len(b) {
		return false
	}
	for i := range a {
		if a[i] != b[i] {
			return false
		}
	}
	return true
}

// parse a doc comment through go/parser, returning the comment group of the decl.
func c19ParseDoc(src string) (*ast.CommentGroup, error) {
	fset := token.NewFileSet()
	f, err := parser.ParseFile(fset, "in.go", src, parser.ParseComments)
	if err != nil {
		return nil, err
	}
	gd := f.Decls[0].(*ast.GenDecl)
	return gd.Doc, nil
}

func c19Term(cs []c19Comment) string {
	var parts []string
	for _, c := range cs {
		if c.Block {
			parts = append(parts, "BlockC "+runes(c.Body))
		} else {
			parts = append(parts, "LineC "+runes(c.Body))
		}
	}
	return coqList(parts)
}

func strsTerm(ss []string) string {
	var parts []string
	for _, s := range ss {
		parts = append(parts, runes(s))
	}
	return coqList(parts)
}

func init() { streams["c19"] = runC19 }

func runC19(cfg runCfg) {
	rep := newReport("C19", cfg.seed, cfg.tier)
	rep.Rule = "random doc-comment groups (1-5 comments, line/block, ASCII+Unicode whitespace, CR, directive style) rendered to Go source, parsed by go/parser, fed to the real parse.CommentToString/SettingLines/Command; non-trivial = yields at least one setting line; distinct by (comment list) text"
	n := 3000
	if cfg.tier == "thorough" {
		n = 50000
	}
	if cfg.n > 0 {
		n = cfg.n
	}
	r := rand.New(rand.NewSource(cfg.seed))
	w := &shardWriter{dir: cfg.out, stem: "C19", max: 1000, rep: rep, off: cfg.oracleOnly,
		header: "From Coq Require Import List NArith.\nFrom GV Require Import Comment.\nImport ListNotations. Open Scope N_scope.",
		ctype:  "N * list comment * list (list N * list N)",
		trailer: `Definition bad (c : N * list comment * list (list N * list N)) : bool :=
  let '(_, g, obs) := c in
  negb (list_eqb (pair_eqb rstr_eqb rstr_eqb) (map command (setting_lines (comment_to_string g))) obs).
Definition M := Eval vm_compute in map (fun c => fst (fst c)) (filter bad cases). Print M.
`}
	casesF, _ := os.Create(filepath.Join(cfg.out, "cases.jsonl"))
	defer casesF.Close()
	id := 0
	// corpus first: F-C19-1 — a line longer than bufio.Scanner's 64 KiB token limit must not swallow later settings
	for _, ln := range []int{70000, 200000} {
		long := strings.Repeat("x", ln)
		src := "package p\n\n// goverter:before\n// " + long + "\n// goverter:after Y\ntype X int\n"
		doc, err := c19ParseDoc(src)
		if err != nil {
			continue
		}
		lines := parse.SettingLines(parse.CommentToString(doc))
		cs := []c19Comment{{false, " goverter:before"}, {false, " " + long}, {false, " goverter:after Y"}}
		want := c19Oracle(cs)
		rep.eval(fmt.Sprintf("long-%d", ln), true)
		rep.count("corpus-long-line")
		if !eqStrs(want, lines) {
			rep.violate(Violation{CaseID: fmt.Sprint(id), What: fmt.Sprintf("a %d-byte doc-comment line makes all following goverter: lines disappear silently", ln),
				Sig: "long-line-drops-settings", Replay: map[string]interface{}{"long_line_bytes": ln, "got": lines, "want": want}})
		}
		// not sent to Coq: List.rev is quadratic, and the model has no scanner limit by design (DESIGN App. B)
		fmt.Fprintf(casesF, "{\"id\":%d,\"replay\":{\"long_line_bytes\":%d}}\n", id, ln)
		id++
	}
	for i := 0; i < n; i++ {
		k := 1 + r.Intn(5)
		var src strings.Builder
		src.WriteString("package p\n\n")
		for j := 0; j < k; j++ {
			if r.Intn(3) == 0 {
				body := strings.ReplaceAll(c19RandLine(r, true), "*/", "* /")
				// a block comment must be followed by a newline to stay one group with the next comment
				src.WriteString("/*" + body + "*/\n")
			} else {
				body := c19RandLine(r, false)
				body = strings.ReplaceAll(body, "\n", "")
				src.WriteString("//" + body + "\n")
			}
		}
		src.WriteString("type X int\n")
		doc, err := c19ParseDoc(src.String())
		if err != nil || doc == nil {
			rep.count("unparsable-layout")
			continue
		}
		var cs []c19Comment
		for _, c := range doc.List {
			if strings.HasPrefix(c.Text, "//") {
				cs = append(cs, c19Comment{false, c.Text[2:]})
			} else {
				cs = append(cs, c19Comment{true, c.Text[2 : len(c.Text)-2]})
			}
		}
		lines := parse.SettingLines(parse.CommentToString(doc))
		var obs []string
		for _, l := range lines {
			a, b := parse.Command(l)
			obs = append(obs, "("+runes(a)+", "+runes(b)+")")
		}
		caseID := fmt.Sprintf("%d", id)
		want := c19Oracle(cs)
		key := fmt.Sprintf("%v", cs)
		rep.eval(key, len(lines) > 0)
		rep.count(fmt.Sprintf("comments=%d", len(cs)))
		rep.count(fmt.Sprintf("settings=%d", min(len(lines), 4)))
		if len(lines) > 0 {
			rep.sample(map[string]interface{}{"comments": cs, "setting_lines": lines})
		}
		if !eqStrs(want, lines) {
			rep.violate(Violation{CaseID: caseID, What: "setting lines differ from the prefix-filtered trimmed lines of the doc comment",
				Sig: "setting-lines-mismatch", Replay: map[string]interface{}{"source": src.String(), "got": lines, "want": want}})
		}
		for _, l := range lines {
			a, b := parse.Command(l)
			wa, wb := l, ""
			if i := strings.IndexByte(l, ' '); i >= 0 {
				wa, wb = l[:i], l[i+1:]
			}
			if a != wa || b != wb {
				rep.violate(Violation{CaseID: caseID, What: "command/value split is not at the first space", Sig: "command-split",
					Replay: map[string]interface{}{"line": l, "got": []string{a, b}, "want": []string{wa, wb}}})
			}
		}
		w.add(fmt.Sprintf("(%d, %s, %s)", id, c19Term(cs), coqList(obs)))
		fmt.Fprintf(casesF, "{\"id\":%d,\"replay\":{\"source\":%q}}\n", id, src.String())
		id++
	}
	w.flush()
	rep.write(cfg.out)
}
