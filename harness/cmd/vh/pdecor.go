package main

// Decoration of drawn converters with custom functions (extend by exact name and by pattern, map ... | FUNC,
// default FUNC, struct-method sources), context parameters, error results and error wrapping settings.

import (
	"fmt"
	"sort"
	"strings"
)

type pairPos struct {
	S, T  *Ty
	Depth int
}

// pairs lists the (source, target) type pairs a conversion from s to t visits.
func (g *pgen) pairs(s, t *Ty, depth int, seen map[string]bool, out *[]pairPos) {
	if depth > 6 {
		return
	}
	key := g.p.goType(s, 0) + "->" + g.p.goType(t, 0)
	if seen[key] {
		return
	}
	seen[key] = true
	su, tu := g.p.under(s), g.p.under(t)
	if su.K != "other" { // an interface-typed parameter would show its dynamic value to the function oracle
		*out = append(*out, pairPos{s, t, depth})
	}
	switch {
	case su.K == "ptr" && tu.K == "ptr":
		g.pairs(su.Elem, tu.Elem, depth+1, seen, out)
	case su.K == "ptr":
		g.pairs(su.Elem, t, depth+1, seen, out)
	case tu.K == "ptr":
		g.pairs(s, tu.Elem, depth+1, seen, out)
	case (su.K == "slice" || su.K == "arr") && (tu.K == "slice" || tu.K == "arr"):
		g.pairs(su.Elem, tu.Elem, depth+1, seen, out)
	case su.K == "map" && tu.K == "map":
		g.pairs(su.Key, tu.Key, depth+1, seen, out)
		g.pairs(su.Elem, tu.Elem, depth+1, seen, out)
	case su.K == "struct" && tu.K == "struct":
		for _, tf := range tu.Fields {
			for _, sf := range su.Fields {
				if sf.Name == tf.Name {
					g.pairs(sf.T, tf.T, depth+1, seen, out)
				}
			}
		}
	}
}

func (g *pgen) ctxType(c *ConvSpec) *Ty {
	if len(c.ctxPool) > 0 && g.r.Intn(3) != 0 {
		return c.ctxPool[g.r.Intn(len(c.ctxPool))]
	}
	k := bkInt
	if g.r.Intn(3) == 0 {
		k = bkString
	}
	t := tNamed(g.newNamed(g.pkg(), tBasic(k), "Ctx"))
	c.ctxPool = append(c.ctxPool, t)
	return t
}

func hasCtx(m *MethodSpec, t *Ty) bool {
	for _, c := range m.Ctx {
		if tyEq(c.T, t) {
			return true
		}
	}
	return false
}

// ctxName: a parameter name for a context; with the converter-level regex ^ctx in effect half of the
// names rely on it, the others are declared by a context line / function comment.
func (g *pgen) ctxName(c *ConvSpec, m *MethodSpec, forExtend bool, k int) (string, bool) {
	// the regex in effect: the converter's, or - for the method's own parameters and for its map ... | FUNC and default
	// FUNC functions, not for extend functions, which are parsed at converter level - the one written on the method
	regex := c.CtxRegex || (m != nil && m.CtxRegex && !forExtend)
	if regex && g.r.Intn(2) == 0 {
		return fmt.Sprintf("ctx%d", k), false
	}
	return fmt.Sprintf("kx%d", k), true
}

func (g *pgen) addMethodCtx(c *ConvSpec, m *MethodSpec, t *Ty) {
	if hasCtx(m, t) {
		return
	}
	name, byLine := g.ctxName(c, m, false, len(m.Ctx))
	m.Ctx = append(m.Ctx, CtxParam{Name: name, T: t})
	if byLine {
		m.Lines = append(m.Lines, "context "+name)
	}
}

// newFunc draws a custom function for (src -> tgt); src may be nil (no source parameter).
func (g *pgen) newFunc(c *ConvSpec, m *MethodSpec, prefix string, src, tgt *Ty, allowConv bool) *FuncDecl {
	f := &FuncDecl{Idx: len(g.p.Funcs), Pkg: 1, Tgt: tgt}
	f.Name = fmt.Sprintf("%s%d", prefix, f.Idx)
	nctx := 0
	switch x := g.r.Intn(10); {
	case x < 3:
		nctx = 1
	case x < 4:
		nctx = 2
	}
	var ctxs []FnParam
	for i := 0; i < nctx; i++ {
		t := g.ctxType(c)
		dup := false
		for _, e := range ctxs {
			if tyEq(e.T, t) {
				dup = true
			}
		}
		if dup {
			continue
		}
		name, byComment := g.ctxName(c, m, prefix != "MapF" && prefix != "Mk", i)
		ctxs = append(ctxs, FnParam{Name: name, T: t, Role: 1, ByComment: byComment})
		if m != nil && g.r.Intn(100) < 88 {
			g.addMethodCtx(c, m, t)
		}
	}
	f.Err = g.r.Intn(100) < 35
	if f.Err && m != nil && g.r.Intn(100) < 88 {
		m.Err = true
	}
	// parameter order: contexts before and after the source
	var ps []FnParam
	if allowConv && g.r.Intn(5) == 0 {
		f.Conv = c.Name
		ps = append(ps, FnParam{Name: "conv", T: tOther(0, 7), Role: 2})
	}
	split := 0
	if len(ctxs) > 0 {
		split = g.r.Intn(len(ctxs) + 1)
	}
	ps = append(ps, ctxs[:split]...)
	if src != nil {
		ps = append(ps, FnParam{Name: "src", T: src, Role: 0})
	}
	ps = append(ps, ctxs[split:]...)
	f.Params = ps
	// package q when nothing of p is mentioned
	if f.Conv == "" && g.r.Intn(4) == 0 && !g.refsP(src) && !g.refsP(tgt) {
		ok := true
		for _, a := range ctxs {
			if g.refsP(a.T) {
				ok = false
			}
		}
		if ok {
			f.Pkg = 2
		}
	}
	g.p.Funcs = append(g.p.Funcs, f)
	return f
}

func (g *pgen) funcRef(f *FuncDecl) string {
	if f.Pkg == 2 {
		return pkgPaths[2] + ":" + f.Name
	}
	return f.Name
}

func rootStruct(p *Program, t *Ty) *Ty {
	u := p.under(t)
	if u.K == "ptr" {
		u = p.under(u.Elem)
	}
	if u.K == "struct" {
		return u
	}
	return nil
}

// decorate adds custom functions, contexts and error results to a drawn converter.
func (g *pgen) decorate(c *ConvSpec) {
	w := g.weights
	if w.funcs == 0 || g.r.Intn(100) >= w.funcs {
		return
	}
	c.Custom = true
	c.FuncNames = map[string]int{}
	var pre []string
	if g.r.Intn(3) == 0 {
		c.CtxRegex = true
		pre = append(pre, "arg:context:regex ^ctx")
	}
	wu := 30
	if w.wrapUsing > 0 {
		wu = w.wrapUsing
	}
	switch x := g.r.Intn(100); {
	case x < wu:
		pre = append(pre, "wrapErrorsUsing example.org/m/werr")
	case x < wu+25:
		pre = append(pre, "wrapErrors")
	}
	// the wrap mode written on a method overrides the converter's (C12: method > converter > global)
	convWrap := ""
	if len(pre) > 0 && strings.HasPrefix(pre[len(pre)-1], "wrapErrors") {
		convWrap = pre[len(pre)-1]
	}
	for _, m := range c.Methods {
		if g.r.Intn(4) != 0 {
			continue
		}
		switch {
		case convWrap == "":
			m.Lines = append(m.Lines, []string{"wrapErrorsUsing example.org/m/werr", "wrapErrors"}[g.r.Intn(2)])
		case convWrap == "wrapErrors":
			m.Lines = append(m.Lines, []string{"wrapErrors no", "wrapErrors no", "wrapErrors no", "wrapErrorsUsing example.org/m/werr"}[g.r.Intn(4)])
		default:
			m.Lines = append(m.Lines, []string{"wrapErrorsUsing example.org/m/werr", "wrapErrors"}[g.r.Intn(2)])
		}
	}
	if !c.CtxRegex {
		for _, m := range c.Methods {
			if !m.Update && g.r.Intn(4) == 0 { // arg:context:regex written on the method only
				m.CtxRegex = true
				m.Lines = append(m.Lines, "arg:context:regex ^ctx")
			}
		}
	}
	var extLines []string
	underlying := g.r.Intn(100) < w.underlying
	if underlying {
		pre = append(pre, "useUnderlyingTypeMethods")
	}
	for _, m := range c.Methods {
		if m.Update {
			continue
		}
		// some methods simply get a context parameter and / or an error result nobody needs
		if g.r.Intn(8) == 0 {
			g.addMethodCtx(c, m, g.ctxType(c))
		}
		if g.r.Intn(10) == 0 {
			m.Err = true
		}
		var ps []pairPos
		g.pairs(m.Src, m.Tgt, 0, map[string]bool{}, &ps)
		// extend functions
		n := []int{0, 1, 1, 1, 2}[g.r.Intn(5)]
		if g.r.Intn(100) < w.noExtend {
			n = 0
		}
		for i := 0; i < n && len(ps) > 0; i++ {
			pp := ps[g.r.Intn(len(ps))]
			if pp.Depth == 0 && g.r.Intn(4) != 0 && len(ps) > 1 {
				pp = ps[1+g.r.Intn(len(ps)-1)]
			}
			if g.r.Intn(5) == 0 {
				// a pattern selecting a group of functions, one of which may not be a conversion function
				c.patGroups++
				prefix := fmt.Sprintf("Pat%sG%dX", c.Name, c.patGroups)
				var cands []*FuncDecl
				cands = append(cands, g.newFunc(c, m, prefix, pp.S, pp.T, true))
				if g.r.Intn(2) == 0 && len(ps) > 1 {
					p2 := ps[g.r.Intn(len(ps))]
					cands = append(cands, g.newFunc(c, m, prefix, p2.S, p2.T, true))
				}
				if g.r.Intn(3) == 0 { // two sources: not a conversion function, silently skipped by the pattern
					bad := g.newFunc(c, nil, prefix, pp.S, pp.T, false)
					bad.Params = append(bad.Params, FnParam{Name: "more", T: tBasic(bkInt), Role: 0})
					bad.Pkg = cands[0].Pkg
					cands = append(cands, bad)
				}
				for _, f := range cands {
					f.Pkg = cands[0].Pkg
					if f.Pkg == 2 && (f.Conv != "" || g.fnRefsP(f)) {
						for _, x := range cands {
							x.Pkg = 1
						}
					}
				}
				sort.Slice(cands, func(a, b int) bool { return cands[a].Name < cands[b].Name })
				es := ExtSpec{Exact: -1}
				for _, f := range cands {
					es.Cands = append(es.Cands, f.Idx)
				}
				es.Text = prefix + ".*"
				if g.r.Intn(3) == 0 {
					// top-level alternation of the exact names; a decoy whose name starts with the first alternative (and one whose
					// name ends with the last) for the same pair sorts after it: the pattern must match whole names only
					var names []string
					for _, f := range cands {
						names = append(names, f.Name)
					}
					es.Text = strings.Join(names, "|")
					d1 := g.newFunc(c, m, names[0]+"D", pp.S, pp.T, true)
					d1.Pkg = cands[0].Pkg
					d2 := g.newFunc(c, m, "Zz", pp.S, pp.T, true)
					d2.Name = "Zz" + names[len(names)-1]
					d2.Pkg = cands[0].Pkg
					if cands[0].Pkg == 2 && (d1.Conv != "" || d2.Conv != "" || g.fnRefsP(d1) || g.fnRefsP(d2)) {
						for _, x := range append(cands, d1, d2) {
							x.Pkg = 1
						}
					}
				}
				if cands[0].Pkg == 2 {
					es.Text = pkgPaths[2] + ":" + es.Text
				}
				// the pattern also sees the functions of earlier groups of this converter in that package
				c.Extend = append(c.Extend, es)
				extLines = append(extLines, "extend "+es.Text)
			} else {
				f := g.newFunc(c, m, "Ext", pp.S, pp.T, true)
				if f.Pkg == 1 && g.r.Intn(8) == 0 {
					// unexported: not usable from another output package. (goverter judges accessibility of an extend function
					// against the output package known when the line is parsed; the harness never writes output:package before
					// extend, so at that moment it is still unknown and an unexported function is refused even when the output
					// finally lands in package p itself - the model follows the code, see DESIGN 11.4.)
					f.Name = "ext" + f.Name[3:]
					f.NoAccess = true
				}
				c.Extend = append(c.Extend, ExtSpec{Text: g.funcRef(f), Exact: f.Idx})
				extLines = append(extLines, "extend "+g.funcRef(f))
			}
		}
		// a function on the UNDERLYING types of a pair of named types, used through useUnderlyingTypeMethods
		if underlying && len(ps) > 0 {
			for try := 0; try < 6; try++ {
				pp := ps[g.r.Intn(len(ps))]
				if pp.S.K != "named" && pp.T.K != "named" {
					continue
				}
				us, ut := pp.S, pp.T
				switch g.r.Intn(3) {
				case 0:
					us = g.p.under(pp.S)
				case 1:
					ut = g.p.under(pp.T)
				default:
					us, ut = g.p.under(pp.S), g.p.under(pp.T)
				}
				if (us == pp.S && ut == pp.T) || us.K == "struct" || ut.K == "struct" {
					continue
				}
				mm := m
				if g.r.Intn(3) == 0 {
					mm = nil // contexts / error result of the function are not handed to the method: generation must fail
				}
				f := g.newFunc(c, mm, "Und", us, ut, true)
				c.Extend = append(c.Extend, ExtSpec{Text: g.funcRef(f), Exact: f.Idx})
				extLines = append(extLines, "extend "+g.funcRef(f))
				break
			}
		}
		ts, ss := rootStruct(g.p, m.Tgt), rootStruct(g.p, m.Src)
		// map ... | FUNC
		if ts != nil && len(ts.Fields) > 0 && g.r.Intn(100) < 35 {
			tf := ts.Fields[g.r.Intn(len(ts.Fields))]
			if exportedName(tf.Name) && m.Fields[tf.Name] == nil {
				var f *FuncDecl
				line := ""
				switch x := g.r.Intn(10); {
				case x < 3:
					f = g.newFunc(c, m, "MapF", nil, tf.T, true)
					line = fmt.Sprintf("map %s | %s", tf.Name, g.funcRef(f))
				case x < 5 && g.p.under(m.Src).K != "ptr":
					f = g.newFunc(c, m, "MapF", m.Src, tf.T, true)
					line = fmt.Sprintf("map . %s | %s", tf.Name, g.funcRef(f))
					m.Fields[tf.Name] = &fieldSet{Source: "."}
				default:
					if ss != nil && len(ss.Fields) > 0 {
						sf := ss.Fields[g.r.Intn(len(ss.Fields))]
						for _, x := range ss.Fields {
							if x.Name == tf.Name {
								sf = x
							}
						}
						if exportedName(sf.Name) || c.SamePkg {
							st := sf.T
							if g.r.Intn(12) == 0 {
								st = tPtr(sf.T) // deliberately not assignable
							}
							f = g.newFunc(c, m, "MapF", st, tf.T, true)
							if sf.Name == tf.Name && g.r.Intn(2) == 0 {
								line = fmt.Sprintf("map %s | %s", tf.Name, g.funcRef(f))
							} else {
								line = fmt.Sprintf("map %s %s | %s", sf.Name, tf.Name, g.funcRef(f))
							}
							m.Fields[tf.Name] = &fieldSet{Source: sf.Name}
						}
					}
				}
				if f != nil {
					c.FuncNames[g.funcRef(f)] = f.Idx
					m.Lines = append(m.Lines, line)
					if m.Fields[tf.Name] == nil {
						m.Fields[tf.Name] = &fieldSet{}
					}
				}
			}
		}
		// default FUNC
		if ts != nil && g.r.Intn(100) < w.defaults {
			if w.defaults > 50 { // pointer-depth variations of the method itself
				if g.p.under(m.Tgt).K != "ptr" && g.r.Intn(100) < 50 {
					m.Tgt = tPtr(m.Tgt)
				}
				if g.p.under(m.Src).K != "ptr" && g.r.Intn(100) < 50 {
					m.Src = tPtr(m.Src)
				}
			}
			rt := m.Tgt
			tu := g.p.under(m.Tgt)
			if tu.K == "ptr" && g.r.Intn(2) == 0 {
				rt = tu.Elem // value result for a pointer target
			}
			var src *Ty
			if g.r.Intn(2) == 0 {
				src = m.Src
			}
			f := g.newFunc(c, m, "Mk", src, rt, true)
			c.FuncNames[g.funcRef(f)] = f.Idx
			m.Lines = append(m.Lines, "default "+g.funcRef(f))
			if g.r.Intn(100) < 55 {
				m.Lines = append(m.Lines, "default:update"+[]string{"", " yes"}[g.r.Intn(2)])
				if g.r.Intn(100) < 60 { // applied on top of FUNC's result: zero-valued source fields may be skipped
					m.Lines = append(m.Lines, []string{"update:ignoreZeroValueField", "update:ignoreZeroValueField:basic", "update:ignoreZeroValueField:struct", "update:ignoreZeroValueField:nillable"}[g.r.Intn(4)])
				}
			}
		}
		// a method of the source struct as field source
		if ts != nil && ss != nil && g.r.Intn(100) < w.smeth {
			recv := m.Src
			if g.p.under(recv).K == "ptr" {
				recv = g.p.under(recv).Elem
			}
			if recv.K == "named" && g.p.Named[recv.ID].Under != ts {
				f := g.newFunc(c, m, "Calc", nil, tBasic([]int{bkInt, bkString}[g.r.Intn(2)]), false)
				f.Recv = recv
				f.Pkg = g.p.Named[recv.ID].Pkg
				for i := range f.Params { // struct methods: every parameter is a context (regex .*)
					f.Params[i].ByComment = false
				}
				if f.Pkg == 2 && g.fnRefsP(f) { // q cannot mention p: keep the method context-free
					f.Params = nil
				}
				fieldName := f.Name
				if g.r.Intn(3) == 0 {
					fieldName = "FromCalc"
					m.Lines = append(m.Lines, fmt.Sprintf("map %s %s", f.Name, fieldName))
					m.Fields[fieldName] = &fieldSet{Source: f.Name}
				}
				// a source field differing from the method only in capitalisation (matchIgnoreCase: the exact match wins;
				// a target name that matches neither exactly is ambiguous)
				if fieldName == f.Name && g.r.Intn(100) < 20+w.smeth/2 && g.p.Named[recv.ID].Under.K == "struct" {
					su := g.p.Named[recv.ID].Under
					su.Fields = append(su.Fields, Field{strings.ToUpper(f.Name), f.Tgt})
					if g.r.Intn(4) == 0 {
						fieldName = "C" + strings.ToUpper(f.Name[1:2]) + f.Name[2:]
					}
					if g.r.Intn(4) != 0 {
						m.Lines = append(m.Lines, "matchIgnoreCase")
					}
				}
				if fieldName == f.Name && g.r.Intn(100) < 50 { // the method's result goes through a map ... | FUNC
					ff := g.newFunc(c, m, "MapF", f.Tgt, f.Tgt, true)
					c.FuncNames[g.funcRef(ff)] = ff.Idx
					fieldName = "Via" + f.Name
					m.Lines = append(m.Lines, fmt.Sprintf("map %s %s | %s", f.Name, fieldName, g.funcRef(ff)))
					m.Fields[fieldName] = &fieldSet{Source: f.Name}
				}
				ts.Fields = append(ts.Fields, Field{fieldName, f.Tgt})
			}
		}
	}
	for _, m := range c.Methods {
		m.CtxFirst = g.r.Intn(2) == 0
	}
	c.Lines = append(append(pre, extLines...), c.Lines...)
}

func (g *pgen) fnRefsP(f *FuncDecl) bool {
	if g.refsP(f.Tgt) {
		return true
	}
	for _, a := range f.Params {
		if a.Role != 2 && g.refsP(a.T) {
			return true
		}
	}
	return false
}

var _ = strings.Join
