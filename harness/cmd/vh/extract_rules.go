package main

// extractor part: generator.BuildSteps order, the Matches predicate of every builder,
// isEnum, findUnderlyingExtendMapping and shouldCheckAgainstZero, translated from the
// Go AST to Gallina. Accepted subset: &&, ||, !, ==, !=, selector chains on
// source/target (s/t), ctx.Conf.*, a closed list of calls, if/return chains, boolean
// switch, tuple returns, one tuple := call. Anything else => the fact is MISSING.

import (
	"fmt"
	"go/ast"
	"go/token"
	"strings"
)

func init() { extractParts = append(extractParts, extractRules) }

var ruleIDs = map[string]int{"UseUnderlyingTypeMethods": 0, "SkipCopy": 1, "Enum": 2, "BasicTargetPointerRule": 3, "Pointer": 4,
	"SourcePointer": 5, "TargetPointer": 6, "Basic": 7, "Struct": 8, "List": 9, "Map": 10}

type rx struct{ vars map[string]string } // local boolean variables bound by tuple assignment

func (r *rx) tyExpr(e ast.Expr) (string, bool) { // expression denoting a type
	switch x := e.(type) {
	case *ast.Ident:
		switch x.Name {
		case "source", "s":
			return "s", true
		case "target", "t":
			return "t", true
		}
	case *ast.SelectorExpr:
		base, ok := r.tyExpr(x.X)
		if !ok {
			return "", false
		}
		switch x.Sel.Name {
		case "PointerInner", "ListInner", "MapKey", "MapValue", "BasicType", "String", "T", "NamedType":
			if x.Sel.Name == "NamedType" {
				return base, true
			}
			return fmt.Sprintf("(f_%s e %s)", x.Sel.Name, base), true
		}
	case *ast.CallExpr:
		if s, ok := x.Fun.(*ast.SelectorExpr); ok && len(x.Args) == 0 && s.Sel.Name == "Underlying" {
			base, ok := r.tyExpr(s.X)
			if ok {
				return fmt.Sprintf("(under e %s)", base), true
			}
		}
	}
	return "", false
}

func (r *rx) expr(e ast.Expr) (string, bool) {
	switch x := e.(type) {
	case *ast.ParenExpr:
		return r.expr(x.X)
	case *ast.UnaryExpr:
		if x.Op == token.NOT {
			a, ok := r.expr(x.X)
			return "(negb " + a + ")", ok
		}
	case *ast.BinaryExpr:
		switch x.Op {
		case token.LAND, token.LOR:
			a, ok1 := r.expr(x.X)
			b, ok2 := r.expr(x.Y)
			op := " && "
			if x.Op == token.LOR {
				op = " || "
			}
			return "(" + a + op + b + ")", ok1 && ok2
		case token.EQL, token.NEQ:
			a, ok1 := r.valExpr(x.X)
			b, ok2 := r.valExpr(x.Y)
			s := "(eqv " + a + " " + b + ")"
			if x.Op == token.NEQ {
				s = "(negb " + s + ")"
			}
			return s, ok1 && ok2
		}
		return "", false
	case *ast.Ident:
		switch x.Name {
		case "true", "false":
			return x.Name, true
		case "isUpdate":
			return "is_update", true
		case "call":
			return "is_call", true
		}
		if v, ok := r.vars[x.Name]; ok {
			return v, true
		}
		return "", false
	case *ast.SelectorExpr:
		// boolean flag of a type
		if base, ok := r.tyExpr(x.X); ok {
			switch x.Sel.Name {
			case "Basic", "Named", "Pointer", "Struct", "List", "ListFixed", "Map", "Interface", "Signature", "Chan", "Func":
				return fmt.Sprintf("(f_%s e %s)", x.Sel.Name, base), true
			}
			return "", false
		}
		// source.Enum(&ctx.Conf.Enum).OK
		if x.Sel.Name == "OK" {
			if c, ok := x.X.(*ast.CallExpr); ok {
				if s, ok := c.Fun.(*ast.SelectorExpr); ok && s.Sel.Name == "Enum" {
					if base, ok := r.tyExpr(s.X); ok {
						return fmt.Sprintf("(enum_ok e conf %s)", base), true
					}
				}
			}
			return "", false
		}
		// ctx.Conf.X , ctx.Conf.Enum.Enabled
		if inner, ok := x.X.(*ast.SelectorExpr); ok {
			if id, ok := inner.X.(*ast.Ident); ok && id.Name == "ctx" && inner.Sel.Name == "Conf" {
				return "(cc_" + x.Sel.Name + " conf)", true
			}
			if in2, ok := inner.X.(*ast.SelectorExpr); ok {
				if id, ok := in2.X.(*ast.Ident); ok && id.Name == "ctx" && in2.Sel.Name == "Conf" {
					return "(cc_" + inner.Sel.Name + "_" + x.Sel.Name + " conf)", true
				}
			}
		}
		return "", false
	case *ast.CallExpr:
		if id, ok := x.Fun.(*ast.Ident); ok && id.Name == "isEnum" && len(x.Args) == 3 {
			a, ok1 := r.tyExpr(x.Args[1])
			b, ok2 := r.tyExpr(x.Args[2])
			return fmt.Sprintf("(x_isEnum e conf %s %s)", a, b), ok1 && ok2
		}
		if s, ok := x.Fun.(*ast.SelectorExpr); ok {
			if id, ok := s.X.(*ast.Ident); ok && id.Name == "types" && s.Sel.Name == "Identical" && len(x.Args) == 2 {
				a, ok1 := r.tyExpr(x.Args[0])
				b, ok2 := r.tyExpr(x.Args[1])
				return fmt.Sprintf("(ty_identical %s %s)", a, b), ok1 && ok2
			}
			if id, ok := s.X.(*ast.Ident); ok && id.Name == "ctx" && s.Sel.Name == "HasMethod" && len(x.Args) == 3 {
				a, ok1 := r.tyExpr(x.Args[1])
				b, ok2 := r.tyExpr(x.Args[2])
				return fmt.Sprintf("(hm %s %s)", a, b), ok1 && ok2
			}
		}
		return "", false
	}
	return "", false
}

// valExpr: operand of == / != (a type, a kind, or a boolean)
func (r *rx) valExpr(e ast.Expr) (string, bool) {
	if c, ok := e.(*ast.CallExpr); ok {
		if s, ok := c.Fun.(*ast.SelectorExpr); ok && s.Sel.Name == "Kind" && len(c.Args) == 0 {
			if base, ok := r.tyExpr(s.X); ok {
				return fmt.Sprintf("(m_Kind e %s)", base), true
			}
		}
	}
	if t, ok := r.tyExpr(e); ok {
		return t, true
	}
	return r.expr(e)
}

func (r *rx) ret(results []ast.Expr) (string, bool) {
	var parts []string
	for _, x := range results {
		s, ok := r.expr(x)
		if !ok {
			return "", false
		}
		parts = append(parts, s)
	}
	if len(parts) == 1 {
		return parts[0], true
	}
	return "(" + strings.Join(parts, ", ") + ")", len(parts) > 0
}

// stmts translates a statement list; cont is the translation of what follows when control
// falls off the end of the list ("" = falling off is not allowed).
func (r *rx) stmts(list []ast.Stmt, cont string) (string, bool) {
	if len(list) == 0 {
		return cont, cont != ""
	}
	switch st := list[0].(type) {
	case *ast.ReturnStmt:
		return r.ret(st.Results)
	case *ast.IfStmt:
		if st.Init != nil || st.Else != nil {
			return "", false
		}
		c, ok := r.expr(st.Cond)
		if !ok {
			return "", false
		}
		el, ok := r.stmts(list[1:], cont)
		if !ok {
			return "", false
		}
		th, ok := r.stmts(st.Body.List, el)
		if !ok {
			return "", false
		}
		return fmt.Sprintf("(if %s then %s else %s)", c, th, el), true
	case *ast.AssignStmt: // a, b := findUnderlyingExtendMapping(ctx, source, target)
		if st.Tok != token.DEFINE || len(st.Lhs) != 2 || len(st.Rhs) != 1 {
			return "", false
		}
		call, ok := st.Rhs[0].(*ast.CallExpr)
		if !ok {
			return "", false
		}
		id, ok := call.Fun.(*ast.Ident)
		if !ok || id.Name != "findUnderlyingExtendMapping" || len(call.Args) != 3 {
			return "", false
		}
		a, ok1 := r.tyExpr(call.Args[1])
		b, ok2 := r.tyExpr(call.Args[2])
		if !ok1 || !ok2 {
			return "", false
		}
		n1, n2 := st.Lhs[0].(*ast.Ident).Name, st.Lhs[1].(*ast.Ident).Name
		r.vars[n1], r.vars[n2] = "v_"+n1, "v_"+n2
		rest, ok := r.stmts(list[1:], cont)
		if !ok {
			return "", false
		}
		return fmt.Sprintf("(let '(v_%s, v_%s) := x_findUnderlyingExtendMapping e hm conf %s %s in %s)", n1, n2, a, b, rest), true
	case *ast.SwitchStmt:
		if st.Tag != nil || st.Init != nil {
			return "", false
		}
		out, closeP, def := "", "", ""
		for _, cc := range st.Body.List {
			c := cc.(*ast.CaseClause)
			b, ok := r.stmts(c.Body, "")
			if !ok {
				return "", false
			}
			if c.List == nil {
				def = b
				continue
			}
			var conds []string
			for _, ce := range c.List {
				cond, ok := r.expr(ce)
				if !ok {
					return "", false
				}
				conds = append(conds, cond)
			}
			out += fmt.Sprintf("(if %s then %s else ", strings.Join(conds, " || "), b)
			closeP += ")"
		}
		if def == "" {
			return "", false
		}
		return out + def + closeP, true
	}
	return "", false
}

func extractRules(e *extractor) {
	e.out.WriteString("\n(* generator/generate.go BuildSteps: rule ids in matching order\n   0 UseUnderlyingTypeMethods 1 SkipCopy 2 Enum 3 BasicTargetPointerRule 4 Pointer 5 SourcePointer 6 TargetPointer 7 Basic 8 Struct 9 List 10 Map *)\n")
	found := false
	if f := e.file("generator/generate.go"); f != nil {
		for _, d := range f.Decls {
			g, ok := d.(*ast.GenDecl)
			if !ok {
				continue
			}
			for _, sp := range g.Specs {
				vs, ok := sp.(*ast.ValueSpec)
				if !ok || len(vs.Names) != 1 || vs.Names[0].Name != "BuildSteps" || len(vs.Values) != 1 {
					continue
				}
				cl, ok := vs.Values[0].(*ast.CompositeLit)
				if !ok {
					continue
				}
				var ids []string
				okAll := true
				for _, el := range cl.Elts {
					u, ok := el.(*ast.UnaryExpr)
					if !ok {
						okAll = false
						break
					}
					c, ok := u.X.(*ast.CompositeLit)
					if !ok {
						okAll = false
						break
					}
					s, ok := c.Type.(*ast.SelectorExpr)
					if !ok {
						okAll = false
						break
					}
					id, ok := ruleIDs[s.Sel.Name]
					if !ok {
						okAll = false
						break
					}
					ids = append(ids, fmt.Sprint(id))
				}
				if okAll {
					fmt.Fprintf(&e.out, "Definition x_build_steps : list N := [%s].\n", strings.Join(ids, "; "))
					found = true
				}
			}
		}
	}
	if !found {
		e.errs = append(e.errs, "generator.BuildSteps not found or outside the subset")
		e.out.WriteString("(* MISSING: x_build_steps *)\n")
	}
	type fnSite struct{ file, name, recv, coq, params, rtype string }
	sites := []fnSite{
		{"builder/enum.go", "isEnum", "", "x_isEnum", "(e : env) (conf : mconf) (s t : ty)", "bool"},
		{"builder/underlying.go", "findUnderlyingExtendMapping", "", "x_findUnderlyingExtendMapping", "(e : env) (hm : ty -> ty -> bool) (conf : mconf) (s t : ty)", "bool * bool"},
		{"builder/underlying.go", "Matches", "UseUnderlyingTypeMethods", "x_matches_0", "", ""},
		{"builder/skipcopy.go", "Matches", "SkipCopy", "x_matches_1", "", ""},
		{"builder/enum.go", "Matches", "Enum", "x_matches_2", "", ""},
		{"builder/basic.go", "Matches", "BasicTargetPointerRule", "x_matches_3", "", ""},
		{"builder/pointer.go", "Matches", "Pointer", "x_matches_4", "", ""},
		{"builder/pointer.go", "Matches", "SourcePointer", "x_matches_5", "", ""},
		{"builder/pointer.go", "Matches", "TargetPointer", "x_matches_6", "", ""},
		{"builder/basic.go", "Matches", "Basic", "x_matches_7", "", ""},
		{"builder/struct.go", "Matches", "Struct", "x_matches_8", "", ""},
		{"builder/list.go", "Matches", "List", "x_matches_9", "", ""},
		{"builder/map.go", "Matches", "Map", "x_matches_10", "", ""},
		{"builder/struct.go", "shouldCheckAgainstZero", "", "x_shouldCheckAgainstZero", "(e : env) (conf : mconf) (s t : ty) (is_update is_call : bool)", "bool"},
	}
	e.out.WriteString("\n(* builder/*.go predicates *)\n")
	for _, s := range sites {
		params, rtype := s.params, s.rtype
		if params == "" {
			params, rtype = "(e : env) (hm : ty -> ty -> bool) (conf : mconf) (s t : ty)", "bool"
		}
		body, ok := "", false
		if f := e.file(s.file); f != nil {
			for _, d := range f.Decls {
				fn, isFn := d.(*ast.FuncDecl)
				if !isFn || fn.Name.Name != s.name || fn.Body == nil {
					continue
				}
				recv := ""
				if fn.Recv != nil && len(fn.Recv.List) == 1 {
					if st, ok := fn.Recv.List[0].Type.(*ast.StarExpr); ok {
						if id, ok := st.X.(*ast.Ident); ok {
							recv = id.Name
						}
					}
				}
				if recv != s.recv {
					continue
				}
				// parameter names: (ctx, source, target) possibly "_"
				r := &rx{vars: map[string]string{}}
				body, ok = r.stmts(fn.Body.List, "")
			}
		}
		if !ok {
			e.errs = append(e.errs, fmt.Sprintf("%s %s.%s not found or outside the translatable subset", s.file, s.recv, s.name))
			fmt.Fprintf(&e.out, "(* MISSING: %s *)\n", s.coq)
			continue
		}
		fmt.Fprintf(&e.out, "Definition %s %s : %s := %s.\n", s.coq, params, rtype, body)
	}
	e.out.WriteString("Definition x_matches (rule : N) := match rule with 0 => x_matches_0 | 1 => x_matches_1 | 2 => x_matches_2 | 3 => x_matches_3 | 4 => x_matches_4 | 5 => x_matches_5 | 6 => x_matches_6 | 7 => x_matches_7 | 8 => x_matches_8 | 9 => x_matches_9 | _ => x_matches_10 end.\n")
}
