package main

// extractor part: the identifier literals of xtype.Type.asID for the kinds whose base name is a Go keyword
// (channels, maps): what is returned with and without keyword escaping.

import (
	"fmt"
	"go/ast"
	"go/token"
	"go/types"
	"strconv"
	"strings"
)

func init() { extractParts = append(extractParts, extractIDs) }

func extractIDs(e *extractor) {
	var lits []string
	if f := e.file("xtype/type.go"); f != nil {
		for _, d := range f.Decls {
			fd, ok := d.(*ast.FuncDecl)
			if !ok || fd.Name.Name != "asID" || fd.Body == nil {
				continue
			}
			ast.Inspect(fd.Body, func(n ast.Node) bool {
				is, ok := n.(*ast.IfStmt)
				if !ok {
					return true
				}
				se, ok := is.Cond.(*ast.SelectorExpr)
				if !ok || se.Sel.Name != "Chan" {
					return true
				}
				ast.Inspect(is.Body, func(m ast.Node) bool {
					if bl, ok := m.(*ast.BasicLit); ok && bl.Kind == token.STRING {
						if s, err := strconv.Unquote(bl.Value); err == nil {
							lits = append(lits, s)
						}
					}
					return true
				})
				return false
			})
		}
	}
	var rs []string
	for _, l := range lits {
		rs = append(rs, runes(l))
	}
	fmt.Fprintf(&e.out, "\n(* xtype/type.go asID: identifiers returned for channel types (escaped first) *)\nDefinition x_chan_ids : list rstr := %s. (* %q *)\n", coqList(rs), lits)
}

func init() { extractParts = append(extractParts, extractHasMethod) }

// extractHasMethod: the expression generator.hasMethod returns (the predicate behind useUnderlyingTypeMethods):
// rendered as the selector chains of its calls joined by the operators, e.g. "extend.Has||lookup.Has".
func extractHasMethod(e *extractor) {
	expr := ""
	if f := e.file("generator/generator.go"); f != nil {
		for _, d := range f.Decls {
			fd, ok := d.(*ast.FuncDecl)
			if !ok || fd.Name.Name != "hasMethod" || fd.Body == nil {
				continue
			}
			nret, nstmt := 0, len(fd.Body.List)
			for _, st := range fd.Body.List {
				if rs, ok := st.(*ast.ReturnStmt); ok && len(rs.Results) == 1 {
					nret++
					expr = renderCalls(rs.Results[0])
				}
			}
			if nret != 1 || nstmt != 2 { // signature := ...; return ...
				expr = fmt.Sprintf("unexpected shape (%d statements, %d returns): %s", nstmt, nret, expr)
			}
		}
	}
	fmt.Fprintf(&e.out, "(* generator.hasMethod: what it returns *)\nDefinition x_hasmethod_expr : rstr := %s. (* %q *)\n", runes(expr), expr)
}

func renderCalls(x ast.Expr) string {
	switch v := x.(type) {
	case *ast.BinaryExpr:
		return renderCalls(v.X) + v.Op.String() + renderCalls(v.Y)
	case *ast.ParenExpr:
		return "(" + renderCalls(v.X) + ")"
	case *ast.CallExpr:
		return renderCalls(v.Fun)
	case *ast.SelectorExpr:
		if inner, ok := v.X.(*ast.SelectorExpr); ok {
			return inner.Sel.Name + "." + v.Sel.Name
		}
		return v.Sel.Name
	case *ast.UnaryExpr:
		return v.Op.String() + renderCalls(v.X)
	case *ast.Ident:
		return v.Name
	}
	return "?"
}

func init() { extractParts = append(extractParts, extractZeroCalls) }

// callSites: every call of the package-level function fn in the builder sources, arguments as written.
func callSites(e *extractor, fn string) (rows []string, shown []string) {
	for _, name := range []string{"builder/struct.go", "builder/pointer.go", "builder/list.go", "builder/map.go", "builder/default.go", "builder/underlying.go", "builder/basic.go", "builder/skipcopy.go", "builder/enum.go"} {
		f := e.file(name)
		if f == nil {
			continue
		}
		ast.Inspect(f, func(n ast.Node) bool {
			call, ok := n.(*ast.CallExpr)
			if !ok {
				return true
			}
			id, ok := call.Fun.(*ast.Ident)
			if !ok || id.Name != fn {
				return true
			}
			var args []string
			var plain []string
			for _, a := range call.Args {
				args = append(args, runes(types.ExprString(a)))
				plain = append(plain, types.ExprString(a))
			}
			rows = append(rows, " "+coqList(args))
			shown = append(shown, "("+strings.Join(plain, ", ")+")")
			return true
		})
	}
	return rows, shown
}

// extractZeroCalls: every call of builder.shouldCheckAgainstZero with its argument expressions as written (the category
// of the zero check is the one of the SOURCE field: the model passes (source, target) in this order, so must the code),
// and every call of mapField (the error path it gets is the path of the FIELD, not of the enclosing struct).
func extractZeroCalls(e *extractor) {
	rows, shown := callSites(e, "shouldCheckAgainstZero")
	fmt.Fprintf(&e.out, "\n(* calls of builder.shouldCheckAgainstZero, arguments as written: %s *)\nDefinition x_zero_check_calls : list (list rstr) := [\n%s\n].\n", strings.Join(shown, " "), strings.Join(rows, ";\n"))
	rows, shown = callSites(e, "mapField")
	fmt.Fprintf(&e.out, "(* calls of builder.mapField, arguments as written: %s *)\nDefinition x_mapfield_calls : list (list rstr) := [\n%s\n].\n", strings.Join(shown, " "), strings.Join(rows, ";\n"))
}
