package main

// extractor part: the identifier literals of xtype.Type.asID for the kinds whose base name is a Go keyword
// (channels, maps): what is returned with and without keyword escaping.

import (
	"fmt"
	"go/ast"
	"go/token"
	"strconv"
)

func init() { extractParts = append(extractParts, extractIDs) }

func extractIDs(e *extractor) {
	var lits []string
	if f := e.file("xtype/type.go"); f != nil {
		for _, d := range f.Decls {
			fd, ok := d.(*ast.FuncDecl)
			if !ok || fd.Name.Name != "asID" || fd.Body == nil {
				continue
			}
			ast.Inspect(fd.Body, func(n ast.Node) bool {
				is, ok := n.(*ast.IfStmt)
				if !ok {
					return true
				}
				se, ok := is.Cond.(*ast.SelectorExpr)
				if !ok || se.Sel.Name != "Chan" {
					return true
				}
				ast.Inspect(is.Body, func(m ast.Node) bool {
					if bl, ok := m.(*ast.BasicLit); ok && bl.Kind == token.STRING {
						if s, err := strconv.Unquote(bl.Value); err == nil {
							lits = append(lits, s)
						}
					}
					return true
				})
				return false
			})
		}
	}
	var rs []string
	for _, l := range lits {
		rs = append(rs, runes(l))
	}
	fmt.Fprintf(&e.out, "\n(* xtype/type.go asID: identifiers returned for channel types (escaped first) *)\nDefinition x_chan_ids : list rstr := %s. (* %q *)\n", coqList(rs), lits)
}
