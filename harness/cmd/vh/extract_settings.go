package main

// extractor part: the key tables of config.parseCommon / parseConverterLine / parseMethodLine.

import (
	"fmt"
	"go/ast"
	"go/token"
	"strings"
)

func init() { extractParts = append(extractParts, extractSettings) }

func findFunc(f *ast.File, name string) *ast.FuncDecl {
	if f == nil {
		return nil
	}
	for _, d := range f.Decls {
		if fd, ok := d.(*ast.FuncDecl); ok && fd.Name.Name == name && fd.Recv == nil {
			return fd
		}
	}
	return nil
}

// switchOn finds the first `switch cmd { ... }` of a function body.
func switchOn(fd *ast.FuncDecl, tag string) *ast.SwitchStmt {
	var sw *ast.SwitchStmt
	if fd == nil {
		return nil
	}
	ast.Inspect(fd.Body, func(n ast.Node) bool {
		if s, ok := n.(*ast.SwitchStmt); ok && sw == nil {
			if id, ok := s.Tag.(*ast.Ident); ok && id.Name == tag {
				sw = s
				return false
			}
		}
		return true
	})
	return sw
}

// c.Field or c.Enum.Enabled -> "Field" / "Enum_Enabled"
func commonField(x ast.Expr) (string, bool) {
	se, ok := x.(*ast.SelectorExpr)
	if !ok {
		return "", false
	}
	if id, ok := se.X.(*ast.Ident); ok && id.Name == "c" {
		return se.Sel.Name, true
	}
	if in, ok := se.X.(*ast.SelectorExpr); ok {
		if id, ok := in.X.(*ast.Ident); ok && id.Name == "c" {
			return in.Sel.Name + "_" + se.Sel.Name, true
		}
	}
	return "", false
}

func extractSettings(e *extractor) {
	e.loadConsts("config", "config/converter.go")
	e.loadConsts("config", "config/method.go")
	e.out.WriteString("\n(* config/common.go parseCommon: key -> (fields written, parser 0=Bool 1=String 2=Regex, counts as field setting,\n   conflict guard (field, 0 = must be false / 1 = must be empty), value must be a valid enum action when it starts with @) *)\n")
	sw := switchOn(findFunc(e.file("config/common.go"), "parseCommon"), "cmd")
	if sw == nil {
		e.errs = append(e.errs, "parseCommon switch not found")
		e.out.WriteString("(* MISSING: x_common_table *)\n")
	} else {
		var rows []string
		okAll := true
		for _, cc := range sw.Body.List {
			c := cc.(*ast.CaseClause)
			if c.List == nil {
				continue
			}
			for _, kx := range c.List {
				key, ok := e.evalStr("config", kx)
				if !ok {
					okAll = false
					continue
				}
				if key == "" {
					continue
				}
				var fields []string
				parser, fieldSetting, guard, enumCheck := -1, false, "None", false
				for _, st := range c.Body {
					switch s := st.(type) {
					case *ast.IfStmt:
						// conflict guard: if c.X != "" { return ... }  /  if c.X { return ... }
						if be, ok := s.Cond.(*ast.BinaryExpr); ok && be.Op == token.NEQ {
							if f, ok := commonField(be.X); ok {
								guard = fmt.Sprintf("Some (%s, 1)", runes(f))
								continue
							}
							if be2, ok := be.X.(*ast.Ident); ok && be2.Name == "err" {
								continue
							}
						}
						if f, ok := commonField(s.Cond); ok {
							guard = fmt.Sprintf("Some (%s, 0)", runes(f))
							continue
						}
						if be, ok := s.Cond.(*ast.BinaryExpr); ok && be.Op == token.LAND { // err == nil && IsEnumAction(...)
							enumCheck = true
							continue
						}
						okAll = false
					case *ast.AssignStmt:
						if len(s.Lhs) == 1 && len(s.Rhs) == 1 {
							if id, ok := s.Lhs[0].(*ast.Ident); ok && id.Name == "fieldSetting" {
								fieldSetting = true
								continue
							}
							if f, ok := commonField(s.Lhs[0]); ok { // c.G = c.F
								if _, ok2 := commonField(s.Rhs[0]); ok2 {
									fields = append(fields, f)
									continue
								}
							}
							okAll = false
							continue
						}
						if len(s.Lhs) == 2 && len(s.Rhs) == 1 {
							f, ok1 := commonField(s.Lhs[0])
							call, ok2 := s.Rhs[0].(*ast.CallExpr)
							if ok1 && ok2 {
								if se, ok := call.Fun.(*ast.SelectorExpr); ok {
									switch se.Sel.Name {
									case "Bool":
										parser = 0
									case "String":
										parser = 1
									case "Regex":
										parser = 2
									default:
										okAll = false
									}
									fields = append([]string{f}, fields...)
									continue
								}
							}
						}
						okAll = false
					default:
						okAll = false
					}
				}
				var fs []string
				for _, f := range fields {
					fs = append(fs, runes(f))
				}
				rows = append(rows, fmt.Sprintf(" (%s, (%s, %d, %s, %s, %s)) (* %s *)", runes(key), coqList(fs), parser, coqBool(fieldSetting), guard, coqBool(enumCheck), key))
			}
		}
		if !okAll {
			e.errs = append(e.errs, "parseCommon has a case outside the translatable subset")
			e.out.WriteString("(* MISSING: x_common_table *)\n")
		} else {
			e.out.WriteString("Definition x_common_table : list (rstr * (list rstr * N * bool * option (rstr * N) * bool)) := [\n" + strings.Join(rows, ";\n") + "\n].\n")
		}
	}
	for _, lv := range []struct{ file, fn, coq string }{{"config/converter.go", "parseConverterLine", "x_converter_keys"}, {"config/method.go", "parseMethodLine", "x_method_keys"}} {
		sw := switchOn(findFunc(e.file(lv.file), lv.fn), "cmd")
		if sw == nil {
			e.errs = append(e.errs, lv.fn+" switch not found")
			fmt.Fprintf(&e.out, "(* MISSING: %s *)\n", lv.coq)
			continue
		}
		var keys []string
		ok := true
		for _, cc := range sw.Body.List {
			c := cc.(*ast.CaseClause)
			for _, kx := range c.List {
				k, o := e.evalStr("config", kx)
				if !o {
					ok = false
				}
				keys = append(keys, runes(k)+" (* "+k+" *)")
			}
		}
		if !ok {
			e.errs = append(e.errs, lv.fn+" has a non-constant case")
			fmt.Fprintf(&e.out, "(* MISSING: %s *)\n", lv.coq)
			continue
		}
		fmt.Fprintf(&e.out, "Definition %s : list rstr := [\n %s\n].\n", lv.coq, strings.Join(keys, ";\n "))
	}
}
