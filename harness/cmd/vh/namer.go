package main

// namer stream (C01): random histories of Name / Index / Map / Register on the real namer package
// versus Namer.run_ops; adversarial pre-registrations (i, key2, value, c, source2 ...).

import (
	"fmt"
	"math/rand"
	"os"
	"path/filepath"
	"strings"

	"github.com/jmattheis/goverter/namer"
)

func init() { streams["namer"] = runNamer }

func runNamer(cfg runCfg) {
	rep := newReport("C01", cfg.seed, cfg.tier)
	rep.Rule = "random operation histories (length 1-40) of Name(stem) / Index() / Map() / Register(name) on the real namer.Namer, stems and registrations drawn from the names goverter itself uses plus adversarial numbered variants; every returned identifier compared with Namer.run_ops; non-trivial = a collision was resolved (a numbered name returned); distinct by history"
	r := rand.New(rand.NewSource(cfg.seed*13 + 5))
	n := 1500
	if cfg.tier == "thorough" {
		n = 20000
	}
	stems := []string{"source", "target", "context", "pInt", "xstring", "unnamed", "mapStringInt", "i", "key", "value", "c", "err", "pOut", "source2", "key2", "value2", "i2", "z", "j"}
	regs := []string{"i", "j", "k", "z", "i2", "key", "value", "key2", "value3", "c", "source", "source2", "source3", "x", "y"}
	w := &shardWriter{dir: cfg.out, stem: "NAMER", max: 500, rep: rep, off: cfg.oracleOnly,
		header:  "From Coq Require Import List NArith String.\nFrom GV Require Import Base Namer.\nImport ListNotations. Open Scope N_scope.",
		ctype:   "N * list nop * list rstr",
		trailer: "Definition bad (c : N * list nop * list rstr) : bool := let '(_, ops, obs) := c in\n  match run_ops new ops with Some (ns, _) => negb (list_eqb rstr_eqb ns obs) | None => true end.\nDefinition M := Eval vm_compute in map (fun c => fst (fst c)) (filter bad cases). Print M.\n"}
	casesF, _ := os.Create(filepath.Join(cfg.out, "cases.jsonl"))
	defer casesF.Close()
	for id := 0; id < n; id++ {
		nm := namer.New()
		k := 1 + r.Intn(40)
		var ops, got, desc []string
		numbered := false
		for j := 0; j < k; j++ {
			switch r.Intn(6) {
			case 0, 1:
				s := stems[r.Intn(len(stems))]
				x := nm.Name(s)
				ops = append(ops, "OName "+runes(s))
				got = append(got, x)
				desc = append(desc, "Name("+s+")="+x)
				if x != s {
					numbered = true
				}
			case 2:
				x := nm.Index()
				ops = append(ops, "OIndex")
				got = append(got, x)
				desc = append(desc, "Index()="+x)
				if len(x) > 1 {
					numbered = true
				}
			case 3:
				a, b := nm.Map()
				ops = append(ops, "OMap")
				got = append(got, a, b)
				desc = append(desc, "Map()="+a+","+b)
				if a != "key" {
					numbered = true
				}
			default:
				s := regs[r.Intn(len(regs))]
				nm.Register(s)
				ops = append(ops, "ORegister "+runes(s))
				desc = append(desc, "Register("+s+")")
			}
		}
		key := strings.Join(desc, ";")
		rep.eval(key, numbered)
		if numbered {
			rep.sample(desc)
		}
		// direct oracle: pairwise distinct and never the receiver name
		seen := map[string]bool{"c": true}
		for _, x := range got {
			if seen[x] {
				rep.violate(Violation{CaseID: fmt.Sprint(id), What: "identifier " + x + " handed out twice (or equals the receiver name)", Sig: "duplicate-identifier", Replay: desc})
			}
			seen[x] = true
		}
		fmt.Fprintf(casesF, "{\"id\":%d,\"replay\":{\"history\":%q}}\n", id, desc)
		w.add(fmt.Sprintf("(%d, %s, %s)", id, coqList(ops), coqStrs(got)))
	}
	w.flush()
	rep.write(cfg.out)
}
