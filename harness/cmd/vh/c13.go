package main

// C13: goverter never panics or hangs.
//  A. builder.ToString (public) on random error paths, versus ErrFmt.panics
//  B. directive-text fuzzing (grammar + mutation) at converter and method positions
//  C. type programs over the exotic part of the Go type grammar
// B and C run the real generator per converter under recover() with a deadline.

import (
	"fmt"
	"math/rand"
	"os"
	"path/filepath"
	"strings"
	"time"

	"github.com/jmattheis/goverter/builder"
)

func init() { streams["c13"] = runC13 }

var c13Keys = []string{"map", "ignore", "autoMap", "default", "update", "context", "enum:map", "enum:transform", "wrapErrors", "wrapErrorsUsing", "ignoreUnexported",
	"update:ignoreZeroValueField", "default:update", "matchIgnoreCase", "ignoreMissing", "skipCopySameType", "useZeroValueOnPointerInconsistency", "useUnderlyingTypeMethods",
	"enum", "enum:unknown", "arg:context:regex", "name", "output:raw", "output:file", "output:format", "output:package", "struct:comment", "enum:exclude", "extend", "bogus", ""}
var c13Vals = []string{"", ".", "..", "A", "A B", "A.B", "A. B", ".A", "A.", "N. A", "A B C", "|", "A B |", "A B | F", "| F", "@error", "@bogus", "yes", "no", "yes no", "(", "[", "*", ".*", "(?", "\\",
	"a:b", ":", ":x", "x:", "./x.go", "@cwd/", "@cwd/x.go", "/abs/x.go", "../x.go", "struct", "function", "assign-variable", "regex", "regex (", "regex A B", "\t", "  ", "A\tB",
	"Nested.Inner", "Nested.Inner.V", "P.V", "P", "Items", "Self", "Self.Self.A", strings.Repeat("A.", 200) + "A", strings.Repeat("x", 3000), "source", "target", "c", "é", "A B | p:F"}

const c13Types = `package p

import "unsafe"

type Inner struct{ V int }
type Nested struct{ Inner Inner; PI *Inner }
type In struct {
	A      int
	B      string
	Nested Nested
	P      *Nested
	Items  []Inner
	M      map[string]Inner
	Self   *In
}
type Out struct {
	A      int
	B      string
	Nested Nested
	P      *Nested
	Items  []Inner
	M      map[string]Inner
	Self   *Out
}
type Color int
const (
	Red Color = iota
	Green
)
type Colour int
const (
	ColourRed Colour = iota
	ColourGreen
)
func F(s string) string { return s }
func Ctor() Out { return Out{} }
type Gen[T any] struct{ V T }
type Exo struct {
	U   uintptr
	UP  unsafe.Pointer
	Ch  chan int
	Fn  func(int) string
	Err error
	Any interface{}
	G   Gen[int]
	Arr [2]uintptr
	PU  *uintptr
}
type Exo2 struct {
	U   uintptr
	UP  unsafe.Pointer
	Ch  chan int
	Fn  func(int) string
	Err error
	Any interface{}
	G   Gen[int]
	Arr [2]uintptr
	PU  *uintptr
}
`

var c13ExoFields = []struct{ name, typ string }{{"U", "uintptr"}, {"UP", "unsafe.Pointer"}, {"Ch", "chan int"}, {"Fn", "func(int) string"}, {"Err", "error"}, {"Any", "interface{}"},
	{"G", "Gen[int]"}, {"GS", "Gen[string]"}, {"Arr", "[2]uintptr"}, {"PU", "*uintptr"}, {"SU", "[]uintptr"}, {"MU", "map[uintptr]unsafe.Pointer"}, {"PE", "*error"}, {"SE", "[]error"},
	{"C", "Color"}, {"RC", "<-chan int"}, {"CC", "chan (<-chan int)"}, {"I", "interface{ M() }"}, {"Cx", "complex128"}, {"R", "rune"}, {"By", "byte"}}

func runC13(cfg runCfg) {
	rep := newReport("C13", cfg.seed, cfg.tier)
	rep.Rule = "A: random builder.Error paths (prefix/id lengths 0-8, type presence) through the real builder.ToString under recover vs ErrFmt.panics; B: every setting key x hostile value list (empty, '.', doubled separators, regex metacharacters, unknown keys, 400-element paths, 3000-char values) at converter and method position; C: structs over the exotic type grammar (uintptr, unsafe.Pointer, chan, func, error, interfaces, generics, arrays, recursive) x {same, pointer, slice} x settings; B and C run the real generator per converter under recover with a 20 s deadline; non-trivial = generator reached (no configuration error) or ToString rendered; distinct by input text"
	r := rand.New(rand.NewSource(cfg.seed*31 + 7))
	// ---- A: ToString ----
	nA := 1500
	if cfg.tier == "thorough" {
		nA = 20000
	}
	w := &shardWriter{dir: cfg.out, stem: "C13", max: 1000, rep: rep, off: cfg.oracleOnly,
		header:  "From Coq Require Import List ZArith Bool.\nFrom GV Require Import Base Ty Conf Extracted ErrFmt.\nImport ListNotations. Open Scope Z_scope.\nDefinition P (a b c : Z) (s t : bool) := {| prefix_len := a; sid_len := b; tid_len := c; has_stype := s; has_ttype := t |}.",
		ctype:   "N * list path * bool",
		trailer: "Definition bad (c : N * list path * bool) : bool := let '(_, ps, obs) := c in negb (Bool.eqb (panics x_space_clamps ps) obs).\nDefinition M := Eval vm_compute in map (fun c => fst (fst c)) (filter bad cases). Print M.\n"}
	casesF, _ := os.Create(filepath.Join(cfg.out, "cases.jsonl"))
	defer casesF.Close()
	for i := 0; i < nA; i++ {
		n := r.Intn(5)
		if i == 0 {
			n = 0
		}
		e := builder.NewError("cause")
		var terms []string
		var desc []string
		for j := 0; j < n; j++ {
			p := &builder.Path{Prefix: strings.Repeat(".", r.Intn(2)), SourceID: strings.Repeat("s", []int{0, 0, 1, 3, 6, 8}[r.Intn(6)]), TargetID: strings.Repeat("t", []int{0, 0, 1, 3, 6}[r.Intn(5)])}
			if r.Intn(2) == 0 {
				p.SourceType = "S"
			}
			if r.Intn(2) == 0 {
				p.TargetType = "T"
			}
			e = e.Lift(p)
			_ = e
			terms = append([]string{fmt.Sprintf("P %d %d %d %s %s", len(p.Prefix), len(p.SourceID), len(p.TargetID), coqBool(p.SourceType != ""), coqBool(p.TargetType != ""))}, terms...)
			desc = append([]string{fmt.Sprintf("%q/%q/%q/%q/%q", p.Prefix, p.SourceID, p.TargetID, p.SourceType, p.TargetType)}, desc...)
		}
		panicked := false
		func() {
			defer func() {
				if rec := recover(); rec != nil {
					panicked = true
				}
			}()
			_ = builder.ToString(e)
		}()
		rep.eval("A:"+strings.Join(desc, ","), !panicked)
		rep.count(fmt.Sprintf("A-paths=%d", n))
		if panicked {
			rep.count("A-tostring-panic")
			if n > 0 {
				rep.violate(Violation{CaseID: fmt.Sprint(i), What: "builder.ToString panics on a non-empty error path (negative Repeat count)", Sig: "tostring-panic", Replay: map[string]interface{}{"path": desc}})
			}
		}
		if i < 3 && n > 0 {
			rep.sample(map[string]interface{}{"stream": "A", "path": desc, "panicked": panicked})
		}
		fmt.Fprintf(casesF, "{\"id\":%d,\"replay\":{\"path\":%q}}\n", i, desc)
		w.add(fmt.Sprintf("(%d%%N, %s, %s)", i, coqList(terms), coqBool(panicked)))
	}
	w.flush()
	// ---- B + C: generator under recover ----
	nB, nC := 2, 2
	if cfg.tier == "thorough" {
		nB, nC = 12, 12
	}
	for b := 0; b < nB+nC; b++ {
		root := filepath.Join(cfg.out, fmt.Sprintf("fz%d", b))
		must(os.MkdirAll(filepath.Join(root, "p"), 0o755))
		must(os.WriteFile(filepath.Join(root, "go.mod"), []byte("module example.org/m\n\ngo 1.22\n"), 0o644))
		var sb strings.Builder
		descr := map[string]string{}
		if b < nB {
			must(os.WriteFile(filepath.Join(root, "p", "types.go"), []byte(c13Types), 0o644))
			sb.WriteString("package p\n\n")
			k := 0
			for _, key := range c13Keys {
				for vi := 0; vi < 14; vi++ {
					val := c13Vals[r.Intn(len(c13Vals))]
					pos := r.Intn(3)
					if vi < 6 { // the boundary values of every key at every position, always (not drawn)
						val = []string{"", "", "A B C", "A B C", "yes no", "("}[vi]
						pos = vi % 2
					}
					line := strings.TrimRight(key+" "+val, " ")
					name := fmt.Sprintf("Z%d", k)
					k++
					sig := []string{"Conv(source In) Out", "Conv(source *In) *Out", "Conv(source []In) []Out", "Conv(source In, target *Out)", "Conv(source Color) Colour", "Conv(ctx string, source In) (Out, error)"}[r.Intn(6)]
					sb.WriteString("// goverter:converter\n")
					if pos == 0 {
						sb.WriteString("// goverter:" + line + "\n")
					}
					fmt.Fprintf(&sb, "type %s interface {\n", name)
					if pos == 1 {
						sb.WriteString("\t// goverter:" + line + "\n")
					}
					if pos == 2 {
						sb.WriteString("\t// goverter:" + line + "\n\t// goverter:" + c13Keys[r.Intn(len(c13Keys))] + " " + c13Vals[r.Intn(len(c13Vals))] + "\n")
					}
					fmt.Fprintf(&sb, "\t%s\n}\n\n", sig)
					descr[name] = fmt.Sprintf("goverter:%s at %s on %s", line, []string{"converter", "method", "method(+second line)"}[pos], sig)
				}
			}
		} else {
			sb.WriteString("package p\n\nimport \"unsafe\"\n\nvar _ unsafe.Pointer\ntype Gen[T any] struct{ V T }\ntype Color int\nconst Red Color = 1\n\n")
			for k := 0; k < 60; k++ {
				name := fmt.Sprintf("Y%d", k)
				nf := 1 + r.Intn(3)
				var sf, tf []string
				for j := 0; j < nf; j++ {
					f := c13ExoFields[r.Intn(len(c13ExoFields))]
					fname := fmt.Sprintf("%s%d", f.name, j)
					sf = append(sf, fname+" "+f.typ)
					tt := f.typ
					switch r.Intn(5) {
					case 0:
						tt = "*" + f.typ
					case 1:
						tt = "[]" + f.typ
					}
					tf = append(tf, fname+" "+tt)
				}
				fmt.Fprintf(&sb, "type S%s struct{ %s }\ntype T%s struct{ %s }\n", name, strings.Join(sf, "; "), name, strings.Join(tf, "; "))
				sb.WriteString("// goverter:converter\n")
				var lines []string
				for _, l := range []string{"skipCopySameType", "useZeroValueOnPointerInconsistency", "update:ignoreZeroValueField", "ignoreUnexported", "enum no"} {
					if r.Intn(3) == 0 {
						lines = append(lines, l)
						sb.WriteString("// goverter:" + l + "\n")
					}
				}
				sig := fmt.Sprintf("Conv(source S%s) T%s", name, name)
				if r.Intn(4) == 0 {
					sig = fmt.Sprintf("Conv(source S%s, target *T%s)", name, name)
					sb.WriteString("// goverter:update target\n")
				}
				fmt.Fprintf(&sb, "type %s interface {\n\t%s\n}\n\n", name, sig)
				descr[name] = fmt.Sprintf("struct{%s} -> struct{%s} %v %s", strings.Join(sf, "; "), strings.Join(tf, "; "), lines, sig)
			}
		}
		must(os.WriteFile(filepath.Join(root, "p", "conv.go"), []byte(sb.String()), 0o644))
		type res struct {
			out map[string]*convOutcome
			err error
		}
		ch := make(chan res, 1)
		go func() {
			defer func() {
				if rec := recover(); rec != nil {
					ch <- res{nil, fmt.Errorf("PANIC outside the generator: %v", rec)}
				}
			}()
			o, err := runGoverter(root, nil, nil)
			ch <- res{o, err}
		}()
		select {
		case rs := <-ch:
			if rs.err != nil {
				if strings.HasPrefix(rs.err.Error(), "PANIC") {
					rep.violate(Violation{CaseID: fmt.Sprintf("batch%d", b), What: rs.err.Error(), Sig: "frontend-panic", Replay: map[string]interface{}{"source": sb.String()}})
				} else {
					rep.Notes = append(rep.Notes, fmt.Sprintf("batch %d: %s", b, firstLines(rs.err.Error(), 4)))
				}
				break
			}
			for name, o := range rs.out {
				stage := "B"
				if b >= nB {
					stage = "C"
				}
				rep.eval(stage+":"+descr[name], o.Class != 97)
				switch {
				case o.Class == 1:
					rep.count(stage + "-PANIC")
					rep.violate(Violation{CaseID: name, What: "goverter panicked: " + o.Panic, Sig: "generator-panic", Replay: map[string]interface{}{"input": descr[name], "panic": o.Panic}})
				case o.OK:
					rep.count(stage + "-generated")
				case o.Class == 97:
					rep.count(stage + "-config-diagnostic")
				default:
					rep.count(stage + "-conversion-diagnostic")
				}
				if o.Class != 97 && len(rep.Samples) < 5 {
					rep.sample(map[string]interface{}{"stream": stage, "input": descr[name], "outcome": o.Class})
				}
			}
		case <-time.After(60 * time.Second):
			rep.violate(Violation{CaseID: fmt.Sprintf("batch%d", b), What: "goverter did not terminate within 60 s on a batch of 300 small converters", Sig: "hang", Replay: map[string]interface{}{"source": sb.String()}})
		}
		os.RemoveAll(root)
	}
	// ---- D: inputs that can end the process (stack overflow is fatal, not recoverable): the real CLI in a subprocess ----
	bin := buildCLI(cfg)
	for i, in := range c13ProcInputs {
		root, _ := filepath.Abs(filepath.Join(cfg.out, fmt.Sprintf("pd%d", i)))
		must(os.MkdirAll(filepath.Join(root, "p"), 0o755))
		must(os.WriteFile(filepath.Join(root, "go.mod"), []byte("module example.org/m\n\ngo 1.22\n"), 0o644))
		must(os.WriteFile(filepath.Join(root, "p", "in.go"), []byte("package p\n\n"+in.src), 0o644))
		done := make(chan procResult, 1)
		go func() { done <- runCLI(bin, root, "gen", "./p") }()
		select {
		case res := <-done:
			rep.eval("D:"+in.name, true)
			bad := res.exit != 0 && res.exit != 1 || strings.Contains(res.stderr, "panic:") || strings.Contains(res.stderr, "fatal error:") || strings.Contains(res.stderr, "goroutine ")
			rep.count(fmt.Sprintf("D-exit=%d", res.exit))
			if bad {
				rep.violate(Violation{CaseID: "D" + fmt.Sprint(i), What: fmt.Sprintf("the goverter process died (exit status %d): %s; input class: %s", res.exit, firstLine(res.stderr), in.name), Sig: "cli-panic",
					Replay: map[string]interface{}{"input": in.src, "class": in.name, "stderr": firstLines(res.stderr, 6)}})
			}
		case <-time.After(40 * time.Second):
			rep.violate(Violation{CaseID: "D" + fmt.Sprint(i), What: "goverter did not terminate within 40 s; input class: " + in.name, Sig: "hang", Replay: map[string]interface{}{"input": in.src}})
		}
		os.RemoveAll(root)
	}
	os.Remove(bin)
	rep.write(cfg.out)
}

var c13ProcInputs = []struct{ name, src string }{
	{"self-containing container (slice)", "// goverter:converter\ntype C interface {\n\tConv(source S) T\n}\n\ntype Tree []Tree\ntype S struct{ A Tree }\ntype T struct{ A Tree }\n"},
	{"self-containing container (map)", "// goverter:converter\ntype C interface {\n\tConv(source S) T\n}\n\ntype M map[string]M\ntype S struct{ A M }\ntype T struct{ A M }\n"},
	{"generic converter interface", "// goverter:converter\ntype C[T any] interface {\n\tConv(source T) T\n}\n"},
	{"recursive struct via slice and pointer", "// goverter:converter\ntype C interface {\n\tConv(source S) T\n}\n\ntype S struct{ Kids []S; Up *S; ByName map[string]*S }\ntype T struct{ Kids []T; Up *T; ByName map[string]*T }\n"},
	{"update method with a map function without source", "// goverter:converter\ntype C interface {\n\t// goverter:update target\n\t// goverter:map Name | Mk\n\tU(source S, target *T)\n}\n\nfunc Mk() string { return \"x\" }\n\ntype S struct{ Age int }\ntype T struct {\n\tAge  int\n\tName string\n}\n"},
	{"fallible function returning a channel", "// goverter:converter\n// goverter:extend Mk\ntype C interface {\n\tConv(source S) (T, error)\n}\n\nfunc Mk(source int) (chan int, error) { return nil, nil }\n\ntype S struct{ A int }\ntype T struct{ A chan int }\n"},
	{"generic struct fields", "// goverter:converter\ntype C interface {\n\tConv(source S) T\n}\n\ntype G[X any] struct{ V X }\ntype S struct{ A G[int]; B G[string] }\ntype T struct{ A G[int]; B G[string] }\n"},
	{"skipCopySameType with a named type handed through twice", "// goverter:converter\n// goverter:skipCopySameType\ntype C interface {\n\tConv(source S) T\n}\n\ntype ID string\ntype S struct{ A ID; B ID; C ID }\ntype T struct{ A ID; B ID; C ID }\n"},
	{"method-level skipCopySameType, named struct and named slice repeated", "// goverter:converter\ntype C interface {\n\t// goverter:skipCopySameType\n\tConv(source S) T\n\tOther(source S) *T\n}\n\ntype N struct{ V []int }\ntype L []N\ntype S struct{ A N; B N; K L; M L }\ntype T struct{ A N; B N; K L; M L }\n"},
	{"repeated named types without skipCopySameType (sub-methods, dirty loop)", "// goverter:converter\ntype C interface {\n\tConv(source S) T\n}\n\ntype N struct{ V []int; Next *N }\ntype S struct{ A N; B N; C *N; D []N }\ntype T struct{ A N; B N; C *N; D []N }\n"},
	{"autoMap through a pointer to a basic type", "// goverter:converter\ntype C interface {\n\t// goverter:autoMap P\n\tA(source S) T\n}\n\ntype S struct {\n\tP *string\n\tX int\n}\ntype T struct{ X int }\n"},
	{"autoMap through a pointer to a pointer to a struct", "// goverter:converter\ntype C interface {\n\t// goverter:autoMap PP\n\tA(source S) T\n}\n\ntype N struct{ X int }\ntype S struct{ PP **N }\ntype T struct{ X int }\n"},
	{"autoMap through a pointer to a slice / map, nested", "// goverter:converter\ntype C interface {\n\t// goverter:autoMap PL\n\tA(source S) T\n\t// goverter:autoMap In.P\n\tB(source S2) T\n\t// goverter:autoMap PM\n\tD(source S3) T\n}\n\ntype N struct{ X int }\ntype In struct{ P *string }\ntype S struct {\n\tPL *[]N\n\tX  int\n}\ntype S2 struct {\n\tIn In\n\tX  int\n}\ntype S3 struct {\n\tPM *map[string]int\n\tX  int\n}\ntype T struct{ X int }\n"},
	{"autoMap through a pointer to a struct and a plain string", "// goverter:converter\ntype C interface {\n\t// goverter:autoMap P\n\tA(source S) T\n\t// goverter:autoMap Name\n\tB(source S2) T\n}\n\ntype N struct{ X int }\ntype S struct{ P *N }\ntype S2 struct {\n\tName string\n\tX    int\n}\ntype T struct{ X int }\n"},
	{"empty output:format", "// goverter:converter\n// goverter:output:format\ntype C interface {\n\tConv(source S) T\n}\n\ntype S struct{ A int }\ntype T struct{ A int }\n"},
}
